#!/usr/bin/env python3
"""Regenerates MANIFEST.json from the table below (kept in one place so the manifest is always valid)."""
import json, subprocess

CLAIMED = {
 # id: (engine, technique, level text, level note, design_ref)
}
NOT_YET = {}

def load():
    import importlib.util, os
    spec = importlib.util.spec_from_file_location("mt", os.path.join(os.path.dirname(__file__), "manifest_table.py"))
    m = importlib.util.module_from_spec(spec); spec.loader.exec_module(m)
    return m

m = load()
checks = []
for pid in sorted(m.CLAIMED):
    c = m.CLAIMED[pid]
    checks.append({
        "property_id": pid,
        "quick_cmd": f"./check.sh {pid} quick",
        "thorough_cmd": f"./check.sh {pid} thorough",
        "evidence_file": f"/verif/evidence/{pid}.json",
        "replay_cmd_template": f"./check.sh {pid} quick  # violations listed in {{path}}",
        "engine": "xpcheck",
        "level_claimed": {"category": "other", "text": c["text"], "design_ref": c.get("design_ref", "DESIGN.md §3 " + pid)},
        "level_note": c["note"],
        "technique": c["technique"],
    })
na = [{"property_id": p, "reason": r} for p, r in sorted(m.NOT_APPLICABLE.items())]
man = {
    "version": 1,
    "setup_cmd": "./setup.sh",
    "hooks": {
        "guard": "verif",
        "enable": "no hooks: the checks are static and read /repo's sources directly; nothing in /repo is guarded by the tag",
        "baseline_off_cmd": "cd /repo && GOFLAGS=-mod=mod GOPROXY=off go test -json -vet=off -count=1 -timeout 25m ./...",
        "source_commits": [],
        "add_only": True,
    },
    "engines": [{
        "name": "xpcheck",
        "path": "/verif/xpcheck",
        "serves_properties": sorted(m.CLAIMED),
        "kind_free_text": "purpose-built static analyser (go/packages + go/types + go/ssa + VTA call graph, golang.org/x/tools v0.29.0): repository-specific rules producing per-construct obligations; no code of /repo is executed",
    }],
    "checks": checks,
    "not_applicable": na,
    "notes": m.NOTES,
}
json.dump(man, open("/verif/MANIFEST.json", "w"), indent=1)
print("claimed", len(checks), "not_applicable", len(na))
