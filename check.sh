#!/bin/bash
# usage: ./check.sh <property-id> [quick|thorough]
# Static check of one property against /repo's current working tree.
set -u
cd "$(dirname "$0")"
export GOFLAGS=-mod=mod GOPROXY=off GOSUMDB=off GOTOOLCHAIN=local GONOSUMDB=* GONOSUMCHECK=1
unset GOWORK
PROP="$1"; TIER="${2:-${VERIF_TIER:-quick}}"
REPO="${VERIF_REPO:-/repo}"
if [ ! -x bin/xpcheck ] || [ -n "$(find xpcheck -newer bin/xpcheck -name '*.go' 2>/dev/null | head -1)" ]; then
  ./setup.sh >/dev/null 2>&1 || { echo "xpcheck: build failed"; ./setup.sh; exit 2; }
fi
exec bin/xpcheck -prop "$PROP" -tier "$TIER" -repo "$REPO" -verif "$(pwd)"
