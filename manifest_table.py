TB = "Trusted: go/types, go/ssa, VTA call graph; the NodeNavigator contract (Copy independent, failed move leaves cursor, navigators not shared between goroutines); Go standard library. Decides code-shape necessary conditions, not the behavioural statement as a whole; the clauses not decided are listed in DESIGN.md §3."
CLAIMED = {
 "C04": dict(
   technique="static effect/ownership analysis on go/ssa: entry points use only clones (S-ENTRY), Clone completeness (S-CLONE), shared-closure discipline (S-SHARED), write census of run-time code (S-WRITES), globals (S-GLOBAL), pool hygiene (S-POOL)",
   text="For all expressions and all histories at once: no write performed by one evaluation can be read by another, because every evaluation runs on a fresh clone with zero state, shared closures write nothing and never iterate a captured query, and there is no other mutable package state. This is the property static analysis fits best; it is decided as a non-interference argument over all run-time stores of the package, not sampled.",
   note=TB),
}
NOT_APPLICABLE = {p: "check not built yet in this session (planned, see DESIGN.md §3)" for p in
  ["C01","C02","C03","C05","C06","C07","C08","C09","C10","C11","C12","C13","C14","C15","C16","C17"]}
NOTES = "All checks are static (family: static analysis). ./check.sh <id> [quick|thorough] loads /repo's working tree on every run. known_findings.json lists genuine defects (known/fixed). See DESIGN.md."
