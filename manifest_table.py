TB = "Trusted: go/types, go/ssa, VTA call graph; the NodeNavigator contract (Copy independent, failed move leaves cursor, navigators not shared between goroutines); Go standard library. Decides code-shape necessary conditions, not the behavioural statement as a whole; the clauses not decided are listed in DESIGN.md §3."
CLAIMED = {
 "C04": dict(
   technique="static effect/ownership analysis on go/ssa: entry points use only clones (S-ENTRY), Clone completeness (S-CLONE), shared-closure discipline (S-SHARED), write census of run-time code (S-WRITES), globals (S-GLOBAL), pool hygiene (S-POOL)",
   text="For all expressions and all histories at once: no write performed by one evaluation can be read by another, because every evaluation runs on a fresh clone with zero state, shared closures write nothing and never iterate a captured query, and there is no other mutable package state. This is the property static analysis fits best; it is decided as a non-interference argument over all run-time stores of the package, not sampled.",
   note=TB),
}
CLAIMED["C05"] = dict(
   technique="static non-interference + lockset analysis on go/ssa: the C04 rule set over run-time code, a write census of build-time code (concurrent Compile), and a lock-state data-flow over the pattern cache (K-LOCK)",
   text="Race freedom is decided as the absence of any store to memory reachable from two evaluations or two Compile calls, for all schedules at once; the only shared mutable structure (the pattern cache) is decided by a lockset data-flow. Isolation (each call returns what it would alone) follows from the C04 non-interference argument.",
   note=TB + " Not decided: races inside a user-supplied NodeNavigator or a client-replaced RegexpCache.")
CLAIMED["C02"] = dict(
   technique="typestate/reset analysis on go/ssa: every state field of every query type is re-armed by Evaluate on all paths or guard-reset in Select (S-RESET), resets propagate to sub-queries (S-PROP), function arguments are evaluated on private clones (S-SHARED)",
   text="Decides the history clause of the property for all candidate sequences: no iterator state reachable from a predicate survives the per-candidate Evaluate, so the verdict for a candidate is a function of the candidate alone. Does not decide that the per-candidate value is the XPath boolean value.",
   note=TB + " Exemptions (reported as not judged, never as discharged): filterQuery.posit/positmap, lastFuncQuery.buffer/counted, booleanQuery.iterator — positional predicates on filter expressions, outside the property's fragment.")
CLAIMED["C06"] = dict(
   technique="static totality analysis: who-may-call + recover-closure path check (T-RECOVER), return-shape check (T-SHAPE), call-graph cycle analysis modulo recognised depth guards (T-DEPTH), CFG-cycle progress analysis of scanner/parser loops (T-LOOP)",
   text="For all input strings: every panic below Compile is converted into a non-nil error whatever its type, results have the (expr,nil)/(nil,err) shape, every build-time recursion passes a depth guard (no unrecoverable stack exhaustion) and every way round every scanner/parser loop consumes input (termination).",
   note=TB + " Not decided: memory exhaustion on huge inputs; quality of error messages.")
CLAIMED["C16"] = dict(
   technique="lockset data-flow, dominance and edge-condition analysis of loadingCache.get on go/ssa (K-LOCK, K-NEG, K-CAP, K-KEY), data-flow check of the constant-pattern precheck (K-PRE)",
   text="For all key sequences, capacities and schedules: the cache returns the compilation of exactly the requested key, never inserts beyond capacity (the insertion is only entered by edges implying cap<=0 or len<cap inside one critical section), never stores a failed load, and every access to its mutable fields holds the right lock; constant patterns of matches()/replace() are compiled at Compile time.",
   note=TB + " Not decided: the $n -> ${n} rewriting of replace() beyond its loop bounds; a client-replaced RegexpCache.")


CLAIMED["C01"] = dict(
   technique="table/dispatch extraction and ownership analysis: axis dispatch completeness and wiring (A-DISPATCH), step-elision guard (A-ELIDE), movement frames per axis (N-FRAME), cursor ownership (N-OWN), path enumeration of the node-test predicate (B-NAMETEST), abbreviation tables (G-ABBREV), builder totality (X-TOTAL)",
   text="Necessary conditions only: every one of the twelve axes is dispatched to an iterator wired to the step's input and node test with the right or-self/sibling flag; no step is dropped unless its test is node(); each iterator moves only in directions its axis permits and never moves a cursor it does not own; the node test accepts exactly (type, local name, prefix | bound URI) matches on all 21 paths of the predicate. Does NOT decide that the traversal algorithms enumerate exactly the axis (level counters, de-duplication, the descendant-over-descendant state machine).",
   note=TB)
CLAIMED["C03"] = dict(
   technique="counter discipline analysis on go/ssa (N-POS): position() accessor, exactly-one-increment per yielded node, restart per parent; node-test method agreement (N-TEST); sibling counters of position()/last() (C03-LAST); guard-reset of posit (S-RESET)",
   text="Necessary conditions only: the counter a [n] predicate is compared with counts each yielded child once, restarts for each parent (not for a parenthesised path), is read from the filter's own input; position()/last() count only siblings passing the step's node test. Does NOT decide the PosFilter/HasPosition/HasLast classification and the merge rewrite of the builder, nor positmap semantics.",
   note=TB)
CLAIMED["C07"] = dict(
   technique="end-to-end table agreement (A-OPS), comparison-table typing/nil/panic/existential-shape/operand-order checks (A-CELLS), symbolic decision table of and/or (C07-SC), context-restore discipline (N-RESTORE, N-PEER)",
   text="Operator strings reach the Go comparison of the same name in operand order for the in-scope cells; node-set cells are existential; no cell, primitive or conversion panics on document data; and/or evaluate left first, short-circuit per the 4-row decision table and both operands see the same context node.",
   note=TB + " Not decided: NaN corner values beyond 'parse failure => NaN', relational operators on strings.")
CLAIMED["C08"] = dict(
   technique="binding checks: each arithmetic operator is the float64 operation of its name on asNumber(left), asNumber(right) in order (A-OPS), unary minus shape (G-LEVELS), to-number conversion totality (C08-NAN), function->primitive table (B-PRIM), integer-division census (X-CENSUS/X-DIV), context restore (N-RESTORE)",
   text="Binding only: + - * div are the IEEE-754 float64 operations on the converted operands in order (NaN/infinity propagation is then a property of Go), mod is math.Mod, the to-number conversion covers all four value types and never panics, floor/ceiling/sum/count/number are bound to their primitives. Does NOT decide number lexing offsets, string() rendering of numbers (strconv 'g' format: string(0.00001) = 1e-05 is a value-level defect no rule here sees), sum() over non-numeric nodes.",
   note=TB)
CLAIMED["C09"] = dict(
   technique="interval/len abstract interpretation of every index and slice expression (X-BOUNDS), argument wiring (B-ARGS, B-ARITY), function->primitive table with haystack/needle order (B-PRIM), deliberate-panic and nil-ness census (X-CENSUS)",
   text="Decides the 'never fails for finite arguments' clause for substring and all other string functions (every slice/index of func.go proven in range by a two-bound abstract interpretation with relational guards), that each function name reaches its standard-library primitive with arguments in order, and that the only aborts are typed argument complaints. Does NOT decide the returned characters.",
   note=TB + " Floats are assumed finite and non-NaN in X-BOUNDS.")
CLAIMED["C10"] = dict(
   technique="grammar extraction from the parser's SSA (G-LEVELS: precedence chain, operator sets, token->operator map, associativity), scanner table interpretation incl. evaluation of the name-character predicate over the RangeTables (G-TOKENS), abbreviation sites (G-ABBREV)",
   text="The extracted precedence chain, operator sets, token/operator maps and associativity equal the XPath 1.0 table for all operator pairs at once (the property's 'exhaustive over pairs' is a statement about 8 functions, which is what is inspected); white space is skipped before every token and before '('; no ASCII operator character is a name character; abbreviations expand to the spec pairs.",
   note=TB + " Not decided: number/string lexing offsets.")
CLAIMED["C11"] = dict(
   technique="unique-decodability analysis of the identity key written by getHashCode (B-HASH), union loop bookkeeping, cursor ownership and restore (N-OWN, N-RESTORE), reset rules for the union query, sequence => '|' (G-ABBREV)",
   text="Distinct nodes get distinct key strings (every variable-length field is length-prefixed, last, or followed by a byte outside its alphabet), both operands are fully drained from the same context, a node is kept iff its key is new. Only a 64-bit FNV collision can still merge two nodes.",
   note=TB + " Not decided: FNV collisions; navigators with unstable sibling order.")
CLAIMED["C12"] = dict(
   technique="movement frames of the flat axes (N-FRAME), iterator protocol of NodeIterator.MoveNext and both constructors (N-ITER, S-ENTRY), leaf-producer exhaustion guard, reverse() index discipline (C12-REV), count() binding (B-PRIM)",
   text="Forward-only frames of child/attribute/self (no repeats or reordering from one input node); MoveNext returns false exactly on exhaustion without touching the node, otherwise positions Current on a private copy of the reported node; Evaluate and Select build their iterator from the same (clone, navigator) pair; reverse yields len-1..0. Does NOT decide pre-order correctness of the descendant step's level arithmetic.",
   note=TB)
CLAIMED["C13"] = dict(
   technique="ownership analysis of every moving navigator call with reaching stores per closure variable (N-OWN), restore discipline of the context cursor as a clean/dirty data-flow (N-RESTORE), operand-use ordering (N-PEER), leaf producers (absolute => copy moved to root, relative => copy of context)",
   text="Decides the cursor discipline behind the property: no step moves a cursor it does not own; every function that moves the shared context cursor restores it from a copy saved while clean before every return, so operands, arguments and later steps are evaluated relative to the same context node; an absolute path always starts from a copy moved to the root. Does NOT decide the algebraic identities as value equalities.",
   note=TB)
CLAIMED["C14"] = dict(
   technique="exhaustive path enumeration of the node-test predicate closure (B-NAMETEST), prefix lookup guard and panic (G-EXPECT), name()/local-name()/namespace-uri() primitive table incl. empty-set => empty string (B-PRIM), optional-argument table (B-ARGS/B-ARITY)",
   text="The three-branch match rule exactly as stated: prefix+local without URI information, URI+local when the expression has a binding and the navigator exposes URIs, unbound prefix => Compile error; the name functions read the right navigator methods and use the context node when called without argument.",
   note=TB + " Not decided: prefix:* wildcards, navigators reporting inconsistent prefixes.")
CLAIMED["C15"] = dict(
   technique="run-time fault census over the SSA of all evaluator functions: every panic, unchecked type assertion, integer division, interface-method receiver, called func value, map write (X-CENSUS with a purpose-built non-nil analysis), every index/slice (X-BOUNDS), result-type universe (X-RESULT), builder totality (X-TOTAL), comparison table (A-CELLS)",
   text="Per class of Go run-time error named in the property, every instruction of that class in run-time code (about 590 sites in 190 functions) is discharged by a stated rule or reported; explicit panics are typed complaints; Evaluate's results have documented types. Fail closed: a site no rule discharges is a violation.",
   note=TB + " Assumes non-nil navigators from the caller and a non-nil RegexpCache; termination of Select loops relies on the navigator's tree being finite.")
CLAIMED["C17"] = dict(
   technique="post-dominance of opening tokens by checking consumers (G-PAIR), no-match-path analysis of the node-test parser and scanner (G-EXPECT), dispatch defaults, recover coverage (T-RECOVER), arity table (B-ARITY), builder totality (X-TOTAL)",
   text="Per damage class of the statement: a cut after operator/slash/[/(/, ends in the node-test parser's panicking default; a cut inside a string panics in the scanner; a deleted ] or ) fails the checking consumer; unknown function/axis names reach a default that returns an error; a removed required argument is an arity error or an index fault inside the recover; malformed QNames panic; all panics are converted by build's recover.",
   note=TB + " Not decided: damage that yields another valid expression; trailing garbage after a complete expression.")

NOT_APPLICABLE = {}
NOTES = "All checks are static (family: static analysis): ./check.sh <id> [quick|thorough] loads /repo's working tree with go/packages on every run, builds go/ssa and a VTA call graph and decides repository-specific rules; no code of /repo is executed by a check. thorough additionally re-runs the rules on the GOARCH=386 file set and applies the self-test corpus (/verif/mutants: semantic mutants that must be flagged, behaviour-preserving refactors that must stay silent) to scratch copies outside /repo and /verif. known_findings.json lists genuine defects (known/fixed); 26 'fix:' commits were made in /repo. Every property has at least one clause decided by a code-shape rule, so none is listed as not applicable; the clauses that are not decided are named per property in DESIGN.md section 3 and in each check's level text."
