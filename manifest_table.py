TB = "Trusted: go/types, go/ssa, VTA call graph; the NodeNavigator contract (Copy independent, failed move leaves cursor, navigators not shared between goroutines); Go standard library. Decides code-shape necessary conditions, not the behavioural statement as a whole; the clauses not decided are listed in DESIGN.md §3."
CLAIMED = {
 "C04": dict(
   technique="static effect/ownership analysis on go/ssa: entry points use only clones (S-ENTRY), Clone completeness (S-CLONE), shared-closure discipline (S-SHARED), write census of run-time code (S-WRITES), globals (S-GLOBAL), pool hygiene (S-POOL)",
   text="For all expressions and all histories at once: no write performed by one evaluation can be read by another, because every evaluation runs on a fresh clone with zero state, shared closures write nothing and never iterate a captured query, and there is no other mutable package state. This is the property static analysis fits best; it is decided as a non-interference argument over all run-time stores of the package, not sampled.",
   note=TB),
}
CLAIMED["C05"] = dict(
   technique="static non-interference + lockset analysis on go/ssa: the C04 rule set over run-time code, a write census of build-time code (concurrent Compile), and a lock-state data-flow over the pattern cache (K-LOCK)",
   text="Race freedom is decided as the absence of any store to memory reachable from two evaluations or two Compile calls, for all schedules at once; the only shared mutable structure (the pattern cache) is decided by a lockset data-flow. Isolation (each call returns what it would alone) follows from the C04 non-interference argument.",
   note=TB + " Not decided: races inside a user-supplied NodeNavigator or a client-replaced RegexpCache.")
CLAIMED["C02"] = dict(
   technique="typestate/reset analysis on go/ssa: every state field of every query type is re-armed by Evaluate on all paths or guard-reset in Select (S-RESET), resets propagate to sub-queries (S-PROP), function arguments are evaluated on private clones (S-SHARED)",
   text="Decides the history clause of the property for all candidate sequences: no iterator state reachable from a predicate survives the per-candidate Evaluate, so the verdict for a candidate is a function of the candidate alone. Does not decide that the per-candidate value is the XPath boolean value.",
   note=TB + " Exemptions (reported as not judged, never as discharged): filterQuery.posit/positmap, lastFuncQuery.buffer/counted, booleanQuery.iterator — positional predicates on filter expressions, outside the property's fragment.")
CLAIMED["C06"] = dict(
   technique="static totality analysis: who-may-call + recover-closure path check (T-RECOVER), return-shape check (T-SHAPE), call-graph cycle analysis modulo recognised depth guards (T-DEPTH), CFG-cycle progress analysis of scanner/parser loops (T-LOOP)",
   text="For all input strings: every panic below Compile is converted into a non-nil error whatever its type, results have the (expr,nil)/(nil,err) shape, every build-time recursion passes a depth guard (no unrecoverable stack exhaustion) and every way round every scanner/parser loop consumes input (termination).",
   note=TB + " Not decided: memory exhaustion on huge inputs; quality of error messages.")
CLAIMED["C16"] = dict(
   technique="lockset data-flow, dominance and edge-condition analysis of loadingCache.get on go/ssa (K-LOCK, K-NEG, K-CAP, K-KEY), data-flow check of the constant-pattern precheck (K-PRE)",
   text="For all key sequences, capacities and schedules: the cache returns the compilation of exactly the requested key, never inserts beyond capacity (the insertion is only entered by edges implying cap<=0 or len<cap inside one critical section), never stores a failed load, and every access to its mutable fields holds the right lock; constant patterns of matches()/replace() are compiled at Compile time.",
   note=TB + " Not decided: the $n -> ${n} rewriting of replace() beyond its loop bounds; a client-replaced RegexpCache.")

NOT_APPLICABLE = {p: "check not built yet in this session (planned, see DESIGN.md §3)" for p in
  ["C01","C03","C07","C08","C09","C10","C11","C12","C13","C14","C15","C17"]}
NOTES = "All checks are static (family: static analysis). ./check.sh <id> [quick|thorough] loads /repo's working tree on every run. known_findings.json lists genuine defects (known/fixed). See DESIGN.md."
