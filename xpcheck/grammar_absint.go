package main

// Precedence levels read off by constant propagation: a level function is
// followed once for every token constant (and, for the name token, for every
// operator name plus one other name) standing in the scanner's token field;
// calls of other parser functions that return a node are replaced by tagged
// operands, token consumers by "the token becomes unknown", the operator-node
// constructor by a record of (operator string, left, right). What the level
// does with token K is then the first record on the paths — whether the
// recognition is written as a switch, an if-chain, a helper returning
// (operator, ok), or a table.

import (
	"fmt"
	"go/types"
	"sort"
	"strings"

	"golang.org/x/tools/go/ssa"
)

type levelEvent struct {
	Kind   string // "operand", "consume", "opnode"
	Callee *ssa.Function
	Op     AVal
	Left   string
	Right  string
	Tag    string
}

// isNodeParser: parser method (parser, node) node.
func (g *Grammar) isNodeParser(f *ssa.Function) bool {
	if f == nil || !g.isParserMethod(f) || f.Signature.Results().Len() != 1 {
		return false
	}
	// a parser of one construct: it takes at most the input node; a method with
	// further parameters (a separator token, an operand parser) is a generic
	// helper that is followed, not an operand
	ps := f.Signature.Params()
	for i := 0; i < ps.Len(); i++ {
		if !types.Identical(ps.At(i).Type(), g.NodeT) {
			return false
		}
	}
	return types.Identical(f.Signature.Results().At(0).Type(), g.NodeT)
}

func (w *World) runLevel(g *Grammar, fn *ssa.Function, tok int64, name string) [][]levelEvent {
	var scannerField int = -1
	pst := g.ParserT.Underlying().(*types.Struct)
	for i := 0; i < pst.NumFields(); i++ {
		if p, ok := pst.Field(i).Type().(*types.Pointer); ok && types.Identical(p.Elem(), g.ScannerT) {
			scannerField = i
		}
	}
	tokIdx := fieldIndex(g.ScannerT, g.TokField)
	nameIdx := fieldIndex(g.ScannerT, g.NameField)
	levelPrefixIdx = w.scannerFieldIdx(g).prefix
	seq := 0
	var hooks AHooks
	hooks.Call = func(ai *AInterp, st *AState, site ssa.CallInstruction, callee *ssa.Function, args []AVal) (bool, AVal) {
		if callee == nil {
			return false, AVal{}
		}
		switch {
		case callee == g.NewOp && len(args) == 3:
			seq++
			tag := fmt.Sprintf("node#%d", seq)
			st.Trace = append(st.Trace, AEvent{Kind: "opnode", Site: site, Callee: callee, Args: args, Name: tag})
			return true, AVal{Kind: avUnknown, Tag: tag}
		case g.NewOperand != nil && callee == g.NewOperand && len(args) == 1:
			return true, AVal{Kind: avUnknown, Tag: "const:" + args[0].String()}
		case g.isNodeParser(callee):
			seq++
			tag := fmt.Sprintf("operand:%s#%d", callee.Name(), seq)
			st.Trace = append(st.Trace, AEvent{Kind: "operand", Site: site, Callee: callee, Name: tag})
			// an operand parser consumes tokens. The question asked of the level is
			// "what do you do when the token after your first operand is K": the
			// first operand call leaves K (and the name) in the scanner, every
			// later one leaves the token unknown
			if !w.setTokenOnce(st, args, scannerField, tokIdx, nameIdx, tok, name) {
				// chains: the operand after the first operator may leave a second
				// operator of the level (levelSecond), every later one an unknown token
				if levelSecond == nil || !w.setTokenSecond(st, args, scannerField, tokIdx, nameIdx, levelSecond.tok, levelSecond.name) {
					w.forgetToken(st, args, scannerField, tokIdx, nameIdx)
				}
			}
			return true, AVal{Kind: avUnknown, Tag: tag}
		case ai.w.inPkg(callee) && w.reachesFn(callee, g.NextItem, 4) && !g.isNodeParser(callee) && !w.isGenericParserHelper(g, callee):
			// a token consumer (next, skipItem, ...): interpret checking consumers? no: the token is consumed
			st.Trace = append(st.Trace, AEvent{Kind: "consume", Site: site, Callee: callee})
			w.forgetToken(st, args, scannerField, tokIdx, nameIdx)
			return true, aUnknown(nil)
		}
		return false, AVal{}
	}
	ai := w.newInterp(hooks)
	ai.MaxVisits = 5
	st := w.initState()
	sc := st.externObj(g.ScannerT, nil)
	p := st.externObj(g.ParserT, nil)
	if scannerField >= 0 {
		p.Fields[scannerField] = AVal{Kind: avPtr, Obj: sc, Field: -1}
	}
	outs := ai.Exec(fn, []AVal{{Kind: avPtr, Obj: p, Field: -1}, {Kind: avUnknown, Tag: "n"}}, nil, st)
	var res [][]levelEvent
	for _, o := range outs {
		var evs []levelEvent
		for _, ev := range o.St.Trace {
			switch ev.Kind {
			case "operand":
				evs = append(evs, levelEvent{Kind: "operand", Callee: ev.Callee, Tag: ev.Name})
			case "consume":
				evs = append(evs, levelEvent{Kind: "consume", Callee: ev.Callee})
			case "opnode":
				evs = append(evs, levelEvent{Kind: "opnode", Op: ev.Args[0], Left: ev.Args[1].Tag, Right: ev.Args[2].Tag, Tag: ev.Name})
			}
		}
		ret := levelEvent{Kind: "return", Tag: o.Ret.Tag}
		if o.Panicked {
			ret.Kind = "panic"
		}
		if o.Cut {
			ret.Kind = "cut"
		}
		evs = append(evs, ret)
		res = append(res, evs)
	}
	return res
}

const firstOperandDone = 100001
const secondOperandDone = 100002

// levelSecond: when set, the token the second operand call of runLevel leaves.
var levelSecond *struct {
	tok  int64
	name string
}

func (w *World) setTokenSecond(st *AState, args []AVal, scannerField, tokIdx, nameIdx int, tok int64, name string) bool {
	for _, a := range args {
		if a.Kind != avPtr || a.Field >= 0 || scannerField < 0 {
			continue
		}
		o := st.obj(a.Obj)
		sp, ok := o.Fields[scannerField]
		if !ok || sp.Kind != avPtr {
			continue
		}
		so := st.obj(sp.Obj)
		if _, done := so.Fields[secondOperandDone]; done {
			return false
		}
		so.Fields[secondOperandDone] = aBool(true)
		so.Fields[tokIdx] = aInt(tok)
		if name != "" {
			so.Fields[nameIdx] = aStr(name)
			if levelPrefixIdx >= 0 {
				so.Fields[levelPrefixIdx] = aStr("")
			}
		} else {
			so.Fields[nameIdx] = aUnknown(nil)
		}
		return true
	}
	return false
}

// levelPrefixIdx: index of the scanner's prefix field (set by runLevel).
var levelPrefixIdx = -1

// setTokenOnce: the first time, put the token under test into the scanner.
func (w *World) setTokenOnce(st *AState, args []AVal, scannerField, tokIdx, nameIdx int, tok int64, name string) bool {
	for _, a := range args {
		if a.Kind != avPtr || a.Field >= 0 {
			continue
		}
		o := st.obj(a.Obj)
		if scannerField < 0 {
			continue
		}
		sp, ok := o.Fields[scannerField]
		if !ok || sp.Kind != avPtr {
			continue
		}
		so := st.obj(sp.Obj)
		if _, done := so.Fields[firstOperandDone]; done {
			return false
		}
		so.Fields[firstOperandDone] = aBool(true)
		so.Fields[tokIdx] = aInt(tok)
		if name != "" {
			so.Fields[nameIdx] = aStr(name)
			// an operator name is an unprefixed name
			if levelPrefixIdx >= 0 {
				so.Fields[levelPrefixIdx] = aStr("")
			}
		} else {
			so.Fields[nameIdx] = aUnknown(nil)
		}
		return true
	}
	return false
}

// forgetToken: after a consumer ran, the scanner's token and name are unknown.
func (w *World) forgetToken(st *AState, args []AVal, scannerField, tokIdx, nameIdx int) {
	for _, a := range args {
		if a.Kind != avPtr || a.Field >= 0 {
			continue
		}
		o := st.obj(a.Obj)
		if scannerField >= 0 {
			if sp, ok := o.Fields[scannerField]; ok && sp.Kind == avPtr {
				so := st.obj(sp.Obj)
				so.Fields[tokIdx] = aUnknown(nil)
				so.Fields[nameIdx] = aUnknown(nil)
				if levelPrefixIdx >= 0 {
					so.Fields[levelPrefixIdx] = aUnknown(nil)
				}
				return
			}
		}
		// the scanner itself
		if _, ok := o.Fields[tokIdx]; ok && o.Type != nil && typeName(o.Type) != "" {
			if nm, ok := o.Type.(*types.Named); ok && nm.Obj().Name() != "" {
				o.Fields[tokIdx] = aUnknown(nil)
				o.Fields[nameIdx] = aUnknown(nil)
			}
		}
	}
}

// reachesNewOp: fn or a package function it calls (not through another node
// parser) constructs operator nodes.
func (w *World) buildsOperatorNodes(g *Grammar, fn *ssa.Function) bool {
	seen := map[*ssa.Function]bool{}
	var visit func(f *ssa.Function) bool
	visit = func(f *ssa.Function) bool {
		if seen[f] {
			return false
		}
		seen[f] = true
		for _, c := range w.pkgCallees(f) {
			if c == g.NewOp {
				return true
			}
			if g.isNodeParser(c) {
				continue
			}
			if visit(c) {
				return true
			}
		}
		return false
	}
	return visit(fn)
}

var operatorNames = []string{"or", "and", "div", "mod"}

// levelShapeAI: the binary level of fn, from the runs.
func (g *Grammar) levelShapeAI(w *World, fn *ssa.Function) *Level {
	lv := &Level{Fn: fn, Kind: "binary", Pos: fn.Pos()}
	nameTok := int64(-1)
	for k, n := range g.TokNames {
		if n == "itemName" {
			nameTok = k
		}
	}
	if nameTok < 0 {
		// the token the scanner leaves after a name: read off the scanner
		for _, o := range w.scanFrom(g, 'a') {
			if !o.Cut && !o.Panicked && o.Tok >= 0 && !strings.ContainsAny(o.Text, ":") {
				nameTok = o.Tok
			}
		}
	}
	type input struct {
		tok  int64
		name string
	}
	var inputs []input
	var toks []int64
	for k := range g.TokNames {
		toks = append(toks, k)
	}
	sort.Slice(toks, func(i, j int) bool { return toks[i] < toks[j] })
	for _, k := range toks {
		if k == nameTok {
			for _, n := range operatorNames {
				inputs = append(inputs, input{k, n})
			}
			inputs = append(inputs, input{k, "some-other-name"})
		} else {
			inputs = append(inputs, input{k, ""})
		}
	}
	problems := map[string]bool{}
	rights := map[*ssa.Function]bool{}
	any := false
	for _, in := range inputs {
		recognised, passedOver := 0, 0
		for _, evs := range w.runLevel(g, fn, in.tok, in.name) {
			// first operand, then (for a recognised operator) consume, right operand, opnode
			var first, firstOp *levelEvent
			consumed := false
			var rightCall *levelEvent
			nOps := 0
			prevNode := ""
			for i := range evs {
				ev := &evs[i]
				switch ev.Kind {
				case "operand":
					if first == nil {
						first = ev
					} else if firstOp == nil && rightCall == nil {
						rightCall = ev
					}
				case "consume":
					if first != nil && firstOp == nil && rightCall == nil {
						consumed = true
					}
				case "opnode":
					nOps++
					if firstOp == nil {
						firstOp = ev
					} else if ev.Left != prevNode {
						problems["a later operator node does not take the accumulated expression as its left operand: the chain is not left-associative"] = true
					}
					prevNode = ev.Tag
				case "return":
					want := prevNode
					if nOps == 0 && first != nil {
						want = first.Tag
					}
					if want != "" && ev.Tag != want {
						problems["a return does not yield the accumulated expression"] = true
					}
				}
			}
			if first == nil {
				continue // a path that parses nothing (panic before the operand)
			}
			if lv.Operand != nil && lv.Operand != first.Callee {
				problems["several initial operand parsers"] = true
			}
			lv.Operand = first.Callee
			if firstOp == nil {
				if evs[len(evs)-1].Kind == "return" {
					passedOver++
				}
				continue
			}
			recognised++
			any = true
			rec := OpRecog{Tok: in.tok}
			if in.name != "" {
				rec = OpRecog{IsName: true, Name: in.name, Tok: in.tok}
			}
			if s, ok := firstOp.Op.Str(); ok {
				rec.Op = s
			} else {
				problems[fmt.Sprintf("the operator string handed to the operator node for token %s is not a constant on this path", g.tokName(in.tok))] = true
				continue
			}
			if in.name == "some-other-name" {
				problems["a name that is no operator name is turned into an operator node"] = true
			}
			lv.Ops = append(lv.Ops, rec)
			if firstOp.Left != first.Tag {
				problems["left operand of the operator node is not the accumulated expression"] = true
			}
			if rightCall == nil || firstOp.Right != rightCall.Tag {
				problems["right operand is not a fresh call of a parser level"] = true
			} else {
				rights[rightCall.Callee] = true
				if rightCall.Callee == fn {
					problems["the right operand is parsed by the level itself: the operator is right-associative"] = true
				}
			}
			if !consumed {
				problems["the operator token is not consumed before the right operand is parsed"] = true
			}
		}
		if recognised > 0 && passedOver > 0 {
			what := g.tokName(in.tok)
			if in.name != "" {
				what = fmt.Sprintf("the name %q", in.name)
			}
			problems[fmt.Sprintf("%s after an operand is taken as this level's operator on some paths and passed over on others: whether it is an operator depends on something besides the token (what follows it, a flag of the scanner), so part of an expression can be silently dropped", what)] = true
		}
	}
	if !any {
		return nil
	}
	// dedupe ops
	seenOp := map[string]bool{}
	var ops []OpRecog
	for _, o := range lv.Ops {
		k := fmt.Sprintf("%v|%s|%d|%s", o.IsName, o.Name, o.Tok, o.Op)
		if !seenOp[k] {
			seenOp[k] = true
			ops = append(ops, o)
		}
	}
	lv.Ops = ops
	// chains of two different operators of the level: the second operator node is
	// built with the second operator (a - b + c is not a - b - c)
	for _, a := range ops {
		for _, b := range ops {
			if a.Op == b.Op || len(problems) > 0 {
				continue
			}
			an, bn := "", ""
			if a.IsName {
				an = a.Name
			}
			if b.IsName {
				bn = b.Name
			}
			levelSecond = &struct {
				tok  int64
				name string
			}{b.Tok, bn}
			outs := w.runLevel(g, fn, a.Tok, an)
			levelSecond = nil
			for _, evs := range outs {
				var opsSeen []levelEvent
				for _, ev := range evs {
					if ev.Kind == "opnode" {
						opsSeen = append(opsSeen, ev)
					}
				}
				if len(opsSeen) < 2 {
					continue
				}
				if s1, ok := opsSeen[1].Op.Str(); !ok || s1 != b.Op {
					got := opsSeen[1].Op.String()
					problems[fmt.Sprintf("in a chain of two different operators of this level the second operator node is built with %s instead of %q (x %s y %s z is computed with the first operator twice)", got, b.Op, a.Op, b.Op)] = true
				}
			}
		}
	}
	for f := range rights {
		lv.Rights = append(lv.Rights, f)
	}
	sort.Slice(lv.Rights, func(i, j int) bool { return lv.Rights[i].Name() < lv.Rights[j].Name() })
	for p := range problems {
		lv.Problems = append(lv.Problems, p)
	}
	sort.Strings(lv.Problems)
	if lv.Operand == nil {
		lv.Problems = append(lv.Problems, "no initial operand parser found")
	}
	return lv
}

// ---- steps: the step parser followed on short token streams ----

type tokSpec struct {
	Tok       int64
	Name      string
	Prefix    string
	CanBeFunc bool
	Unknown   bool // nothing is known about this token
	Keep      bool // a token that leaves name/prefix as they were (punctuation, end of input)
}

type stepOutcome struct {
	Panicked bool
	Cut      bool
	Axis     []AVal // arguments of the last axis-node construction on the path
	NSBound  bool   // a bool field of the built axis node is true (namespace URI bound)
	NSURI    AVal
	Ret      AVal
	St       *AState
}

type scannerFields struct {
	tok, name, prefix, canBeFunc int
}

func (w *World) scannerFieldIdx(g *Grammar) scannerFields {
	sf := scannerFields{tok: fieldIndex(g.ScannerT, g.TokField), name: fieldIndex(g.ScannerT, g.NameField), prefix: -1, canBeFunc: -1}
	for _, fam := range w.scannerFamily(g) {
		eachInstr(fam, false, func(_ *ssa.Function, in ssa.Instruction) {
			st, ok := in.(*ssa.Store)
			if !ok {
				return
			}
			fa, ok := st.Addr.(*ssa.FieldAddr)
			if !ok || !isRecv(fa.X) {
				return
			}
			f := fieldOfAddr(fa)
			if b, ok := f.Type().Underlying().(*types.Basic); ok {
				switch {
				case b.Kind() == types.String && f != g.NameField:
					if g.isNameLoad(st.Val) {
						sf.prefix = fa.Field
					}
				case b.Kind() == types.Bool:
					if bo, ok := st.Val.(*ssa.BinOp); ok {
						if k, ok := constInt(bo.Y); ok && k == '(' {
							sf.canBeFunc = fa.Field
						}
					}
				}
			}
		})
	}
	return sf
}

// stepParser: the node parser that tests the current token against '.', '..'
// and '@'.
func (w *World) stepParser(g *Grammar) *ssa.Function {
	for _, fn := range w.AllFuncs {
		if !g.isNodeParser(fn) {
			continue
		}
		t := g.tokensTested(fn)
		if t[g.tokOfText(".")] && t[g.tokOfText("..")] && t[g.tokOfText("@")] {
			return fn
		}
	}
	return nil
}

func (w *World) setToken(st *AState, sc *AObj, sf scannerFields, t tokSpec) {
	o := st.obj(sc)
	if t.Unknown {
		o.Fields[sf.tok] = aUnknown(nil)
		o.Fields[sf.name] = aUnknown(nil)
		if sf.prefix >= 0 {
			o.Fields[sf.prefix] = aUnknown(nil)
		}
		if sf.canBeFunc >= 0 {
			o.Fields[sf.canBeFunc] = aUnknown(nil)
		}
		return
	}
	o.Fields[sf.tok] = aInt(t.Tok)
	if t.Keep {
		if sf.canBeFunc >= 0 {
			o.Fields[sf.canBeFunc] = aBool(false)
		}
		return
	}
	o.Fields[sf.name] = aStr(t.Name)
	if sf.prefix >= 0 {
		o.Fields[sf.prefix] = aStr(t.Prefix)
	}
	if sf.canBeFunc >= 0 {
		o.Fields[sf.canBeFunc] = aBool(t.CanBeFunc)
	}
}

const streamPos = 100002

// runStep follows the step parser on a token stream; after the stream the
// input is unknown. namespaces: nil (no table), or a table.
func (w *World) runStep(g *Grammar, fn *ssa.Function, stream []tokSpec, namespaces map[string]string, hasNS bool) []stepOutcome {
	sf := w.scannerFieldIdx(g)
	scannerField, nsField := -1, -1
	pst := g.ParserT.Underlying().(*types.Struct)
	for i := 0; i < pst.NumFields(); i++ {
		if p, ok := pst.Field(i).Type().(*types.Pointer); ok && types.Identical(p.Elem(), g.ScannerT) {
			scannerField = i
		}
		if isStringMap(pst.Field(i).Type()) {
			nsField = i
		}
	}
	var scObj *AObj
	var hooks AHooks
	hooks.Record = func(callee *ssa.Function) bool { return callee == g.NewAxis }
	hooks.Call = func(ai *AInterp, st *AState, site ssa.CallInstruction, callee *ssa.Function, args []AVal) (bool, AVal) {
		if callee == nil {
			return false, AVal{}
		}
		if callee == g.NextItem {
			o := st.obj(scObj)
			pos := 0
			if k, ok := o.Fields[streamPos].Int(); ok {
				pos = int(k)
			}
			pos++
			o.Fields[streamPos] = aInt(int64(pos))
			if pos < len(stream) {
				w.setToken(st, scObj, sf, stream[pos])
			} else {
				w.setToken(st, scObj, sf, tokSpec{Unknown: true})
			}
			return true, aUnknown(nil)
		}
		if g.isNodeParser(callee) && callee != fn && w.reachesStep(callee, fn) {
			// another construct (a predicate's expression, a step sequence) that
			// itself contains steps: not followed
			o := st.obj(scObj)
			o.Fields[streamPos] = aInt(int64(len(stream)))
			w.setToken(st, scObj, sf, tokSpec{Unknown: true})
			// a construct wrapped around the step just built (its predicates): the
			// step's own node is what the questions asked here are about
			if len(args) == 2 && args[1].Kind == avPtr && args[1].Field < 0 {
				if nm, ok := st.obj(args[1].Obj).Type.(*types.Named); ok && g.NewAxis != nil {
					if rt, ok2 := derefNamed(axisNodeTypeOf(g)); ok2 && rt == nm {
						return true, args[1]
					}
				}
			}
			return true, AVal{Kind: avUnknown, Tag: "node:" + callee.Name()}
		}
		return false, AVal{}
	}
	ai := w.newInterp(hooks)
	ai.MaxVisits = 5
	st := w.initState()
	scObj = st.externObj(g.ScannerT, nil)
	scObj.Fields[streamPos] = aInt(0)
	w.setToken(st, scObj, sf, stream[0])
	p := st.externObj(g.ParserT, nil)
	if scannerField >= 0 {
		p.Fields[scannerField] = AVal{Kind: avPtr, Obj: scObj, Field: -1}
	}
	if nsField >= 0 {
		if hasNS {
			p.Fields[nsField] = AVal{Kind: avUnknown, Any: namespaces, Tag: "namespaces"}
		} else {
			p.Fields[nsField] = AVal{Kind: avNil}
		}
	}
	var res []stepOutcome
	for _, o := range ai.Exec(fn, []AVal{{Kind: avPtr, Obj: p, Field: -1}, {Kind: avUnknown, Tag: "n"}}, nil, st) {
		so := stepOutcome{Panicked: o.Panicked, Cut: o.Cut, Ret: o.Ret, St: o.St}
		for _, ev := range o.St.Trace {
			if ev.Kind == "call" && ev.Callee == g.NewAxis {
				so.Axis = ev.Args
			}
		}
		if o.Ret.Kind == avPtr {
			obj := o.St.obj(o.Ret.Obj)
			if stt, ok := obj.Type.Underlying().(*types.Struct); ok {
				for i := 0; i < stt.NumFields(); i++ {
					v, have := obj.Fields[i]
					if !have {
						continue
					}
					if b, ok := v.Bool(); ok && b {
						so.NSBound = true
					}
				}
				// the string field set together with the bool: report the last non-constant-empty string that is not an argument
				for i := 0; i < stt.NumFields(); i++ {
					if v, have := obj.Fields[i]; have && v.Tag == "ns-value" {
						so.NSURI = v
					}
				}
			}
		}
		res = append(res, so)
	}
	return res
}

// reachesStep: callee can (transitively) call the step parser again: it parses
// a construct that contains steps, not a part of one step.
func (w *World) reachesStep(callee, step *ssa.Function) bool {
	if w.reachStepCache == nil {
		w.reachStepCache = map[*ssa.Function]bool{}
	}
	if v, ok := w.reachStepCache[callee]; ok {
		return v
	}
	v := w.pkgReach([]*ssa.Function{callee}, nil)[step]
	w.reachStepCache[callee] = v
	return v
}

// isGenericParserHelper: a parser method that is not a parser of one construct
// (it takes more than the input node) and builds nodes or is handed an operand
// parser: a piece of a level or of a path parser, to be followed.
func (w *World) isGenericParserHelper(g *Grammar, f *ssa.Function) bool {
	if f == nil || !g.isParserMethod(f) || g.isNodeParser(f) {
		return false
	}
	if f.Signature.Results().Len() != 1 || !types.Identical(f.Signature.Results().At(0).Type(), g.NodeT) {
		return false
	}
	ps := f.Signature.Params()
	for i := 0; i < ps.Len(); i++ {
		if _, ok := ps.At(i).Type().Underlying().(*types.Signature); ok {
			return true
		}
	}
	return w.buildsOperatorNodes(g, f)
}

// axisNodeTypeOf: the type of the node the axis-node constructor allocates.
func axisNodeTypeOf(g *Grammar) types.Type {
	var t types.Type
	for _, b := range g.NewAxis.Blocks {
		for _, in := range b.Instrs {
			if a, ok := in.(*ssa.Alloc); ok && a.Heap {
				if _, isStruct := a.Type().(*types.Pointer).Elem().Underlying().(*types.Struct); isStruct {
					t = a.Type()
				}
			}
		}
	}
	if t == nil {
		return types.Typ[types.Invalid]
	}
	return t
}
