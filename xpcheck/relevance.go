package main

// Which XPath functions a property talks about. Rules that judge the
// implementation of individual functions (B-PRIM, B-ARGS, B-ARITY, S-SHARED,
// S-WRITES inside function closures, the panic census inside function
// closures) restrict themselves to these when run for such a property, so
// that a defect in, say, string-join() is reported by the checks of the
// properties that cover string-join() (C09, and the global C04/C05/C15) and
// not by the check of the comparison operators (C07), whose property still
// holds. Properties not listed judge every function.

import (
	"go/types"

	"golang.org/x/tools/go/ssa"
)

var propFuncs = map[string][]string{
	"C02": {"count", "contains", "starts-with", "local-name", "not", "boolean", "true", "false"},
	"C03": {"position", "last"},
	"C07": {"boolean", "not", "true", "false"},
	"C08": {"number", "floor", "ceiling", "count", "sum", "string", "string-length"},
	"C09": {"concat", "contains", "starts-with", "ends-with", "substring-before", "substring-after", "substring", "string-length", "normalize-space", "translate", "lower-case", "string-join", "string"},
	"C12": {"count", "reverse"},
	"C13": {"not", "boolean", "true", "false", "position", "last", "count"},
	"C14": {"name", "local-name", "namespace-uri"},
	"C16": {"matches", "replace"},
}

func (w *World) relevantName(name string) bool {
	list, ok := propFuncs[w.curProp]
	if !ok {
		return true
	}
	for _, n := range list {
		if n == name {
			return true
		}
	}
	return false
}

// implNames: for every function that implements XPath functions (factory or
// direct implementation), the names it is bound to.
func (w *World) implNames() map[*ssa.Function][]string {
	if w.implNamesCache != nil {
		return w.implNamesCache
	}
	out := map[*ssa.Function][]string{}
	for name, fs := range w.funcBindings() {
		for _, tf := range fs {
			if f := w.Prog.FuncValue(tf); f != nil {
				out[f] = append(out[f], name)
			}
		}
	}
	w.implNamesCache = out
	return out
}

// irrelevantFn: fn belongs (lexically) to the implementation of XPath
// functions none of which the current property talks about.
func (w *World) irrelevantFn(fn *ssa.Function) bool {
	if _, ok := propFuncs[w.curProp]; !ok || fn == nil {
		return false
	}
	names, ok := w.implNames()[rootFn(fn)]
	if !ok {
		return false
	}
	for _, n := range names {
		if w.relevantName(n) {
			return false
		}
	}
	return true
}

func (w *World) irrelevantTypesFunc(tf *types.Func) bool {
	return w.irrelevantFn(w.Prog.FuncValue(tf))
}

// faultScope: for the function properties that also carry the run-time fault
// census (C08, C09), the functions whose faults concern them: everything
// reachable from the closures implementing the functions they cover, plus, for
// the arithmetic property, the operator functions (package functions with the
// operator signature func(iterator, interface{}, interface{}) interface{}).
// nil = every run-time function.
func (w *World) faultScope() map[*ssa.Function]bool {
	if w.curProp != "C08" && w.curProp != "C09" {
		return nil
	}
	if w.faultScopeCache != nil {
		return w.faultScopeCache
	}
	var roots []*ssa.Function
	for f, names := range w.implNames() {
		rel := false
		for _, n := range names {
			if w.relevantName(n) {
				rel = true
			}
		}
		if rel {
			roots = append(roots, closuresOf(f)...)
		}
	}
	if w.curProp == "C08" {
		for _, fn := range w.AllFuncs {
			if fn.Parent() != nil || fn.Signature.Recv() != nil {
				continue
			}
			sig := fn.Signature
			if sig.Params().Len() == 3 && sig.Results().Len() == 1 && isEmptyIface(sig.Params().At(1).Type()) && isEmptyIface(sig.Params().At(2).Type()) && isEmptyIface(sig.Results().At(0).Type()) {
				roots = append(roots, closuresOf(fn)...)
			}
		}
	}
	out := map[*ssa.Function]bool{}
	for f := range w.pkgReach(roots, nil) {
		for _, c := range closuresOf(f) {
			out[c] = true
		}
	}
	w.faultScopeCache = out
	return out
}
