package main

// A-OPS, A-CELLS (C07, C08, C15): operator strings end to end, the comparison
// table.

import (
	"fmt"
	"go/ast"
	"go/constant"
	"go/token"
	"go/types"
	"reflect"
	"sort"
	"strings"

	"golang.org/x/tools/go/ssa"
)

// funcValueOf resolves an identifier object used as a func value to its SSA
// function: a declared function, or a package-level var initialised with a
// function literal.
func (w *World) funcValueOf(obj types.Object) *ssa.Function {
	switch o := obj.(type) {
	case *types.Func:
		return w.Prog.FuncValue(o)
	case *types.Var:
		g, ok := w.SSA.Members[o.Name()].(*ssa.Global)
		if !ok {
			return nil
		}
		var out *ssa.Function
		for _, fn := range w.AllFuncs {
			if fn.Parent() != nil || !strings.HasPrefix(fn.Name(), "init") {
				continue
			}
			eachInstr(fn, false, func(_ *ssa.Function, in ssa.Instruction) {
				if st, ok := in.(*ssa.Store); ok && st.Addr == ssa.Value(g) {
					switch v := strip(st.Val).(type) {
					case *ssa.Function:
						out = v
					case *ssa.MakeClosure:
						out, _ = v.Fn.(*ssa.Function)
					}
				}
			})
		}
		return out
	}
	return nil
}

type opDispatch struct {
	Builder *ssa.Function // the operator builder
	// op -> function object bound to the operator (nil when the query is built without a per-operator function)
	Func map[string]types.Object
	Fn   map[string]*ssa.Function
	// op -> query type built
	Type map[string]string
	// op -> constant bool fields of the built object ("IsOr" -> true)
	Flags map[string]map[string]bool
	// query type -> field receiving the query built from the left / right operand
	Left, Right map[string]string
	// op -> the func-typed field of the built object is nil
	NilFunc map[string]bool
	NilNil  map[string]bool
	Ops     []string
	// op -> renderings of accepted builds that are not a freshly built operator query
	Other map[string][]string
	// op -> all query types built on some path
	Types map[string]map[string]bool
}

// operatorSwitch: the operator table of the builder, read off by following the
// operator builder with each operator string (builder_absint.go).
func (w *World) operatorSwitch() *opDispatch {
	if w.opDispatchCache != nil {
		return w.opDispatchCache
	}
	ob, br, err := w.operatorBuilds()
	if err != nil {
		return nil
	}
	od := &opDispatch{Builder: br.OpB, Func: map[string]types.Object{}, Fn: map[string]*ssa.Function{}, Type: map[string]string{}, Flags: map[string]map[string]bool{},
		Left: map[string]string{}, Right: map[string]string{}, NilFunc: map[string]bool{}, NilNil: map[string]bool{}, Ops: br.Ops,
		Other: map[string][]string{}, Types: map[string]map[string]bool{}}
	for _, op := range br.Ops {
		for _, o := range ob[op] {
			if o.NilNil {
				od.NilNil[op] = true
			}
			if o.Accepted && o.Result.Kind != avPtr {
				od.Other[op] = append(od.Other[op], w.describeResult(o))
			}
			if !o.Accepted || o.Result.Kind != avPtr {
				continue
			}
			obj := o.St.obj(o.Result.Obj)
			nm, _ := obj.Type.(*types.Named)
			st, ok := obj.Type.Underlying().(*types.Struct)
			if nm == nil || !ok {
				continue
			}
			tn := nm.Obj().Name()
			od.Type[op] = tn
			if od.Types[op] == nil {
				od.Types[op] = map[string]bool{}
			}
			od.Types[op][tn] = true
			for i := 0; i < st.NumFields(); i++ {
				f := st.Field(i)
				v, have := obj.Fields[i]
				if sig, isSig := f.Type().Underlying().(*types.Signature); isSig && sig.Params().Len() >= 2 {
					// (iterator closures kept as state have no parameters and are nil in a fresh query)
					if have && v.Kind == avFunc {
						od.Fn[op] = v.Fn
						if strings.HasPrefix(v.Tag, "var:") {
							od.Func[op] = w.Types.Scope().Lookup(strings.TrimPrefix(v.Tag, "var:"))
						} else if v.Fn.Object() != nil {
							od.Func[op] = v.Fn.Object()
						} else if gn := w.globalHoldingFunc(v.Fn); gn != "" {
							// an anonymous function that is the initial value of a package variable
							od.Func[op] = w.Types.Scope().Lookup(gn)
						}
					} else {
						od.NilFunc[op] = true
					}
				}
				if !have {
					continue
				}
				if b, ok := v.Bool(); ok {
					if od.Flags[op] == nil {
						od.Flags[op] = map[string]bool{}
					}
					od.Flags[op][f.Name()] = b
				}
				if v.Tag == "q:left" {
					od.Left[tn] = f.Name()
				}
				if v.Tag == "q:right" {
					od.Right[tn] = f.Name()
				}
			}
		}
	}
	w.opDispatchCache = od
	return od
}

var cmpTokens = map[string]token.Token{"=": token.EQL, "!=": token.NEQ, "<": token.LSS, "<=": token.LEQ, ">": token.GTR, ">=": token.GEQ}
var arithTokens = map[string]token.Token{"+": token.ADD, "-": token.SUB, "*": token.MUL, "div": token.QUO}

// producedOperators: the operator strings the parser can put into operator nodes.
func (w *World) producedOperators(g *Grammar) map[string]bool {
	out := map[string]bool{}
	for _, fn := range w.AllFuncs {
		if !w.BuildTime[fn] {
			continue
		}
		if lv := g.levelShape(w, fn); lv != nil {
			for _, o := range lv.Ops {
				if lv.Kind == "unary" {
					out["*"] = true
				} else {
					out[o.Op] = true
				}
			}
		}
	}
	return out
}

func ruleAOps(w *World, r *Report) {
	r.rule("A-OPS", "operator strings agree end to end: every operator the parser produces has a case in the builder's operator dispatch; inner dispatches cover their outer case; each comparison operator is bound to a wrapper that passes the same operator string to the comparison table, whose primitive comparison functions, followed by constant propagation with each operator string and symbolic operands, return exactly `a OP b` (operands in order) for that string and false for any other; each arithmetic operator is bound to the float64 operation of its name on asNumber(left), asNumber(right) in order; mod is a remainder")
	g, err := w.grammar()
	if err != nil {
		r.bad("ANCHOR", "A-OPS", "", err.Error())
		return
	}
	od := w.operatorSwitch()
	if od == nil {
		r.bad("ANCHOR", "A-OPS", "", "operator builder of the query builder not found")
		return
	}
	r.FuncsAnalysed[fnName(od.Builder)] = true
	pos := w.pos(od.Builder.Pos())
	prod := w.producedOperators(g)
	for _, op := range sortedKeys(prod) {
		switch {
		case od.Type[op] != "" && !od.NilNil[op]:
			r.ok("A-OPS", "dispatch:"+op, pos, "produced by the parser, handled by the builder ("+od.Type[op]+")")
		default:
			r.bad("A-OPS", "dispatch:"+op, pos, fmt.Sprintf("the parser produces operator %q but the builder's operator dispatch does not build a query for it: the expression compiles to a nil query", op))
		}
		if od.Type[op] == "" {
			continue
		}
		switch {
		case len(od.Other[op]) > 0:
			r.bad("A-OPS", "always:"+op, pos, fmt.Sprintf("for some operands operator %q is not built as an operator query at all: the builder returns %v in its place — the operator's conversion of its operands (to number / to boolean) and its result type are lost", op, dedup(od.Other[op])))
		case len(od.Types[op]) > 1:
			r.bad("A-OPS", "always:"+op, pos, fmt.Sprintf("operator %q is built as different query types on different paths: %v", op, sortedKeysOf(od.Types[op])))
		default:
			r.ok("A-OPS", "always:"+op, pos, "every accepted build is a fresh "+od.Type[op]+" over both operands")
		}
		if _, hasFunc := od.Fn[op]; hasFunc || od.NilFunc[op] {
			if od.NilFunc[op] {
				r.bad("A-OPS", "inner:"+op, pos, fmt.Sprintf("operator %q builds a %s whose operator function is nil", op, od.Type[op]))
			} else {
				r.ok("A-OPS", "inner:"+op, pos, "the built query carries a function for this operator")
			}
		}
	}
	// comparison wrappers
	for _, op := range []string{"=", "!=", "<", "<=", ">", ">="} {
		obj := od.Func[op]
		if obj == nil {
			r.bad("A-OPS", "bind:"+op, pos, "no function bound to "+op)
			continue
		}
		fn := w.funcValueOf(obj)
		if fn == nil {
			r.undec("A-OPS", "bind:"+op, pos, "cannot resolve "+obj.Name())
			continue
		}
		r.FuncsAnalysed[fnName(fn)] = true
		w.checkCmpWrapper(r, op, fn)
	}
	for _, op := range []string{"+", "-", "*", "div", "mod"} {
		obj := od.Func[op]
		if obj == nil {
			r.bad("A-OPS", "bind:"+op, pos, "no function bound to "+op)
			continue
		}
		fn := w.funcValueOf(obj)
		if fn == nil {
			r.undec("A-OPS", "bind:"+op, pos, "cannot resolve "+obj.Name())
			continue
		}
		r.FuncsAnalysed[fnName(fn)] = true
		w.checkArithWrapper(r, op, fn)
	}
	// or/and: booleanQuery flag
	w.checkOrAndFlag(r, od)
	// primitive comparison functions
	w.checkPrimitiveCmp(r)
}

// cmpDispatch: the call of a cell of the comparison table in host, with the
// values (in host's frame) it passes as operator string, left and right
// operand, and the values whose types index the row and the column.
type cmpDispatch struct {
	call             *ssa.Call
	host             *ssa.Function
	opV, mV, nV      ssa.Value
	rowArg, colArg   ssa.Value
	sameIndexFn, idx bool
	indexFn          *ssa.Function
}

func (w *World) cmpDispatchIn(f *ssa.Function) *cmpDispatch {
	var out *cmpDispatch
	eachInstr(f, false, func(_ *ssa.Function, in ssa.Instruction) {
		c, ok := in.(*ssa.Call)
		if !ok || c.Call.IsInvoke() || c.Call.StaticCallee() != nil || len(c.Call.Args) != 4 || out != nil {
			return
		}
		d := &cmpDispatch{call: c, host: f, opV: c.Call.Args[1], mV: c.Call.Args[2], nV: c.Call.Args[3]}
		if idx1, ok := c.Call.Value.(*ssa.UnOp); ok {
			if ia, ok := idx1.X.(*ssa.IndexAddr); ok {
				d.idx = true
				col := ia.Index
				var row ssa.Value
				if ld, ok := ia.X.(*ssa.UnOp); ok {
					if ia2, ok := ld.X.(*ssa.IndexAddr); ok {
						row = ia2.Index
					}
				}
				if rc, ok := row.(*ssa.Call); ok && len(rc.Call.Args) == 1 {
					d.rowArg = rc.Call.Args[0]
					if cc, ok := col.(*ssa.Call); ok && len(cc.Call.Args) == 1 {
						d.colArg = cc.Call.Args[0]
						d.sameIndexFn = cc.Call.StaticCallee() == rc.Call.StaticCallee() && cc.Call.StaticCallee() != nil
						d.indexFn = rc.Call.StaticCallee()
					}
				}
			}
		}
		out = d
	})
	return out
}

// checkCmpWrapper: fn(t, m, n) = table[type(m)][type(n)](t, OP, m, n), written
// in fn itself or in a helper fn hands (t, OP, m, n) to.
func (w *World) checkCmpWrapper(r *Report, op string, fn *ssa.Function) {
	key := "bind:" + op
	d := w.cmpDispatchIn(fn)
	through := func(v ssa.Value) ssa.Value { return v }
	if d == nil {
		// a helper that does the dispatch with its own parameters
		eachInstr(fn, false, func(_ *ssa.Function, in ssa.Instruction) {
			c, ok := in.(*ssa.Call)
			if !ok || d != nil {
				return
			}
			h := c.Call.StaticCallee()
			if h == nil || !w.inPkg(h) || len(h.Blocks) == 0 {
				return
			}
			hd := w.cmpDispatchIn(h)
			if hd == nil {
				return
			}
			d = hd
			site := c
			through = func(v ssa.Value) ssa.Value {
				for i, p := range h.Params {
					if v == ssa.Value(p) && i < len(site.Call.Args) {
						return site.Call.Args[i]
					}
				}
				return v
			}
		})
	}
	if d == nil {
		r.bad("A-OPS", key, w.pos(fn.Pos()), fn.Name()+" does not dispatch through the comparison table")
		return
	}
	pos := w.instrPos(d.call)
	// (the operator may travel as a value of a named string type: comparison("=").apply(...))
	peel := func(v ssa.Value) ssa.Value {
		for {
			switch x := v.(type) {
			case *ssa.Convert:
				if isStringType(x.X.Type()) && isStringType(x.Type()) {
					v = x.X
					continue
				}
			case *ssa.ChangeType:
				v = x.X
				continue
			}
			return v
		}
	}
	s, _ := constString(peel(through(peel(d.opV))))
	if s != op {
		r.bad("A-OPS", key, pos, fmt.Sprintf("the function bound to %q asks the comparison table for %q", op, s))
		return
	}
	if len(fn.Params) == 3 && through(d.mV) == ssa.Value(fn.Params[1]) && through(d.nV) == ssa.Value(fn.Params[2]) {
		r.ok("A-OPS", key, pos, fn.Name()+" passes "+op+" and (m, n) in order")
	} else {
		r.bad("A-OPS", key, pos, "operands are not passed to the table cell in (left, right) order")
	}
	if d.idx {
		if len(fn.Params) == 3 && d.sameIndexFn && d.rowArg != nil && d.colArg != nil && through(d.rowArg) == ssa.Value(fn.Params[1]) && through(d.colArg) == ssa.Value(fn.Params[2]) {
			r.ok("A-OPS", "index:"+op, pos, "row = type of the left operand, column = type of the right operand")
		} else {
			r.bad("A-OPS", "index:"+op, pos, "the comparison table is not indexed by (type of left, type of right)")
		}
	}
}

// checkArithWrapper: the function bound to an arithmetic operator, followed
// with symbolic operands m and n (the to-number conversion standing for
// "number of <its argument>"), returns number(m) OP number(n) in this order on
// every path — whatever helpers, callbacks or locals it is written with.
func (w *World) checkArithWrapper(r *Report, op string, fn *ssa.Function) {
	key := "bind:" + op
	_, num, _ := w.conversionFns()
	numFn := w.fnByString(num)
	if numFn == nil {
		r.undec("A-OPS", key, w.pos(fn.Pos()), "to-number conversion not found")
		return
	}
	if len(fn.Params) != 3 {
		r.undec("A-OPS", key, w.pos(fn.Pos()), "arithmetic operator function does not take (context, left, right)")
		return
	}
	var hooks AHooks
	hooks.Call = func(ai *AInterp, st *AState, site ssa.CallInstruction, callee *ssa.Function, args []AVal) (bool, AVal) {
		if callee == numFn && len(args) == 2 {
			return true, AVal{Kind: avUnknown, Tag: "number(" + args[1].Tag + ")"}
		}
		return false, AVal{}
	}
	ai := w.newInterp(hooks)
	outs := ai.Exec(fn, []AVal{{Kind: avUnknown, Tag: "ctx"}, {Kind: avUnknown, Tag: "m"}, {Kind: avUnknown, Tag: "n"}}, nil, w.initState())
	pos := w.pos(fn.Pos())
	if len(outs) == 0 {
		r.undec("A-OPS", key, pos, "arithmetic operator function could not be followed")
		return
	}
	for _, o := range outs {
		if o.Cut || o.Panicked {
			r.undec("A-OPS", key, pos, "a path of the arithmetic operator function could not be followed to a result")
			return
		}
		e := o.Ret.Expr
		got := o.Ret.String()
		okv := false
		if e != nil && len(e.Args) == 2 && e.Args[0].Tag == "number(m)" && e.Args[1].Tag == "number(n)" {
			if op == "mod" {
				okv = e.Call == "math.Mod" || e.Op == token.REM
			} else {
				okv = e.Call == "" && e.Op == arithTokens[op]
			}
		}
		if !okv {
			want := "number(m) " + arithTokens[op].String() + " number(n)"
			if op == "mod" {
				want = "math.Mod(number(m), number(n))"
			}
			r.bad("A-OPS", key, pos, fmt.Sprintf("operator %q is bound to %s, which computes %s; XPath: %s (float64 operation of that name on the converted operands, left first)", op, fn.Name(), got, want))
			return
		}
	}
	r.ok("A-OPS", key, pos, fmt.Sprintf("%s = number(left) %s number(right) on every path", op, op))
}

func isFloat64(t types.Type) bool {
	b, ok := t.Underlying().(*types.Basic)
	return ok && b.Kind() == types.Float64
}

var numericHelperDone = map[*ssa.Function]bool{}

func (w *World) checkNumericHelper(r *Report, h *ssa.Function) {
	if r.seen["A-OPS/numeric-helper:"+h.Name()] {
		return
	}
	r.FuncsAnalysed[fnName(h)] = true
	key := "numeric-helper:" + h.Name()
	if len(h.Params) != 4 {
		r.undec("A-OPS", key, w.pos(h.Pos()), "unexpected signature")
		return
	}
	var calls []*ssa.Call
	var cbCall *ssa.Call
	eachInstr(h, false, func(_ *ssa.Function, in ssa.Instruction) {
		c, ok := in.(*ssa.Call)
		if !ok {
			return
		}
		if c.Call.Value == ssa.Value(h.Params[3]) {
			cbCall = c
		} else if f := c.Call.StaticCallee(); f != nil && w.inPkg(f) && isFloat64(f.Signature.Results().At(0).Type()) {
			calls = append(calls, c)
		}
	})
	if cbCall == nil || len(calls) != 2 || calls[0].Call.StaticCallee() != calls[1].Call.StaticCallee() {
		r.bad("A-OPS", key, w.pos(h.Pos()), "the numeric helper does not convert both operands with the same to-number function and apply the callback")
		return
	}
	ok := calls[0].Call.Args[len(calls[0].Call.Args)-1] == ssa.Value(h.Params[1]) && calls[1].Call.Args[len(calls[1].Call.Args)-1] == ssa.Value(h.Params[2]) &&
		cbCall.Call.Args[0] == ssa.Value(calls[0]) && cbCall.Call.Args[1] == ssa.Value(calls[1])
	retOK := false
	for _, b := range h.Blocks {
		if rt, ok := normalReturn(b); ok && rt.Results[0] == ssa.Value(cbCall) {
			retOK = true
		}
	}
	if ok && retOK {
		r.ok("A-OPS", key, w.pos(h.Pos()), "returns cb("+calls[0].Call.StaticCallee().Name()+"(left), "+calls[0].Call.StaticCallee().Name()+"(right))")
	} else {
		r.bad("A-OPS", key, w.pos(h.Pos()), "the numeric helper swaps, drops or does not convert an operand")
	}
}

func (w *World) checkOrAndFlag(r *Report, od *opDispatch) {
	pos := w.pos(od.Builder.Pos())
	if od.Type["or"] == "" || od.Type["and"] == "" {
		r.bad("A-OPS", "or-and", pos, "no query built for or/and")
		return
	}
	if od.Type["or"] != od.Type["and"] {
		r.bad("A-OPS", "or-and", pos, "or/and are not built as the same query type")
		return
	}
	// a bool field that is true for "or" and false for "and"
	good := false
	for f, v := range od.Flags["or"] {
		if v && !od.Flags["and"][f] {
			if _, ok := od.Flags["and"][f]; ok {
				good = true
			}
		}
	}
	if good {
		r.ok("A-OPS", "or-and", pos, "the disjunction flag is set exactly for \"or\"")
	} else {
		r.bad("A-OPS", "or-and", pos, fmt.Sprintf("the flag distinguishing or from and is not `op == \"or\"` (or: %v, and: %v)", od.Flags["or"], od.Flags["and"]))
	}
}

func (w *World) primitiveCmps() []*ssa.Function {
	var out []*ssa.Function
	for _, fn := range w.AllFuncs {
		if fn.Parent() != nil || fn.Signature.Recv() != nil {
			continue
		}
		ps := fn.Signature.Params()
		if ps.Len() != 3 || fn.Signature.Results().Len() != 1 {
			continue
		}
		b0, ok := ps.At(0).Type().(*types.Basic)
		if !ok || b0.Kind() != types.String || !types.Identical(ps.At(1).Type(), ps.At(2).Type()) {
			continue
		}
		if rb, ok := fn.Signature.Results().At(0).Type().(*types.Basic); !ok || rb.Kind() != types.Bool {
			continue
		}
		out = append(out, fn)
	}
	sort.Slice(out, func(i, j int) bool { return out[i].Name() < out[j].Name() })
	return out
}

func (w *World) checkPrimitiveCmp(r *Report) {
	n := 0
	for _, fn := range w.primitiveCmps() {
		pt := fn.Signature.Params().At(1).Type()
		if b, ok := pt.Underlying().(*types.Basic); ok && b.Kind() == types.Bool {
			continue // boolean connective helper
		}
		n++
		r.FuncsAnalysed[fnName(fn)] = true
		pos := w.pos(fn.Pos())
		// followed with each operator string and symbolic operands a, b: the
		// result is `a OP b`, operands in order — however the choice is written
		// (a switch, a table of comparison functions)
		run := func(op string) (string, bool) {
			ai := w.newInterp(AHooks{})
			outs := ai.Exec(fn, []AVal{aStr(op), {Kind: avUnknown, Tag: "a"}, {Kind: avUnknown, Tag: "b"}}, nil, w.initState())
			if len(outs) == 0 {
				return "not followed", false
			}
			for _, o := range outs {
				if o.Cut || o.Panicked {
					return "a path could not be followed to a result", false
				}
			}
			want, known := cmpTokens[op]
			for _, o := range outs {
				if !known {
					if bv, ok := o.Ret.Bool(); !ok || bv {
						return "returns " + o.Ret.String() + " for an operator string XPath does not have", true
					}
					continue
				}
				e := o.Ret.Expr
				if e == nil || e.Call != "" || e.Op != want || len(e.Args) != 2 || e.Args[0].Tag != "a" || e.Args[1].Tag != "b" {
					return fmt.Sprintf("returns %s, not a %s b (operands in order)", o.Ret.String(), want), true
				}
			}
			return "", true
		}
		var ops []string
		for l := range cmpTokens {
			ops = append(ops, l)
		}
		sort.Strings(ops)
		for _, op := range ops {
			key := fn.Name() + ":" + op
			why, decided := run(op)
			switch {
			case !decided:
				r.undec("A-OPS", key, pos, fn.Name()+"("+op+"): "+why)
			case why != "":
				r.bad("A-OPS", key, pos, fmt.Sprintf("%s with %q %s", fn.Name(), op, why))
			default:
				r.ok("A-OPS", key, pos, fmt.Sprintf("%q => a %s b", op, cmpTokens[op]))
			}
		}
		why, decided := run("no-such-operator")
		switch {
		case !decided:
			r.undec("A-OPS", fn.Name()+":default", pos, fn.Name()+": "+why)
		case why != "":
			r.bad("A-OPS", fn.Name()+":default", pos, "the fall-through of the comparison primitive does not return false: "+why)
		default:
			r.ok("A-OPS", fn.Name()+":default", pos, "an operator string XPath does not have yields false")
		}
	}
	if n < 2 {
		r.bad("A-OPS", "primitives", "", "number and string comparison primitives not both found")
	}
}

// ---------- A-CELLS ----------

type cmpTable struct {
	Var   *types.Var
	Cells [][]*types.Func // nil = nil cell
	Pos   [][]token.Pos
	Decl  token.Pos
}

func (w *World) comparisonTable() *cmpTable {
	for _, f := range w.Pkg.Syntax {
		for _, d := range f.Decls {
			gd, ok := d.(*ast.GenDecl)
			if !ok || gd.Tok != token.VAR {
				continue
			}
			for _, sp := range gd.Specs {
				vs := sp.(*ast.ValueSpec)
				for i, name := range vs.Names {
					if i >= len(vs.Values) {
						continue
					}
					obj, _ := w.Info.Defs[name].(*types.Var)
					if obj == nil {
						continue
					}
					// slice/array of slice/array of func(...) bool
					inner := elemOf(elemOf(obj.Type()))
					if inner == nil {
						continue
					}
					sig, ok := inner.Underlying().(*types.Signature)
					if !ok || sig.Results().Len() != 1 {
						continue
					}
					cl, ok := vs.Values[i].(*ast.CompositeLit)
					if !ok {
						continue
					}
					t := &cmpTable{Var: obj, Decl: name.Pos()}
					for _, row := range cl.Elts {
						rl, ok := row.(*ast.CompositeLit)
						if !ok {
							continue
						}
						var cells []*types.Func
						var poss []token.Pos
						for _, e := range rl.Elts {
							poss = append(poss, e.Pos())
							if id, ok := e.(*ast.Ident); ok {
								if fo, ok := w.Info.Uses[id].(*types.Func); ok {
									cells = append(cells, fo)
									continue
								}
							}
							cells = append(cells, nil)
						}
						t.Cells = append(t.Cells, cells)
						t.Pos = append(t.Pos, poss)
					}
					return t
				}
			}
		}
	}
	return nil
}

func elemOf(t types.Type) types.Type {
	if t == nil {
		return nil
	}
	switch u := t.Underlying().(type) {
	case *types.Slice:
		return u.Elem()
	case *types.Array:
		return u.Elem()
	}
	return nil
}

// typeIndexer: the function returning the row/column index for a dynamic
// value (getXPathType), as a map from Go type key to index.
func (w *World) typeIndexer() (fn *ssa.Function, idx map[string]int64, nvals int) {
	// the callee used for indexing in comparison wrappers
	od := w.operatorSwitch()
	if od == nil {
		return nil, nil, 0
	}
	wr := od.Fn["="]
	if wr == nil {
		return nil, nil, 0
	}
	// the function whose result indexes the table, in the wrapper or in the
	// helper the wrapper hands its operands to
	if d := w.cmpDispatchIn(wr); d != nil {
		fn = d.indexFn
	} else {
		eachInstr(wr, false, func(_ *ssa.Function, in ssa.Instruction) {
			if c, ok := in.(*ssa.Call); ok && fn == nil {
				if h := c.Call.StaticCallee(); h != nil && w.inPkg(h) && len(h.Blocks) > 0 {
					if d := w.cmpDispatchIn(h); d != nil {
						fn = d.indexFn
					}
				}
			}
		})
	}
	if fn == nil {
		return nil, nil, 0
	}
	// values of the struct-typed global whose fields are returned
	fieldVal := map[string]int64{}
	for _, f := range w.Pkg.Syntax {
		ast.Inspect(f, func(x ast.Node) bool {
			vs, ok := x.(*ast.ValueSpec)
			if !ok || len(vs.Values) != 1 {
				return true
			}
			cl, ok := vs.Values[0].(*ast.CompositeLit)
			if !ok {
				return true
			}
			tv := w.Info.Types[cl]
			if _, isStruct := tv.Type.Underlying().(*types.Struct); !isStruct {
				return true
			}
			for _, e := range cl.Elts {
				if kv, ok := e.(*ast.KeyValueExpr); ok {
					if v, ok := w.constIntExpr(kv.Value); ok {
						fieldVal[vs.Names[0].Name+"."+kvField(kv)] = v
					}
				}
			}
			return true
		})
	}
	idx = map[string]int64{}
	vals := map[int64]bool{}
	for _, b := range fn.Blocks {
		ret, ok := normalReturn(b)
		if !ok {
			continue
		}
		ld, ok := ret.Results[0].(*ssa.UnOp)
		if !ok {
			continue
		}
		fa, ok := ld.X.(*ssa.FieldAddr)
		if !ok {
			continue
		}
		gl, ok := fa.X.(*ssa.Global)
		if !ok {
			continue
		}
		v, ok := fieldVal[gl.Name()+"."+fieldOfAddr(fa).Name()]
		if !ok {
			continue
		}
		vals[v] = true
		// the condition leading here
		for _, p := range b.Preds {
			ifi := blockIf(p)
			if ifi == nil || p.Succs[0] != b {
				continue
			}
			switch c := ifi.Cond.(type) {
			case *ssa.BinOp:
				if k, ok := constInt(c.Y); ok && c.Op == token.EQL {
					switch reflect.Kind(k) {
					case reflect.Float64:
						idx["float64"] = v
					case reflect.String:
						idx["string"] = v
					case reflect.Bool:
						idx["bool"] = v
					}
				}
			case *ssa.Extract:
				if ta, ok := c.Tuple.(*ssa.TypeAssert); ok && w.isQueryType(ta.AssertedType) {
					idx["query"] = v
				}
			}
		}
	}
	if len(idx) < 4 {
		// the index function written differently (a table of kinds, guard
		// clauses): its value for an operand of each Go type, by interpretation
		if idx2, n2, ok := w.typeIndexByInterp(fn); ok {
			return fn, idx2, n2
		}
	}
	return fn, idx, len(vals)
}

// typeIndexByInterp: the operand-type index function followed by constant
// propagation on an operand of each of the four Go types XPath values have.
func (w *World) typeIndexByInterp(fn *ssa.Function) (map[string]int64, int, bool) {
	if len(fn.Params) != 1 || len(w.census.Types) == 0 {
		return nil, 0, false
	}
	dyn := map[string]types.Type{
		"float64": types.Typ[types.Float64],
		"string":  types.Typ[types.String],
		"bool":    types.Typ[types.Bool],
		"query":   types.NewPointer(w.census.Types[0].Named),
	}
	idx := map[string]int64{}
	vals := map[int64]bool{}
	for name, t := range dyn {
		ai := w.newInterp(AHooks{})
		arg := AVal{Kind: avUnknown, Dyn: t, Tag: "operand"}
		got := int64(-1)
		for _, o := range ai.Exec(fn, []AVal{arg}, nil, w.initState()) {
			if o.Cut {
				return nil, 0, false
			}
			if o.Panicked {
				continue
			}
			k, ok := o.Ret.Int()
			if !ok || (got >= 0 && got != k) {
				return nil, 0, false
			}
			got = k
		}
		if got < 0 {
			return nil, 0, false
		}
		idx[name] = got
		vals[got] = true
	}
	// an operand of any other Go type (round() yields an int): the function
	// complains (panics) — or whatever it answers is one more value of the index,
	// which the table then has to have a row and a column for
	for _, t := range []types.Type{types.Typ[types.Int], types.NewSlice(types.Typ[types.String])} {
		ai := w.newInterp(AHooks{})
		for _, o := range ai.Exec(fn, []AVal{{Kind: avUnknown, Dyn: t, Tag: "operand"}}, nil, w.initState()) {
			if o.Cut {
				return nil, 0, false
			}
			if o.Panicked {
				continue
			}
			k, ok := o.Ret.Int()
			if !ok {
				return nil, 0, false
			}
			vals[k] = true
		}
	}
	return idx, len(vals), true
}

func (w *World) typeKey(t types.Type) string {
	if w.isQueryType(t) {
		return "query"
	}
	if b, ok := t.Underlying().(*types.Basic); ok {
		switch b.Kind() {
		case types.Float64:
			return "float64"
		case types.String:
			return "string"
		case types.Bool:
			return "bool"
		}
	}
	return t.String()
}

func ruleACells(w *World, r *Report) {
	r.rule("A-CELLS", "the comparison table is square with one row/column per value of the operand-type index; (1) the function in cell (i,j) asserts its left operand to the Go type whose index is i and its right operand to the type whose index is j; (2) no cell is nil; (3) no cell, comparison primitive or to-number conversion contains a panic; (4) cells with a node-set operand are existential: true only under a true primitive comparison, every other exit only when the node-set is exhausted, and the node-set x node-set cell re-arms the inner operand; (5) in cells of C07's scope the value derived from the left operand is the first argument of the numeric primitive")
	tab := w.comparisonTable()
	if tab == nil {
		r.bad("ANCHOR", "A-CELLS", "", "comparison table not found")
		return
	}
	idxFn, idx, nvals := w.typeIndexer()
	if idxFn == nil || len(idx) < 4 {
		r.bad("ANCHOR", "A-CELLS", w.pos(tab.Decl), fmt.Sprintf("operand-type index function not understood (found %v)", idx))
		return
	}
	r.FuncsAnalysed[fnName(idxFn)] = true
	rev := map[int64]string{}
	for k, v := range idx {
		rev[v] = k
	}
	side := len(tab.Cells)
	sq := true
	for _, row := range tab.Cells {
		if len(row) != side {
			sq = false
		}
	}
	if sq && side == nvals {
		r.ok("A-CELLS", "square", w.pos(tab.Decl), fmt.Sprintf("%dx%d table for %d operand types", side, side, nvals))
	} else {
		r.bad("A-CELLS", "square", w.pos(tab.Decl), fmt.Sprintf("table is %d rows (square=%v) but the type index has %d values: an index is out of range at run time", side, sq, nvals))
	}
	prims := map[*ssa.Function]bool{}
	for _, p := range w.primitiveCmps() {
		prims[p] = true
	}
	for i, row := range tab.Cells {
		for j, cell := range row {
			key := fmt.Sprintf("cell[%s][%s]", rev[int64(i)], rev[int64(j)])
			pos := w.pos(tab.Pos[i][j])
			if cell == nil {
				r.bad("A-CELLS", key+":nil", pos, fmt.Sprintf("comparison of a %s with a %s calls a nil function: nil pointer dereference at run time", rev[int64(i)], rev[int64(j)]))
				continue
			}
			fn := w.Prog.FuncValue(cell)
			r.FuncsAnalysed[fnName(fn)] = true
			r.ok("A-CELLS", key+":nil", pos, cell.Name())
			// (1) asserted types
			var tm, tn types.Type
			eachInstr(fn, false, func(_ *ssa.Function, in ssa.Instruction) {
				ta, ok := in.(*ssa.TypeAssert)
				if !ok || ta.CommaOk {
					return
				}
				if ta.X == ssa.Value(fn.Params[2]) {
					tm = ta.AssertedType
				}
				if ta.X == ssa.Value(fn.Params[3]) {
					tn = ta.AssertedType
				}
			})
			// an operand that is not asserted at all is handled generically
			// (type switch / conversion helpers); an asserted one must be asserted
			// to the type the cell is registered for
			okT := true
			desc := ""
			for k, pair := range []struct {
				t    types.Type
				want int
				side string
			}{{tm, i, "left"}, {tn, j, "right"}} {
				_ = k
				if pair.t == nil {
					desc += pair.side + ": generic; "
					continue
				}
				if idx[w.typeKey(pair.t)] != int64(pair.want) {
					okT = false
				}
				desc += pair.side + ": " + w.typeKey(pair.t) + "; "
			}
			if tm == nil && tn == nil {
				r.undec("A-CELLS", key+":types", pos, "cell asserts neither operand")
			} else if okT {
				r.ok("A-CELLS", key+":types", pos, "asserts "+desc)
			} else {
				r.bad("A-CELLS", key+":types", pos, fmt.Sprintf("cell for (%s, %s) holds %s, which asserts %s: failed type assertion at run time", rev[int64(i)], rev[int64(j)], cell.Name(), desc))
			}
			// (3) no panic
			if p := hasPanic(fn); p != nil {
				r.bad("A-CELLS", key+":nopanic", w.instrPos(p), fmt.Sprintf("%s panics on document data (%s): a comparison aborts the evaluation because of a value found in the document", cell.Name(), p))
			} else {
				r.ok("A-CELLS", key+":nopanic", pos, "no panic instruction")
			}
			// (4) existential shape
			if tm != nil && tn != nil && (w.isQueryType(tm) || w.isQueryType(tn)) {
				w.checkExistential(r, key, fn, prims, w.isQueryType(tm) && w.isQueryType(tn))
			}
			// (5) operand order for numeric cells
			if tm != nil && tn != nil {
				k1, k2 := w.typeKey(tm), w.typeKey(tn)
				inScope := (k1 == "float64" && k2 == "float64") || (k1 == "float64" && k2 == "query") || (k1 == "query" && k2 == "float64")
				w.checkOperandOrder(r, key, fn, prims, inScope)
			}
		}
	}
	for p := range prims {
		if x := hasPanic(p); x != nil {
			r.bad("A-CELLS", "prim-nopanic:"+p.Name(), w.instrPos(x), "comparison primitive panics")
		} else {
			r.ok("A-CELLS", "prim-nopanic:"+p.Name(), w.pos(p.Pos()), "no panic")
		}
	}
	// (6) no index or slice expression of the comparison code (the cells and the
	// plain functions they call, directly or through each other) can be out of
	// range: "a comparison never aborts evaluation because of the data found"
	scope := map[*ssa.Function]bool{}
	var visit func(f *ssa.Function, d int)
	visit = func(f *ssa.Function, d int) {
		if f == nil || scope[f] || d > 4 || !w.inPkg(f) || len(f.Blocks) == 0 {
			return
		}
		if f.Signature.Recv() != nil && w.isQueryType(f.Signature.Recv().Type()) {
			return
		}
		scope[f] = true
		eachInstr(f, true, func(_ *ssa.Function, in ssa.Instruction) {
			if c, ok := in.(ssa.CallInstruction); ok {
				visit(c.Common().StaticCallee(), d+1)
			}
		})
	}
	for _, row := range tab.Cells {
		for _, cell := range row {
			if cell != nil {
				visit(w.Prog.FuncValue(cell), 0)
			}
		}
	}
	var fns []*ssa.Function
	for f := range scope {
		fns = append(fns, f)
	}
	sort.Slice(fns, func(i, j int) bool { return fnName(fns[i]) < fnName(fns[j]) })
	be := &boundsEngine{w: w, memo: map[ssa.Value]bnd{}, busy: map[ssa.Value]bool{}}
	nsites := 0
	for _, f := range fns {
		eachInstr(f, true, func(_ *ssa.Function, in ssa.Instruction) {
			ok, why, is := true, "", false
			switch x := in.(type) {
			case *ssa.IndexAddr:
				ok, why = be.indexOK(x.X, x.Index, x.Block())
				is = true
			case *ssa.Index:
				ok, why = be.indexOK(x.X, x.Index, x.Block())
				is = true
			case *ssa.Slice:
				ok, why = be.sliceOK(x)
				is = true
			}
			if !is {
				return
			}
			nsites++
			key := "bounds:" + fnName(f)
			if ok {
				r.ok("A-CELLS", key, w.instrPos(in), why)
			} else {
				r.bad("A-CELLS", key, w.instrPos(in), fmt.Sprintf("an index or slice expression of the comparison code is not proven in range (%s): a comparison aborts the evaluation because of a value found in the document", why))
			}
		})
	}
	r.note("A-CELLS: %d index/slice sites in %d functions of the comparison code", nsites, len(fns))
}

func (w *World) checkExistential(r *Report, key string, fn *ssa.Function, prims map[*ssa.Function]bool, both bool) {
	isPrim := func(c *ssa.Call) bool { return prims[c.Call.StaticCallee()] }
	okAll, why := w.existentialShape(fn, isPrim, both)
	if !okAll && !both {
		// the loop written once, as a helper that takes the comparison as a function
		// value: every return of the cell is that helper's result, the helper is
		// existential in calls of its function parameter, and the function handed
		// over returns a primitive comparison's outcome
		if ok2, why2, tried := w.existentialThroughHelper(fn, isPrim); tried {
			okAll, why = ok2, why2
		}
	}
	if okAll {
		r.ok("A-CELLS", key+":existential", w.pos(fn.Pos()), "true only under a true comparison; false only on exhaustion; every pulled node is compared")
	} else {
		r.bad("A-CELLS", key+":existential", w.pos(fn.Pos()), fn.Name()+" is not existential: "+why)
	}
}

func (w *World) existentialThroughHelper(fn *ssa.Function, isPrim func(*ssa.Call) bool) (ok bool, why string, tried bool) {
	var helper *ssa.Function
	pidx := -1
	var closures []*ssa.Function
	for _, b := range fn.Blocks {
		ret, isRet := normalReturn(b)
		if !isRet {
			continue
		}
		c, isCall := ret.Results[0].(*ssa.Call)
		if !isCall {
			return false, "", false
		}
		h := c.Call.StaticCallee()
		if h == nil || !w.inPkg(h) || len(h.Blocks) == 0 || (helper != nil && helper != h) {
			return false, "", false
		}
		helper = h
		found := false
		for i, a := range c.Call.Args {
			mc, isMC := a.(*ssa.MakeClosure)
			if !isMC {
				continue
			}
			sig := mc.Fn.(*ssa.Function).Signature
			if sig.Results().Len() != 1 || !isBoolType(sig.Results().At(0).Type()) {
				continue
			}
			if pidx >= 0 && pidx != i {
				return false, "", false
			}
			pidx, found = i, true
			closures = append(closures, mc.Fn.(*ssa.Function))
		}
		if !found {
			return false, "", false
		}
	}
	if helper == nil || pidx < 0 || pidx >= len(helper.Params) {
		return false, "", false
	}
	param := helper.Params[pidx]
	viaParam := func(c *ssa.Call) bool { return c.Call.Value == ssa.Value(param) }
	if ok, why := w.existentialShape(helper, viaParam, false); !ok {
		return false, "through " + helper.Name() + ": " + why, true
	}
	for _, cl := range closures {
		for _, b := range cl.Blocks {
			ret, isRet := normalReturn(b)
			if !isRet {
				continue
			}
			c, isCall := ret.Results[0].(*ssa.Call)
			if !isCall || !isPrim(c) {
				return false, "the comparison handed to " + helper.Name() + " returns something other than the outcome of a primitive comparison", true
			}
		}
	}
	return true, "", true
}

func (w *World) existentialShape(fn *ssa.Function, isPrim func(*ssa.Call) bool, both bool) (bool, string) {
	sel, ev := w.selectMethod(), w.evaluateMethod()
	okAll := true
	why := ""
	for _, b := range fn.Blocks {
		ret, ok := normalReturn(b)
		if !ok {
			continue
		}
		c, isC := ret.Results[0].(*ssa.Const)
		if !isC || c.Value == nil || c.Value.Kind() != constant.Bool {
			okAll = false
			why = "returns a non-constant"
			continue
		}
		if constant.BoolVal(c.Value) {
			// every predecessor edge is the true edge of a primitive comparison
			for _, p := range b.Preds {
				ifi := blockIf(p)
				good := false
				if ifi != nil && p.Succs[0] == b {
					if call, ok := ifi.Cond.(*ssa.Call); ok && isPrim(call) {
						good = true
					}
				}
				if !good {
					okAll = false
					why = "returns true on a path that is not the true outcome of a primitive comparison"
				}
			}
		} else {
			// false: reached only when a Select result was nil
			for _, p := range b.Preds {
				if !w.edgeIsSelectNil(p, b, sel, 0) {
					okAll = false
					why = fmt.Sprintf("returns false (at %s) on a path other than exhaustion of the node-set", w.instrPos(ret))
				}
			}
		}
	}
	if both {
		// inner operand re-armed inside the outer loop
		re := false
		eachInstr(fn, false, func(_ *ssa.Function, in ssa.Instruction) {
			if c, ok := in.(*ssa.Call); ok && c.Call.IsInvoke() && c.Call.Method.Name() == ev {
				for _, comp := range cfgSCCs(fn) {
					for _, lb := range comp {
						if lb == c.Block() {
							re = true
						}
					}
				}
			}
		})
		if !re {
			okAll = false
			why = "the inner node-set is not re-armed (Evaluate) for each node of the outer one"
		}
	}
	// (6) every node pulled from a node-set operand reaches a primitive comparison before the next pull
	for _, comp := range cfgSCCs(fn) {
		inComp := map[*ssa.BasicBlock]bool{}
		for _, b := range comp {
			inComp[b] = true
		}
		cut := map[*ssa.BasicBlock]bool{}
		hasSel := false
		for _, b := range comp {
			for _, in := range b.Instrs {
				if c, ok := in.(*ssa.Call); ok {
					if isPrim(c) {
						cut[b] = true
					}
					if c.Call.IsInvoke() && c.Call.Method.Name() == sel {
						hasSel = true
					}
				}
			}
		}
		if hasSel {
			if cyc := w.residualCycleFeasible(comp, inComp, cut, sel); cyc != nil {
				okAll = false
				why = fmt.Sprintf("the loop can pull the next node (through block %d) without comparing the current one: a node whose value is not a number is skipped instead of being compared as NaN, so `!=` misses it", cyc.Index)
			}
		}
	}
	return okAll, why
}

// edgeIsSelectNil: edge p->b is taken only when a Select() result is nil
// (possibly through unconditional blocks).
func (w *World) edgeIsSelectNil(p, b *ssa.BasicBlock, sel string, depth int) bool {
	if depth > 4 {
		return false
	}
	ifi := blockIf(p)
	if ifi == nil {
		if len(p.Preds) == 0 {
			return false
		}
		for _, pp := range p.Preds {
			if !w.edgeIsSelectNil(pp, p, sel, depth+1) {
				return false
			}
		}
		return true
	}
	cmp, neg := decodeCond(ifi.Cond)
	if cmp == nil {
		return false
	}
	var v ssa.Value
	if isNilConst(cmp.Y) {
		v = cmp.X
	} else if isNilConst(cmp.X) {
		v = cmp.Y
	} else {
		return false
	}
	if !isSelectResult(v, sel, 0) {
		return false
	}
	eq := cmp.Op == token.EQL
	if neg {
		eq = !eq
	}
	if eq {
		return p.Succs[0] == b
	}
	return p.Succs[1] == b
}

// paramOrigin: which of the cell's operand parameters (2 = m, 3 = n) a value
// is derived from.
func paramOrigin(fn *ssa.Function, v ssa.Value) int {
	seen := map[ssa.Value]bool{}
	var walk func(v ssa.Value, d int) int
	walk = func(v ssa.Value, d int) int {
		if v == nil || seen[v] || d > 16 {
			return 0
		}
		seen[v] = true
		for i, p := range fn.Params {
			if v == ssa.Value(p) && i >= 2 {
				return i
			}
		}
		switch x := v.(type) {
		case *ssa.TypeAssert:
			return walk(x.X, d+1)
		case *ssa.Extract:
			return walk(x.Tuple, d+1)
		case *ssa.Phi:
			for _, e := range x.Edges {
				if k := walk(e, d+1); k != 0 {
					return k
				}
			}
		case *ssa.Call:
			if x.Call.IsInvoke() {
				return walk(x.Call.Value, d+1)
			}
			for _, a := range x.Call.Args {
				if k := walk(a, d+1); k != 0 {
					return k
				}
			}
		case *ssa.UnOp:
			if a := cellOf(x.X); a != nil {
				for _, st := range cellStores(a) {
					if k := walk(st.Val, d+1); k != 0 {
						return k
					}
				}
			}
			return walk(x.X, d+1)
		case *ssa.Convert:
			return walk(x.X, d+1)
		case *ssa.ChangeType:
			return walk(x.X, d+1)
		}
		return 0
	}
	return walk(v, 0)
}

func (w *World) checkOperandOrder(r *Report, key string, fn *ssa.Function, prims map[*ssa.Function]bool, inScope bool) {
	eachInstr(fn, false, func(_ *ssa.Function, in ssa.Instruction) {
		c, ok := in.(*ssa.Call)
		if !ok || !prims[c.Call.StaticCallee()] {
			return
		}
		// operator string passed on unchanged
		if c.Call.Args[0] != ssa.Value(fn.Params[1]) {
			r.bad("A-CELLS", key+":op", w.instrPos(c), "the cell does not pass its operator string on to the primitive")
		}
		o1, o2 := paramOrigin(fn, c.Call.Args[1]), paramOrigin(fn, c.Call.Args[2])
		switch {
		case o1 == 2 && o2 == 3:
			r.ok("A-CELLS", key+":order", w.instrPos(c), "left operand first")
		case inScope:
			r.bad("A-CELLS", key+":order", w.instrPos(c), fmt.Sprintf("the primitive comparison receives the operands in the wrong order (first derives from parameter %d, second from %d): < and > are mirrored", o1, o2))
		default:
			r.skip("A-CELLS", key+":order", w.instrPos(c), "operands reach the primitive swapped; only observable for relational operators on strings, which C07 does not cover")
		}
	})
}

// isSelectResult: v is the result of a Select invoke, or a merge of such
// results (the loop variable of `for n := q.Select(t); n != nil; n = q.Select(t)`).
func isSelectResult(v ssa.Value, sel string, depth int) bool {
	if depth > 4 {
		return false
	}
	switch x := v.(type) {
	case *ssa.Call:
		return x.Call.IsInvoke() && x.Call.Method.Name() == sel
	case *ssa.Phi:
		for _, e := range x.Edges {
			if !isSelectResult(e, sel, depth+1) {
				return false
			}
		}
		return len(x.Edges) > 0
	}
	return false
}

// residualCycleFeasible: like residualCycle, but a way round is followed edge
// by edge, and the "is nil" side of a test of a merged Select result is not
// taken when the value merged in along the edge just travelled was already
// tested non-nil on a dominating edge (a redundant loop guard on entry).
func (w *World) residualCycleFeasible(comp []*ssa.BasicBlock, inComp, cut map[*ssa.BasicBlock]bool, sel string) *ssa.BasicBlock {
	type edge struct{ from, to *ssa.BasicBlock }
	knownNonNil := func(v ssa.Value, at *ssa.BasicBlock) bool {
		for _, u := range uses(v) {
			bo, ok := u.(*ssa.BinOp)
			if !ok || !(isNilConst(bo.X) || isNilConst(bo.Y)) {
				continue
			}
			for _, uu := range uses(bo) {
				ifi, ok := uu.(*ssa.If)
				if !ok {
					continue
				}
				nn := ifi.Block().Succs[1]
				if bo.Op == token.NEQ {
					nn = ifi.Block().Succs[0]
				}
				if len(nn.Preds) == 1 && (nn == at || nn.Dominates(at)) {
					return true
				}
			}
		}
		return false
	}
	feasible := func(p, b, s *ssa.BasicBlock) bool {
		ifi := blockIf(b)
		if ifi == nil || p == nil {
			return true
		}
		cmp, neg := decodeCond(ifi.Cond)
		if cmp == nil {
			return true
		}
		var v ssa.Value
		if isNilConst(cmp.Y) {
			v = cmp.X
		} else if isNilConst(cmp.X) {
			v = cmp.Y
		} else {
			return true
		}
		ph, ok := v.(*ssa.Phi)
		if !ok || ph.Block() != b || !isSelectResult(ph, sel, 0) {
			return true
		}
		eq := cmp.Op == token.EQL
		if neg {
			eq = !eq
		}
		nilSucc := b.Succs[1]
		if eq {
			nilSucc = b.Succs[0]
		}
		if s != nilSucc {
			return true
		}
		for i, pred := range b.Preds {
			if pred != p {
				continue
			}
			if knownNonNil(ph.Edges[i], p) {
				return false
			}
			// the edge p->b itself is the non-nil side of a test of that value
			if pif := blockIf(p); pif != nil {
				if pc, pneg := decodeCond(pif.Cond); pc != nil && (isNilConst(pc.X) || isNilConst(pc.Y)) {
					tested := pc.X
					if isNilConst(pc.X) {
						tested = pc.Y
					}
					peq := pc.Op == token.EQL
					if pneg {
						peq = !peq
					}
					nonNilSucc := p.Succs[0]
					if peq {
						nonNilSucc = p.Succs[1]
					}
					if tested == ph.Edges[i] && nonNilSucc == b {
						return false
					}
				}
			}
		}
		return true
	}
	color := map[edge]int{}
	var found *ssa.BasicBlock
	var dfs func(e edge)
	dfs = func(e edge) {
		color[e] = 1
		b := e.to
		if !cut[b] {
			for _, s := range b.Succs {
				if found != nil {
					return
				}
				if !inComp[s] || !feasible(e.from, b, s) {
					continue
				}
				ne := edge{b, s}
				switch color[ne] {
				case 1:
					found = s
					return
				case 0:
					dfs(ne)
				}
			}
		}
		color[e] = 2
	}
	for _, b := range comp {
		for _, p := range b.Preds {
			e := edge{p, b}
			if color[e] == 0 && found == nil {
				dfs(e)
			}
		}
	}
	return found
}

// globalHoldingFunc: the package-level variable (never written after
// initialisation) whose initial value is fn.
func (w *World) globalHoldingFunc(fn *ssa.Function) string {
	st := w.initState()
	for g, o := range st.globals {
		if v, ok := st.obj(o).Fields[0]; ok && v.Kind == avFunc && v.Fn == fn && w.readOnlyGlobal(g) {
			return g.Name()
		}
	}
	return ""
}
