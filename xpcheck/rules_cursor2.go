package main

// N-PEER, C07-SC, N-ITER.

import (
	"fmt"
	"go/token"
	"go/types"
	"sort"

	"golang.org/x/tools/go/ssa"
)

// peerTypes: query types built by the operator dispatch with two query-typed
// fields (the operands of a binary operator).
func (w *World) peerTypes() []*QType {
	od := w.operatorSwitch()
	if od == nil {
		return nil
	}
	seen := map[string]bool{}
	var out []*QType
	for _, tn := range od.Type {
		if tn == "" || seen[tn] {
			continue
		}
		seen[tn] = true
		qt := w.census.ByName[tn]
		if qt == nil {
			continue
		}
		n := 0
		for _, f := range qt.Fields {
			if f.IsQuery {
				n++
			}
		}
		if n == 2 {
			out = append(out, qt)
		}
	}
	sort.Slice(out, func(i, j int) bool { return out[i].Name() < out[j].Name() })
	return out
}

// derivedFromPeer: v is (derived from) the result of Evaluate/Select on field
// recv.F; returns field names.
func (w *World) peersOfValue(v ssa.Value, seen map[ssa.Value]bool) map[string]bool {
	out := map[string]bool{}
	if v == nil || seen[v] {
		return out
	}
	seen[v] = true
	switch x := strip(v).(type) {
	case *ssa.Call:
		if x.Call.IsInvoke() {
			if f, ok := recvFieldLoad(x.Call.Value); ok && w.isQueryType(f.Type()) {
				out[f.Name()] = true
			}
		}
	case *ssa.Phi:
		for _, e := range x.Edges {
			for k := range w.peersOfValue(e, seen) {
				out[k] = true
			}
		}
	case *ssa.UnOp:
		if x.Op == token.MUL {
			if a := cellOf(x.X); a != nil {
				for _, st := range cellStores(a) {
					for k := range w.peersOfValue(st.Val, seen) {
						out[k] = true
					}
				}
			}
		}
	case *ssa.MakeInterface:
		return w.peersOfValue(x.X, seen)
	case *ssa.TypeAssert:
		return w.peersOfValue(x.X, seen)
	case *ssa.Extract:
		return w.peersOfValue(x.Tuple, seen)
	}
	return out
}

// isScalar: static type cannot hold a lazily evaluated query.
func isScalarType(t types.Type) bool {
	_, ok := t.Underlying().(*types.Basic)
	return ok
}

func ruleNPeer(w *World, r *Report) {
	r.rule("N-PEER", "in every run-time method of a binary-operator query, between a use of one operand (Select, an Evaluate whose result is used, or a call receiving a possibly lazy value obtained from it) and the next use of the other operand, the context cursor is restored: t.Current().MoveTo(s) with s = t.Current().Copy() taken before the first use. A call that receives possibly lazy values of both operands at once cannot restore between them and is a violation")
	sel, ev := w.selectMethod(), w.evaluateMethod()
	pts := w.peerTypes()
	if len(pts) < 3 {
		r.bad("ANCHOR", "N-PEER", "", fmt.Sprintf("found %d binary-operator query types", len(pts)))
		return
	}
	for _, qt := range pts {
		for _, mname := range []string{sel, ev} {
			fn := qt.Methods[mname]
			if fn == nil {
				continue
			}
			w.checkPeerMethod(r, qt, fn, sel, ev)
		}
	}
}

func (w *World) checkPeerMethod(r *Report, qt *QType, fn *ssa.Function, sel, ev string) {
	// events
	type event struct {
		in    ssa.Instruction
		peers map[string]bool
	}
	events := map[ssa.Instruction]map[string]bool{}
	restores := map[ssa.Instruction]bool{}
	var firstEvent ssa.Instruction
	for _, b := range fn.Blocks {
		for _, in := range b.Instrs {
			ci, ok := in.(ssa.CallInstruction)
			if !ok {
				continue
			}
			cc := ci.Common()
			ps := map[string]bool{}
			if cc.IsInvoke() {
				if f, ok := recvFieldLoad(cc.Value); ok && w.isQueryType(f.Type()) {
					m := cc.Method.Name()
					if m == sel {
						ps[f.Name()] = true
					} else if m == ev {
						if v, ok := in.(ssa.Value); ok {
							used := false
							for _, u := range uses(v) {
								if _, isDbg := u.(*ssa.DebugRef); !isDbg {
									used = true
								}
							}
							if used {
								ps[f.Name()] = true
							}
						}
					}
				}
				// restore: t.Current().MoveTo(copy of t.Current())
				if w.isContextRegister(cc.Value) && w.navMethodClass(cc.Method.Name()) == "move" && len(cc.Args) == 1 {
					if cp, ok := resolveNav(w, cc.Args[0]).(*ssa.Call); ok && cp.Call.IsInvoke() && w.navMethodClass(cp.Call.Method.Name()) == "copy" && w.isContextRegister(cp.Call.Value) {
						restores[in] = true
					}
				}
			}
			// calls receiving possibly lazy values derived from peers
			for _, a := range cc.Args {
				if isScalarType(a.Type()) {
					continue
				}
				for k := range w.peersOfValue(a, map[ssa.Value]bool{}) {
					ps[k] = true
				}
			}
			if len(ps) > 0 {
				events[in] = ps
				if firstEvent == nil {
					firstEvent = in
				}
			}
		}
	}
	if len(events) == 0 {
		return
	}
	r.FuncsAnalysed[fnName(fn)] = true
	key := fmt.Sprintf("%s.%s", qt.Name(), fn.Name())
	// restores must use a copy taken before the first event on every path
	for in := range restores {
		cc := in.(ssa.CallInstruction).Common()
		cp := resolveNav(w, cc.Args[0]).(*ssa.Call)
		for e := range events {
			if reachesInstr(e, cp) && !instrDominates(cp, e) {
				// the copy can be taken after an operand was used
				delete(restores, in)
			}
		}
	}
	// forward may-dirty data-flow
	type state map[string]bool
	in := map[*ssa.BasicBlock]state{}
	out := map[*ssa.BasicBlock]state{}
	for _, b := range fn.Blocks {
		in[b], out[b] = state{}, state{}
	}
	var viol []string
	var violPos ssa.Instruction
	run := func(report bool) bool {
		changed := false
		for _, b := range fn.Blocks {
			cur := state{}
			for _, p := range b.Preds {
				for k := range out[p] {
					cur[k] = true
				}
			}
			in[b] = cur
			s := state{}
			for k := range cur {
				s[k] = true
			}
			for _, ins := range b.Instrs {
				if restores[ins] {
					s = state{}
					continue
				}
				ps, ok := events[ins]
				if !ok {
					continue
				}
				if report {
					if len(ps) > 1 {
						viol = append(viol, fmt.Sprintf("%s receives possibly lazy values of both operands %v: they are pulled interleaved on one context cursor", ins, sortedKeys(ps)))
						violPos = ins
					} else {
						for k := range s {
							if !ps[k] {
								viol = append(viol, fmt.Sprintf("operand %v is used at %s after operand %s moved the context cursor, with no restore in between", sortedKeys(ps), w.instrPos(ins), k))
								violPos = ins
							}
						}
					}
				}
				for k := range ps {
					s[k] = true
				}
			}
			if len(s) != len(out[b]) {
				changed = true
			}
			out[b] = s
		}
		return changed
	}
	for run(false) {
	}
	run(true)
	if len(viol) == 0 {
		r.ok("N-PEER", key, w.pos(fn.Pos()), fmt.Sprintf("%d operand uses; the context is restored from a saved copy between the operands", len(events)))
	} else if w.allMoversRestore() {
		r.ok("N-PEER", key, w.pos(fn.Pos()), fmt.Sprintf("%d operand uses with no explicit restore between them; sound because every function that moves the context cursor restores it before returning (N-RESTORE holds package-wide)", len(events)))
	} else {
		r.bad("N-PEER", key, w.instrPos(violPos), fmt.Sprintf("%s.%s: %s — the second operand is evaluated relative to wherever the first one left the shared context cursor", qt.Name(), fn.Name(), dedup(viol)[0]))
	}
}

// reachesInstr: b can execute after a.
func reachesInstr(a, b ssa.Instruction) bool {
	if a.Block() == b.Block() && instrIndex(a) < instrIndex(b) {
		return true
	}
	for _, s := range a.Block().Succs {
		if reachableFrom(s, nil)[b.Block()] {
			return true
		}
	}
	return false
}

// ---------- C07-SC ----------

func ruleShortCircuit(w *World, r *Report) {
	r.rule("C07-SC", "and/or: the left operand is converted with the truth conversion; the right operand is evaluated exactly when (or & !left) or (and & left), otherwise the constant or=>true / and=>false is returned; the final value is the truth conversion of the right operand")
	ev := w.evaluateMethod()
	var bq *QType
	for _, qt := range w.peerTypes() {
		for _, f := range qt.Fields {
			if b, ok := f.Var.Type().Underlying().(*types.Basic); ok && b.Kind() == types.Bool && f.Role == RoleConfig {
				bq = qt
			}
		}
	}
	if bq == nil {
		r.bad("ANCHOR", "C07-SC", "", "and/or query type not found")
		return
	}
	fn := bq.Methods[ev]
	if fn == nil {
		r.bad("ANCHOR", "C07-SC", "", "and/or query has no Evaluate")
		return
	}
	r.FuncsAnalysed[fnName(fn)] = true
	// operand evaluations and their truth conversions
	var evals []*ssa.Call
	eachInstr(fn, false, func(_ *ssa.Function, in ssa.Instruction) {
		if c, ok := in.(*ssa.Call); ok && c.Call.IsInvoke() && c.Call.Method.Name() == ev {
			if f, ok := recvFieldLoad(c.Call.Value); ok && w.isQueryType(f.Type()) {
				evals = append(evals, c)
			}
		}
	})
	if len(evals) != 2 {
		r.undec("C07-SC", bq.Name(), w.pos(fn.Pos()), fmt.Sprintf("%d operand evaluations found", len(evals)))
		return
	}
	first, second := evals[0], evals[1]
	if !instrDominates(first, second) {
		first, second = second, first
	}
	truthOf := func(c *ssa.Call) *ssa.Call {
		for _, u := range uses(c) {
			if t, ok := u.(*ssa.Call); ok && t.Call.StaticCallee() != nil && w.inPkg(t.Call.StaticCallee()) {
				if b, ok := t.Type().(*types.Basic); ok && b.Kind() == types.Bool {
					return t
				}
			}
		}
		return nil
	}
	lt, rt := truthOf(first), truthOf(second)
	if lt == nil || rt == nil || lt.Call.StaticCallee() != rt.Call.StaticCallee() {
		r.bad("C07-SC", bq.Name()+":truth", w.pos(fn.Pos()), "the operands of and/or are not both converted with the same truth conversion")
		return
	}
	r.ok("C07-SC", bq.Name()+":truth", w.instrPos(lt), "both operands pass through "+lt.Call.StaticCallee().Name())
	// operand order: first evaluated operand is the left one built from root.Left
	// (field order in the operator literal is checked by A-OPS/B-ARGS); here: symbolic table
	var flagField *types.Var
	for _, f := range bq.Fields {
		if b, ok := f.Var.Type().Underlying().(*types.Basic); ok && b.Kind() == types.Bool && f.Role == RoleConfig {
			flagField = f.Var
		}
	}
	// the decision table, by constant propagation through Evaluate: the flag and
	// the truth of the left operand are constants, the right operand's
	// evaluation is recorded ("right" when its truth value is what is returned)
	lfv, _ := recvFieldLoad(first.Call.Value)
	rfv, _ := recvFieldLoad(second.Call.Value)
	truthFn := lt.Call.StaticCallee()
	simulate := func(flag, left bool) string {
		st := w.initState()
		obj := st.newObj(bq.Named, nil)
		obj.Extern = true
		bst := bq.Named.Underlying().(*types.Struct)
		for i := 0; i < bst.NumFields(); i++ {
			switch bst.Field(i) {
			case flagField:
				obj.Fields[i] = aBool(flag)
			case lfv:
				obj.Fields[i] = AVal{Kind: avUnknown, Tag: "L"}
			case rfv:
				obj.Fields[i] = AVal{Kind: avUnknown, Tag: "R"}
			}
		}
		var hooks AHooks
		hooks.Call = func(ai *AInterp, s2 *AState, site ssa.CallInstruction, callee *ssa.Function, args []AVal) (bool, AVal) {
			if site.Common().IsInvoke() && site.Common().Method.Name() == ev && len(args) > 0 {
				switch args[0].Tag {
				case "L":
					return true, AVal{Kind: avUnknown, Tag: "lval"}
				case "R":
					return true, AVal{Kind: avUnknown, Tag: "rval"}
				}
			}
			if callee == truthFn && len(args) == 2 {
				switch args[1].Tag {
				case "lval":
					return true, aBool(left)
				case "rval":
					return true, AVal{Kind: avUnknown, Tag: "truth(right)"}
				}
			}
			return false, AVal{}
		}
		ai := w.newInterp(hooks)
		outs := ai.Exec(fn, []AVal{{Kind: avPtr, Obj: obj, Field: -1}, {Kind: avUnknown, Tag: "t"}}, nil, st)
		res := ""
		for _, o := range outs {
			got := "?"
			switch {
			case o.Cut || o.Panicked:
			case o.Ret.Tag == "truth(right)":
				got = "right"
			default:
				if bv, ok := o.Ret.Bool(); ok {
					if bv {
						got = "true"
					} else {
						got = "false"
					}
				}
			}
			if res != "" && res != got {
				return "?"
			}
			res = got
		}
		if res == "" {
			return "?"
		}
		return res
	}
	want := map[[2]bool]string{{true, true}: "true", {true, false}: "right", {false, true}: "right", {false, false}: "false"}
	okAll := true
	detail := ""
	for _, fl := range []bool{true, false} {
		for _, lf := range []bool{true, false} {
			got := simulate(fl, lf)
			detail += fmt.Sprintf("(or=%v,left=%v)->%s ", fl, lf, got)
			if got != want[[2]bool{fl, lf}] {
				okAll = false
			}
		}
	}
	if okAll {
		r.ok("C07-SC", bq.Name()+":table", w.pos(fn.Pos()), detail)
	} else {
		r.bad("C07-SC", bq.Name()+":table", w.pos(fn.Pos()), "and/or decision table is "+detail+"; XPath: or&left=>true, and&!left=>false, otherwise the right operand decides")
	}
	// final value = truth(right)
	okFinal := false
	for _, b := range fn.Blocks {
		if ret, ok := normalReturn(b); ok {
			v := strip(retVal(ret, 0))
			if mi, ok := v.(*ssa.MakeInterface); ok {
				v = mi.X
			}
			if v == ssa.Value(rt) {
				okFinal = true
			}
		}
	}
	if okFinal {
		r.ok("C07-SC", bq.Name()+":final", w.instrPos(rt), "the result is the truth value of the right operand")
	} else {
		r.bad("C07-SC", bq.Name()+":final", w.instrPos(rt), "the value returned after evaluating the right operand is not its truth value")
	}
	// the flag is "or": checked by A-OPS/or-and. Operand order: the operand
	// evaluated first is the field that receives root.Left.
	lf, _ := recvFieldLoad(first.Call.Value)
	if left := w.leftFieldOf(bq); left != "" {
		if lf != nil && lf.Name() == left {
			r.ok("C07-SC", bq.Name()+":order", w.instrPos(first), "the operand built from the left sub-expression is evaluated first")
		} else {
			r.bad("C07-SC", bq.Name()+":order", w.instrPos(first), "the right-hand operand is evaluated first: and/or do not evaluate left to right")
		}
	}
}

// leftFieldOf: the field of the operator literal that receives the query
// built from the operator node's first child.
func (w *World) leftFieldOf(qt *QType) string {
	od := w.operatorSwitch()
	if od == nil {
		return ""
	}
	return od.Left[qt.Name()]
}

// ---------- N-ITER ----------

func ruleNIter(w *World, r *Report) {
	r.rule("N-ITER", "(1) NodeIterator.MoveNext followed by constant propagation for its three cases: the query is exhausted => false and the held node untouched; the query yields n and the held navigator can be moved there => MoveTo(n), true; it cannot => the held navigator is replaced by n.Copy() (never by n itself), true; the node is pulled from the iterator's own query with the iterator as context; (2) every constructor of NodeIterator takes its query from a Clone() of the compiled tree and its node from the caller's navigator; (3) the context-reading leaf queries followed through their life cycle: a fresh one yields the context once, asked again it answers nil and keeps answering nil, Evaluate re-arms it")
	it, qi, ni, err := w.iterStruct()
	if err != nil {
		r.bad("ANCHOR", "N-ITER", "", err.Error())
		return
	}
	mn := w.methodOf(it, "MoveNext")
	if mn == nil {
		r.bad("ANCHOR", "N-ITER", "", "MoveNext not found")
		return
	}
	r.FuncsAnalysed[fnName(mn)] = true
	sel := w.selectMethod()
	w.checkMoveNextAI(r, it, qi, ni, mn)
	// (2) constructors
	en, qidx, _ := w.exprStruct()
	ncons := 0
	for _, fn := range w.AllFuncs {
		eachInstr(fn, false, func(_ *ssa.Function, in ssa.Instruction) {
			a, ok := in.(*ssa.Alloc)
			if !ok {
				return
			}
			pt, _ := a.Type().(*types.Pointer)
			if pt == nil || pt.Elem() != types.Type(it) {
				return
			}
			ncons++
			r.FuncsAnalysed[fnName(fn)] = true
			var qv, nv ssa.Value
			for _, u := range uses(a) {
				if fa, ok := u.(*ssa.FieldAddr); ok {
					for _, uu := range uses(fa) {
						if st, ok := uu.(*ssa.Store); ok {
							if fa.Field == qi {
								qv = st.Val
							}
							if fa.Field == ni {
								nv = st.Val
							}
						}
					}
				}
			}
			key := fnName(fn) + ":NodeIterator"
			// a value handed to an unexported constructor helper is judged at every
			// place the helper is called from
			var atCallers func(v ssa.Value, depth int, judge func(v ssa.Value, depth int) bool) bool
			atCallers = func(v ssa.Value, depth int, judge func(v ssa.Value, depth int) bool) bool {
				p, ok := resolve(v).(*ssa.Parameter)
				if !ok || depth > 2 {
					return false
				}
				h := p.Parent()
				if h == nil || h.Parent() != nil || (h.Object() != nil && h.Object().Exported()) {
					return false
				}
				idx := -1
				for i, q := range h.Params {
					if q == p {
						idx = i
					}
				}
				n := w.CG.Nodes[h]
				if idx < 0 || n == nil || len(n.In) == 0 {
					return false
				}
				for _, ed := range n.In {
					if ed.Site == nil || ed.Site.Common().StaticCallee() != h || idx >= len(ed.Site.Common().Args) {
						return false
					}
					if !judge(ed.Site.Common().Args[idx], depth+1) {
						return false
					}
				}
				return true
			}
			var judgeQ, judgeN func(v ssa.Value, depth int) bool
			judgeQ = func(v ssa.Value, depth int) bool {
				if c, ok := resolve(v).(*ssa.Call); ok && w.isCloneCall(c) {
					if ld, ok := c.Call.Value.(*ssa.UnOp); ok {
						if fa, ok := ld.X.(*ssa.FieldAddr); ok && structOfAddr(fa) == en && fa.Field == qidx && isRecv(fa.X) {
							return true
						}
					}
					// the clone taken inside the helper of a query handed in
					if atCallers(c.Call.Value, depth, func(v2 ssa.Value, d int) bool {
						if ld, ok := resolve(v2).(*ssa.UnOp); ok {
							if fa, ok := ld.X.(*ssa.FieldAddr); ok && structOfAddr(fa) == en && fa.Field == qidx && isRecv(fa.X) {
								return true
							}
						}
						return false
					}) {
						return true
					}
				}
				return atCallers(v, depth, judgeQ)
			}
			judgeN = func(v ssa.Value, depth int) bool {
				if p, ok := resolve(v).(*ssa.Parameter); ok && w.isNavType(p.Type()) {
					if h := p.Parent(); h != nil && h.Object() != nil && h.Object().Exported() {
						return true
					}
					return atCallers(v, depth, judgeN)
				}
				if cp, ok := resolve(v).(*ssa.Call); ok && cp.Call.IsInvoke() && w.navMethodClass(cp.Call.Method.Name()) == "copy" {
					return judgeN(cp.Call.Value, depth+1)
				}
				return false
			}
			okq := qv != nil && judgeQ(qv, 0)
			okn := nv != nil && judgeN(nv, 0)
			if okq && okn {
				r.ok("N-ITER", key, w.instrPos(a), "query = expr.q.Clone(), node = the caller's navigator (or a copy of it)")
			} else {
				r.bad("N-ITER", key, w.instrPos(a), fmt.Sprintf("the iterator is not built from (a clone of the expression's own query, the caller's navigator): query ok=%v node ok=%v — Evaluate and Select would iterate different things", okq, okn))
			}
		})
	}
	// every exported method of the expression type that can hand out an
	// iterator either constructs one (judged above) or obtains it from a
	// function that does
	cons := map[*ssa.Function]bool{}
	for _, fn := range w.AllFuncs {
		eachInstr(fn, false, func(_ *ssa.Function, in ssa.Instruction) {
			if a, ok := in.(*ssa.Alloc); ok {
				if pt, _ := a.Type().(*types.Pointer); pt != nil && pt.Elem() == types.Type(it) {
					cons[fn] = true
				}
			}
		})
	}
	entries := 0
	for _, fn := range w.AllFuncs {
		if fn.Parent() != nil || fn.Signature.Recv() == nil || fn.Object() == nil || !fn.Object().Exported() {
			continue
		}
		if n, ok := derefNamed(fn.Signature.Recv().Type()); !ok || n != en {
			continue
		}
		if fn.Signature.Params().Len() != 1 || !w.isNavType(fn.Signature.Params().At(0).Type()) {
			continue
		}
		reaches := cons[fn]
		for _, c := range w.pkgCallees(fn) {
			if cons[c] {
				reaches = true
			}
		}
		if reaches {
			entries++
		}
	}
	if ncons < 1 || entries < 2 {
		r.bad("N-ITER", "constructors", "", fmt.Sprintf("%d NodeIterator constructors serving %d entry points found, expected Select and Evaluate to build their iterator (directly or through one constructor)", ncons, entries))
	}
	// (3) leaf producers
	for _, qt := range w.census.Types {
		hasQ := false
		for _, f := range qt.Fields {
			if f.IsQuery {
				hasQ = true
			}
		}
		fn := qt.Methods[sel]
		if hasQ || fn == nil {
			continue
		}
		usesCtx := false
		eachInstr(fn, false, func(_ *ssa.Function, in ssa.Instruction) {
			if c, ok := in.(*ssa.Call); ok && w.isContextRegister(c) {
				usesCtx = true
			}
		})
		if !usesCtx {
			continue
		}
		r.FuncsAnalysed[fnName(fn)] = true
		w.checkLeafProtocolAI(r, qt, fn)
	}
}

// ---------- N-RESTORE ----------

type ctxMove struct {
	in      ssa.Instruction
	restore bool
	copy    *ssa.Call
}

// ctxMoves lists the MoveTo calls on the context register in fn.
func (w *World) ctxMoves(fn *ssa.Function) []*ctxMove {
	var out []*ctxMove
	for _, b := range fn.Blocks {
		for _, in := range b.Instrs {
			ci, ok := in.(ssa.CallInstruction)
			if !ok {
				continue
			}
			cc := ci.Common()
			if !cc.IsInvoke() || !w.isContextRegister(cc.Value) || w.navMethodClass(cc.Method.Name()) != "move" {
				continue
			}
			m := &ctxMove{in: in}
			if len(cc.Args) == 1 {
				if cp, ok := resolveNav(w, cc.Args[0]).(*ssa.Call); ok && cp.Call.IsInvoke() && w.navMethodClass(cp.Call.Method.Name()) == "copy" && w.isContextRegister(cp.Call.Value) && cp.Parent() == fn {
					m.restore = true
					m.copy = cp
				} else if p, ok := resolveNav(w, cc.Args[0]).(*ssa.Parameter); ok && p.Parent() == fn && w.paramIsCleanContextCopy(p) {
					// the saved context handed in by the caller (a helper that does
					// one operand's work between the caller's save and its own restore)
					m.restore = true
				}
			}
			out = append(out, m)
		}
	}
	return out
}

// restoreDiscipline: (ok, explanation, offending instruction)
func (w *World) restoreDiscipline(fn *ssa.Function) (bool, string, ssa.Instruction) {
	moves := w.ctxMoves(fn)
	if len(moves) == 0 {
		return true, "", nil
	}
	byInstr := map[ssa.Instruction]*ctxMove{}
	for _, m := range moves {
		byInstr[m.in] = m
	}
	// a "restore" whose copy was taken while the register was moved is a move
	for iter := 0; iter < 4; iter++ {
		dirtyIn := map[*ssa.BasicBlock]bool{}
		dirtyOut := map[*ssa.BasicBlock]bool{}
		dirtyAt := map[ssa.Instruction]bool{}
		changed := true
		for changed {
			changed = false
			for _, b := range fn.Blocks {
				d := false
				for _, p := range b.Preds {
					if dirtyOut[p] {
						d = true
					}
				}
				dirtyIn[b] = d
				for _, in := range b.Instrs {
					dirtyAt[in] = d
					if m, ok := byInstr[in]; ok {
						d = !m.restore
					}
				}
				if d != dirtyOut[b] {
					dirtyOut[b] = d
					changed = true
				}
			}
		}
		demoted := false
		for _, m := range moves {
			if m.restore && m.copy != nil && dirtyAt[m.copy] {
				m.restore = false
				demoted = true
			}
		}
		if demoted {
			continue
		}
		for _, b := range fn.Blocks {
			ret, ok := normalReturn(b)
			if !ok {
				continue
			}
			if dirtyAt[ret] {
				return false, "a return is reached with the context cursor still moved", ret
			}
		}
		// closures created while dirty would run with a moved context later: not used by the package
		return true, fmt.Sprintf("%d moves of the context cursor, all undone before every return", len(moves)), nil
	}
	return false, "restore analysis did not converge", moves[0].in
}

func ruleNRestore(w *World, r *Report) {
	r.rule("N-RESTORE", "every run-time function that moves the evaluation's context cursor (t.Current().MoveTo(x)) puts it back before every normal return: the last move on every path is MoveTo(s) with s = t.Current().Copy() taken while the cursor was still where the caller left it. Hence every Select/Evaluate call returns with the context where it found it, and operands, arguments and later steps are all evaluated relative to the same context node")
	n := 0
	allOK := true
	for _, fn := range w.AllFuncs {
		if !w.RunTime[fn] {
			continue
		}
		if len(w.ctxMoves(fn)) == 0 {
			continue
		}
		n++
		r.FuncsAnalysed[fnName(fn)] = true
		ok, why, at := w.restoreDiscipline(fn)
		if ok {
			r.ok("N-RESTORE", fnName(fn), w.pos(fn.Pos()), why)
		} else {
			allOK = false
			r.bad("N-RESTORE", fnName(fn), w.instrPos(at), fmt.Sprintf("%s moves the shared context cursor and %s: whatever is evaluated next relative to the context node (the other operand, the next argument, a later step) is evaluated relative to the wrong node", fnName(fn), why))
		}
	}
	if n < 3 {
		r.bad("N-RESTORE", "sites", "", fmt.Sprintf("only %d functions move the context cursor; the predicate filter, the merge step and the operand save/restore sites were expected", n))
	}
	// any other mutation of the context register is decided by N-OWN
	_ = allOK
}

func (w *World) allMoversRestore() bool {
	for _, fn := range w.AllFuncs {
		if !w.RunTime[fn] || len(w.ctxMoves(fn)) == 0 {
			continue
		}
		if ok, _, _ := w.restoreDiscipline(fn); !ok {
			return false
		}
	}
	return true
}

// checkMoveNextAI follows MoveNext (and whatever helpers it calls) by
// constant propagation for the three things that can happen: the query is
// exhausted; it yields a node and the held navigator can be moved there; it
// yields a node and the held navigator cannot be moved there.
func (w *World) checkMoveNextAI(r *Report, it *types.Named, qi, ni int, mn *ssa.Function) {
	sel := w.selectMethod()
	pos := w.pos(mn.Pos())
	type outcome struct {
		ret       AVal
		node      AVal // what the node field holds afterwards
		movedHeld bool // MoveTo(n) was called on the held navigator
		selArgIt  bool // Select was called on the iterator's query with the iterator itself as context
		otherMove bool // some other moving call on the held navigator or on n
		cut       bool
		panicked  bool
	}
	run := func(exhausted, moveOK bool) []outcome {
		st := w.initState()
		itObj := st.newObj(it, nil)
		itObj.Extern = true
		itObj.Fields[qi] = AVal{Kind: avUnknown, Tag: "Q"}
		held := st.newObj(nil, nil)
		held.Extern = true
		itObj.Fields[ni] = AVal{Kind: avPtr, Obj: held, Field: -1, Tag: "held"}
		nObj := st.newObj(nil, nil)
		nObj.Extern = true
		var hooks AHooks
		hooks.Call = func(ai *AInterp, s2 *AState, site ssa.CallInstruction, callee *ssa.Function, args []AVal) (bool, AVal) {
			com := site.Common()
			if !com.IsInvoke() || len(args) == 0 {
				return false, AVal{}
			}
			m := com.Method.Name()
			switch {
			case args[0].Tag == "Q" && m == sel:
				ok := len(args) == 2 && args[1].Kind == avPtr && args[1].Obj != nil && args[1].Obj.ID == itObj.ID
				s2.Trace = append(s2.Trace, AEvent{Kind: "select", Taken: ok})
				if exhausted {
					return true, AVal{Kind: avNil}
				}
				return true, AVal{Kind: avPtr, Obj: nObj, Field: -1, Tag: "n"}
			case args[0].Tag == "held" && m == "MoveTo" && len(args) == 2 && args[1].Tag == "n":
				s2.Trace = append(s2.Trace, AEvent{Kind: "moveto"})
				return true, aBool(moveOK)
			case args[0].Tag == "n" && w.navMethodClass(m) == "copy":
				c := s2.newObj(nil, nil)
				return true, AVal{Kind: avPtr, Obj: c, Field: -1, Tag: "copy-of-n"}
			case (args[0].Tag == "held" || args[0].Tag == "n") && w.navMethodClass(m) == "move":
				s2.Trace = append(s2.Trace, AEvent{Kind: "othermove", Name: m})
				return true, aUnknown(nil)
			}
			return false, AVal{}
		}
		ai := w.newInterp(hooks)
		var outs []outcome
		for _, o := range ai.Exec(mn, []AVal{{Kind: avPtr, Obj: itObj, Field: -1}}, nil, st) {
			oc := outcome{ret: o.Ret, cut: o.Cut, panicked: o.Panicked}
			oc.node = o.St.obj(itObj).Fields[ni]
			for _, ev := range o.St.Trace {
				switch ev.Kind {
				case "select":
					oc.selArgIt = ev.Taken
				case "moveto":
					oc.movedHeld = true
				case "othermove":
					oc.otherMove = true
				}
			}
			outs = append(outs, oc)
		}
		return outs
	}
	judge := func(key, what string, outs []outcome, good func(o outcome) string, okText string) {
		if len(outs) == 0 {
			r.undec("N-ITER", key, pos, "MoveNext could not be followed ("+what+")")
			return
		}
		for _, o := range outs {
			if o.cut {
				r.undec("N-ITER", key, pos, "a path of MoveNext could not be followed to its end ("+what+")")
				return
			}
			if o.panicked {
				r.bad("N-ITER", key, pos, what+": MoveNext panics")
				return
			}
			if why := good(o); why != "" {
				r.bad("N-ITER", key, pos, what+": "+why)
				return
			}
		}
		r.ok("N-ITER", key, pos, okText)
	}
	ex := run(true, false)
	judge("MoveNext:select", "any call", ex, func(o outcome) string {
		if !o.selArgIt {
			return "MoveNext does not pull the next node from the iterator's own query with the iterator itself as context"
		}
		return ""
	}, "pulls the next node from the iterator's own query, passing itself as context")
	judge("MoveNext:false", "the query is exhausted", ex, func(o outcome) string {
		if b, ok := o.ret.Bool(); !ok || b {
			return "MoveNext does not return false"
		}
		if o.node.Tag != "held" || o.movedHeld || o.otherMove {
			return "the iterator's node is modified on the exhausted path"
		}
		return ""
	}, "false exactly when the query is exhausted; the node is untouched")
	var yes []outcome
	yes = append(yes, run(false, true)...)
	nMoved := len(yes)
	yes = append(yes, run(false, false)...)
	i := 0
	judge("MoveNext:true", "the query yields a node", yes, func(o outcome) string {
		moveOK := i < nMoved
		i++
		if b, ok := o.ret.Bool(); !ok || !b {
			return "MoveNext can return false although the query produced a node"
		}
		if o.otherMove {
			return "the held navigator or the producer's cursor is moved about by something other than MoveTo(n)"
		}
		if moveOK {
			if !o.movedHeld || o.node.Tag != "held" {
				if o.node.Tag == "n" {
					return "the iterator aliases the producer's cursor: Current() changes under the caller when the query moves on"
				}
				if !o.movedHeld {
					return "Current() is not positioned on the node just reported (no node.MoveTo(n) on the way to `return true`)"
				}
			}
			return ""
		}
		switch o.node.Tag {
		case "copy-of-n":
			return ""
		case "n":
			return "when MoveTo fails the iterator keeps the producer's own cursor instead of a private copy: Current() changes under the caller"
		}
		return "when MoveTo fails the iterator does not take a private copy of the reported node: Current() is not the node just reported"
	}, "node.MoveTo(n), falling back to node = n.Copy(); never aliased with the producer's cursor")
}

// checkLeafProtocolAI follows a context-reading leaf query by constant
// propagation through the life cycle the evaluator puts it through: a fresh
// object yields the context once; asked again it answers nil, and keeps
// answering nil; Evaluate re-arms it. Whatever field and representation the
// guard uses.
func (w *World) checkLeafProtocolAI(r *Report, qt *QType, selFn *ssa.Function) {
	key := qt.Name() + ":once"
	pos := w.pos(selFn.Pos())
	evFn := qt.Methods[w.evaluateMethod()]
	st := w.initState()
	obj := st.newObj(qt.Named, nil)
	for i := range qt.Fields {
		_ = i
	}
	stt := qt.Named.Underlying().(*types.Struct)
	for i := 0; i < stt.NumFields(); i++ {
		obj.Fields[i] = zeroAVal(stt.Field(i).Type())
	}
	ctx := st.newObj(nil, nil)
	ctx.Extern = true
	var hooks AHooks
	hooks.Call = func(ai *AInterp, s2 *AState, site ssa.CallInstruction, callee *ssa.Function, args []AVal) (bool, AVal) {
		com := site.Common()
		if !com.IsInvoke() || len(args) == 0 {
			return false, AVal{}
		}
		m := com.Method.Name()
		switch {
		case args[0].Tag == "iter" && m == "Current":
			return true, AVal{Kind: avPtr, Obj: ctx, Field: -1, Tag: "ctx"}
		case w.navMethodClass(m) == "copy":
			c := s2.newObj(nil, nil)
			return true, AVal{Kind: avPtr, Obj: c, Field: -1, Tag: "copy"}
		case w.navMethodClass(m) == "move":
			return true, aUnknown(nil)
		}
		return false, AVal{}
	}
	recv := AVal{Kind: avPtr, Obj: obj, Field: -1}
	iter := AVal{Kind: avUnknown, Tag: "iter"}
	type stepRes struct {
		st  *AState
		nil bool
	}
	step := func(from []*AState, fn *ssa.Function, what string) ([]stepRes, string) {
		var out []stepRes
		for _, s0 := range from {
			ai := w.newInterp(hooks)
			for _, o := range ai.Exec(fn, []AVal{recv, iter}, nil, s0.fork()) {
				if o.Cut {
					return nil, what + ": a path could not be followed"
				}
				if o.Panicked {
					return nil, what + ": panics"
				}
				out = append(out, stepRes{o.St, o.Ret.Kind == avNil})
			}
		}
		if len(out) == 0 {
			return nil, what + ": not followed"
		}
		return out, ""
	}
	states := func(rs []stepRes) []*AState {
		var o []*AState
		for _, x := range rs {
			o = append(o, x.st)
		}
		return o
	}
	first, why := step([]*AState{st}, selFn, "first Select")
	if why != "" {
		r.undec("N-ITER", key, pos, qt.Name()+": "+why)
		return
	}
	for _, x := range first {
		if x.nil {
			r.bad("N-ITER", key, pos, qt.Name()+": a fresh producer does not yield the context node (it answers nil at once): the context node is produced never")
			return
		}
	}
	second, why := step(states(first), selFn, "second Select")
	if why != "" {
		r.undec("N-ITER", key, pos, qt.Name()+": "+why)
		return
	}
	for _, x := range second {
		if !x.nil {
			r.bad("N-ITER", key, pos, qt.Name()+": asked a second time the producer hands out the context node again (it is not marked as consumed): MoveNext never turns false / nodes repeat — the context node is produced more than once")
			return
		}
	}
	third, why := step(states(second), selFn, "third Select")
	if why != "" {
		r.undec("N-ITER", key, pos, qt.Name()+": "+why)
		return
	}
	for _, x := range third {
		if !x.nil {
			r.bad("N-ITER", key, pos, qt.Name()+": after it has answered nil the producer hands out the context node again (the guard is re-armed on the path that reports exhaustion), so an iterator that was asked once more after MoveNext returned false restarts (from the node it reported last)")
			return
		}
	}
	if evFn != nil {
		rearmed, why := step(states(third), evFn, "Evaluate")
		if why == "" {
			var again []stepRes
			again, why = step(states(rearmed), selFn, "Select after Evaluate")
			if why == "" {
				for _, x := range again {
					if x.nil {
						r.bad("N-ITER", key, pos, qt.Name()+": Evaluate does not re-arm the producer: the next evaluation of the expression finds it exhausted")
						return
					}
				}
			}
		}
		if why != "" {
			r.undec("N-ITER", key, pos, qt.Name()+": "+why)
			return
		}
	}
	r.ok("N-ITER", key, pos, "yields the context once, then nil until Evaluate re-arms it")
}

// zeroAVal: the zero value of a field type, as far as the interpreter models it.
func zeroAVal(t types.Type) AVal {
	switch u := t.Underlying().(type) {
	case *types.Basic:
		switch {
		case u.Info()&types.IsBoolean != 0:
			return aBool(false)
		case u.Info()&types.IsInteger != 0:
			return aInt(0)
		case u.Info()&types.IsString != 0:
			return aStr("")
		}
	case *types.Pointer, *types.Interface, *types.Map, *types.Slice, *types.Signature, *types.Chan:
		return AVal{Kind: avNil}
	}
	return aUnknown(nil)
}

// paramIsCleanContextCopy: at every call of p's function (all static, in the
// package) the argument for p is t.Current().Copy() taken in the caller, and the
// caller does not itself move the context register (so the copy was taken with
// the context where the caller found it).
func (w *World) paramIsCleanContextCopy(p *ssa.Parameter) bool {
	fn := p.Parent()
	idx := paramIndex(fn, p)
	n := w.CG.Nodes[fn]
	if idx < 0 || n == nil || len(n.In) == 0 {
		return false
	}
	for _, e := range n.In {
		if e.Site == nil || e.Site.Common().StaticCallee() != fn {
			return false
		}
		args := e.Site.Common().Args
		if idx >= len(args) {
			return false
		}
		caller := e.Site.Parent()
		cp, ok := resolveNav(w, args[idx]).(*ssa.Call)
		if !ok || !cp.Call.IsInvoke() || w.navMethodClass(cp.Call.Method.Name()) != "copy" || !w.isContextRegister(cp.Call.Value) || cp.Parent() != caller {
			return false
		}
		for _, b := range caller.Blocks {
			for _, in := range b.Instrs {
				if ci, ok := in.(ssa.CallInstruction); ok {
					cc := ci.Common()
					if cc.IsInvoke() && w.isContextRegister(cc.Value) && w.navMethodClass(cc.Method.Name()) == "move" {
						return false
					}
				}
			}
		}
	}
	return true
}
