package main

// N-PEER, C07-SC, N-ITER.

import (
	"fmt"
	"go/constant"
	"go/token"
	"go/types"
	"sort"

	"golang.org/x/tools/go/ssa"
)

// peerTypes: query types built by the operator dispatch with two query-typed
// fields (the operands of a binary operator).
func (w *World) peerTypes() []*QType {
	od := w.operatorSwitch()
	if od == nil {
		return nil
	}
	seen := map[string]bool{}
	var out []*QType
	for _, tn := range od.Type {
		if tn == "" || seen[tn] {
			continue
		}
		seen[tn] = true
		qt := w.census.ByName[tn]
		if qt == nil {
			continue
		}
		n := 0
		for _, f := range qt.Fields {
			if f.IsQuery {
				n++
			}
		}
		if n == 2 {
			out = append(out, qt)
		}
	}
	sort.Slice(out, func(i, j int) bool { return out[i].Name() < out[j].Name() })
	return out
}

// derivedFromPeer: v is (derived from) the result of Evaluate/Select on field
// recv.F; returns field names.
func (w *World) peersOfValue(v ssa.Value, seen map[ssa.Value]bool) map[string]bool {
	out := map[string]bool{}
	if v == nil || seen[v] {
		return out
	}
	seen[v] = true
	switch x := strip(v).(type) {
	case *ssa.Call:
		if x.Call.IsInvoke() {
			if f, ok := recvFieldLoad(x.Call.Value); ok && w.isQueryType(f.Type()) {
				out[f.Name()] = true
			}
		}
	case *ssa.Phi:
		for _, e := range x.Edges {
			for k := range w.peersOfValue(e, seen) {
				out[k] = true
			}
		}
	case *ssa.UnOp:
		if x.Op == token.MUL {
			if a := cellOf(x.X); a != nil {
				for _, st := range cellStores(a) {
					for k := range w.peersOfValue(st.Val, seen) {
						out[k] = true
					}
				}
			}
		}
	case *ssa.MakeInterface:
		return w.peersOfValue(x.X, seen)
	case *ssa.TypeAssert:
		return w.peersOfValue(x.X, seen)
	case *ssa.Extract:
		return w.peersOfValue(x.Tuple, seen)
	}
	return out
}

// isScalar: static type cannot hold a lazily evaluated query.
func isScalarType(t types.Type) bool {
	_, ok := t.Underlying().(*types.Basic)
	return ok
}

func ruleNPeer(w *World, r *Report) {
	r.rule("N-PEER", "in every run-time method of a binary-operator query, between a use of one operand (Select, an Evaluate whose result is used, or a call receiving a possibly lazy value obtained from it) and the next use of the other operand, the context cursor is restored: t.Current().MoveTo(s) with s = t.Current().Copy() taken before the first use. A call that receives possibly lazy values of both operands at once cannot restore between them and is a violation")
	sel, ev := w.selectMethod(), w.evaluateMethod()
	pts := w.peerTypes()
	if len(pts) < 3 {
		r.bad("ANCHOR", "N-PEER", "", fmt.Sprintf("found %d binary-operator query types", len(pts)))
		return
	}
	for _, qt := range pts {
		for _, mname := range []string{sel, ev} {
			fn := qt.Methods[mname]
			if fn == nil {
				continue
			}
			w.checkPeerMethod(r, qt, fn, sel, ev)
		}
	}
}

func (w *World) checkPeerMethod(r *Report, qt *QType, fn *ssa.Function, sel, ev string) {
	// events
	type event struct {
		in    ssa.Instruction
		peers map[string]bool
	}
	events := map[ssa.Instruction]map[string]bool{}
	restores := map[ssa.Instruction]bool{}
	var firstEvent ssa.Instruction
	for _, b := range fn.Blocks {
		for _, in := range b.Instrs {
			ci, ok := in.(ssa.CallInstruction)
			if !ok {
				continue
			}
			cc := ci.Common()
			ps := map[string]bool{}
			if cc.IsInvoke() {
				if f, ok := recvFieldLoad(cc.Value); ok && w.isQueryType(f.Type()) {
					m := cc.Method.Name()
					if m == sel {
						ps[f.Name()] = true
					} else if m == ev {
						if v, ok := in.(ssa.Value); ok {
							used := false
							for _, u := range uses(v) {
								if _, isDbg := u.(*ssa.DebugRef); !isDbg {
									used = true
								}
							}
							if used {
								ps[f.Name()] = true
							}
						}
					}
				}
				// restore: t.Current().MoveTo(copy of t.Current())
				if w.isContextRegister(cc.Value) && w.navMethodClass(cc.Method.Name()) == "move" && len(cc.Args) == 1 {
					if cp, ok := resolveNav(w, cc.Args[0]).(*ssa.Call); ok && cp.Call.IsInvoke() && w.navMethodClass(cp.Call.Method.Name()) == "copy" && w.isContextRegister(cp.Call.Value) {
						restores[in] = true
					}
				}
			}
			// calls receiving possibly lazy values derived from peers
			for _, a := range cc.Args {
				if isScalarType(a.Type()) {
					continue
				}
				for k := range w.peersOfValue(a, map[ssa.Value]bool{}) {
					ps[k] = true
				}
			}
			if len(ps) > 0 {
				events[in] = ps
				if firstEvent == nil {
					firstEvent = in
				}
			}
		}
	}
	if len(events) == 0 {
		return
	}
	r.FuncsAnalysed[fnName(fn)] = true
	key := fmt.Sprintf("%s.%s", qt.Name(), fn.Name())
	// restores must use a copy taken before the first event on every path
	for in := range restores {
		cc := in.(ssa.CallInstruction).Common()
		cp := resolveNav(w, cc.Args[0]).(*ssa.Call)
		for e := range events {
			if reachesInstr(e, cp) && !instrDominates(cp, e) {
				// the copy can be taken after an operand was used
				delete(restores, in)
			}
		}
	}
	// forward may-dirty data-flow
	type state map[string]bool
	in := map[*ssa.BasicBlock]state{}
	out := map[*ssa.BasicBlock]state{}
	for _, b := range fn.Blocks {
		in[b], out[b] = state{}, state{}
	}
	var viol []string
	var violPos ssa.Instruction
	run := func(report bool) bool {
		changed := false
		for _, b := range fn.Blocks {
			cur := state{}
			for _, p := range b.Preds {
				for k := range out[p] {
					cur[k] = true
				}
			}
			in[b] = cur
			s := state{}
			for k := range cur {
				s[k] = true
			}
			for _, ins := range b.Instrs {
				if restores[ins] {
					s = state{}
					continue
				}
				ps, ok := events[ins]
				if !ok {
					continue
				}
				if report {
					if len(ps) > 1 {
						viol = append(viol, fmt.Sprintf("%s receives possibly lazy values of both operands %v: they are pulled interleaved on one context cursor", ins, sortedKeys(ps)))
						violPos = ins
					} else {
						for k := range s {
							if !ps[k] {
								viol = append(viol, fmt.Sprintf("operand %v is used at %s after operand %s moved the context cursor, with no restore in between", sortedKeys(ps), w.instrPos(ins), k))
								violPos = ins
							}
						}
					}
				}
				for k := range ps {
					s[k] = true
				}
			}
			if len(s) != len(out[b]) {
				changed = true
			}
			out[b] = s
		}
		return changed
	}
	for run(false) {
	}
	run(true)
	if len(viol) == 0 {
		r.ok("N-PEER", key, w.pos(fn.Pos()), fmt.Sprintf("%d operand uses; the context is restored from a saved copy between the operands", len(events)))
	} else if w.allMoversRestore() {
		r.ok("N-PEER", key, w.pos(fn.Pos()), fmt.Sprintf("%d operand uses with no explicit restore between them; sound because every function that moves the context cursor restores it before returning (N-RESTORE holds package-wide)", len(events)))
	} else {
		r.bad("N-PEER", key, w.instrPos(violPos), fmt.Sprintf("%s.%s: %s — the second operand is evaluated relative to wherever the first one left the shared context cursor", qt.Name(), fn.Name(), dedup(viol)[0]))
	}
}

// reachesInstr: b can execute after a.
func reachesInstr(a, b ssa.Instruction) bool {
	if a.Block() == b.Block() && instrIndex(a) < instrIndex(b) {
		return true
	}
	for _, s := range a.Block().Succs {
		if reachableFrom(s, nil)[b.Block()] {
			return true
		}
	}
	return false
}

// ---------- C07-SC ----------

func ruleShortCircuit(w *World, r *Report) {
	r.rule("C07-SC", "and/or: the left operand is converted with the truth conversion; the right operand is evaluated exactly when (or & !left) or (and & left), otherwise the constant or=>true / and=>false is returned; the final value is the truth conversion of the right operand")
	ev := w.evaluateMethod()
	var bq *QType
	for _, qt := range w.peerTypes() {
		for _, f := range qt.Fields {
			if b, ok := f.Var.Type().Underlying().(*types.Basic); ok && b.Kind() == types.Bool && f.Role == RoleConfig {
				bq = qt
			}
		}
	}
	if bq == nil {
		r.bad("ANCHOR", "C07-SC", "", "and/or query type not found")
		return
	}
	fn := bq.Methods[ev]
	if fn == nil {
		r.bad("ANCHOR", "C07-SC", "", "and/or query has no Evaluate")
		return
	}
	r.FuncsAnalysed[fnName(fn)] = true
	// operand evaluations and their truth conversions
	var evals []*ssa.Call
	eachInstr(fn, false, func(_ *ssa.Function, in ssa.Instruction) {
		if c, ok := in.(*ssa.Call); ok && c.Call.IsInvoke() && c.Call.Method.Name() == ev {
			if f, ok := recvFieldLoad(c.Call.Value); ok && w.isQueryType(f.Type()) {
				evals = append(evals, c)
			}
		}
	})
	if len(evals) != 2 {
		r.undec("C07-SC", bq.Name(), w.pos(fn.Pos()), fmt.Sprintf("%d operand evaluations found", len(evals)))
		return
	}
	first, second := evals[0], evals[1]
	if !instrDominates(first, second) {
		first, second = second, first
	}
	truthOf := func(c *ssa.Call) *ssa.Call {
		for _, u := range uses(c) {
			if t, ok := u.(*ssa.Call); ok && t.Call.StaticCallee() != nil && w.inPkg(t.Call.StaticCallee()) {
				if b, ok := t.Type().(*types.Basic); ok && b.Kind() == types.Bool {
					return t
				}
			}
		}
		return nil
	}
	lt, rt := truthOf(first), truthOf(second)
	if lt == nil || rt == nil || lt.Call.StaticCallee() != rt.Call.StaticCallee() {
		r.bad("C07-SC", bq.Name()+":truth", w.pos(fn.Pos()), "the operands of and/or are not both converted with the same truth conversion")
		return
	}
	r.ok("C07-SC", bq.Name()+":truth", w.instrPos(lt), "both operands pass through "+lt.Call.StaticCallee().Name())
	// operand order: first evaluated operand is the left one built from root.Left
	// (field order in the operator literal is checked by A-OPS/B-ARGS); here: symbolic table
	var flagField *types.Var
	for _, f := range bq.Fields {
		if b, ok := f.Var.Type().Underlying().(*types.Basic); ok && b.Kind() == types.Bool && f.Role == RoleConfig {
			flagField = f.Var
		}
	}
	// the decision table, by constant propagation through Evaluate: the flag and
	// the truth of the left operand are constants, the right operand's
	// evaluation is recorded ("right" when its truth value is what is returned)
	lfv, _ := recvFieldLoad(first.Call.Value)
	rfv, _ := recvFieldLoad(second.Call.Value)
	truthFn := lt.Call.StaticCallee()
	simulate := func(flag, left bool) string {
		st := w.initState()
		obj := st.newObj(bq.Named, nil)
		obj.Extern = true
		bst := bq.Named.Underlying().(*types.Struct)
		for i := 0; i < bst.NumFields(); i++ {
			switch bst.Field(i) {
			case flagField:
				obj.Fields[i] = aBool(flag)
			case lfv:
				obj.Fields[i] = AVal{Kind: avUnknown, Tag: "L"}
			case rfv:
				obj.Fields[i] = AVal{Kind: avUnknown, Tag: "R"}
			}
		}
		var hooks AHooks
		hooks.Call = func(ai *AInterp, s2 *AState, site ssa.CallInstruction, callee *ssa.Function, args []AVal) (bool, AVal) {
			if site.Common().IsInvoke() && site.Common().Method.Name() == ev && len(args) > 0 {
				switch args[0].Tag {
				case "L":
					return true, AVal{Kind: avUnknown, Tag: "lval"}
				case "R":
					return true, AVal{Kind: avUnknown, Tag: "rval"}
				}
			}
			if callee == truthFn && len(args) == 2 {
				switch args[1].Tag {
				case "lval":
					return true, aBool(left)
				case "rval":
					return true, AVal{Kind: avUnknown, Tag: "truth(right)"}
				}
			}
			return false, AVal{}
		}
		ai := w.newInterp(hooks)
		outs := ai.Exec(fn, []AVal{{Kind: avPtr, Obj: obj, Field: -1}, {Kind: avUnknown, Tag: "t"}}, nil, st)
		res := ""
		for _, o := range outs {
			got := "?"
			switch {
			case o.Cut || o.Panicked:
			case o.Ret.Tag == "truth(right)":
				got = "right"
			default:
				if bv, ok := o.Ret.Bool(); ok {
					if bv {
						got = "true"
					} else {
						got = "false"
					}
				}
			}
			if res != "" && res != got {
				return "?"
			}
			res = got
		}
		if res == "" {
			return "?"
		}
		return res
	}
	want := map[[2]bool]string{{true, true}: "true", {true, false}: "right", {false, true}: "right", {false, false}: "false"}
	okAll := true
	detail := ""
	for _, fl := range []bool{true, false} {
		for _, lf := range []bool{true, false} {
			got := simulate(fl, lf)
			detail += fmt.Sprintf("(or=%v,left=%v)->%s ", fl, lf, got)
			if got != want[[2]bool{fl, lf}] {
				okAll = false
			}
		}
	}
	if okAll {
		r.ok("C07-SC", bq.Name()+":table", w.pos(fn.Pos()), detail)
	} else {
		r.bad("C07-SC", bq.Name()+":table", w.pos(fn.Pos()), "and/or decision table is "+detail+"; XPath: or&left=>true, and&!left=>false, otherwise the right operand decides")
	}
	// final value = truth(right)
	okFinal := false
	for _, b := range fn.Blocks {
		if ret, ok := normalReturn(b); ok {
			v := strip(retVal(ret, 0))
			if mi, ok := v.(*ssa.MakeInterface); ok {
				v = mi.X
			}
			if v == ssa.Value(rt) {
				okFinal = true
			}
		}
	}
	if okFinal {
		r.ok("C07-SC", bq.Name()+":final", w.instrPos(rt), "the result is the truth value of the right operand")
	} else {
		r.bad("C07-SC", bq.Name()+":final", w.instrPos(rt), "the value returned after evaluating the right operand is not its truth value")
	}
	// the flag is "or": checked by A-OPS/or-and. Operand order: the operand
	// evaluated first is the field that receives root.Left.
	lf, _ := recvFieldLoad(first.Call.Value)
	if left := w.leftFieldOf(bq); left != "" {
		if lf != nil && lf.Name() == left {
			r.ok("C07-SC", bq.Name()+":order", w.instrPos(first), "the operand built from the left sub-expression is evaluated first")
		} else {
			r.bad("C07-SC", bq.Name()+":order", w.instrPos(first), "the right-hand operand is evaluated first: and/or do not evaluate left to right")
		}
	}
}

// leftFieldOf: the field of the operator literal that receives the query
// built from the operator node's first child.
func (w *World) leftFieldOf(qt *QType) string {
	od := w.operatorSwitch()
	if od == nil {
		return ""
	}
	return od.Left[qt.Name()]
}

// ---------- N-ITER ----------

func ruleNIter(w *World, r *Report) {
	r.rule("N-ITER", "(1) NodeIterator.MoveNext: a nil Select result returns false without touching the node; otherwise the node is positioned by MoveTo(n), and when that fails replaced by n.Copy() (never aliased to the producer's cursor), then true is returned; (2) every constructor of NodeIterator takes its query from a Clone() of the compiled tree and its node from the caller's navigator; (3) the context-reading leaf queries are exhausted after one result until re-armed: non-nil is returned only on a path that increments the guard tested at entry")
	it, qi, ni, err := w.iterStruct()
	if err != nil {
		r.bad("ANCHOR", "N-ITER", "", err.Error())
		return
	}
	mn := w.methodOf(it, "MoveNext")
	if mn == nil {
		r.bad("ANCHOR", "N-ITER", "", "MoveNext not found")
		return
	}
	r.FuncsAnalysed[fnName(mn)] = true
	sel := w.selectMethod()
	var selCall *ssa.Call
	eachInstr(mn, false, func(_ *ssa.Function, in ssa.Instruction) {
		if c, ok := in.(*ssa.Call); ok && c.Call.IsInvoke() && c.Call.Method.Name() == sel {
			selCall = c
		}
	})
	if selCall == nil {
		r.bad("N-ITER", "MoveNext:select", w.pos(mn.Pos()), "MoveNext does not pull from the query")
		return
	}
	// the query pulled is the iterator's own
	if ld, ok := selCall.Call.Value.(*ssa.UnOp); ok {
		if fa, ok := ld.X.(*ssa.FieldAddr); ok && structOfAddr(fa) == it && fa.Field == qi && isRecv(fa.X) {
			r.ok("N-ITER", "MoveNext:select", w.instrPos(selCall), "pulls the next node from the iterator's own query, passing itself as context")
		} else {
			r.bad("N-ITER", "MoveNext:select", w.instrPos(selCall), "MoveNext pulls from something other than the iterator's query")
		}
	}
	isNodeStore := func(in ssa.Instruction) *ssa.Store {
		st, ok := in.(*ssa.Store)
		if !ok {
			return nil
		}
		fa, ok := st.Addr.(*ssa.FieldAddr)
		if !ok || structOfAddr(fa) != it || fa.Field != ni {
			return nil
		}
		return st
	}
	for _, b := range mn.Blocks {
		ret, ok := normalReturn(b)
		if !ok {
			continue
		}
		c, isC := retVal(ret, 0).(*ssa.Const)
		if !isC || c.Value == nil {
			r.bad("N-ITER", "MoveNext:return", w.instrPos(ret), "MoveNext returns a non-constant")
			continue
		}
		if !constant.BoolVal(c.Value) {
			// false: under Select == nil, no node store on the way
			if w.underNilTest(selCall, b) {
				clean := true
				for _, bb := range mn.Blocks {
					if bb == b || bb.Dominates(b) {
						for _, in := range bb.Instrs {
							if isNodeStore(in) != nil {
								clean = false
							}
						}
					}
				}
				if clean {
					r.ok("N-ITER", "MoveNext:false", w.instrPos(ret), "false exactly when the query is exhausted; the node is untouched")
				} else {
					r.bad("N-ITER", "MoveNext:false", w.instrPos(ret), "the iterator's node is modified on the exhausted path")
				}
			} else {
				r.bad("N-ITER", "MoveNext:false", w.instrPos(ret), "MoveNext can return false although the query produced a node")
			}
			continue
		}
		// true: must pass node.MoveTo(n) with n the Select result, false edge -> node = n.Copy()
		if !w.underNonNilTest(selCall, b) {
			r.bad("N-ITER", "MoveNext:true", w.instrPos(ret), "MoveNext can return true without a node from the query")
			continue
		}
		var mv *ssa.Call
		eachInstr(mn, false, func(_ *ssa.Function, in ssa.Instruction) {
			if cc, ok := in.(*ssa.Call); ok && cc.Call.IsInvoke() && w.navMethodClass(cc.Call.Method.Name()) == "move" && len(cc.Call.Args) == 1 && cc.Call.Args[0] == ssa.Value(selCall) {
				if ld, ok := cc.Call.Value.(*ssa.UnOp); ok {
					if fa, ok := ld.X.(*ssa.FieldAddr); ok && structOfAddr(fa) == it && fa.Field == ni {
						mv = cc
					}
				}
			}
		})
		if mv == nil || !instrDominates(mv, ret) {
			r.bad("N-ITER", "MoveNext:true", w.instrPos(ret), "Current() is not positioned on the node just reported (no node.MoveTo(n) on the way to `return true`)")
			continue
		}
		// failure edge stores a copy
		okCopy := false
		for _, u := range uses(mv) {
			ifi, ok := u.(*ssa.If)
			if !ok {
				continue
			}
			fe := ifi.Block().Succs[1]
			for _, in := range fe.Instrs {
				if st := isNodeStore(in); st != nil {
					if cp, ok := st.Val.(*ssa.Call); ok && cp.Call.IsInvoke() && w.navMethodClass(cp.Call.Method.Name()) == "copy" && cp.Call.Value == ssa.Value(selCall) {
						okCopy = true
					}
				}
			}
		}
		// any store of the raw Select result into node is aliasing
		alias := false
		eachInstr(mn, false, func(_ *ssa.Function, in ssa.Instruction) {
			if st := isNodeStore(in); st != nil && st.Val == ssa.Value(selCall) {
				alias = true
			}
		})
		if okCopy && !alias {
			r.ok("N-ITER", "MoveNext:true", w.instrPos(ret), "node.MoveTo(n), falling back to node = n.Copy(); never aliased with the producer's cursor")
		} else {
			r.bad("N-ITER", "MoveNext:true", w.instrPos(ret), "when MoveTo fails the iterator does not take a private copy of the reported node (or aliases the producer's cursor): Current() is not the node just reported or changes under the caller")
		}
	}
	// (2) constructors
	en, qidx, _ := w.exprStruct()
	ncons := 0
	for _, fn := range w.AllFuncs {
		eachInstr(fn, false, func(_ *ssa.Function, in ssa.Instruction) {
			a, ok := in.(*ssa.Alloc)
			if !ok {
				return
			}
			pt, _ := a.Type().(*types.Pointer)
			if pt == nil || pt.Elem() != types.Type(it) {
				return
			}
			ncons++
			r.FuncsAnalysed[fnName(fn)] = true
			var qv, nv ssa.Value
			for _, u := range uses(a) {
				if fa, ok := u.(*ssa.FieldAddr); ok {
					for _, uu := range uses(fa) {
						if st, ok := uu.(*ssa.Store); ok {
							if fa.Field == qi {
								qv = st.Val
							}
							if fa.Field == ni {
								nv = st.Val
							}
						}
					}
				}
			}
			key := fnName(fn) + ":NodeIterator"
			okq := false
			if c, ok := resolve(qv).(*ssa.Call); ok && w.isCloneCall(c) {
				if ld, ok := c.Call.Value.(*ssa.UnOp); ok {
					if fa, ok := ld.X.(*ssa.FieldAddr); ok && structOfAddr(fa) == en && fa.Field == qidx && isRecv(fa.X) {
						okq = true
					}
				}
			}
			okn := false
			if p, ok := resolve(nv).(*ssa.Parameter); ok && w.isNavType(p.Type()) {
				okn = true
			}
			if cp, ok := resolve(nv).(*ssa.Call); ok && cp.Call.IsInvoke() && w.navMethodClass(cp.Call.Method.Name()) == "copy" {
				if p, ok := resolve(cp.Call.Value).(*ssa.Parameter); ok && w.isNavType(p.Type()) {
					okn = true
				}
			}
			if okq && okn {
				r.ok("N-ITER", key, w.instrPos(a), "query = expr.q.Clone(), node = the caller's navigator (or a copy of it)")
			} else {
				r.bad("N-ITER", key, w.instrPos(a), fmt.Sprintf("the iterator is not built from (a clone of the expression's own query, the caller's navigator): query ok=%v node ok=%v — Evaluate and Select would iterate different things", okq, okn))
			}
		})
	}
	// every exported method of the expression type that can hand out an
	// iterator either constructs one (judged above) or obtains it from a
	// function that does
	cons := map[*ssa.Function]bool{}
	for _, fn := range w.AllFuncs {
		eachInstr(fn, false, func(_ *ssa.Function, in ssa.Instruction) {
			if a, ok := in.(*ssa.Alloc); ok {
				if pt, _ := a.Type().(*types.Pointer); pt != nil && pt.Elem() == types.Type(it) {
					cons[fn] = true
				}
			}
		})
	}
	entries := 0
	for _, fn := range w.AllFuncs {
		if fn.Parent() != nil || fn.Signature.Recv() == nil || fn.Object() == nil || !fn.Object().Exported() {
			continue
		}
		if n, ok := derefNamed(fn.Signature.Recv().Type()); !ok || n != en {
			continue
		}
		if fn.Signature.Params().Len() != 1 || !w.isNavType(fn.Signature.Params().At(0).Type()) {
			continue
		}
		reaches := cons[fn]
		for _, c := range w.pkgCallees(fn) {
			if cons[c] {
				reaches = true
			}
		}
		if reaches {
			entries++
		}
	}
	if ncons < 1 || entries < 2 {
		r.bad("N-ITER", "constructors", "", fmt.Sprintf("%d NodeIterator constructors serving %d entry points found, expected Select and Evaluate to build their iterator (directly or through one constructor)", ncons, entries))
	}
	// (3) leaf producers
	for _, qt := range w.census.Types {
		hasQ := false
		for _, f := range qt.Fields {
			if f.IsQuery {
				hasQ = true
			}
		}
		fn := qt.Methods[sel]
		if hasQ || fn == nil {
			continue
		}
		usesCtx := false
		eachInstr(fn, false, func(_ *ssa.Function, in ssa.Instruction) {
			if c, ok := in.(*ssa.Call); ok && w.isContextRegister(c) {
				usesCtx = true
			}
		})
		if !usesCtx {
			continue
		}
		r.FuncsAnalysed[fnName(fn)] = true
		// entry test on an int state field; non-nil returns dominated by an increment of it
		ifi := blockIf(fn.Blocks[0])
		key := qt.Name() + ":once"
		if ifi == nil {
			r.bad("N-ITER", key, w.pos(fn.Pos()), "no guard at entry: the context node is produced again and again")
			continue
		}
		cmp, _ := decodeCond(ifi.Cond)
		var gf *types.Var
		if cmp != nil {
			if f, ok := recvFieldLoad(cmp.X); ok {
				gf = f
			}
		}
		if gf == nil {
			r.undec("N-ITER", key, w.pos(fn.Pos()), "entry guard not on a state field")
			continue
		}
		// the guard must be false for the re-armed value 0 and true after one increment
		if k, ok := constInt(cmp.Y); ok {
			ev := func(x int64) bool {
				switch cmp.Op {
				case token.GTR:
					return x > k
				case token.GEQ:
					return x >= k
				case token.NEQ:
					return x != k
				case token.EQL:
					return x == k
				case token.LSS:
					return x < k
				case token.LEQ:
					return x <= k
				}
				return false
			}
			// which successor returns nil?
			nilOnTrue := false
			if ret, ok := normalReturn(fn.Blocks[0].Succs[0]); ok && isNilConst(strip(retVal(ret, 0))) {
				nilOnTrue = true
			}
			exhausted := func(x int64) bool { return ev(x) == nilOnTrue }
			if exhausted(0) || !exhausted(1) {
				r.bad("N-ITER", key, w.pos(fn.Pos()), fmt.Sprintf("the guard `%s %s %d` does not turn the producer off after exactly one result (armed at 0, incremented once per result): the context node is produced %s", gf.Name(), cmp.Op, k, map[bool]string{true: "never", false: "more than once"}[exhausted(0)]))
				continue
			}
		}
		okAll := true
		for _, b := range fn.Blocks {
			ret, ok := normalReturn(b)
			if !ok || isNilConst(strip(retVal(ret, 0))) {
				continue
			}
			inc := false
			for _, bb := range fn.Blocks {
				if bb == b || bb.Dominates(b) {
					for _, in := range bb.Instrs {
						if st, ok := in.(*ssa.Store); ok {
							if f, ok := recvFieldAddr(st.Addr); ok && f == gf {
								if bo, ok := st.Val.(*ssa.BinOp); ok && bo.Op == token.ADD {
									inc = true
								}
								if c, ok := st.Val.(*ssa.Const); ok && !isZeroConst(c) {
									inc = true
								}
							}
						}
					}
				}
			}
			if !inc {
				okAll = false
			}
		}
		// the exhausted state is sticky: the path that reports exhaustion does
		// not write the guard (re-arming is Evaluate's business)
		rearmed := false
		for _, b := range fn.Blocks {
			ret, ok := normalReturn(b)
			if !ok || !isNilConst(strip(retVal(ret, 0))) {
				continue
			}
			for _, bb := range fn.Blocks {
				if bb == b || bb.Dominates(b) {
					for _, in := range bb.Instrs {
						if st, ok := in.(*ssa.Store); ok {
							if f, ok := recvFieldAddr(st.Addr); ok && f == gf {
								rearmed = true
							}
						}
					}
				}
			}
		}
		if rearmed {
			r.bad("N-ITER", key, w.pos(fn.Pos()), "the guard "+gf.Name()+" is written on the path that reports exhaustion: after it has answered nil the producer hands out the context node again, so an iterator that was asked once more after MoveNext returned false restarts (from the node it reported last)")
			continue
		}
		if okAll {
			r.ok("N-ITER", key, w.pos(fn.Pos()), "yields the context once, then nil until Evaluate re-arms it")
		} else {
			r.bad("N-ITER", key, w.pos(fn.Pos()), "a node is returned without marking the producer as consumed: MoveNext never turns false / nodes repeat")
		}
	}
}

// ---------- N-RESTORE ----------

type ctxMove struct {
	in      ssa.Instruction
	restore bool
	copy    *ssa.Call
}

// ctxMoves lists the MoveTo calls on the context register in fn.
func (w *World) ctxMoves(fn *ssa.Function) []*ctxMove {
	var out []*ctxMove
	for _, b := range fn.Blocks {
		for _, in := range b.Instrs {
			ci, ok := in.(ssa.CallInstruction)
			if !ok {
				continue
			}
			cc := ci.Common()
			if !cc.IsInvoke() || !w.isContextRegister(cc.Value) || w.navMethodClass(cc.Method.Name()) != "move" {
				continue
			}
			m := &ctxMove{in: in}
			if len(cc.Args) == 1 {
				if cp, ok := resolveNav(w, cc.Args[0]).(*ssa.Call); ok && cp.Call.IsInvoke() && w.navMethodClass(cp.Call.Method.Name()) == "copy" && w.isContextRegister(cp.Call.Value) && cp.Parent() == fn {
					m.restore = true
					m.copy = cp
				}
			}
			out = append(out, m)
		}
	}
	return out
}

// restoreDiscipline: (ok, explanation, offending instruction)
func (w *World) restoreDiscipline(fn *ssa.Function) (bool, string, ssa.Instruction) {
	moves := w.ctxMoves(fn)
	if len(moves) == 0 {
		return true, "", nil
	}
	byInstr := map[ssa.Instruction]*ctxMove{}
	for _, m := range moves {
		byInstr[m.in] = m
	}
	// a "restore" whose copy was taken while the register was moved is a move
	for iter := 0; iter < 4; iter++ {
		dirtyIn := map[*ssa.BasicBlock]bool{}
		dirtyOut := map[*ssa.BasicBlock]bool{}
		dirtyAt := map[ssa.Instruction]bool{}
		changed := true
		for changed {
			changed = false
			for _, b := range fn.Blocks {
				d := false
				for _, p := range b.Preds {
					if dirtyOut[p] {
						d = true
					}
				}
				dirtyIn[b] = d
				for _, in := range b.Instrs {
					dirtyAt[in] = d
					if m, ok := byInstr[in]; ok {
						d = !m.restore
					}
				}
				if d != dirtyOut[b] {
					dirtyOut[b] = d
					changed = true
				}
			}
		}
		demoted := false
		for _, m := range moves {
			if m.restore && dirtyAt[m.copy] {
				m.restore = false
				demoted = true
			}
		}
		if demoted {
			continue
		}
		for _, b := range fn.Blocks {
			ret, ok := normalReturn(b)
			if !ok {
				continue
			}
			if dirtyAt[ret] {
				return false, "a return is reached with the context cursor still moved", ret
			}
		}
		// closures created while dirty would run with a moved context later: not used by the package
		return true, fmt.Sprintf("%d moves of the context cursor, all undone before every return", len(moves)), nil
	}
	return false, "restore analysis did not converge", moves[0].in
}

func ruleNRestore(w *World, r *Report) {
	r.rule("N-RESTORE", "every run-time function that moves the evaluation's context cursor (t.Current().MoveTo(x)) puts it back before every normal return: the last move on every path is MoveTo(s) with s = t.Current().Copy() taken while the cursor was still where the caller left it. Hence every Select/Evaluate call returns with the context where it found it, and operands, arguments and later steps are all evaluated relative to the same context node")
	n := 0
	allOK := true
	for _, fn := range w.AllFuncs {
		if !w.RunTime[fn] {
			continue
		}
		if len(w.ctxMoves(fn)) == 0 {
			continue
		}
		n++
		r.FuncsAnalysed[fnName(fn)] = true
		ok, why, at := w.restoreDiscipline(fn)
		if ok {
			r.ok("N-RESTORE", fnName(fn), w.pos(fn.Pos()), why)
		} else {
			allOK = false
			r.bad("N-RESTORE", fnName(fn), w.instrPos(at), fmt.Sprintf("%s moves the shared context cursor and %s: whatever is evaluated next relative to the context node (the other operand, the next argument, a later step) is evaluated relative to the wrong node", fnName(fn), why))
		}
	}
	if n < 3 {
		r.bad("N-RESTORE", "sites", "", fmt.Sprintf("only %d functions move the context cursor; the predicate filter, the merge step and the operand save/restore sites were expected", n))
	}
	// any other mutation of the context register is decided by N-OWN
	_ = allOK
}

func (w *World) allMoversRestore() bool {
	for _, fn := range w.AllFuncs {
		if !w.RunTime[fn] || len(w.ctxMoves(fn)) == 0 {
			continue
		}
		if ok, _, _ := w.restoreDiscipline(fn); !ok {
			return false
		}
	}
	return true
}
