package main

// N-POS, N-TEST, C03-LAST (C03), C12-REV (C12).

import (
	"fmt"
	"go/token"
	"go/types"
	"strings"

	"golang.org/x/tools/go/ssa"
)

// positionField: the state field returned by the type's position() method.
func (w *World) positionField(qt *QType) (*types.Var, *ssa.Function) {
	for name, fn := range qt.Methods {
		sig := fn.Signature
		if sig.Params().Len() != 0 || sig.Results().Len() != 1 || !isIntType(sig.Results().At(0).Type()) || name == "" {
			continue
		}
		// the method the position helper looks for: found through the helper's interface
		if !w.isPositionMethod(name) {
			continue
		}
		for _, b := range fn.Blocks {
			if ret, ok := normalReturn(b); ok {
				if f, ok := recvFieldLoad(retVal(ret, 0)); ok {
					return f, fn
				}
			}
		}
	}
	return nil, nil
}

// isPositionMethod: name is the single method of the interface the position
// helper (query -> int, default 1) asserts its argument to.
func (w *World) isPositionMethod(name string) bool {
	h := w.positionHelper()
	if h == nil {
		return false
	}
	ok := false
	eachInstr(h, false, func(_ *ssa.Function, in ssa.Instruction) {
		if ta, isTA := in.(*ssa.TypeAssert); isTA {
			if it, isI := ta.AssertedType.Underlying().(*types.Interface); isI && it.NumMethods() == 1 && it.Method(0).Name() == name {
				ok = true
			}
		}
	})
	return ok
}

// positionHelper: func(query) int that returns 1 when its argument has no
// position method (getNodePosition).
func (w *World) positionHelper() *ssa.Function {
	for _, fn := range w.AllFuncs {
		if fn.Parent() != nil || fn.Signature.Recv() != nil {
			continue
		}
		sig := fn.Signature
		if sig.Params().Len() == 1 && w.isQueryType(sig.Params().At(0).Type()) && sig.Results().Len() == 1 && isIntType(sig.Results().At(0).Type()) {
			for _, b := range fn.Blocks {
				if ret, ok := normalReturn(b); ok {
					if k, ok := constInt(retVal(ret, 0)); ok && k == 1 {
						return fn
					}
				}
			}
		}
	}
	return nil
}

func isIncOf(v ssa.Value, f *types.Var) bool {
	bo, ok := v.(*ssa.BinOp)
	if !ok || bo.Op != token.ADD {
		return false
	}
	k, ok := constInt(bo.Y)
	if !ok || k != 1 {
		return false
	}
	g, ok := recvFieldLoad(bo.X)
	return ok && g == f
}

func ruleNPos(w *World, r *Report) {
	r.rule("N-POS", "for the step types a positional predicate reads its position from (child steps, single descendant step, parenthesised path): position() returns the counter field; in Select every non-nil return is preceded, since the node was obtained, by exactly one increment of the counter; per-parent types zero the counter in the block that pulls a new input node, the parenthesised-path type never zeroes it in Select; the step types implement Test as their own node test; the predicate filter compares a numeric predicate with the position of its own input; position()/last(), followed by constant propagation on rows of one to three siblings with the context node at every index and every pattern of node-test verdicts, yield 1 + the number of earlier siblings passing the step's node test, resp. the number of siblings passing it, moving only a copy of the context")
	sel := w.selectMethod()
	variants := w.axisVariants(nil)
	want := map[string]string{}
	for _, ax := range []string{"child", "descendant"} {
		for tn := range variants[ax] {
			want[tn] = ax
		}
	}
	n := 0
	for _, qt := range w.census.Types {
		pf, pm := w.positionField(qt)
		if pf == nil {
			continue
		}
		ax, inScope := want[qt.Name()]
		// parenthesised-path type: one query field, position method, no predicate
		isGroup := false
		if !inScope {
			nq, np := 0, 0
			for _, f := range qt.Fields {
				if f.IsQuery {
					nq++
				}
				if w.isPredicateFuncType(f.Var.Type()) {
					np++
				}
			}
			if nq == 1 && np == 0 && len(qt.Fields) == 2 {
				isGroup, inScope, ax = true, true, "(path)"
			}
		}
		if !inScope {
			continue
		}
		n++
		sfn := qt.Methods[sel]
		r.FuncsAnalysed[fnName(sfn)] = true
		r.FuncsAnalysed[fnName(pm)] = true
		key := qt.Name()
		r.ok("N-POS", key+":accessor", w.pos(pm.Pos()), "position() returns "+pf.Name())
		// every non-nil return: exactly one increment on the way since the value was obtained
		okInc := true
		why := ""
		nret := 0
		// increments made by the iterator closures Select builds, on the way to
		// each of their non-nil returns (the count may be kept there instead)
		closureIncs, closuresAgree := -1, true
		eachInstr(sfn, false, func(_ *ssa.Function, in ssa.Instruction) {
			mc, ok := in.(*ssa.MakeClosure)
			if !ok {
				return
			}
			cf, ok := mc.Fn.(*ssa.Function)
			if !ok || cf.Signature.Results().Len() != 1 || !w.isNavType(cf.Signature.Results().At(0).Type()) {
				return
			}
			for _, b := range cf.Blocks {
				ret, ok := normalReturn(b)
				if !ok || isNilConst(strip(retVal(ret, 0))) {
					continue
				}
				k := 0
				for blk := b; blk != nil; {
					for _, in2 := range blk.Instrs {
						if st, ok := in2.(*ssa.Store); ok {
							if f, ok := qtFieldAddr(st.Addr, qt.Named); ok && f == pf && isFieldStepT(st.Val, pf, token.ADD, qt.Named) {
								k++
							}
						}
					}
					if len(blk.Preds) != 1 || blockIf(blk.Preds[0]) != nil {
						break
					}
					blk = blk.Preds[0]
				}
				if closureIncs >= 0 && closureIncs != k {
					closuresAgree = false
				}
				closureIncs = k
			}
		})
		for _, b := range sfn.Blocks {
			ret, ok := normalReturn(b)
			if !ok || isNilConst(strip(retVal(ret, 0))) {
				continue
			}
			nret++
			// walk back through single-predecessor blocks to the test that produced the node
			incs := 0
			if c, ok := resolve(strip(retVal(ret, 0))).(*ssa.Call); ok && c.Call.StaticCallee() == nil && !c.Call.IsInvoke() && closureIncs > 0 {
				// the node comes out of the iterator closure: what the closure counted
				if !closuresAgree {
					okInc = false
					why = "the iterator closures do not agree on how often they increment " + pf.Name()
				}
				incs += closureIncs
			}
			countIn := func(blk *ssa.BasicBlock) int {
				k := 0
				for _, in := range blk.Instrs {
					if st, ok := in.(*ssa.Store); ok {
						if f, ok := recvFieldAddr(st.Addr); ok && f == pf {
							if isIncOf(st.Val, pf) {
								k++
							} else if c, ok := constInt(st.Val); ok && c == 1 {
								k++ // first match of a fresh input: position 1
							}
						}
					}
				}
				return k
			}
			// a single `return node` after `if node != nil { posit++ }`: the edge on
			// which the returned value is nil is not a yield; every other way into
			// the return block must have counted once
			joined := false
			if rv := strip(retVal(ret, 0)); len(b.Preds) > 1 && countIn(b) == 0 {
				allOK, judgedAny := true, false
				for _, p := range b.Preds {
					nilEdge := false
					if ifi := blockIf(p); ifi != nil {
						if cmp, neg := decodeCond(ifi.Cond); cmp != nil && (cmp.Op == token.NEQ || cmp.Op == token.EQL) && isNilConst(strip(cmp.Y)) && sameValue(cmp.X, rv) {
							// successor taken when rv == nil
							eq := cmp.Op == token.EQL
							if neg {
								eq = !eq
							}
							nilSucc := p.Succs[1]
							if eq {
								nilSucc = p.Succs[0]
							}
							if nilSucc == b {
								nilEdge = true
							}
						}
					}
					if nilEdge {
						continue
					}
					judgedAny = true
					k := 0
					for blk := p; blk != nil; {
						k += countIn(blk)
						if len(blk.Preds) != 1 || blockIf(blk.Preds[0]) != nil {
							break
						}
						blk = blk.Preds[0]
					}
					if k != 1 {
						allOK = false
					}
				}
				if judgedAny && allOK {
					joined = true
					incs = 1
				}
			}
			for blk := b; blk != nil && !joined; {
				incs += countIn(blk)
				if len(blk.Preds) != 1 || blockIf(blk.Preds[0]) != nil {
					break
				}
				blk = blk.Preds[0]
			}
			if incs != 1 {
				okInc = false
				why = fmt.Sprintf("the return at %s is preceded by %d increments of %s", w.instrPos(ret), incs, pf.Name())
			}
		}
		if okInc && nret > 0 {
			r.ok("N-POS", key+":count", w.pos(sfn.Pos()), fmt.Sprintf("each of the %d non-nil returns increments %s exactly once", nret, pf.Name()))
		} else {
			r.bad("N-POS", key+":count", w.pos(sfn.Pos()), fmt.Sprintf("%s.Select (axis %s): %s — the position a [n] predicate compares with does not count the yielded nodes", qt.Name(), ax, why))
		}
		// reset on new input
		var inputCall ssa.Instruction
		eachInstr(sfn, false, func(_ *ssa.Function, in ssa.Instruction) {
			if c, ok := in.(*ssa.Call); ok && c.Call.IsInvoke() && c.Call.Method.Name() == sel {
				if f, ok := recvFieldLoad(c.Call.Value); ok && w.isQueryType(f.Type()) {
					inputCall = in
				}
			}
		})
		zeroInBlock := false
		zeroAnywhere := false
		eachInstr(sfn, false, func(_ *ssa.Function, in ssa.Instruction) {
			if st, ok := in.(*ssa.Store); ok {
				if f, ok := recvFieldAddr(st.Addr); ok && f == pf && isZeroConst(st.Val) {
					zeroAnywhere = true
					if inputCall != nil && (st.Block() == inputCall.Block() || st.Block().Dominates(inputCall.Block()) && len(cfgSCCs(sfn)) > 0 && inLoopTogether(sfn, st.Block(), inputCall.Block())) {
						zeroInBlock = true
					}
					// also accepted: zeroed right after the pull, before any increment, in a block the pull dominates
					if inputCall != nil && inputCall.Block().Dominates(st.Block()) {
						zeroInBlock = true
					}
				}
			}
		})
		if isGroup {
			if zeroAnywhere {
				r.bad("N-POS", key+":restart", w.pos(sfn.Pos()), "the position of a parenthesised path is restarted inside Select: (path)[n] would count per input node instead of over the whole sequence")
			} else {
				r.ok("N-POS", key+":restart", w.pos(sfn.Pos()), "position runs over the whole sequence (restarted only by Evaluate)")
			}
		} else {
			if inputCall != nil && zeroInBlock {
				r.ok("N-POS", key+":restart", w.instrPos(inputCall), pf.Name()+" restarts at 0 whenever a new input node is pulled")
			} else {
				r.bad("N-POS", key+":restart", w.pos(sfn.Pos()), fmt.Sprintf("%s.Select does not restart %s when it pulls a new input node: positions run on across parents", qt.Name(), pf.Name()))
			}
		}
	}
	if n < 3 {
		r.bad("N-POS", "types", "", fmt.Sprintf("only %d positional step types found", n))
	}
	w.checkStepTest(r, variants)
	w.checkFilterPosition(r)
	w.checkSiblingCounters(r)
}

func inLoopTogether(fn *ssa.Function, a, b *ssa.BasicBlock) bool {
	for _, comp := range cfgSCCs(fn) {
		ina, inb := false, false
		for _, x := range comp {
			if x == a {
				ina = true
			}
			if x == b {
				inb = true
			}
		}
		if ina && inb {
			return true
		}
	}
	return false
}

// checkStepTest: every step type built by the axis dispatch has a method
// (NodeNavigator) bool that returns recv.<predicate field>(n).
func (w *World) checkStepTest(r *Report, variants map[string]map[string]bool) {
	seen := map[string]bool{}
	for _, set := range variants {
		for tn := range set {
			if seen[tn] {
				continue
			}
			seen[tn] = true
			qt := w.census.ByName[tn]
			if qt == nil {
				continue
			}
			var tf *ssa.Function
			tname := w.testMethodName()
			for name, fn := range qt.Methods {
				if w.isPredicateFuncType(fn.Signature) && fn.Signature.Recv() != nil && (tname == "" || name == tname) {
					tf = fn
				}
			}
			key := tn + ":Test"
			if tf == nil {
				// only the child-step types are in C03's fragment; others are reported too
				if variants["child"][tn] {
					r.bad("N-TEST", key, "", tn+" has no node-test method: position() and last() count every sibling instead of the siblings matching the step's node test")
				} else {
					r.skip("N-TEST", key, "", tn+" has no node-test method (not a child step; outside C03's fragment)")
				}
				continue
			}
			r.FuncsAnalysed[fnName(tf)] = true
			ok := false
			for _, b := range tf.Blocks {
				if ret, okr := normalReturn(b); okr {
					if c, okc := retVal(ret, 0).(*ssa.Call); okc && c.Call.StaticCallee() == nil && len(c.Call.Args) == 1 && c.Call.Args[0] == ssa.Value(tf.Params[1]) {
						if f, okf := recvFieldLoad(c.Call.Value); okf && w.isPredicateFuncType(f.Type()) {
							ok = true
						}
					}
				}
			}
			if ok {
				r.ok("N-TEST", key, w.pos(tf.Pos()), "Test(n) = the step's own node test applied to n")
			} else {
				r.bad("N-TEST", key, w.pos(tf.Pos()), tn+".Test does not return the step's node test of its argument")
			}
		}
	}
}

// checkFilterPosition: in the predicate filter, a numeric predicate value is
// compared with the position of the filter's own input.
func (w *World) checkFilterPosition(r *Report) {
	h := w.positionHelper()
	if h == nil {
		r.bad("ANCHOR", "N-POS:filter", "", "position helper not found")
		return
	}
	n := 0
	for _, qt := range w.census.Types {
		for _, fn := range qt.Methods {
			eachInstr(fn, false, func(_ *ssa.Function, in ssa.Instruction) {
				c, ok := in.(*ssa.Call)
				if !ok || c.Call.StaticCallee() != h {
					return
				}
				n++
				r.FuncsAnalysed[fnName(fn)] = true
				key := qt.Name() + ":numeric-predicate"
				f, isField := recvFieldLoad(c.Call.Args[0])
				if !isField {
					r.bad("N-POS", key, w.instrPos(c), "the position compared with a numeric predicate is not taken from a field of the filter")
					return
				}
				// the field must be the one the filter pulls candidates from (Select), not the predicate (Evaluate)
				sel := w.selectMethod()
				pulled := false
				if sfn := qt.Methods[sel]; sfn != nil {
					eachInstr(sfn, false, func(_ *ssa.Function, in2 ssa.Instruction) {
						if c2, ok := in2.(*ssa.Call); ok && c2.Call.IsInvoke() && c2.Call.Method.Name() == sel {
							if f2, ok := recvFieldLoad(c2.Call.Value); ok && f2 == f {
								pulled = true
							}
						}
					})
				}
				// compared for equality with the predicate value
				cmp := false
				for _, u := range uses(c) {
					if bo, ok := u.(*ssa.BinOp); ok && bo.Op == token.EQL {
						cmp = true
					}
				}
				if pulled && cmp {
					r.ok("N-POS", key, w.instrPos(c), "[n] is true iff n equals the position of the filter's own input ("+f.Name()+")")
				} else {
					r.bad("N-POS", key, w.instrPos(c), fmt.Sprintf("a numeric predicate is compared with the position of %s (candidate source=%v, equality=%v) instead of the filter's input", f.Name(), pulled, cmp))
				}
			})
		}
	}
	if n == 0 {
		r.bad("N-POS", "filter", "", "no use of the position helper in a filter")
	}
}

// checkSiblingCounters: the position()/last() closures.
func (w *World) checkSiblingCounters(r *Report) {
	// what the function dispatch binds to position() and last(), followed by
	// constant propagation on a row of N siblings (N = 1..3) with the context
	// node at every index and every pattern of node-test verdicts: position()
	// is 1 + the number of earlier siblings passing the step's node test,
	// last() the number of siblings passing it
	n := 0
	for _, name := range []string{"position", "last"} {
		for _, tf := range w.funcBindings()[name] {
			cl := w.closureOf(tf)
			if cl == nil {
				continue
			}
			n++
			r.FuncsAnalysed[fnName(cl)] = true
			key := fnName(cl)
			why, decided := w.siblingCounterByInterp(cl, name)
			switch {
			case !decided:
				r.undec("C03-LAST", key, w.pos(cl.Pos()), name+"(): "+why)
			case why != "":
				r.bad("C03-LAST", key, w.pos(cl.Pos()), "sibling counter broken: "+why)
			default:
				r.ok("C03-LAST", key, w.pos(cl.Pos()), "counts, on a copy of the context, exactly the siblings that pass the step's node test (34 rows of up to three siblings)")
			}
		}
	}
	if n < 2 {
		r.bad("C03-LAST", "closures", "", fmt.Sprintf("found %d sibling-counting function closures, expected position() and last()", n))
	}
}

const (
	sibPos = 900001
)

func (w *World) siblingCounterByInterp(cl *ssa.Function, name string) (string, bool) {
	if len(cl.Params) != 2 {
		return "not a function of (query, iterator)", false
	}
	for N := 1; N <= 3; N++ {
		for P := 0; P < N; P++ {
			for pat := 0; pat < 1<<uint(N); pat++ {
				verdict := func(i int) bool { return pat&(1<<uint(i)) != 0 }
				want := 0
				if name == "position" {
					want = 1
					for i := 0; i < P; i++ {
						if verdict(i) {
							want++
						}
					}
				} else {
					for i := 0; i < N; i++ {
						if verdict(i) {
							want++
						}
					}
				}
				st := w.initState()
				ctx := st.newObj(nil, nil)
				ctx.Extern = true
				ctx.Fields[sibPos] = aInt(int64(P))
				var curs []*AObj
				movedCtx := false
				var hooks AHooks
				hooks.Call = func(ai *AInterp, s2 *AState, site ssa.CallInstruction, callee *ssa.Function, args []AVal) (bool, AVal) {
					com := site.Common()
					if com.IsInvoke() && len(args) > 0 {
						m := com.Method.Name()
						switch {
						case args[0].Tag == "iter" && m == "Current":
							return true, AVal{Kind: avPtr, Obj: ctx, Field: -1, Tag: "ctx"}
						case args[0].Tag == "ctx" && w.navMethodClass(m) == "copy":
							c := s2.newObj(nil, nil)
							c.Fields[sibPos] = aInt(int64(P))
							curs = append(curs, c)
							return true, AVal{Kind: avPtr, Obj: c, Field: -1, Tag: "cur"}
						case (args[0].Tag == "cur" || args[0].Tag == "ctx") && w.navMethodClass(m) == "move":
							if args[0].Tag == "ctx" {
								movedCtx = true // the walk is still simulated, so that the verdict is about the cursor
							}
							o := s2.obj(args[0].Obj)
							k, _ := o.Fields[sibPos].Int()
							switch m {
							case "MoveToPrevious":
								if k > 0 {
									o.Fields[sibPos] = aInt(k - 1)
									return true, aBool(true)
								}
								return true, aBool(false)
							case "MoveToNext":
								if int(k) < N-1 {
									o.Fields[sibPos] = aInt(k + 1)
									return true, aBool(true)
								}
								return true, aBool(false)
							case "MoveToFirst":
								o.Fields[sibPos] = aInt(0)
								return true, aBool(k != 0)
							}
							// leaves the row of siblings
							o.Fields[sibPos] = aInt(-1000)
							return true, aUnknown(nil)
						}
					}
					// the node test of the step the function was called for
					if callee != nil && w.inPkg(callee) && callee.Signature.Recv() == nil && len(args) == 1 && args[0].Tag == "q" && callee.Signature.Results().Len() == 1 && w.isPredicateFuncType(callee.Signature.Results().At(0).Type()) {
						return true, AVal{Kind: avUnknown, Tag: "test"}
					}
					if callee == nil && ai.CallValue.Tag == "test" && len(args) == 1 && (args[0].Tag == "cur" || args[0].Tag == "ctx") {
						k, _ := s2.obj(args[0].Obj).Fields[sibPos].Int()
						if k < 0 || int(k) >= N {
							return true, aUnknown(nil)
						}
						return true, aBool(verdict(int(k)))
					}
					return false, AVal{}
				}
				ai := w.newInterp(hooks)
				ai.MaxVisits = 8
				outs := ai.Exec(cl, []AVal{{Kind: avUnknown, Tag: "q"}, {Kind: avUnknown, Tag: "iter"}}, nil, st)
				if len(outs) == 0 {
					return "could not be followed", false
				}
				for _, o := range outs {
					if o.Cut {
						return "a path could not be followed to its end", false
					}
					if o.Panicked {
						return fmt.Sprintf("%s() panics on a row of %d siblings", name, N), true
					}
					got, ok := o.Ret.Float()
					if !ok {
						return fmt.Sprintf("the result is not a number decided by the node-test verdicts (%s)", o.Ret.String()), false
					}
					if movedCtx {
						return name + "() moves the context cursor itself instead of a copy", true
					}
					if int(got) != want || float64(int(got)) != got {
						return fmt.Sprintf("with %d siblings, the context node at index %d and node-test verdicts %0*b (lowest bit = first sibling) %s() yields %v, XPath: %d (only siblings that pass the step's node test count, and every one of them)", N, P, N, pat, name, got, want), true
					}
				}
			}
		}
	}
	return "", true
}

// ---------- C12-REV ----------

func ruleRev(w *World, r *Report) {
	r.rule("C12-REV", "reverse(): the transform function is followed (absint.go) with an input that yields k symbolic nodes and then nil, for k = 0..4: it pulls the input to its end before returning its iterator, and that iterator, called k+2 times, yields copies of the nodes last to first, then nil, and nil again")
	n := 0
	for _, fn := range w.AllFuncs {
		if fn.Parent() != nil || fn.Signature.Recv() != nil || !w.RunTime[fn] {
			continue
		}
		sig := fn.Signature
		if sig.Params().Len() != 2 || sig.Results().Len() != 1 || !w.isQueryType(sig.Params().At(0).Type()) {
			continue
		}
		if _, ok := sig.Results().At(0).Type().Underlying().(*types.Signature); !ok {
			continue
		}
		n++
		r.FuncsAnalysed[fnName(fn)] = true
		key := fn.Name()
		drained, order, why := w.reverseByInterp(fn)
		if drained {
			r.ok("C12-REV", key+":drain", w.pos(fn.Pos()), "input drained to nil into a list of copies")
		} else {
			r.bad("C12-REV", key+":drain", w.pos(fn.Pos()), "the input is not fully drained into copies: "+why)
		}
		if order {
			r.ok("C12-REV", key+":order", w.pos(fn.Pos()), "yields the list from the last element down to the first, then nil")
		} else {
			r.bad("C12-REV", key+":order", w.pos(fn.Pos()), "reverse order broken: "+why)
		}
	}
	if n == 0 {
		r.bad("C12-REV", "reverse", "", "no transform function (query, iterator) -> iterator found")
	}
}

// ---------- C02-TRUTH ----------

func ruleTruth(w *World, r *Report) {
	r.rule("C02-TRUTH", "the predicate filter converts the value of its predicate with a branch for each documented result type: bool => itself, string => non-empty, number => position test, node-set => Select != nil; the candidate is made the context node (a copy) before the predicate is evaluated")
	h := w.positionHelper()
	sel, ev := w.selectMethod(), w.evaluateMethod()
	for _, qt := range w.census.Types {
		for _, fn := range qt.Methods {
			uses := false
			eachInstr(fn, false, func(_ *ssa.Function, in ssa.Instruction) {
				if c, ok := in.(*ssa.Call); ok && h != nil && c.Call.StaticCallee() == h {
					uses = true
				}
			})
			if !uses {
				continue
			}
			r.FuncsAnalysed[fnName(fn)] = true
			cs := w.calleeNames(fn)
			has := func(k string) bool { return len(cs[k]) > 0 }
			var missing []string
			if !has("(reflect.Value).Bool") {
				missing = append(missing, "bool")
			}
			if !has("(reflect.Value).String") {
				missing = append(missing, "string")
			}
			if !has("(reflect.Value).Float") {
				missing = append(missing, "number")
			}
			if !has("iface:" + sel) {
				missing = append(missing, "node-set")
			}
			evalFirst := has("iface:" + ev)
			key := qt.Name() + ":" + fn.Name()
			if len(missing) == 0 && evalFirst {
				r.ok("C02-TRUTH", key, w.pos(fn.Pos()), "predicate value dispatched over bool, string, number and node-set")
			} else {
				r.bad("C02-TRUTH", key, w.pos(fn.Pos()), fmt.Sprintf("the predicate filter has no branch for %v (predicate evaluated first: %v): predicates of that type are silently false", missing, evalFirst))
			}
			// string => len > 0 ; bool => itself: checked by shape: the string branch compares a length with 0
			okStr := false
			eachInstr(fn, false, func(_ *ssa.Function, in ssa.Instruction) {
				if bo, ok := in.(*ssa.BinOp); ok && bo.Op == token.GTR {
					if k, ok := constInt(bo.Y); ok && k == 0 && lenOperand(bo.X) != nil {
						okStr = true
					}
				}
				if bo, ok := in.(*ssa.BinOp); ok && bo.Op == token.NEQ {
					if s, ok := constString(bo.Y); ok && s == "" {
						okStr = true
					}
				}
			})
			if okStr {
				r.ok("C02-TRUTH", key+":string", w.pos(fn.Pos()), "a string predicate is true iff non-empty")
			} else {
				r.bad("C02-TRUTH", key+":string", w.pos(fn.Pos()), "a string-valued predicate is not converted by `length > 0`")
			}
		}
	}
	if r.count("C02-TRUTH") == 0 {
		r.bad("C02-TRUTH", "filter", "", "predicate dispatch not found")
	}
}

// reverseByInterp follows the transform function with an input that yields
// k symbolic nodes and then nil (k = 0, 1, 2, 3, 4), then calls the iterator
// it returned k+2 times: the input must have been pulled to its end, and the
// iterator must give the nodes last to first, then nil, and nil again.
func (w *World) reverseByInterp(fn *ssa.Function) (drained, order bool, why string) {
	sel := w.selectMethod()
	drained, order = true, true
	for _, k := range []int{0, 1, 2, 3, 4} {
		st := w.initState()
		counter := st.newObj(nil, nil)
		counter.Fields[0] = aInt(0)
		var hooks AHooks
		hooks.Call = func(ai *AInterp, s2 *AState, site ssa.CallInstruction, callee *ssa.Function, args []AVal) (bool, AVal) {
			com := site.Common()
			if !com.IsInvoke() || len(args) == 0 {
				return false, AVal{}
			}
			switch {
			case args[0].Tag == "q" && com.Method.Name() == sel:
				c := s2.obj(counter)
				i, _ := c.Fields[0].Int()
				c.Fields[0] = aInt(i + 1)
				if int(i) >= k {
					return true, AVal{Kind: avNil}
				}
				o := s2.newObj(nil, nil)
				o.Extern = true
				return true, AVal{Kind: avPtr, Obj: o, Field: -1, Tag: fmt.Sprintf("n%d", i)}
			case strings.HasPrefix(args[0].Tag, "n") && w.navMethodClass(com.Method.Name()) == "copy":
				o := s2.newObj(nil, nil)
				o.Extern = true
				return true, AVal{Kind: avPtr, Obj: o, Field: -1, Tag: args[0].Tag}
			case args[0].Tag == "q":
				return true, aUnknown(nil) // re-arming the input and the like
			}
			return false, AVal{}
		}
		ai := w.newInterp(hooks)
		ai.MaxVisits = k + 4
		outs := ai.Exec(fn, []AVal{{Kind: avUnknown, Tag: "q"}, {Kind: avUnknown, Tag: "t"}}, nil, st)
		if len(outs) != 1 || outs[0].Cut || outs[0].Panicked || outs[0].Ret.Kind != avFunc {
			return false, false, fmt.Sprintf("with %d input nodes the function could not be followed to the iterator it returns", k)
		}
		cur := outs[0].St
		pulled, _ := cur.obj(counter).Fields[0].Int()
		if int(pulled) != k+1 {
			drained = false
			why = fmt.Sprintf("with %d input nodes the input is pulled %d times before the iterator is returned (expected %d: every node and the final nil)", k, pulled, k+1)
		}
		it := outs[0].Ret
		var got []string
		for j := 0; j < k+2; j++ {
			var cargs []AVal
			for range it.Fn.Params {
				cargs = append(cargs, aUnknown(nil))
			}
			ro := ai.Exec(it.Fn, cargs, it.Bind, cur)
			if len(ro) != 1 || ro[0].Cut || ro[0].Panicked {
				return drained, false, fmt.Sprintf("with %d input nodes, call %d of the iterator could not be followed (or panics)", k, j+1)
			}
			cur = ro[0].St
			if ro[0].Ret.Kind == avNil {
				got = append(got, "nil")
			} else {
				got = append(got, ro[0].Ret.Tag)
			}
		}
		var want []string
		for i := k - 1; i >= 0; i-- {
			want = append(want, fmt.Sprintf("n%d", i))
		}
		want = append(want, "nil", "nil")
		if strings.Join(got, ",") != strings.Join(want, ",") {
			order = false
			why = fmt.Sprintf("for an input yielding n0..n%d the iterator yields %v, expected %v", k-1, got, want)
		}
	}
	return drained, order, why
}

// testMethodName: the name of the node-test method step queries are asked
// for: the single method, of predicate signature, of an interface some
// run-time code asserts a query to.
func (w *World) testMethodName() string {
	name := ""
	for _, fn := range w.AllFuncs {
		eachInstr(fn, false, func(_ *ssa.Function, in ssa.Instruction) {
			ta, ok := in.(*ssa.TypeAssert)
			if !ok {
				return
			}
			it, ok := ta.AssertedType.Underlying().(*types.Interface)
			if !ok || it.NumMethods() != 1 {
				return
			}
			if sig, ok := it.Method(0).Type().(*types.Signature); ok && w.isPredicateFuncType(sig) {
				name = it.Method(0).Name()
			}
		})
	}
	return name
}

// ruleSiblingCounters: the sibling-counter clause of N-POS on its own, for
// properties that need only "position() and last() leave the context cursor
// where it was" (they count on a copy).
func ruleSiblingCounters(w *World, r *Report) {
	r.rule("C03-LAST", "position()/last(), followed by constant propagation on rows of one to three siblings with the context node at every index and every pattern of node-test verdicts: the count is right and only a copy of the context cursor is moved")
	w.checkSiblingCounters(r)
}
