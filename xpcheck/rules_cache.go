package main

// Group K — the pattern cache (C16, C05): K-LOCK, K-NEG, K-CAP, K-KEY, K-PRE.

import (
	"fmt"
	"go/token"
	"go/types"
	"sort"
	"strings"

	"golang.org/x/tools/go/ssa"
)

// cacheType: the package struct type with an embedded sync mutex and a map
// field.
func (w *World) cacheType() (*types.Named, *types.Struct) {
	scope := w.Types.Scope()
	for _, n := range scope.Names() {
		tn, ok := scope.Lookup(n).(*types.TypeName)
		if !ok {
			continue
		}
		named, ok := tn.Type().(*types.Named)
		if !ok {
			continue
		}
		st, ok := named.Underlying().(*types.Struct)
		if !ok {
			continue
		}
		hasMu, hasMap := false, false
		for i := 0; i < st.NumFields(); i++ {
			if isSyncType(st.Field(i).Type()) {
				hasMu = true
			}
			if _, ok := st.Field(i).Type().Underlying().(*types.Map); ok {
				hasMap = true
			}
		}
		if hasMu && hasMap {
			return named, st
		}
	}
	return nil, nil
}

type lockState int

const (
	lsNone lockState = iota
	lsR
	lsW
	lsConflict
)

func (l lockState) String() string { return [...]string{"none", "R", "W", "conflict"}[l] }

// lockCallKind: RLock/RUnlock/Lock/Unlock on the mutex embedded in base.
func (w *World) lockCall(in ssa.Instruction, ct *types.Named) (kind string, ok bool) {
	ci, isCall := in.(ssa.CallInstruction)
	if !isCall {
		return "", false
	}
	cc := ci.Common()
	f := cc.StaticCallee()
	if f == nil || f.Pkg == nil || f.Pkg.Pkg.Path() != "sync" || len(cc.Args) == 0 {
		return "", false
	}
	fa, isFA := cc.Args[0].(*ssa.FieldAddr)
	if !isFA || structOfAddr(fa) != ct {
		return "", false
	}
	switch f.Name() {
	case "RLock", "RUnlock", "Lock", "Unlock":
		return f.Name(), true
	}
	return "", false
}

func ruleKLock(w *World, r *Report) {
	r.rule("K-LOCK", "lockset discipline for the pattern cache: every read of a mutable field (and of the map it holds) happens under RLock or Lock, every write under Lock; no lock is held at a return or while the user-supplied loader runs; locks are not re-acquired while held; fields read without a lock are never written after construction")
	ct, st := w.cacheType()
	if ct == nil {
		r.bad("ANCHOR", "K-LOCK", "", "mutex-guarded cache type not found")
		return
	}
	// mutable fields: stored to outside fresh-literal initialisation
	mutable := map[int]bool{}
	for _, fn := range w.AllFuncs {
		for _, b := range fn.Blocks {
			for _, in := range b.Instrs {
				if s, ok := in.(*ssa.Store); ok {
					if fa, ok := s.Addr.(*ssa.FieldAddr); ok && structOfAddr(fa) == ct && !isFreshAlloc(fa.X) {
						mutable[fa.Field] = true
					}
				}
				if mu, ok := in.(*ssa.MapUpdate); ok {
					if ld, ok := mu.Map.(*ssa.UnOp); ok {
						if fa, ok := ld.X.(*ssa.FieldAddr); ok && structOfAddr(fa) == ct && !isFreshAlloc(fa.X) {
							mutable[fa.Field] = true
						}
					}
				}
			}
		}
	}
	for i := 0; i < st.NumFields(); i++ {
		if isSyncType(st.Field(i).Type()) {
			continue
		}
		if mutable[i] {
			r.ok("K-LOCK", "field:"+st.Field(i).Name(), "", "mutable field: every access must hold the lock")
		} else {
			r.ok("K-LOCK", "field:"+st.Field(i).Name(), "", "never written after construction: lock-free reads are safe")
		}
	}
	naccess := 0
	var touching []*ssa.Function
	for _, fn := range w.AllFuncs {
		touches := false
		eachInstr(fn, false, func(_ *ssa.Function, in ssa.Instruction) {
			if fa, ok := in.(*ssa.FieldAddr); ok && structOfAddr(fa) == ct && !isFreshAlloc(fa.X) {
				touches = true
			}
		})
		if touches {
			touching = append(touching, fn)
		}
	}
	// helpers of the cache type that are only ever called with a lock held start
	// in that lock state: the states at their call sites are collected in a dry
	// run (two rounds: a helper of a helper), then the reporting run uses them
	w.lockEntry = map[*ssa.Function]lockState{}
	for round := 0; round < 2; round++ {
		w.lockSites = map[*ssa.Function][]lockState{}
		for _, fn := range touching {
			w.lockFlow(newReport("", "", w), fn, ct, st, mutable)
		}
		for callee, states := range w.lockSites {
			e := states[0]
			for _, x := range states[1:] {
				if x != e {
					e = lsConflict
				}
			}
			w.lockEntry[callee] = e
		}
	}
	w.lockSites = nil
	for _, fn := range touching {
		r.FuncsAnalysed[fnName(fn)] = true
		naccess += w.lockFlow(r, fn, ct, st, mutable)
	}
	if naccess == 0 {
		r.bad("K-LOCK", "accesses", "", "no guarded accesses found")
	}
}

func (w *World) lockFlow(r *Report, fn *ssa.Function, ct *types.Named, st *types.Struct, mutable map[int]bool) int {
	n := len(fn.Blocks)
	in := make([]lockState, n)
	out := make([]lockState, n)
	visited := make([]bool, n)
	deferred := ""
	// forward data-flow to a fix-point (states only; reporting in a second pass)
	stateAt := map[ssa.Instruction]lockState{}
	transfer := func(b *ssa.BasicBlock, s lockState, report bool) lockState {
		mapVals := map[ssa.Value]int{} // values holding the map of a mutable field -> field index
		for _, ins := range b.Instrs {
			if report {
				stateAt[ins] = s
			}
			if k, ok := w.lockCall(ins, ct); ok {
				if _, isDefer := ins.(*ssa.Defer); isDefer {
					deferred = k
					continue
				}
				key := fmt.Sprintf("%s:%s", fnName(fn), k)
				switch k {
				case "RLock", "Lock":
					if s != lsNone && report {
						r.bad("K-LOCK", key, w.instrPos(ins), fmt.Sprintf("%s while already holding %s: self-deadlock", k, s))
					} else if report {
						r.ok("K-LOCK", key, w.instrPos(ins), "acquired with no lock held")
					}
					if k == "RLock" {
						s = lsR
					} else {
						s = lsW
					}
				case "RUnlock":
					if s != lsR && report {
						r.bad("K-LOCK", key, w.instrPos(ins), fmt.Sprintf("RUnlock in state %s", s))
					} else if report {
						r.ok("K-LOCK", key, w.instrPos(ins), "releases the read lock")
					}
					s = lsNone
				case "Unlock":
					if s != lsW && report {
						r.bad("K-LOCK", key, w.instrPos(ins), fmt.Sprintf("Unlock in state %s", s))
					} else if report {
						r.ok("K-LOCK", key, w.instrPos(ins), "releases the write lock")
					}
					s = lsNone
				}
				continue
			}
			switch x := ins.(type) {
			case *ssa.UnOp:
				if x.Op != token.MUL {
					continue
				}
				fa, ok := x.X.(*ssa.FieldAddr)
				if !ok || structOfAddr(fa) != ct {
					continue
				}
				fname := st.Field(fa.Field).Name()
				if _, isMap := st.Field(fa.Field).Type().Underlying().(*types.Map); isMap {
					mapVals[x] = fa.Field
				}
				if !mutable[fa.Field] || !report {
					continue
				}
				key := fmt.Sprintf("%s:read %s", fnName(fn), fname)
				if s == lsNone || s == lsConflict {
					r.bad("K-LOCK", key, w.instrPos(x), fmt.Sprintf("mutable field %s read in lock state %s: data race with a concurrent get", fname, s))
				} else {
					r.ok("K-LOCK", key, w.instrPos(x), "read under "+s.String())
				}
			case *ssa.Lookup:
				if fi, ok := mapVals[x.X]; ok && report {
					key := fmt.Sprintf("%s:lookup %s", fnName(fn), st.Field(fi).Name())
					if s == lsNone || s == lsConflict {
						r.bad("K-LOCK", key, w.instrPos(x), "map lookup without holding the lock")
					} else {
						r.ok("K-LOCK", key, w.instrPos(x), "lookup under "+s.String())
					}
				}
			case *ssa.Range:
				if fi, ok := mapVals[x.X]; ok && report && (s == lsNone || s == lsConflict) {
					r.bad("K-LOCK", fmt.Sprintf("%s:range %s", fnName(fn), st.Field(fi).Name()), w.instrPos(x), "map iteration without holding the lock")
				}
			case *ssa.MapUpdate:
				if fi, ok := mapVals[x.Map]; ok && report {
					key := fmt.Sprintf("%s:insert %s", fnName(fn), st.Field(fi).Name())
					if s != lsW {
						r.bad("K-LOCK", key, w.instrPos(x), fmt.Sprintf("map insertion in lock state %s (needs the write lock)", s))
					} else {
						r.ok("K-LOCK", key, w.instrPos(x), "insertion under W")
					}
				}
			case *ssa.Store:
				fa, ok := x.Addr.(*ssa.FieldAddr)
				if !ok || structOfAddr(fa) != ct || isFreshAlloc(fa.X) || !report {
					continue
				}
				key := fmt.Sprintf("%s:write %s", fnName(fn), st.Field(fa.Field).Name())
				if s != lsW {
					r.bad("K-LOCK", key, w.instrPos(x), fmt.Sprintf("field written in lock state %s (needs the write lock)", s))
				} else {
					r.ok("K-LOCK", key, w.instrPos(x), "write under W")
				}
			case *ssa.Call:
				// a helper method of the cache called on the same receiver: it starts in this lock state
				if callee := x.Call.StaticCallee(); callee != nil && w.lockSites != nil && report && callee.Signature.Recv() != nil && len(x.Call.Args) > 0 && isRecv(x.Call.Args[0]) {
					if n, ok := derefNamed(callee.Signature.Recv().Type()); ok && n == ct {
						if _, isLock := w.lockCall(ins, ct); !isLock {
							w.lockSites[callee] = append(w.lockSites[callee], s)
						}
					}
				}
				// dynamic call of a func-typed field (the loader) or len() of the map
				if bi, ok := x.Call.Value.(*ssa.Builtin); ok && bi.Name() == "len" && len(x.Call.Args) == 1 {
					if fi, ok := mapVals[x.Call.Args[0]]; ok && report {
						key := fmt.Sprintf("%s:len %s", fnName(fn), st.Field(fi).Name())
						if s == lsNone || s == lsConflict {
							r.bad("K-LOCK", key, w.instrPos(x), "len(map) without holding the lock")
						} else {
							r.ok("K-LOCK", key, w.instrPos(x), "len under "+s.String())
						}
					}
					continue
				}
				if ld, ok := x.Call.Value.(*ssa.UnOp); ok && ld.Op == token.MUL {
					if fa, ok := ld.X.(*ssa.FieldAddr); ok && structOfAddr(fa) == ct && report {
						key := fmt.Sprintf("%s:call %s", fnName(fn), st.Field(fa.Field).Name())
						if s != lsNone {
							r.bad("K-LOCK", key, w.instrPos(x), fmt.Sprintf("user-supplied loader runs while holding %s: blocks all readers / can deadlock on re-entry", s))
						} else {
							r.ok("K-LOCK", key, w.instrPos(x), "loader called with no lock held")
						}
					}
				}
			case *ssa.Return:
				// the map itself handed out of the function: whoever receives it reads
				// (or writes) it outside any critical section
				for ri := range x.Results {
					rv := strip(retVal(x, ri))
					fi, ok := mapVals[rv]
					if !ok {
						// a result variable (spilled because of a defer): what was stored in it
						if ld, isLd := rv.(*ssa.UnOp); isLd && ld.Op == token.MUL {
							if a, isA := ld.X.(*ssa.Alloc); isA {
								for _, stt := range cellStores(a) {
									if f2, ok2 := mapVals[strip(stt.Val)]; ok2 {
										fi, ok = f2, true
									}
								}
							}
						}
					}
					if ok && report && mutable[fi] {
						r.bad("K-LOCK", fmt.Sprintf("%s:escape %s", fnName(fn), st.Field(fi).Name()), w.instrPos(x), fmt.Sprintf("the map in field %s is returned to the caller: it is then looked up or iterated after the lock has been released, racing with an insertion under the write lock", st.Field(fi).Name()))
					}
				}
				if report {
					key := fmt.Sprintf("%s:return", fnName(fn))
					eff := s
					if deferred == "Unlock" && s == lsW || deferred == "RUnlock" && s == lsR {
						eff = lsNone
					}
					switch {
					case eff == w.lockEntry[fn] && eff != lsNone:
						r.ok("K-LOCK", key, w.instrPos(x), "a helper called with "+eff.String()+" held returns with it held")
					case eff != lsNone:
						r.bad("K-LOCK", key, w.instrPos(x), fmt.Sprintf("returns while holding %s: the cache stays locked", s))
					case w.lockEntry[fn] != lsNone:
						r.bad("K-LOCK", key, w.instrPos(x), fmt.Sprintf("a helper that is called with %s held releases it: its caller goes on as if it still held the lock", w.lockEntry[fn]))
					default:
						r.ok("K-LOCK", key, w.instrPos(x), "no lock held at return")
					}
				}
			}
		}
		return s
	}
	entry := w.lockEntry[fn]
	in[0] = entry
	work := []*ssa.BasicBlock{fn.Blocks[0]}
	visited[0] = true
	for len(work) > 0 {
		b := work[0]
		work = work[1:]
		o := transfer(b, in[b.Index], false)
		out[b.Index] = o
		for _, s := range b.Succs {
			ns := o
			if visited[s.Index] {
				if in[s.Index] != o {
					ns = lsConflict
				}
				if in[s.Index] == ns {
					continue
				}
			}
			visited[s.Index] = true
			in[s.Index] = ns
			work = append(work, s)
		}
	}
	before := len(r.Obls)
	for _, b := range fn.Blocks {
		if !visited[b.Index] {
			continue
		}
		if in[b.Index] == lsConflict {
			r.bad("K-LOCK", fmt.Sprintf("%s:join", fnName(fn)), w.instrPos(b.Instrs[0]), "paths with different lock states meet")
		}
		transfer(b, in[b.Index], true)
	}
	// a decision taken inside the write-locked section must rest on what was
	// read inside it: a capacity test evaluated under the read lock (or none)
	// is stale by the time the write lock is held
	for _, b := range fn.Blocks {
		ifi := blockIf(b)
		if ifi == nil || !visited[b.Index] || stateAt[ifi] != lsW {
			continue
		}
		var stale ssa.Instruction
		seen := map[ssa.Value]bool{}
		var walk func(v ssa.Value, d int)
		walk = func(v ssa.Value, d int) {
			if v == nil || seen[v] || d > 10 {
				return
			}
			seen[v] = true
			switch x := v.(type) {
			case *ssa.BinOp:
				walk(x.X, d+1)
				walk(x.Y, d+1)
			case *ssa.Phi:
				for _, e := range x.Edges {
					walk(e, d+1)
				}
			case *ssa.Extract:
				walk(x.Tuple, d+1)
			case *ssa.Lookup:
				walk(x.X, d+1)
			case *ssa.Call:
				if bi, ok := x.Call.Value.(*ssa.Builtin); ok && bi.Name() == "len" {
					walk(x.Call.Args[0], d+1)
				}
			case *ssa.UnOp:
				if x.Op == token.MUL {
					if fa, ok := x.X.(*ssa.FieldAddr); ok && structOfAddr(fa) == ct && mutable[fa.Field] {
						if st, ok := stateAt[x]; ok && st != lsW {
							stale = x
						}
						return
					}
				}
				walk(x.X, d+1)
			}
		}
		walk(ifi.Cond, 0)
		key := fmt.Sprintf("%s:decision", fnName(fn))
		if stale != nil {
			r.bad("K-LOCK", key, w.instrPos(ifi), fmt.Sprintf("a branch inside the write-locked section is decided by a value read at %s before the write lock was taken: another goroutine may have changed the map in between (the capacity can be exceeded)", w.instrPos(stale)))
		} else {
			r.ok("K-LOCK", key, w.instrPos(ifi), "decided by values read inside the same critical section")
		}
	}
	return len(r.Obls) - before
}

// cacheGet: the method of the cache type that looks up, loads and inserts.
// cacheGet: the method of the cache type with the shape key -> (value, error).
func (w *World) cacheGet(ct *types.Named) *ssa.Function {
	for _, fn := range w.AllFuncs {
		if fn.Parent() != nil || fn.Signature.Recv() == nil {
			continue
		}
		if typeName(fn.Signature.Recv().Type()) != ct.Obj().Name() {
			continue
		}
		sig := fn.Signature
		if sig.Params().Len() == 1 && sig.Results().Len() == 2 && isEmptyIface(sig.Params().At(0).Type()) && isEmptyIface(sig.Results().At(0).Type()) && isErrorType(sig.Results().At(1).Type()) {
			return fn
		}
	}
	return nil
}

// cacheRun: get followed (absint.go) on a cache with capacity cap whose map
// holds the given entries (tag -> tag), asked for key "K", the loader standing
// for "returns (loaded, nil)" or, with loadFails, "returns (junk, failure)".
type cacheRun struct {
	Ret        AVal
	LoaderKeys []string
	Map        map[string]string // key tag -> value tag after the call
	Opaque     bool
	Cut, Panic bool
}

func (w *World) cacheRuns(ct *types.Named, st0 *types.Struct, get *ssa.Function, capacity int64, entries map[string]string, loadFails bool) []cacheRun {
	capIdx, mapIdx, loadIdx := -1, -1, -1
	for i := 0; i < st0.NumFields(); i++ {
		switch u := st0.Field(i).Type().Underlying().(type) {
		case *types.Map:
			mapIdx = i
		case *types.Signature:
			loadIdx = i
		case *types.Basic:
			if u.Info()&types.IsInteger != 0 && !w.fieldStoredInMethods(ct, st0.Field(i)) {
				capIdx = i // the integer configured at construction (a counter that is written is state)
			}
		}
	}
	if capIdx < 0 || mapIdx < 0 || loadIdx < 0 {
		return nil
	}
	// a function of the loader's type to stand for the loader
	var marker *ssa.Function
	for _, fn := range w.AllFuncs {
		if fn.Signature.Recv() == nil && types.Identical(fn.Signature, st0.Field(loadIdx).Type().Underlying()) {
			marker = fn
		}
	}
	if marker == nil {
		return nil
	}
	st := w.initState()
	c := st.newObj(ct, nil)
	c.Extern = true
	c.Fields[capIdx] = aInt(capacity)
	m := st.newObj(st0.Field(mapIdx).Type(), nil)
	m.IsMap = true
	for k, v := range entries {
		m.mapSet(AVal{Kind: avUnknown, Tag: k}, AVal{Kind: avUnknown, Tag: v})
	}
	c.Fields[mapIdx] = AVal{Kind: avPtr, Obj: m, Field: -1}
	c.Fields[loadIdx] = AVal{Kind: avFunc, Fn: marker}
	var hooks AHooks
	hooks.Call = func(ai *AInterp, s2 *AState, site ssa.CallInstruction, callee *ssa.Function, args []AVal) (bool, AVal) {
		if callee == marker && site.Common().StaticCallee() == nil {
			s2.Trace = append(s2.Trace, AEvent{Kind: "loader", Site: site, Args: args})
			if loadFails {
				e := s2.newObj(nil, nil)
				return true, AVal{Kind: avTuple, Tup: []AVal{{Kind: avUnknown, Tag: "junk"}, {Kind: avPtr, Obj: e, Field: -1, Tag: "failure"}}}
			}
			tag := "loaded:?"
			if len(args) == 1 && args[0].Tag != "" {
				tag = "loaded:" + args[0].Tag
			}
			return true, AVal{Kind: avTuple, Tup: []AVal{{Kind: avUnknown, Tag: tag}, {Kind: avNil}}}
		}
		return false, AVal{}
	}
	ai := w.newInterp(hooks)
	var out []cacheRun
	for _, o := range ai.Exec(get, []AVal{{Kind: avPtr, Obj: c, Field: -1}, {Kind: avUnknown, Tag: "K"}}, nil, st) {
		cr := cacheRun{Ret: o.Ret, Cut: o.Cut, Panic: o.Panicked, Map: map[string]string{}}
		for _, ev := range o.St.Trace {
			if ev.Kind == "loader" && len(ev.Args) == 1 {
				cr.LoaderKeys = append(cr.LoaderKeys, ev.Args[0].Tag)
			}
		}
		// the map the cache holds now
		mv := o.St.obj(c).Fields[mapIdx]
		if mv.Kind == avPtr {
			mo := o.St.obj(mv.Obj)
			cr.Opaque = mo.Opaque || !mo.IsMap
			for id, v := range mo.Map {
				cr.Map[mo.Keys[id].Tag] = v.Tag
			}
		} else {
			cr.Opaque = true
		}
		out = append(out, cr)
	}
	return out
}

func ruleKRest(w *World, r *Report) {
	r.rule("K-NEG", "abstract interpretation of the cache lookup with a failing loader: the failure is returned and the map holds no entry for the key afterwards")
	r.rule("K-CAP", "abstract interpretation of the cache lookup on an abstract map at, below and without capacity: with capacity >= 1 the map never holds more entries than the capacity afterwards, on every path")
	r.rule("K-KEY", "abstract interpretation of the cache lookup (miss, hit, failing load): the value returned for K is the value the loader produced for K or the entry stored under K, and every entry the map holds afterwards is an earlier entry or K -> load(K); getRegexp passes its pattern as the key and the default loader compiles exactly its key")
	ct, st := w.cacheType()
	if ct == nil {
		r.bad("ANCHOR", "K-*", "", "cache type not found")
		return
	}
	get := w.cacheGet(ct)
	if get == nil {
		r.bad("ANCHOR", "K-*", "", "cache get method not found")
		return
	}
	r.FuncsAnalysed[fnName(get)] = true
	pos := w.pos(get.Pos())
	type scen struct {
		name      string
		cap       int64
		entries   map[string]string
		loadFails bool
	}
	describe := func(cr cacheRun) string {
		var ks []string
		for k, v := range cr.Map {
			ks = append(ks, k+"->"+v)
		}
		sort.Strings(ks)
		return fmt.Sprintf("returns %s, loader called with %v, map now {%s}", cr.Ret.String(), cr.LoaderKeys, strings.Join(ks, ", "))
	}
	check := func(rule, key string, sc scen, good func(cr cacheRun) string, okText string) {
		runs := w.cacheRuns(ct, st, get, sc.cap, sc.entries, sc.loadFails)
		if len(runs) == 0 {
			r.undec(rule, key, pos, "the cache lookup could not be followed ("+sc.name+")")
			return
		}
		for _, cr := range runs {
			if cr.Cut || cr.Opaque {
				r.undec(rule, key, pos, "a path of the cache lookup could not be followed to its end ("+sc.name+")")
				return
			}
			if cr.Panic {
				r.bad(rule, key, pos, sc.name+": the lookup panics")
				return
			}
			if why := good(cr); why != "" {
				r.bad(rule, key, pos, fmt.Sprintf("%s: %s (%s)", sc.name, why, describe(cr)))
				return
			}
		}
		r.ok(rule, key, pos, okText)
	}
	retPair := func(cr cacheRun) (AVal, AVal, bool) {
		if cr.Ret.Kind != avTuple || len(cr.Ret.Tup) != 2 {
			return AVal{}, AVal{}, false
		}
		return cr.Ret.Tup[0], cr.Ret.Tup[1], true
	}
	// What the property demands, and no more: the value returned for K is a
	// compilation of K (freshly loaded with K, or an entry stored under K);
	// every entry the map holds afterwards is an entry it held before or
	// K -> load(K); a failed load is reported and leaves no entry; with a
	// capacity >= 1 the map never holds more entries than that. Whether and
	// how long entries are kept is the cache's business (hit rate, eviction
	// policy) and is not judged.
	const loadedK = "loaded:K"
	entriesOK := func(sc scen, cr cacheRun) string {
		for k, v := range cr.Map {
			if old, ok := sc.entries[k]; ok && old == v {
				continue
			}
			if k == "K" && v == loadedK {
				continue
			}
			return fmt.Sprintf("afterwards the cache holds %s -> %s, which is neither an entry it held before nor the requested key with the value loaded for it: a later lookup of %s returns the wrong compilation", k, v, k)
		}
		if sc.cap > 0 && len(cr.Map) > int(sc.cap) {
			return fmt.Sprintf("afterwards the cache holds %d entries with capacity %d", len(cr.Map), sc.cap)
		}
		return ""
	}
	miss := scen{"a miss on an empty cache with room (capacity 2)", 2, map[string]string{}, false}
	check("K-KEY", "return-loaded", miss, func(cr cacheRun) string {
		v, e, ok := retPair(cr)
		if !ok || v.Tag != loadedK || e.Kind != avNil {
			return "the value returned is not (the value the loader produced for the requested key, nil)"
		}
		return ""
	}, "returns the value loaded for the requested key")
	check("K-KEY", "insert-key", miss, func(cr cacheRun) string { return entriesOK(miss, cr) }, "whatever is stored is stored under the requested key and is the value loaded for it")
	hit := scen{"a hit (K cached)", 2, map[string]string{"K": "cached", "A": "a"}, false}
	check("K-KEY", "return-hit", hit, func(cr cacheRun) string {
		v, e, ok := retPair(cr)
		if !ok || (v.Tag != "cached" && v.Tag != loadedK) || e.Kind != avNil {
			return "a cached key returns neither its cached value nor a fresh load of the key"
		}
		return entriesOK(hit, cr)
	}, "returns the looked-up value on the found edge")
	fail := scen{"a miss whose load fails", 2, map[string]string{"A": "a"}, true}
	check("K-KEY", "return-error", fail, func(cr cacheRun) string {
		_, e, ok := retPair(cr)
		if !ok || (e.Tag != "failure" && e.Kind != avPtr) {
			return "the loader's failure is not reported to the caller"
		}
		return ""
	}, "a failed load is reported as an error")
	check("K-NEG", "insert", fail, func(cr cacheRun) string {
		if _, ok := cr.Map["K"]; ok {
			return "the cache map is written although the load failed: failed loads are remembered"
		}
		return entriesOK(fail, cr)
	}, "a failed load leaves no entry")
	full := scen{"a miss on a full cache (capacity 2, 2 entries)", 2, map[string]string{"A": "a", "B": "b"}, false}
	check("K-CAP", "insert", full, func(cr cacheRun) string { return entriesOK(full, cr) }, "at capacity the insertion does not grow the map beyond the capacity")
	full1 := scen{"a miss on a full cache (capacity 1, 1 entry)", 1, map[string]string{"A": "a"}, false}
	check("K-CAP", "reset-literal", full1, func(cr cacheRun) string { return entriesOK(full1, cr) }, "capacity 1: at most one entry afterwards")
	room := scen{"a miss with one free slot (capacity 3, 2 entries)", 3, map[string]string{"A": "a", "B": "b"}, false}
	check("K-CAP", "keep", room, func(cr cacheRun) string { return entriesOK(room, cr) }, "below capacity: entries are valid and within the capacity")
	unb := scen{"an unbounded cache (capacity 0)", 0, map[string]string{"A": "a", "B": "b"}, false}
	check("K-CAP", "unbounded", unb, func(cr cacheRun) string { return entriesOK(unb, cr) }, "capacity 0 (documented: unbounded): entries are valid")

	// getRegexp-like: package functions that call get with a string parameter as key
	for _, fn := range w.AllFuncs {
		eachInstr(fn, false, func(_ *ssa.Function, in ssa.Instruction) {
			c, ok := in.(*ssa.Call)
			if !ok || c.Call.StaticCallee() != get || len(c.Call.Args) != 2 {
				return
			}
			r.FuncsAnalysed[fnName(fn)] = true
			k := strip(c.Call.Args[1])
			if mi, ok := k.(*ssa.MakeInterface); ok {
				k = resolve(mi.X)
			}
			name := fnName(fn) + ":key"
			if p, ok := k.(*ssa.Parameter); ok && p.Parent() == fn {
				r.ok("K-KEY", name, w.instrPos(c), "passes its parameter "+p.Name()+" as the cache key")
			} else {
				r.bad("K-KEY", name, w.instrPos(c), fmt.Sprintf("cache key is %s, not the pattern argument", k))
			}
			// the receiver is the package-level cache
			if ld, ok := c.Call.Args[0].(*ssa.UnOp); ok {
				if _, isG := ld.X.(*ssa.Global); isG {
					r.ok("K-KEY", fnName(fn)+":cache", w.instrPos(c), "uses the package-level cache")
				}
			}
			// result: every value returned without an error is the cache's answer for the key
			var fromGet func(v ssa.Value, d int) bool
			fromGet = func(v ssa.Value, d int) bool {
				if d > 6 {
					return false
				}
				switch x := strip(v).(type) {
				case *ssa.TypeAssert:
					return fromGet(x.X, d+1)
				case *ssa.Extract:
					return x.Tuple == ssa.Value(c) && x.Index == 0
				case *ssa.Phi:
					for _, e := range x.Edges {
						if !fromGet(e, d+1) {
							return false
						}
					}
					return len(x.Edges) > 0
				case *ssa.Const:
					return x.Value == nil // the zero value of a named result on the error path
				case *ssa.UnOp:
					// a named result: everything ever stored in it
					if a, ok := x.X.(*ssa.Alloc); ok && x.Op == token.MUL {
						sts := cellStores(a)
						for _, st := range sts {
							if !fromGet(st.Val, d+1) {
								return false
							}
						}
						return true
					}
				}
				return false
			}
			for _, b := range fn.Blocks {
				ret, ok := normalReturn(b)
				if !ok || len(ret.Results) != 2 {
					continue
				}
				v0 := strip(retVal(ret, 0))
				if k0, ok := v0.(*ssa.Const); ok && k0.Value == nil {
					continue // the error return
				}
				if fromGet(v0, 0) {
					r.ok("K-KEY", fnName(fn)+":result", w.instrPos(ret), "returns the cached value for the key")
				} else {
					r.bad("K-KEY", fnName(fn)+":result", w.instrPos(ret), "returns a value that is not the answer of the pattern cache for this key (a second store beside the cache: outside its capacity accounting, and not replaced with it)")
				}
			}
		})
	}
	// the loader installed for the package-level cache compiles its key
	for _, fn := range w.AllFuncs {
		if !isLoaderShaped(fn) {
			continue
		}
		eachInstr(fn, false, func(_ *ssa.Function, in ssa.Instruction) {
			c, ok := in.(*ssa.Call)
			if !ok {
				return
			}
			f := c.Call.StaticCallee()
			if f == nil || f.Pkg == nil || f.Pkg.Pkg.Path() != "regexp" || !strings.HasPrefix(f.Name(), "Compile") && !strings.HasPrefix(f.Name(), "MustCompile") {
				return
			}
			r.FuncsAnalysed[fnName(fn)] = true
			a := strip(c.Call.Args[0])
			if ta, ok := a.(*ssa.TypeAssert); ok && resolve(ta.X) == ssa.Value(fn.Params[0]) {
				if f.Name() == "Compile" {
					r.ok("K-KEY", fnName(fn)+":loader", w.instrPos(c), "the loader is regexp.Compile(key.(string))")
				} else {
					r.bad("K-KEY", fnName(fn)+":loader", w.instrPos(c), "the loader uses regexp."+f.Name()+" (different syntax or panics) instead of regexp.Compile")
				}
			} else {
				r.bad("K-KEY", fnName(fn)+":loader", w.instrPos(c), "the loader compiles something other than its key")
			}
		})
	}
}

func negateOp(op token.Token) token.Token {
	switch op {
	case token.EQL:
		return token.NEQ
	case token.NEQ:
		return token.EQL
	case token.LSS:
		return token.GEQ
	case token.GEQ:
		return token.LSS
	case token.GTR:
		return token.LEQ
	case token.LEQ:
		return token.GTR
	}
	return op
}

func exprStr(v ssa.Value) string {
	if f, ok := recvFieldLoad(v); ok {
		return "c." + f.Name()
	}
	if c, ok := v.(*ssa.Call); ok {
		if bi, ok := c.Call.Value.(*ssa.Builtin); ok && len(c.Call.Args) == 1 {
			return bi.Name() + "(" + exprStr(c.Call.Args[0]) + ")"
		}
	}
	if c, ok := v.(*ssa.Const); ok {
		if c.Value == nil {
			return "nil"
		}
		return c.Value.String()
	}
	return v.Name()
}

// regexpGetters: package functions that call the cache's get with their own
// parameter as the key (getRegexp).
func (w *World) regexpGetters() []*ssa.Function {
	ct, _ := w.cacheType()
	if ct == nil {
		return nil
	}
	get := w.cacheGet(ct)
	var out []*ssa.Function
	for _, fn := range w.AllFuncs {
		found := false
		eachInstr(fn, false, func(_ *ssa.Function, in ssa.Instruction) {
			if c, ok := in.(*ssa.Call); ok && get != nil && c.Call.StaticCallee() == get {
				found = true
			}
		})
		if found {
			out = append(out, fn)
		}
	}
	return out
}

// originFreeVar traces a value computed inside a factory closure back to the
// captured argument query it was evaluated from.
func (w *World) originFreeVar(v ssa.Value) *ssa.FreeVar {
	seen := map[ssa.Value]bool{}
	via := map[*ssa.Function]*ssa.Call{} // helper entered through this call
	var walk func(v ssa.Value, d int) *ssa.FreeVar
	walk = func(v ssa.Value, d int) *ssa.FreeVar {
		if v == nil || seen[v] || d > 20 {
			return nil
		}
		seen[v] = true
		switch x := v.(type) {
		case *ssa.FreeVar:
			return x
		case *ssa.TypeAssert:
			return walk(x.X, d+1)
		case *ssa.Extract:
			return walk(x.Tuple, d+1)
		case *ssa.ChangeType:
			return walk(x.X, d+1)
		case *ssa.MakeInterface:
			return walk(x.X, d+1)
		case *ssa.Phi:
			for _, e := range x.Edges {
				if f := walk(e, d+1); f != nil {
					return f
				}
			}
		case *ssa.UnOp:
			if x.Op == token.MUL {
				if fv, ok := x.X.(*ssa.FreeVar); ok {
					return fv
				}
				// local cell: follow its stores
				if a := cellOf(x.X); a != nil {
					for _, st := range cellStores(a) {
						if f := walk(st.Val, d+1); f != nil {
							return f
						}
					}
				}
			}
		case *ssa.Parameter:
			// a parameter of a helper function: what its callers pass — the callers
			// inside the implementation being judged when one is set (originScope)
			h := x.Parent()
			if h == nil || h.Parent() != nil || !w.inPkg(h) {
				return nil
			}
			idx := -1
			for i, q := range h.Params {
				if q == x {
					idx = i
				}
			}
			n := w.CG.Nodes[h]
			if idx < 0 || n == nil {
				return nil
			}
			if site := via[h]; site != nil {
				// entered through this very call: its argument, not any caller's
				if idx < len(site.Call.Args) {
					outer := seen
					seen = map[ssa.Value]bool{}
					f := walk(site.Call.Args[idx], d+1)
					seen = outer
					return f
				}
				return nil
			}
			for _, e := range n.In {
				site, ok := e.Site.(*ssa.Call)
				if !ok || idx >= len(site.Call.Args) {
					continue
				}
				if w.originScope != nil && rootFn(site.Parent()) != w.originScope {
					continue
				}
				if f := walk(site.Call.Args[idx], d+1); f != nil {
					return f
				}
			}
		case *ssa.Call:
			if x.Call.IsInvoke() {
				return walk(x.Call.Value, d+1)
			}
			// a helper of this package: what its result is made of (its
			// parameters lead back to this call's arguments)
			if h := x.Call.StaticCallee(); h != nil && w.inPkg(h) && h.Parent() == nil && len(h.Blocks) > 0 && h.Signature.Results().Len() == 1 && via[h] == nil {
				via[h] = x
				outer := seen
				seen = map[ssa.Value]bool{}
				var found *ssa.FreeVar
				for _, hb := range h.Blocks {
					if ret, ok := normalReturn(hb); ok && found == nil {
						found = walk(retVal(ret, 0), d+1)
					}
				}
				seen = outer
				delete(via, h)
				if found != nil {
					return found
				}
			}
			for i := len(x.Call.Args) - 1; i >= 0; i-- {
				if f := walk(x.Call.Args[i], d+1); f != nil {
					return f
				}
			}
		}
		return nil
	}
	return walk(v, 0)
}

// factoryParamOf: the factory parameter index a free variable of the returned
// closure is bound to.
func factoryParamOf(fv *ssa.FreeVar) (int, bool) {
	b := bindingOf(fv)
	a, ok := b.(*ssa.Alloc)
	if !ok {
		return 0, false
	}
	for _, st := range cellStores(a) {
		if p, ok := st.Val.(*ssa.Parameter); ok {
			for i, q := range p.Parent().Params {
				if q == p {
					return i, true
				}
			}
		}
	}
	return 0, false
}

func ruleKPre(w *World, r *Report) {
	r.rule("K-PRE", "for every function factory whose closure compiles a pattern argument through the cache at run time, each call of the factory in the builder is preceded by: if the pattern argument's query is a constant, compile it now and return a non-nil error on failure")
	getters := w.regexpGetters()
	if len(getters) == 0 {
		r.bad("ANCHOR", "K-PRE", "", "no function obtains patterns from the cache")
		return
	}
	// getter-like functions and the parameter that carries the pattern: the
	// functions that ask the cache, and (transitively) package functions that
	// hand one of their own string parameters on to such a function
	patIdx := map[*ssa.Function]int{}
	for _, g := range getters {
		idx := -1
		for i, p := range g.Params {
			if bt, ok := p.Type().Underlying().(*types.Basic); ok && bt.Kind() == types.String {
				idx = i
			}
		}
		if idx >= 0 {
			patIdx[g] = idx
		}
	}
	for changed := true; changed; {
		changed = false
		for _, f := range w.AllFuncs {
			if _, done := patIdx[f]; done || f.Parent() != nil {
				continue
			}
			eachInstr(f, false, func(_ *ssa.Function, in ssa.Instruction) {
				c, ok := in.(*ssa.Call)
				if !ok || in.Parent() != f {
					return
				}
				gi, ok := patIdx[c.Call.StaticCallee()]
				if !ok || gi >= len(c.Call.Args) {
					return
				}
				// the wrapper asks on every path: the inner call dominates every
				// normal return, and a failure reported by it is not swallowed (the
				// wrapper panics or returns a non-nil error under it)
				for _, b := range f.Blocks {
					if _, ok := normalReturn(b); ok && !(c.Block() == b || c.Block().Dominates(b)) {
						return
					}
				}
				for _, u := range uses(c) {
					ex, ok := u.(*ssa.Extract)
					if !ok || !isErrorType(ex.Type()) {
						continue
					}
					for _, b := range f.Blocks {
						ret, ok := normalReturn(b)
						if !ok || !w.underNonNilTest(ex, b) {
							continue
						}
						if len(ret.Results) == 0 {
							return
						}
						last := ret.Results[len(ret.Results)-1]
						if !isErrorType(last.Type()) || !(w.nonNilByConstruction(last, b) || sameValue(last, ex)) {
							return
						}
					}
				}
				if p, ok := resolve(strip(c.Call.Args[gi])).(*ssa.Parameter); ok && p.Parent() == f {
					for i, q := range f.Params {
						if q == p {
							if _, done := patIdx[f]; !done {
								patIdx[f] = i
								changed = true
							}
						}
					}
				}
			})
		}
	}
	isGetter := func(f *ssa.Function) bool {
		_, ok := patIdx[f]
		return ok
	}
	patArgOf := func(c *ssa.Call) ssa.Value {
		i := patIdx[c.Call.StaticCallee()]
		if i < len(c.Call.Args) {
			return c.Call.Args[i]
		}
		return nil
	}
	// regex factories and their pattern parameter
	type fac struct {
		fn  *ssa.Function
		idx int
	}
	var facs []fac
	for _, cl := range w.sharedClosures() {
		eachInstr(cl, false, func(_ *ssa.Function, in ssa.Instruction) {
			c, ok := in.(*ssa.Call)
			if !ok || !isGetter(c.Call.StaticCallee()) {
				return
			}
			if cl.Parent() == nil {
				return // not a closure built by a factory
			}
			w.originScope = rootFn(cl)
			fv := w.originFreeVar(patArgOf(c))
			w.originScope = nil
			if fv == nil {
				r.undec("K-PRE", fnName(cl)+":pattern-origin", w.instrPos(c), "cannot trace the pattern to a captured argument")
				return
			}
			if i, ok := factoryParamOf(fv); ok {
				facs = append(facs, fac{cl.Parent(), i})
			}
		})
	}
	if len(facs) == 0 {
		r.bad("ANCHOR", "K-PRE", "", "no regex function factory found")
		return
	}
	for _, f := range facs {
		// call sites of the factory in build-time code
		n := w.CG.Nodes[f.fn]
		if n == nil {
			continue
		}
		for _, e := range n.In {
			site, ok := e.Site.(*ssa.Call)
			if !ok {
				continue
			}
			caller := site.Parent()
			r.FuncsAnalysed[fnName(caller)] = true
			patArg := resolve(site.Call.Args[f.idx])
			key := fmt.Sprintf("%s:%s", fnName(caller), f.fn.Name())
			// look for the precheck
			found := false
			var why string
			eachInstr(caller, false, func(_ *ssa.Function, in ssa.Instruction) {
				c, ok := in.(*ssa.Call)
				if !ok || !isGetter(c.Call.StaticCallee()) {
					return
				}
				// argument: X.Val.(string) where X is patArg asserted to a constant query
				if c.Parent() != caller {
					return
				}
				base := w.constQueryBase(patArgOf(c))
				if base == nil || !sameValue(base, patArg) {
					why = "a pattern is compiled, but not the one passed to " + f.fn.Name()
					return
				}
				ta := w.constQueryAssert(patArgOf(c))
				if ta == nil || !instrDominates(ta, site) || !w.underOkEdge(ta, c.Block()) {
					why = "the precheck does not precede the construction of the function on the constant-pattern path"
					return
				}
				// error outcome returns a non-nil error
				var errVals []ssa.Value
				if isErrorType(c.Type()) {
					errVals = append(errVals, c) // a helper that returns only the error
				}
				for _, u := range uses(c) {
					if ex, ok := u.(*ssa.Extract); ok && isErrorType(ex.Type()) {
						errVals = append(errVals, ex)
					}
				}
				for _, ex := range errVals {
					for _, b := range caller.Blocks {
						ret, ok := normalReturn(b)
						if !ok {
							continue
						}
						if w.underNonNilTest(ex, b) || w.cellUnderNonNil(ex, b) {
							last := retVal(ret, len(ret.Results)-1)
							if w.nonNilByConstruction(last, b) {
								found = true
							}
						}
					}
				}
				if !found {
					why = "the compile error of the constant pattern is not turned into an error return"
				}
			})
			if found {
				r.ok("K-PRE", key, w.instrPos(site), "constant pattern compiled at build time; failure returns an error")
			} else {
				if why == "" {
					why = "no compile-time check of a constant pattern"
				}
				r.bad("K-PRE", key, w.instrPos(site), fmt.Sprintf("%s: a constant pattern that does not compile is accepted by Compile and fails only when the expression is evaluated (%s)", f.fn.Name(), why))
			}
		}
	}
}

// cellUnderNonNil: v was stored into a local cell and blk is dominated by the
// non-nil edge of a test of a load of that cell.
func (w *World) cellUnderNonNil(v ssa.Value, blk *ssa.BasicBlock) bool {
	for _, u := range uses(v) {
		st, ok := u.(*ssa.Store)
		if !ok || st.Val != v {
			continue
		}
		a := cellOf(st.Addr)
		if a == nil {
			continue
		}
		for _, b := range blk.Parent().Blocks {
			for _, in := range b.Instrs {
				if ld, ok := in.(*ssa.UnOp); ok && ld.Op == token.MUL && cellOf(ld.X) == a {
					if instrDominates(st, ld) && w.underNonNilTest(ld, blk) {
						return true
					}
				}
			}
		}
	}
	return false
}

// constQueryAssert returns the comma-ok type assertion of constQueryBase's shape.
func (w *World) constQueryAssert(v ssa.Value) *ssa.TypeAssert {
	v = strip(v)
	if e0, ok := v.(*ssa.Extract); ok {
		v = e0.Tuple
	}
	ta, ok := v.(*ssa.TypeAssert)
	if !ok {
		return nil
	}
	ld, ok := strip(ta.X).(*ssa.UnOp)
	if !ok {
		return nil
	}
	fa, ok := ld.X.(*ssa.FieldAddr)
	if !ok {
		return nil
	}
	ex, ok := fa.X.(*ssa.Extract)
	if !ok {
		return nil
	}
	ta2, _ := ex.Tuple.(*ssa.TypeAssert)
	return ta2
}

// underOkEdge: blk is dominated by the ok edge of comma-ok assertion ta.
func (w *World) underOkEdge(ta *ssa.TypeAssert, blk *ssa.BasicBlock) bool {
	for _, u := range uses(ta) {
		if ex, ok := u.(*ssa.Extract); ok && ex.Index == 1 {
			for _, uu := range uses(ex) {
				if ifi, ok := uu.(*ssa.If); ok {
					t := ifi.Block().Succs[0]
					if len(t.Preds) == 1 && (t == blk || t.Dominates(blk)) {
						return true
					}
				}
			}
		}
	}
	return false
}

// constQueryBase: v == X.(*constantQuery-like).Val.(string) => X
func (w *World) constQueryBase(v ssa.Value) ssa.Value {
	v = strip(v)
	if e0, ok := v.(*ssa.Extract); ok {
		v = e0.Tuple
	}
	ta, ok := v.(*ssa.TypeAssert)
	if !ok {
		return nil
	}
	ld, ok := strip(ta.X).(*ssa.UnOp)
	if !ok || ld.Op != token.MUL {
		return nil
	}
	fa, ok := ld.X.(*ssa.FieldAddr)
	if !ok {
		return nil
	}
	qt := w.census.ByType[structOfAddr(fa)]
	if qt == nil || !w.isStatelessQueryValue(qt.Named) {
		return nil
	}
	ex, ok := fa.X.(*ssa.Extract)
	if !ok {
		return nil
	}
	ta2, ok := ex.Tuple.(*ssa.TypeAssert)
	if !ok {
		return nil
	}
	return resolve(ta2.X)
}

// fieldStoredInMethods: some method of named type nt stores to field f.
func (w *World) fieldStoredInMethods(nt *types.Named, f *types.Var) bool {
	found := false
	for _, fn := range w.AllFuncs {
		if fn.Signature.Recv() == nil || typeName(fn.Signature.Recv().Type()) != nt.Obj().Name() {
			continue
		}
		eachInstr(fn, true, func(_ *ssa.Function, in ssa.Instruction) {
			if st, ok := in.(*ssa.Store); ok {
				if fa, ok := st.Addr.(*ssa.FieldAddr); ok && fieldOfAddr(fa) == f {
					found = true
				}
			}
		})
	}
	return found
}

// ---------- K-SHARED ----------

// ruleKShared: what the cache hands out is shared by every goroutine and
// every later evaluation that asks for the same pattern. *regexp.Regexp is
// safe for concurrent use "except for configuration methods, such as Longest"
// (package documentation): a configuration method applied to a regexp that
// did not come out of regexp.Compile* in the same function changes how every
// other user of that pattern matches, and races with them.
func ruleKShared(w *World, r *Report) {
	r.rule("K-SHARED", "a configuration method of *regexp.Regexp (Longest: the only method of the type documented as not safe for concurrent use) is applied only to a regexp compiled in the same function, never to one obtained from the pattern cache or from another function; fields of a regexp are not written (S-WRITES)")
	config := map[string]bool{"Longest": true}
	n := 0
	for _, fn := range w.AllFuncs {
		eachInstr(fn, false, func(_ *ssa.Function, in ssa.Instruction) {
			c, ok := in.(ssa.CallInstruction)
			if !ok {
				return
			}
			callee := c.Common().StaticCallee()
			if callee == nil || callee.Pkg == nil || callee.Pkg.Pkg.Path() != "regexp" || callee.Signature.Recv() == nil {
				return
			}
			n++
			if !config[callee.Name()] {
				return
			}
			r.FuncsAnalysed[fnName(fn)] = true
			key := fnName(fn) + ":" + callee.Name()
			local := true
			var walk func(v ssa.Value, d int)
			seen := map[ssa.Value]bool{}
			walk = func(v ssa.Value, d int) {
				v = strip(v)
				if seen[v] || d > 8 {
					return
				}
				seen[v] = true
				switch x := v.(type) {
				case *ssa.Extract:
					walk(x.Tuple, d+1)
				case *ssa.Phi:
					for _, e := range x.Edges {
						walk(e, d+1)
					}
				case *ssa.Call:
					f := x.Call.StaticCallee()
					if f == nil || f.Pkg == nil || f.Pkg.Pkg.Path() != "regexp" || f.Signature.Recv() != nil {
						local = false
					}
				case *ssa.UnOp:
					if a, ok := x.X.(*ssa.Alloc); ok && x.Op == token.MUL {
						for _, st := range cellStores(a) {
							walk(st.Val, d+1)
						}
						return
					}
					local = false
				default:
					local = false
				}
			}
			walk(c.Common().Args[0], 0)
			if local {
				r.ok("K-SHARED", key, w.instrPos(in), "applied to a regexp compiled in this function")
			} else {
				r.bad("K-SHARED", key, w.instrPos(in), fmt.Sprintf("%s() is applied to a regexp that was not compiled in this function (it comes from the pattern cache or a caller): the object is shared by all evaluations and goroutines using the pattern, the call changes how they match and races with them", callee.Name()))
			}
		})
	}
	if n == 0 {
		r.note("K-SHARED: no method of *regexp.Regexp is called in the package")
	} else {
		r.ok("K-SHARED", "census", "", fmt.Sprintf("%d calls of *regexp.Regexp methods examined", n))
	}
}
