package main

// Group K — the pattern cache (C16, C05): K-LOCK, K-NEG, K-CAP, K-KEY, K-PRE.

import (
	"fmt"
	"go/token"
	"go/types"
	"strings"

	"golang.org/x/tools/go/ssa"
)

// cacheType: the package struct type with an embedded sync mutex and a map
// field.
func (w *World) cacheType() (*types.Named, *types.Struct) {
	scope := w.Types.Scope()
	for _, n := range scope.Names() {
		tn, ok := scope.Lookup(n).(*types.TypeName)
		if !ok {
			continue
		}
		named, ok := tn.Type().(*types.Named)
		if !ok {
			continue
		}
		st, ok := named.Underlying().(*types.Struct)
		if !ok {
			continue
		}
		hasMu, hasMap := false, false
		for i := 0; i < st.NumFields(); i++ {
			if isSyncType(st.Field(i).Type()) {
				hasMu = true
			}
			if _, ok := st.Field(i).Type().Underlying().(*types.Map); ok {
				hasMap = true
			}
		}
		if hasMu && hasMap {
			return named, st
		}
	}
	return nil, nil
}

type lockState int

const (
	lsNone lockState = iota
	lsR
	lsW
	lsConflict
)

func (l lockState) String() string { return [...]string{"none", "R", "W", "conflict"}[l] }

// lockCallKind: RLock/RUnlock/Lock/Unlock on the mutex embedded in base.
func (w *World) lockCall(in ssa.Instruction, ct *types.Named) (kind string, ok bool) {
	ci, isCall := in.(ssa.CallInstruction)
	if !isCall {
		return "", false
	}
	cc := ci.Common()
	f := cc.StaticCallee()
	if f == nil || f.Pkg == nil || f.Pkg.Pkg.Path() != "sync" || len(cc.Args) == 0 {
		return "", false
	}
	fa, isFA := cc.Args[0].(*ssa.FieldAddr)
	if !isFA || structOfAddr(fa) != ct {
		return "", false
	}
	switch f.Name() {
	case "RLock", "RUnlock", "Lock", "Unlock":
		return f.Name(), true
	}
	return "", false
}

func ruleKLock(w *World, r *Report) {
	r.rule("K-LOCK", "lockset discipline for the pattern cache: every read of a mutable field (and of the map it holds) happens under RLock or Lock, every write under Lock; no lock is held at a return or while the user-supplied loader runs; locks are not re-acquired while held; fields read without a lock are never written after construction")
	ct, st := w.cacheType()
	if ct == nil {
		r.bad("ANCHOR", "K-LOCK", "", "mutex-guarded cache type not found")
		return
	}
	// mutable fields: stored to outside fresh-literal initialisation
	mutable := map[int]bool{}
	for _, fn := range w.AllFuncs {
		for _, b := range fn.Blocks {
			for _, in := range b.Instrs {
				if s, ok := in.(*ssa.Store); ok {
					if fa, ok := s.Addr.(*ssa.FieldAddr); ok && structOfAddr(fa) == ct && !isFreshAlloc(fa.X) {
						mutable[fa.Field] = true
					}
				}
				if mu, ok := in.(*ssa.MapUpdate); ok {
					if ld, ok := mu.Map.(*ssa.UnOp); ok {
						if fa, ok := ld.X.(*ssa.FieldAddr); ok && structOfAddr(fa) == ct && !isFreshAlloc(fa.X) {
							mutable[fa.Field] = true
						}
					}
				}
			}
		}
	}
	for i := 0; i < st.NumFields(); i++ {
		if isSyncType(st.Field(i).Type()) {
			continue
		}
		if mutable[i] {
			r.ok("K-LOCK", "field:"+st.Field(i).Name(), "", "mutable field: every access must hold the lock")
		} else {
			r.ok("K-LOCK", "field:"+st.Field(i).Name(), "", "never written after construction: lock-free reads are safe")
		}
	}
	naccess := 0
	for _, fn := range w.AllFuncs {
		touches := false
		eachInstr(fn, false, func(_ *ssa.Function, in ssa.Instruction) {
			if fa, ok := in.(*ssa.FieldAddr); ok && structOfAddr(fa) == ct && !isFreshAlloc(fa.X) {
				touches = true
			}
		})
		if !touches {
			continue
		}
		r.FuncsAnalysed[fnName(fn)] = true
		naccess += w.lockFlow(r, fn, ct, st, mutable)
	}
	if naccess == 0 {
		r.bad("K-LOCK", "accesses", "", "no guarded accesses found")
	}
}

func (w *World) lockFlow(r *Report, fn *ssa.Function, ct *types.Named, st *types.Struct, mutable map[int]bool) int {
	n := len(fn.Blocks)
	in := make([]lockState, n)
	out := make([]lockState, n)
	visited := make([]bool, n)
	deferred := ""
	// forward data-flow to a fix-point (states only; reporting in a second pass)
	transfer := func(b *ssa.BasicBlock, s lockState, report bool) lockState {
		mapVals := map[ssa.Value]int{} // values holding the map of a mutable field -> field index
		for _, ins := range b.Instrs {
			if k, ok := w.lockCall(ins, ct); ok {
				if _, isDefer := ins.(*ssa.Defer); isDefer {
					deferred = k
					continue
				}
				key := fmt.Sprintf("%s:%s", fnName(fn), k)
				switch k {
				case "RLock", "Lock":
					if s != lsNone && report {
						r.bad("K-LOCK", key, w.instrPos(ins), fmt.Sprintf("%s while already holding %s: self-deadlock", k, s))
					} else if report {
						r.ok("K-LOCK", key, w.instrPos(ins), "acquired with no lock held")
					}
					if k == "RLock" {
						s = lsR
					} else {
						s = lsW
					}
				case "RUnlock":
					if s != lsR && report {
						r.bad("K-LOCK", key, w.instrPos(ins), fmt.Sprintf("RUnlock in state %s", s))
					} else if report {
						r.ok("K-LOCK", key, w.instrPos(ins), "releases the read lock")
					}
					s = lsNone
				case "Unlock":
					if s != lsW && report {
						r.bad("K-LOCK", key, w.instrPos(ins), fmt.Sprintf("Unlock in state %s", s))
					} else if report {
						r.ok("K-LOCK", key, w.instrPos(ins), "releases the write lock")
					}
					s = lsNone
				}
				continue
			}
			switch x := ins.(type) {
			case *ssa.UnOp:
				if x.Op != token.MUL {
					continue
				}
				fa, ok := x.X.(*ssa.FieldAddr)
				if !ok || structOfAddr(fa) != ct {
					continue
				}
				fname := st.Field(fa.Field).Name()
				if _, isMap := st.Field(fa.Field).Type().Underlying().(*types.Map); isMap {
					mapVals[x] = fa.Field
				}
				if !mutable[fa.Field] || !report {
					continue
				}
				key := fmt.Sprintf("%s:read %s", fnName(fn), fname)
				if s == lsNone || s == lsConflict {
					r.bad("K-LOCK", key, w.instrPos(x), fmt.Sprintf("mutable field %s read in lock state %s: data race with a concurrent get", fname, s))
				} else {
					r.ok("K-LOCK", key, w.instrPos(x), "read under "+s.String())
				}
			case *ssa.Lookup:
				if fi, ok := mapVals[x.X]; ok && report {
					key := fmt.Sprintf("%s:lookup %s", fnName(fn), st.Field(fi).Name())
					if s == lsNone || s == lsConflict {
						r.bad("K-LOCK", key, w.instrPos(x), "map lookup without holding the lock")
					} else {
						r.ok("K-LOCK", key, w.instrPos(x), "lookup under "+s.String())
					}
				}
			case *ssa.Range:
				if fi, ok := mapVals[x.X]; ok && report && (s == lsNone || s == lsConflict) {
					r.bad("K-LOCK", fmt.Sprintf("%s:range %s", fnName(fn), st.Field(fi).Name()), w.instrPos(x), "map iteration without holding the lock")
				}
			case *ssa.MapUpdate:
				if fi, ok := mapVals[x.Map]; ok && report {
					key := fmt.Sprintf("%s:insert %s", fnName(fn), st.Field(fi).Name())
					if s != lsW {
						r.bad("K-LOCK", key, w.instrPos(x), fmt.Sprintf("map insertion in lock state %s (needs the write lock)", s))
					} else {
						r.ok("K-LOCK", key, w.instrPos(x), "insertion under W")
					}
				}
			case *ssa.Store:
				fa, ok := x.Addr.(*ssa.FieldAddr)
				if !ok || structOfAddr(fa) != ct || isFreshAlloc(fa.X) || !report {
					continue
				}
				key := fmt.Sprintf("%s:write %s", fnName(fn), st.Field(fa.Field).Name())
				if s != lsW {
					r.bad("K-LOCK", key, w.instrPos(x), fmt.Sprintf("field written in lock state %s (needs the write lock)", s))
				} else {
					r.ok("K-LOCK", key, w.instrPos(x), "write under W")
				}
			case *ssa.Call:
				// dynamic call of a func-typed field (the loader) or len() of the map
				if bi, ok := x.Call.Value.(*ssa.Builtin); ok && bi.Name() == "len" && len(x.Call.Args) == 1 {
					if fi, ok := mapVals[x.Call.Args[0]]; ok && report {
						key := fmt.Sprintf("%s:len %s", fnName(fn), st.Field(fi).Name())
						if s == lsNone || s == lsConflict {
							r.bad("K-LOCK", key, w.instrPos(x), "len(map) without holding the lock")
						} else {
							r.ok("K-LOCK", key, w.instrPos(x), "len under "+s.String())
						}
					}
					continue
				}
				if ld, ok := x.Call.Value.(*ssa.UnOp); ok && ld.Op == token.MUL {
					if fa, ok := ld.X.(*ssa.FieldAddr); ok && structOfAddr(fa) == ct && report {
						key := fmt.Sprintf("%s:call %s", fnName(fn), st.Field(fa.Field).Name())
						if s != lsNone {
							r.bad("K-LOCK", key, w.instrPos(x), fmt.Sprintf("user-supplied loader runs while holding %s: blocks all readers / can deadlock on re-entry", s))
						} else {
							r.ok("K-LOCK", key, w.instrPos(x), "loader called with no lock held")
						}
					}
				}
			case *ssa.Return:
				if report {
					key := fmt.Sprintf("%s:return", fnName(fn))
					eff := s
					if deferred == "Unlock" && s == lsW || deferred == "RUnlock" && s == lsR {
						eff = lsNone
					}
					if eff != lsNone {
						r.bad("K-LOCK", key, w.instrPos(x), fmt.Sprintf("returns while holding %s: the cache stays locked", s))
					} else {
						r.ok("K-LOCK", key, w.instrPos(x), "no lock held at return")
					}
				}
			}
		}
		return s
	}
	work := []*ssa.BasicBlock{fn.Blocks[0]}
	visited[0] = true
	for len(work) > 0 {
		b := work[0]
		work = work[1:]
		o := transfer(b, in[b.Index], false)
		out[b.Index] = o
		for _, s := range b.Succs {
			ns := o
			if visited[s.Index] {
				if in[s.Index] != o {
					ns = lsConflict
				}
				if in[s.Index] == ns {
					continue
				}
			}
			visited[s.Index] = true
			in[s.Index] = ns
			work = append(work, s)
		}
	}
	before := len(r.Obls)
	for _, b := range fn.Blocks {
		if !visited[b.Index] {
			continue
		}
		if in[b.Index] == lsConflict {
			r.bad("K-LOCK", fmt.Sprintf("%s:join", fnName(fn)), w.instrPos(b.Instrs[0]), "paths with different lock states meet")
		}
		transfer(b, in[b.Index], true)
	}
	return len(r.Obls) - before
}

// cacheGet: the method of the cache type that looks up, loads and inserts.
func (w *World) cacheGet(ct *types.Named) *ssa.Function {
	for _, fn := range w.AllFuncs {
		if fn.Signature.Recv() == nil || fn.Parent() != nil {
			continue
		}
		if typeName(fn.Signature.Recv().Type()) != ct.Obj().Name() {
			continue
		}
		hasLookup, hasUpdate := false, false
		eachInstr(fn, false, func(_ *ssa.Function, in ssa.Instruction) {
			switch in.(type) {
			case *ssa.Lookup:
				hasLookup = true
			case *ssa.MapUpdate:
				hasUpdate = true
			}
		})
		if hasLookup && hasUpdate {
			return fn
		}
	}
	return nil
}

func ruleKRest(w *World, r *Report) {
	r.rule("K-NEG", "every store into the cache map is dominated by the err == nil outcome of the loader call of the same invocation")
	r.rule("K-CAP", "every growing insertion into the cache map is entered only by edges that imply cap <= 0 or len(m) < cap, inside one critical section; the other write replaces the map by a one-entry literal on a path with cap > 0")
	r.rule("K-KEY", "the key parameter flows unmodified to the lookup, the loader and the insertion; the value returned is the looked-up or the loaded value; getRegexp passes its pattern as the key and the default loader compiles exactly its key")
	ct, st := w.cacheType()
	if ct == nil {
		r.bad("ANCHOR", "K-*", "", "cache type not found")
		return
	}
	get := w.cacheGet(ct)
	if get == nil {
		r.bad("ANCHOR", "K-*", "", "cache get method not found")
		return
	}
	r.FuncsAnalysed[fnName(get)] = true
	if len(get.Params) < 2 {
		r.bad("ANCHOR", "K-KEY", w.pos(get.Pos()), "get has no key parameter")
		return
	}
	key := get.Params[1]
	capIdx, mapIdx := -1, -1
	for i := 0; i < st.NumFields(); i++ {
		if _, ok := st.Field(i).Type().Underlying().(*types.Map); ok {
			mapIdx = i
		}
	}
	isMapLoad := func(v ssa.Value) bool {
		ld, ok := v.(*ssa.UnOp)
		if !ok || ld.Op != token.MUL {
			return false
		}
		fa, ok := ld.X.(*ssa.FieldAddr)
		return ok && structOfAddr(fa) == ct && fa.Field == mapIdx
	}
	// loader call
	var loadCall *ssa.Call
	var lookup *ssa.Lookup
	eachInstr(get, false, func(_ *ssa.Function, in ssa.Instruction) {
		switch x := in.(type) {
		case *ssa.Call:
			if ld, ok := x.Call.Value.(*ssa.UnOp); ok && ld.Op == token.MUL {
				if fa, ok := ld.X.(*ssa.FieldAddr); ok && structOfAddr(fa) == ct {
					loadCall = x
				}
			}
		case *ssa.Lookup:
			if isMapLoad(x.X) {
				lookup = x
			}
		}
	})
	if loadCall == nil || lookup == nil {
		r.bad("ANCHOR", "K-*", w.pos(get.Pos()), "loader call or lookup not found in get")
		return
	}
	var loadV, loadErr ssa.Value
	for _, u := range uses(loadCall) {
		if ex, ok := u.(*ssa.Extract); ok {
			if ex.Index == 0 {
				loadV = ex
			} else {
				loadErr = ex
			}
		}
	}
	// K-KEY
	chk := func(name string, v ssa.Value, in ssa.Instruction) {
		if resolve(v) == ssa.Value(key) {
			r.ok("K-KEY", name, w.instrPos(in), "uses the key parameter unmodified")
		} else {
			r.bad("K-KEY", name, w.instrPos(in), fmt.Sprintf("%s uses %s instead of the requested key: the cache can return the compilation of a different pattern", name, v))
		}
	}
	chk("lookup-key", lookup.Index, lookup)
	if len(loadCall.Call.Args) == 1 {
		chk("load-key", loadCall.Call.Args[0], loadCall)
	} else {
		r.bad("K-KEY", "load-key", w.instrPos(loadCall), "loader not called with exactly the key")
	}
	// returns
	for _, b := range get.Blocks {
		ret, ok := normalReturn(b)
		if !ok || len(ret.Results) != 2 {
			continue
		}
		v := strip(retVal(ret, 0))
		switch {
		case isNilConst(v):
			if loadErr != nil && sameValue(retVal(ret, 1), loadErr) {
				r.ok("K-KEY", "return-error", w.instrPos(ret), "(nil, loader error)")
			} else {
				r.bad("K-KEY", "return-error", w.instrPos(ret), "nil value returned without the loader's error")
			}
		case loadV != nil && v == loadV:
			r.ok("K-KEY", "return-loaded", w.instrPos(ret), "returns the value loaded for the key")
		default:
			if ex, ok := v.(*ssa.Extract); ok && ex.Tuple == ssa.Value(lookup) && ex.Index == 0 {
				// must be on the found edge
				okFound := false
				for _, u := range uses(lookup) {
					if e2, ok := u.(*ssa.Extract); ok && e2.Index == 1 {
						for _, uu := range uses(e2) {
							if ifi, ok := uu.(*ssa.If); ok {
								t := ifi.Block().Succs[0]
								if t == b || t.Dominates(b) {
									okFound = true
								}
							}
						}
					}
				}
				if okFound {
					r.ok("K-KEY", "return-hit", w.instrPos(ret), "returns the looked-up value on the found edge")
				} else {
					r.bad("K-KEY", "return-hit", w.instrPos(ret), "looked-up value returned without testing found")
				}
			} else {
				r.bad("K-KEY", "return-other", w.instrPos(ret), fmt.Sprintf("get returns %s, neither the cached nor the loaded value", v))
			}
		}
	}
	// K-NEG and K-CAP
	for i := 0; i < st.NumFields(); i++ {
		if b, ok := st.Field(i).Type().Underlying().(*types.Basic); ok && b.Info()&types.IsInteger != 0 {
			// capacity = the int field compared with len(map)
			eachInstr(get, false, func(_ *ssa.Function, in ssa.Instruction) {
				if bo, ok := in.(*ssa.BinOp); ok {
					for _, side := range []ssa.Value{bo.X, bo.Y} {
						if c, ok := side.(*ssa.Call); ok {
							if bi, ok := c.Call.Value.(*ssa.Builtin); ok && bi.Name() == "len" && isMapLoad(c.Call.Args[0]) {
								other := bo.Y
								if side == bo.Y {
									other = bo.X
								}
								if f, ok := recvFieldLoad(other); ok && f == st.Field(i) {
									capIdx = i
								}
							}
						}
					}
				}
			})
		}
	}
	isCapLoad := func(v ssa.Value) bool {
		f, ok := recvFieldLoad(v)
		return ok && capIdx >= 0 && f == st.Field(capIdx)
	}
	nins := 0
	eachInstr(get, false, func(_ *ssa.Function, in ssa.Instruction) {
		var blk *ssa.BasicBlock
		var what string
		grows := false
		switch x := in.(type) {
		case *ssa.MapUpdate:
			if isMapLoad(x.Map) {
				blk, what, grows = x.Block(), "insert", true
				chk("insert-key", x.Key, x)
				if loadV != nil && x.Value == loadV {
					r.ok("K-KEY", "insert-value", w.instrPos(x), "inserts the loaded value")
				} else {
					r.bad("K-KEY", "insert-value", w.instrPos(x), "inserts something other than the value loaded for the key")
				}
			} else if mm, ok := x.Map.(*ssa.MakeMap); ok {
				// fresh map that replaces the cache map
				stored := false
				for _, u := range uses(mm) {
					if s, ok := u.(*ssa.Store); ok {
						if fa, ok := s.Addr.(*ssa.FieldAddr); ok && structOfAddr(fa) == ct && fa.Field == mapIdx {
							stored = true
						}
					}
				}
				if stored {
					blk, what = x.Block(), "reset-literal"
					chk("reset-key", x.Key, x)
					if loadV != nil && x.Value == loadV {
						r.ok("K-KEY", "reset-value", w.instrPos(x), "the replacing map holds the loaded value")
					} else {
						r.bad("K-KEY", "reset-value", w.instrPos(x), "the replacing map holds something other than the loaded value")
					}
				}
			}
		}
		if blk == nil {
			return
		}
		nins++
		if loadErr != nil && w.underNilTest(loadErr, blk) {
			r.ok("K-NEG", what, w.instrPos(in), "store dominated by err == nil of the loader call")
		} else {
			r.bad("K-NEG", what, w.instrPos(in), "the cache map is written on a path where the loader's error was not tested nil: failed loads are remembered")
		}
		if !grows {
			// replacing literal: one entry; the path must have cap > 0 (cap >= 1)
			r.ok("K-CAP", what, w.instrPos(in), "map replaced by a one-entry literal")
			return
		}
		if capIdx < 0 {
			r.bad("K-CAP", what, w.instrPos(in), "no comparison of len(map) with a capacity field guards the insertion: the cache is unbounded")
			return
		}
		// every predecessor edge of blk must imply cap <= 0 or len < cap
		okAll := len(blk.Preds) > 0
		why := ""
		for _, p := range blk.Preds {
			ifi := blockIf(p)
			if ifi == nil {
				okAll = false
				why = "entered by an unconditional edge"
				continue
			}
			cmp, neg := decodeCond(ifi.Cond)
			if cmp == nil {
				okAll = false
				why = "entered under an unrecognised condition"
				continue
			}
			onTrue := p.Succs[0] == blk
			if neg {
				onTrue = !onTrue
			}
			op := cmp.Op
			if !onTrue {
				op = negateOp(op)
			}
			// now `X op Y` holds on the edge
			x, y := cmp.X, cmp.Y
			implied := false
			// cap <= 0, cap < 1, 0 >= cap ...
			if isCapLoad(x) {
				if c, ok := constInt(y); ok && ((op == token.LEQ && c <= 0) || (op == token.LSS && c <= 1) || (op == token.EQL && c == 0)) {
					implied = true
				}
			}
			if isCapLoad(y) {
				if c, ok := constInt(x); ok && ((op == token.GEQ && c <= 0) || (op == token.GTR && c <= 1) || (op == token.EQL && c == 0)) {
					implied = true
				}
			}
			isLen := func(v ssa.Value) bool {
				c, ok := v.(*ssa.Call)
				if !ok {
					return false
				}
				bi, ok := c.Call.Value.(*ssa.Builtin)
				return ok && bi.Name() == "len" && isMapLoad(c.Call.Args[0])
			}
			if isLen(x) && isCapLoad(y) && op == token.LSS {
				implied = true
			}
			if isLen(y) && isCapLoad(x) && op == token.GTR {
				implied = true
			}
			if !implied {
				okAll = false
				why = fmt.Sprintf("edge from block %d only guarantees `%s %s %s`, which does not imply cap <= 0 or len(m) < cap", p.Index, exprStr(x), op, exprStr(y))
			}
			// same critical section: no unlock between the test and the insertion
			for _, ins := range blk.Instrs {
				if ins == in {
					break
				}
				if k, ok := w.lockCall(ins, ct); ok && strings.Contains(k, "nlock") {
					okAll = false
					why = "the lock is released between the capacity test and the insertion"
				}
			}
		}
		if okAll {
			r.ok("K-CAP", what, w.instrPos(in), "insertion entered only when cap <= 0 or len(m) < cap, within one critical section")
		} else {
			r.bad("K-CAP", what, w.instrPos(in), "insertion can grow the map beyond its capacity: "+why)
		}
	})
	if nins == 0 {
		r.bad("K-NEG", "stores", w.pos(get.Pos()), "no store into the cache map found")
	}

	// getRegexp-like: package functions that call get with a string parameter as key
	for _, fn := range w.AllFuncs {
		eachInstr(fn, false, func(_ *ssa.Function, in ssa.Instruction) {
			c, ok := in.(*ssa.Call)
			if !ok || c.Call.StaticCallee() != get || len(c.Call.Args) != 2 {
				return
			}
			r.FuncsAnalysed[fnName(fn)] = true
			k := strip(c.Call.Args[1])
			if mi, ok := k.(*ssa.MakeInterface); ok {
				k = resolve(mi.X)
			}
			name := fnName(fn) + ":key"
			if p, ok := k.(*ssa.Parameter); ok && p.Parent() == fn {
				r.ok("K-KEY", name, w.instrPos(c), "passes its parameter "+p.Name()+" as the cache key")
			} else {
				r.bad("K-KEY", name, w.instrPos(c), fmt.Sprintf("cache key is %s, not the pattern argument", k))
			}
			// the receiver is the package-level cache
			if ld, ok := c.Call.Args[0].(*ssa.UnOp); ok {
				if _, isG := ld.X.(*ssa.Global); isG {
					r.ok("K-KEY", fnName(fn)+":cache", w.instrPos(c), "uses the package-level cache")
				}
			}
			// result: type-asserted and returned under err == nil
			for _, b := range fn.Blocks {
				ret, ok := normalReturn(b)
				if !ok || len(ret.Results) != 2 {
					continue
				}
				if ta, ok := strip(retVal(ret, 0)).(*ssa.TypeAssert); ok {
					if ex, ok := ta.X.(*ssa.Extract); ok && ex.Tuple == ssa.Value(c) && ex.Index == 0 {
						r.ok("K-KEY", fnName(fn)+":result", w.instrPos(ret), "returns the cached value for the key")
					} else {
						r.bad("K-KEY", fnName(fn)+":result", w.instrPos(ret), "returns a value that is not the cache's answer for the key")
					}
				}
			}
		})
	}
	// the loader installed for the package-level cache compiles its key
	for _, fn := range w.AllFuncs {
		if fn.Parent() == nil || len(fn.Params) != 1 || fn.Signature.Results().Len() != 2 {
			continue
		}
		eachInstr(fn, false, func(_ *ssa.Function, in ssa.Instruction) {
			c, ok := in.(*ssa.Call)
			if !ok {
				return
			}
			f := c.Call.StaticCallee()
			if f == nil || f.Pkg == nil || f.Pkg.Pkg.Path() != "regexp" || !strings.HasPrefix(f.Name(), "Compile") && !strings.HasPrefix(f.Name(), "MustCompile") {
				return
			}
			r.FuncsAnalysed[fnName(fn)] = true
			a := strip(c.Call.Args[0])
			if ta, ok := a.(*ssa.TypeAssert); ok && resolve(ta.X) == ssa.Value(fn.Params[0]) {
				if f.Name() == "Compile" {
					r.ok("K-KEY", fnName(fn)+":loader", w.instrPos(c), "the loader is regexp.Compile(key.(string))")
				} else {
					r.bad("K-KEY", fnName(fn)+":loader", w.instrPos(c), "the loader uses regexp."+f.Name()+" (different syntax or panics) instead of regexp.Compile")
				}
			} else {
				r.bad("K-KEY", fnName(fn)+":loader", w.instrPos(c), "the loader compiles something other than its key")
			}
		})
	}
}

func negateOp(op token.Token) token.Token {
	switch op {
	case token.EQL:
		return token.NEQ
	case token.NEQ:
		return token.EQL
	case token.LSS:
		return token.GEQ
	case token.GEQ:
		return token.LSS
	case token.GTR:
		return token.LEQ
	case token.LEQ:
		return token.GTR
	}
	return op
}

func exprStr(v ssa.Value) string {
	if f, ok := recvFieldLoad(v); ok {
		return "c." + f.Name()
	}
	if c, ok := v.(*ssa.Call); ok {
		if bi, ok := c.Call.Value.(*ssa.Builtin); ok && len(c.Call.Args) == 1 {
			return bi.Name() + "(" + exprStr(c.Call.Args[0]) + ")"
		}
	}
	if c, ok := v.(*ssa.Const); ok {
		if c.Value == nil {
			return "nil"
		}
		return c.Value.String()
	}
	return v.Name()
}

// regexpGetters: package functions that call the cache's get with their own
// parameter as the key (getRegexp).
func (w *World) regexpGetters() []*ssa.Function {
	ct, _ := w.cacheType()
	if ct == nil {
		return nil
	}
	get := w.cacheGet(ct)
	var out []*ssa.Function
	for _, fn := range w.AllFuncs {
		found := false
		eachInstr(fn, false, func(_ *ssa.Function, in ssa.Instruction) {
			if c, ok := in.(*ssa.Call); ok && get != nil && c.Call.StaticCallee() == get {
				found = true
			}
		})
		if found {
			out = append(out, fn)
		}
	}
	return out
}

// originFreeVar traces a value computed inside a factory closure back to the
// captured argument query it was evaluated from.
func (w *World) originFreeVar(v ssa.Value) *ssa.FreeVar {
	seen := map[ssa.Value]bool{}
	var walk func(v ssa.Value, d int) *ssa.FreeVar
	walk = func(v ssa.Value, d int) *ssa.FreeVar {
		if v == nil || seen[v] || d > 20 {
			return nil
		}
		seen[v] = true
		switch x := v.(type) {
		case *ssa.FreeVar:
			return x
		case *ssa.TypeAssert:
			return walk(x.X, d+1)
		case *ssa.Extract:
			return walk(x.Tuple, d+1)
		case *ssa.ChangeType:
			return walk(x.X, d+1)
		case *ssa.MakeInterface:
			return walk(x.X, d+1)
		case *ssa.Phi:
			for _, e := range x.Edges {
				if f := walk(e, d+1); f != nil {
					return f
				}
			}
		case *ssa.UnOp:
			if x.Op == token.MUL {
				if fv, ok := x.X.(*ssa.FreeVar); ok {
					return fv
				}
				// local cell: follow its stores
				if a := cellOf(x.X); a != nil {
					for _, st := range cellStores(a) {
						if f := walk(st.Val, d+1); f != nil {
							return f
						}
					}
				}
			}
		case *ssa.Call:
			if x.Call.IsInvoke() {
				return walk(x.Call.Value, d+1)
			}
			for i := len(x.Call.Args) - 1; i >= 0; i-- {
				if f := walk(x.Call.Args[i], d+1); f != nil {
					return f
				}
			}
		}
		return nil
	}
	return walk(v, 0)
}

// factoryParamOf: the factory parameter index a free variable of the returned
// closure is bound to.
func factoryParamOf(fv *ssa.FreeVar) (int, bool) {
	b := bindingOf(fv)
	a, ok := b.(*ssa.Alloc)
	if !ok {
		return 0, false
	}
	for _, st := range cellStores(a) {
		if p, ok := st.Val.(*ssa.Parameter); ok {
			for i, q := range p.Parent().Params {
				if q == p {
					return i, true
				}
			}
		}
	}
	return 0, false
}

func ruleKPre(w *World, r *Report) {
	r.rule("K-PRE", "for every function factory whose closure compiles a pattern argument through the cache at run time, each call of the factory in the builder is preceded by: if the pattern argument's query is a constant, compile it now and return a non-nil error on failure")
	getters := w.regexpGetters()
	if len(getters) == 0 {
		r.bad("ANCHOR", "K-PRE", "", "no function obtains patterns from the cache")
		return
	}
	isGetter := func(f *ssa.Function) bool {
		for _, g := range getters {
			if g == f {
				return true
			}
		}
		return false
	}
	// regex factories and their pattern parameter
	type fac struct {
		fn  *ssa.Function
		idx int
	}
	var facs []fac
	for _, cl := range w.sharedClosures() {
		eachInstr(cl, false, func(_ *ssa.Function, in ssa.Instruction) {
			c, ok := in.(*ssa.Call)
			if !ok || !isGetter(c.Call.StaticCallee()) {
				return
			}
			fv := w.originFreeVar(c.Call.Args[0])
			if fv == nil {
				r.undec("K-PRE", fnName(cl)+":pattern-origin", w.instrPos(c), "cannot trace the pattern to a captured argument")
				return
			}
			if i, ok := factoryParamOf(fv); ok {
				facs = append(facs, fac{cl.Parent(), i})
			}
		})
	}
	if len(facs) == 0 {
		r.bad("ANCHOR", "K-PRE", "", "no regex function factory found")
		return
	}
	for _, f := range facs {
		// call sites of the factory in build-time code
		n := w.CG.Nodes[f.fn]
		if n == nil {
			continue
		}
		for _, e := range n.In {
			site, ok := e.Site.(*ssa.Call)
			if !ok {
				continue
			}
			caller := site.Parent()
			r.FuncsAnalysed[fnName(caller)] = true
			patArg := resolve(site.Call.Args[f.idx])
			key := fmt.Sprintf("%s:%s", fnName(caller), f.fn.Name())
			// look for the precheck
			found := false
			var why string
			eachInstr(caller, false, func(_ *ssa.Function, in ssa.Instruction) {
				c, ok := in.(*ssa.Call)
				if !ok || !isGetter(c.Call.StaticCallee()) {
					return
				}
				// argument: X.Val.(string) where X is patArg asserted to a constant query
				base := w.constQueryBase(c.Call.Args[0])
				if base == nil || !sameValue(base, patArg) {
					why = "a pattern is compiled, but not the one passed to " + f.fn.Name()
					return
				}
				ta := w.constQueryAssert(c.Call.Args[0])
				if ta == nil || !instrDominates(ta, site) || !w.underOkEdge(ta, c.Block()) {
					why = "the precheck does not precede the construction of the function on the constant-pattern path"
					return
				}
				// error outcome returns a non-nil error
				for _, u := range uses(c) {
					ex, ok := u.(*ssa.Extract)
					if !ok || !isErrorType(ex.Type()) {
						continue
					}
					for _, b := range caller.Blocks {
						ret, ok := normalReturn(b)
						if !ok {
							continue
						}
						if w.underNonNilTest(ex, b) || w.cellUnderNonNil(ex, b) {
							last := retVal(ret, len(ret.Results)-1)
							if w.nonNilByConstruction(last, b) {
								found = true
							}
						}
					}
				}
				if !found {
					why = "the compile error of the constant pattern is not turned into an error return"
				}
			})
			if found {
				r.ok("K-PRE", key, w.instrPos(site), "constant pattern compiled at build time; failure returns an error")
			} else {
				if why == "" {
					why = "no compile-time check of a constant pattern"
				}
				r.bad("K-PRE", key, w.instrPos(site), fmt.Sprintf("%s: a constant pattern that does not compile is accepted by Compile and fails only when the expression is evaluated (%s)", f.fn.Name(), why))
			}
		}
	}
}

// cellUnderNonNil: v was stored into a local cell and blk is dominated by the
// non-nil edge of a test of a load of that cell.
func (w *World) cellUnderNonNil(v ssa.Value, blk *ssa.BasicBlock) bool {
	for _, u := range uses(v) {
		st, ok := u.(*ssa.Store)
		if !ok || st.Val != v {
			continue
		}
		a := cellOf(st.Addr)
		if a == nil {
			continue
		}
		for _, b := range blk.Parent().Blocks {
			for _, in := range b.Instrs {
				if ld, ok := in.(*ssa.UnOp); ok && ld.Op == token.MUL && cellOf(ld.X) == a {
					if instrDominates(st, ld) && w.underNonNilTest(ld, blk) {
						return true
					}
				}
			}
		}
	}
	return false
}

// constQueryAssert returns the comma-ok type assertion of constQueryBase's shape.
func (w *World) constQueryAssert(v ssa.Value) *ssa.TypeAssert {
	v = strip(v)
	if e0, ok := v.(*ssa.Extract); ok {
		v = e0.Tuple
	}
	ta, ok := v.(*ssa.TypeAssert)
	if !ok {
		return nil
	}
	ld, ok := strip(ta.X).(*ssa.UnOp)
	if !ok {
		return nil
	}
	fa, ok := ld.X.(*ssa.FieldAddr)
	if !ok {
		return nil
	}
	ex, ok := fa.X.(*ssa.Extract)
	if !ok {
		return nil
	}
	ta2, _ := ex.Tuple.(*ssa.TypeAssert)
	return ta2
}

// underOkEdge: blk is dominated by the ok edge of comma-ok assertion ta.
func (w *World) underOkEdge(ta *ssa.TypeAssert, blk *ssa.BasicBlock) bool {
	for _, u := range uses(ta) {
		if ex, ok := u.(*ssa.Extract); ok && ex.Index == 1 {
			for _, uu := range uses(ex) {
				if ifi, ok := uu.(*ssa.If); ok {
					t := ifi.Block().Succs[0]
					if len(t.Preds) == 1 && (t == blk || t.Dominates(blk)) {
						return true
					}
				}
			}
		}
	}
	return false
}

// constQueryBase: v == X.(*constantQuery-like).Val.(string) => X
func (w *World) constQueryBase(v ssa.Value) ssa.Value {
	v = strip(v)
	if e0, ok := v.(*ssa.Extract); ok {
		v = e0.Tuple
	}
	ta, ok := v.(*ssa.TypeAssert)
	if !ok {
		return nil
	}
	ld, ok := strip(ta.X).(*ssa.UnOp)
	if !ok || ld.Op != token.MUL {
		return nil
	}
	fa, ok := ld.X.(*ssa.FieldAddr)
	if !ok {
		return nil
	}
	qt := w.census.ByType[structOfAddr(fa)]
	if qt == nil || !w.isStatelessQueryValue(qt.Named) {
		return nil
	}
	ex, ok := fa.X.(*ssa.Extract)
	if !ok {
		return nil
	}
	ta2, ok := ex.Tuple.(*ssa.TypeAssert)
	if !ok {
		return nil
	}
	return resolve(ta2.X)
}
