package main

// Group T — totality of Compile (C06, C17): T-RECOVER, T-SHAPE, T-DEPTH, T-LOOP.

import (
	"fmt"
	"go/constant"
	"go/token"
	"go/types"
	"sort"
	"strings"

	"golang.org/x/tools/go/ssa"
)

// pkgCallees: direct package-to-package call edges (static calls, closures
// invoked through values and interface dispatch as resolved by VTA), not
// traversing non-package functions.
func (w *World) pkgCallees(fn *ssa.Function) []*ssa.Function {
	var out []*ssa.Function
	seen := map[*ssa.Function]bool{}
	if n := w.CG.Nodes[fn]; n != nil {
		for _, e := range n.Out {
			c := e.Callee.Func
			if w.inPkg(c) && !seen[c] && c.Synthetic == "" {
				seen[c] = true
				out = append(out, c)
			}
			// a bound-method value or a thunk (p.parseStep handed around as a func
			// value): the method it stands for
			if c.Synthetic != "" && c != fn {
				if cn := w.CG.Nodes[c]; cn != nil {
					for _, e2 := range cn.Out {
						d := e2.Callee.Func
						if w.inPkg(d) && !seen[d] && d.Synthetic == "" {
							seen[d] = true
							out = append(out, d)
						}
					}
				}
			}
		}
	}
	sort.Slice(out, func(i, j int) bool { return fnName(out[i]) < fnName(out[j]) })
	return out
}

func (w *World) pkgReach(roots []*ssa.Function, stop map[*ssa.Function]bool) map[*ssa.Function]bool {
	seen := map[*ssa.Function]bool{}
	var work []*ssa.Function
	for _, r := range roots {
		if r != nil && !seen[r] {
			seen[r] = true
			work = append(work, r)
		}
	}
	for len(work) > 0 {
		f := work[len(work)-1]
		work = work[:len(work)-1]
		if stop[f] {
			continue
		}
		for _, c := range w.pkgCallees(f) {
			if !seen[c] {
				seen[c] = true
				work = append(work, c)
			}
		}
	}
	return seen
}

// recoverers: package functions with a deferred closure that calls recover().
func (w *World) recoverers() []*ssa.Function {
	var out []*ssa.Function
	for _, fn := range w.AllFuncs {
		if deferredRecoverClosure(fn) != nil {
			out = append(out, fn)
		}
	}
	return out
}

func deferredRecoverClosure(fn *ssa.Function) *ssa.Function {
	for _, b := range fn.Blocks {
		for _, in := range b.Instrs {
			d, ok := in.(*ssa.Defer)
			if !ok {
				continue
			}
			mc, ok := d.Call.Value.(*ssa.MakeClosure)
			var cf *ssa.Function
			if ok {
				cf, _ = mc.Fn.(*ssa.Function)
			} else if f, ok := d.Call.Value.(*ssa.Function); ok {
				cf = f
			}
			if cf == nil {
				continue
			}
			has := false
			eachInstr(cf, false, func(_ *ssa.Function, in ssa.Instruction) {
				if c, ok := in.(*ssa.Call); ok {
					if b, ok := c.Call.Value.(*ssa.Builtin); ok && b.Name() == "recover" {
						has = true
					}
				}
			})
			if has {
				return cf
			}
		}
	}
	return nil
}

func hasPanic(fn *ssa.Function) ssa.Instruction {
	for _, b := range fn.Blocks {
		for _, in := range b.Instrs {
			if p, ok := in.(*ssa.Panic); ok {
				return p
			}
		}
	}
	return nil
}

// compile API: exported functions taking a string and returning (*Expr, error)
// or *Expr.
func (w *World) compileAPI() (pair []*ssa.Function, must []*ssa.Function) {
	en, _, err := w.exprStruct()
	if err != nil {
		return
	}
	pe := types.NewPointer(en)
	for _, fn := range w.AllFuncs {
		if fn.Parent() != nil || fn.Signature.Recv() != nil || fn.Object() == nil || !fn.Object().Exported() {
			continue
		}
		res := fn.Signature.Results()
		if res.Len() == 2 && types.Identical(res.At(0).Type(), pe) && isErrorType(res.At(1).Type()) {
			pair = append(pair, fn)
		}
		if res.Len() == 1 && types.Identical(res.At(0).Type(), pe) {
			must = append(must, fn)
		}
	}
	return
}

func isErrorType(t types.Type) bool {
	n, ok := t.(*types.Named)
	return ok && n.Obj().Pkg() == nil && n.Obj().Name() == "error"
}

func ruleTRecover(w *World, r *Report) {
	r.rule("T-RECOVER", "(1) no function that can raise a panic at compile time is reachable from Compile/CompileWithNS/MustCompile except through the recovering function; (2) the recovering function's deferred closure stores a non-nil error into the named error result on every path on which recover() returned non-nil, whatever the panic value's type; (3) nothing that can panic precedes the defer; the recover block returns the named results")
	recs := w.recoverers()
	pair, must := w.compileAPI()
	if len(pair) == 0 || len(must) == 0 {
		r.bad("ANCHOR", "T-RECOVER", "", "compile API (string -> (*Expr, error) / *Expr) not found")
		return
	}
	// the recoverer(s) called by the compile API
	stop := map[*ssa.Function]bool{}
	var B []*ssa.Function
	for _, f := range recs {
		if w.BuildTime[f] || true {
			stop[f] = true
		}
	}
	api := append(append([]*ssa.Function{}, pair...), must...)
	// the recoverers the API reaches, directly or through helpers that are themselves outside any recover
	var froms []*ssa.Function
	for f := range w.pkgReach(api, stop) {
		froms = append(froms, f)
	}
	sort.Slice(froms, func(i, j int) bool { return fnName(froms[i]) < fnName(froms[j]) })
	for _, a := range froms {
		if stop[a] {
			continue
		}
		for _, c := range w.pkgCallees(a) {
			if stop[c] {
				found := false
				for _, x := range B {
					if x == c {
						found = true
					}
				}
				if !found {
					B = append(B, c)
				}
			}
		}
	}
	if len(B) == 0 {
		r.bad("T-RECOVER", "recoverer", "", "no function with a deferred recover() is called by the compile API: every scanner/parser panic escapes Compile")
		return
	}
	// (1) who-may-call
	outside := w.pkgReach(api, stop)
	for f := range outside {
		if stop[f] {
			continue
		}
		r.FuncsAnalysed[fnName(f)] = true
		isAPI := false
		for _, a := range api {
			if a == f {
				isAPI = true
			}
		}
		key := "outside-recover:" + fnName(f)
		if p := hasPanic(f); p != nil {
			r.bad("T-RECOVER", key, w.instrPos(p), fmt.Sprintf("%s contains a panic and is reachable from the compile API without passing through %s: the panic escapes Compile", fnName(f), fnName(B[0])))
			continue
		}
		// any package function other than the API itself that can reach a panic
		sub := w.pkgReach([]*ssa.Function{f}, stop)
		var reachPanic *ssa.Function
		for g := range sub {
			if !stop[g] && g != f && hasPanic(g) != nil {
				reachPanic = g
			}
		}
		if reachPanic != nil && !isAPI {
			r.bad("T-RECOVER", key, w.pos(f.Pos()), fmt.Sprintf("%s (reachable from the compile API outside %s) reaches %s, which panics", fnName(f), fnName(B[0]), fnName(reachPanic)))
			continue
		}
		// run-time faults other than explicit panics in the small outside set
		if in := riskyInstr(f); in != nil && !isAPI {
			r.bad("T-RECOVER", key, w.instrPos(in), fmt.Sprintf("%s runs outside the recover and contains an operation that can fault (%s)", fnName(f), in))
			continue
		}
		r.ok("T-RECOVER", key, w.pos(f.Pos()), "no panic reachable outside the recovering function")
	}
	// the parser/builder entry must be called only from the recoverer: every
	// build-time function containing a panic must be unreachable from any
	// exported entry except through B. (covered above for the compile API;
	// other exported entries such as Select(root, expr) call Compile.)
	for _, b := range B {
		w.checkRecoverer(r, b)
	}
}

// riskyInstr: index, slice, type assertion without comma-ok, map update on
// possibly nil map, integer division.
func riskyInstr(fn *ssa.Function) ssa.Instruction {
	for _, b := range fn.Blocks {
		for _, in := range b.Instrs {
			switch x := in.(type) {
			case *ssa.IndexAddr:
				if fixedArraySafe(x.X, x.Index) {
					continue // a constant index into a local fixed-size array (the argument list of a variadic call)
				}
				return in
			case *ssa.Slice:
				if a, ok := x.X.(*ssa.Alloc); ok && x.Low == nil && x.High == nil {
					if _, isArr := a.Type().(*types.Pointer).Elem().Underlying().(*types.Array); isArr {
						continue // whole-array slice of a local array
					}
				}
				return in
			case *ssa.Index:
				return in
			case *ssa.TypeAssert:
				if !x.CommaOk {
					return in
				}
			case *ssa.BinOp:
				if (x.Op == token.QUO || x.Op == token.REM) && isIntType(x.Type()) {
					return in
				}
			}
		}
	}
	return nil
}

func isIntType(t types.Type) bool {
	b, ok := t.Underlying().(*types.Basic)
	return ok && b.Info()&types.IsInteger != 0
}

func (w *World) checkRecoverer(r *Report, b *ssa.Function) {
	r.FuncsAnalysed[fnName(b)] = true
	name := fnName(b)
	// (3) defer first
	var def *ssa.Defer
	for _, in := range b.Blocks[0].Instrs {
		if d, ok := in.(*ssa.Defer); ok {
			def = d
			break
		}
		switch x := in.(type) {
		case *ssa.Alloc, *ssa.MakeClosure, *ssa.DebugRef:
		case *ssa.Store:
			if _, isParam := x.Val.(*ssa.Parameter); !isParam && !isZeroConst(x.Val) {
				r.bad("T-RECOVER", name+":defer-first", w.instrPos(in), "an instruction precedes the defer of the recovering closure")
			}
		default:
			r.bad("T-RECOVER", name+":defer-first", w.instrPos(in), fmt.Sprintf("%s executes before the recovering defer is installed: a panic there escapes", in))
			return
		}
	}
	if def == nil {
		r.bad("T-RECOVER", name+":defer-first", w.pos(b.Pos()), "the deferred recover is not installed in the entry block (a call that can panic may precede it)")
		return
	}
	r.ok("T-RECOVER", name+":defer-first", w.instrPos(def), "the recovering defer is the first effectful statement")

	// named error result
	res := b.Signature.Results()
	errIdx := -1
	for i := 0; i < res.Len(); i++ {
		if isErrorType(res.At(i).Type()) {
			errIdx = i
		}
	}
	if errIdx < 0 {
		r.bad("T-RECOVER", name+":named-err", w.pos(b.Pos()), "recovering function has no error result")
		return
	}
	// recover block returns loads of the named results
	if b.Recover == nil {
		r.bad("T-RECOVER", name+":named-err", w.pos(b.Pos()), "the recovering function has no named results: after a recovered panic it returns zero values (nil, nil)")
		return
	}
	var errCell *ssa.Alloc
	if ret, ok := b.Recover.Instrs[len(b.Recover.Instrs)-1].(*ssa.Return); ok && errIdx < len(ret.Results) {
		if ld, ok := ret.Results[errIdx].(*ssa.UnOp); ok && ld.Op == token.MUL {
			errCell = cellOf(ld.X)
		}
	}
	if errCell == nil {
		r.bad("T-RECOVER", name+":named-err", w.pos(b.Pos()), "cannot identify the named error result returned after recovery")
		return
	}
	r.ok("T-RECOVER", name+":named-err", w.pos(b.Pos()), "after recovery the function returns the named error result "+errCell.Comment)

	cf := deferredRecoverClosure(b)
	r.FuncsAnalysed[fnName(cf)] = true
	// locate recover() and the != nil test
	var rec *ssa.Call
	eachInstr(cf, false, func(_ *ssa.Function, in ssa.Instruction) {
		if c, ok := in.(*ssa.Call); ok {
			if bi, ok := c.Call.Value.(*ssa.Builtin); ok && bi.Name() == "recover" {
				rec = c
			}
		}
	})
	var tb, nonNil *ssa.BasicBlock
	for _, blk := range cf.Blocks {
		ifi := blockIf(blk)
		if ifi == nil {
			continue
		}
		cmp, neg := decodeCond(ifi.Cond)
		if cmp == nil || !(cmp.X == rec && isNilConst(cmp.Y) || cmp.Y == rec && isNilConst(cmp.X)) {
			continue
		}
		ne := cmp.Op == token.NEQ
		if neg {
			ne = !ne
		}
		tb = blk
		if ne {
			nonNil = blk.Succs[0]
		} else {
			nonNil = blk.Succs[1]
		}
	}
	if tb == nil {
		r.undec("T-RECOVER", name+":convert", w.pos(cf.Pos()), "no `recover() != nil` test found in the deferred closure")
		return
	}
	// every path from nonNil to a return must store a non-nil value to errCell
	// the deferred function reaches the named error either as a captured
	// variable (closure) or through a pointer argument (defer f(&err))
	var errParams []ssa.Value
	for i, a := range def.Call.Args {
		if al, ok := a.(*ssa.Alloc); ok && al == errCell && i < len(cf.Params) {
			errParams = append(errParams, cf.Params[i])
		}
	}
	isGoodStore := func(in ssa.Instruction) bool {
		st, ok := in.(*ssa.Store)
		if !ok {
			return false
		}
		viaParam := false
		for _, p := range errParams {
			if st.Addr == p {
				viaParam = true
			}
		}
		if !viaParam && cellOf(st.Addr) != errCell {
			return false
		}
		return w.nonNilByConstruction(st.Val, st.Block())
	}
	reach := reachableFrom(nonNil, nil)
	// must-pass restricted to the subgraph reachable from nonNil
	done := map[*ssa.BasicBlock]bool{}
	var bad *ssa.BasicBlock
	var repanic ssa.Instruction
	var dfs func(b *ssa.BasicBlock, seen map[*ssa.BasicBlock]bool)
	dfs = func(b *ssa.BasicBlock, seen map[*ssa.BasicBlock]bool) {
		if bad != nil || seen[b] {
			return
		}
		seen[b] = true
		defer delete(seen, b)
		for _, in := range b.Instrs {
			if isGoodStore(in) {
				done[b] = true
				return
			}
			if _, ok := in.(*ssa.Return); ok {
				bad = b
				return
			}
			if _, ok := in.(*ssa.Panic); ok {
				repanic = in
				return
			}
		}
		for _, s := range b.Succs {
			dfs(s, seen)
		}
	}
	_ = reach
	dfs(nonNil, map[*ssa.BasicBlock]bool{})
	if repanic != nil {
		r.bad("T-RECOVER", name+":repanic", w.instrPos(repanic), "the recovering closure panics again for some recovered values: those panics escape Compile/MustCompile instead of becoming an error")
	}
	if bad != nil {
		r.bad("T-RECOVER", name+":convert", w.instrPos(bad.Instrs[len(bad.Instrs)-1]), "a recovered panic can reach the end of the deferred closure without a non-nil error being stored into "+errCell.Comment+": Compile would return (nil, nil) for some panic value type")
	} else {
		r.ok("T-RECOVER", name+":convert", w.pos(cf.Pos()), "every path after recover() != nil stores a non-nil error into "+errCell.Comment)
	}
}

// nonNilByConstruction: v cannot be a nil interface/pointer at blk.
func (w *World) nonNilByConstruction(v ssa.Value, blk *ssa.BasicBlock) bool {
	v = strip(v)
	switch x := v.(type) {
	case *ssa.Call:
		if f := x.Call.StaticCallee(); f != nil && f.Pkg != nil {
			p := f.Pkg.Pkg.Path()
			if (p == "errors" && f.Name() == "New") || (p == "fmt" && f.Name() == "Errorf") {
				return true
			}
			// a package function every return of which is non-nil by construction
			// (a helper that builds the error)
			if w.inPkg(f) && len(f.Blocks) > 0 && f.Signature.Results().Len() == 1 {
				if w.nonNilDepth > 3 {
					return false
				}
				w.nonNilDepth++
				defer func() { w.nonNilDepth-- }()
				all, any := true, false
				for _, b := range f.Blocks {
					if ret, ok := normalReturn(b); ok && len(ret.Results) == 1 {
						any = true
						if !w.nonNilByConstruction(ret.Results[0], b) {
							all = false
						}
					}
				}
				if all && any {
					return true
				}
			}
		}
	case *ssa.MakeInterface:
		// an interface around a nil pointer compares non-nil but is as unusable
		// as nil: the pointer must be non-nil too
		if _, isPtr := x.X.Type().Underlying().(*types.Pointer); isPtr {
			return w.nonNilByConstruction(x.X, blk)
		}
		return true
	case *ssa.Alloc:
		return true
	case *ssa.Extract:
		if c, ok := x.Tuple.(*ssa.Call); ok {
			// one result of a package function: that result is non-nil by
			// construction on every normal return
			if f := c.Call.StaticCallee(); f != nil && w.inPkg(f) && len(f.Blocks) > 0 && w.nonNilDepth <= 3 {
				w.nonNilDepth++
				all, any := true, false
				for _, b := range f.Blocks {
					if ret, ok := normalReturn(b); ok && x.Index < len(ret.Results) {
						any = true
						if !w.nonNilByConstruction(retVal(ret, x.Index), b) {
							all = false
						}
					}
				}
				w.nonNilDepth--
				if all && any {
					return true
				}
			}
		}
		if ta, ok := x.Tuple.(*ssa.TypeAssert); ok && ta.CommaOk && x.Index == 0 {
			// dominated by the ok edge
			for _, u := range uses(ta) {
				if ex, ok := u.(*ssa.Extract); ok && ex.Index == 1 {
					for _, uu := range uses(ex) {
						if ifi, ok := uu.(*ssa.If); ok {
							t := ifi.Block().Succs[0]
							if len(t.Preds) == 1 && t.Dominates(blk) {
								return true
							}
						}
					}
				}
			}
		}
		// err under `err != nil`
		return w.underNonNilTest(v, blk)
	case *ssa.TypeAssert:
		if !x.CommaOk {
			return true
		}
	case *ssa.UnOp:
		return w.underNonNilTest(v, blk)
	}
	return w.underNonNilTest(v, blk)
}

// underNonNilTest: blk is dominated by the edge on which v != nil.
func (w *World) underNonNilTest(v ssa.Value, blk *ssa.BasicBlock) bool {
	fn := blk.Parent()
	for _, b := range fn.Blocks {
		ifi := blockIf(b)
		if ifi == nil {
			continue
		}
		cmp, neg := decodeCond(ifi.Cond)
		if cmp == nil {
			continue
		}
		var other ssa.Value
		if isNilConst(cmp.Y) {
			other = cmp.X
		} else if isNilConst(cmp.X) {
			other = cmp.Y
		} else {
			continue
		}
		if !sameValue(other, v) {
			continue
		}
		ne := cmp.Op == token.NEQ
		if neg {
			ne = !ne
		}
		succ := b.Succs[1]
		if ne {
			succ = b.Succs[0]
		}
		if len(succ.Preds) == 1 && (succ == blk || succ.Dominates(blk)) {
			return true
		}
	}
	return false
}

// underNilTest: blk is dominated by the edge on which v == nil.
func (w *World) underNilTest(v ssa.Value, blk *ssa.BasicBlock) bool {
	fn := blk.Parent()
	for _, b := range fn.Blocks {
		ifi := blockIf(b)
		if ifi == nil {
			continue
		}
		cmp, neg := decodeCond(ifi.Cond)
		if cmp == nil {
			continue
		}
		var other ssa.Value
		if isNilConst(cmp.Y) {
			other = cmp.X
		} else if isNilConst(cmp.X) {
			other = cmp.Y
		} else {
			continue
		}
		if !sameValue(other, v) {
			continue
		}
		eq := cmp.Op == token.EQL
		if neg {
			eq = !eq
		}
		succ := b.Succs[1]
		if eq {
			succ = b.Succs[0]
		}
		if len(succ.Preds) == 1 && (succ == blk || succ.Dominates(blk)) {
			return true
		}
	}
	return false
}

// sameValue: identical SSA value, or two loads of the same non-escaping cell
// (a named local) with no intervening store is approximated by: same cell and
// the cell has a single store.
func sameValue(a, b ssa.Value) bool {
	a, b = strip(a), strip(b)
	if a == b {
		return true
	}
	la, ok1 := a.(*ssa.UnOp)
	lb, ok2 := b.(*ssa.UnOp)
	if ok1 && ok2 && la.Op == token.MUL && lb.Op == token.MUL {
		ca, cb := cellOf(la.X), cellOf(lb.X)
		if ca != nil && ca == cb {
			return true
		}
	}
	ra, rb := resolve(a), resolve(b)
	return ra == rb
}

// ---------- T-SHAPE ----------

func ruleTShape(w *World, r *Report) {
	r.rule("T-SHAPE", "Compile/CompileWithNS: every return is (nil, e) with e non-nil by construction, or (&Expr{q: qy}, nil) on a path where the builder's error is nil and qy != nil; MustCompile: no panic, every return value is a non-nil *Expr whose query field is set")
	pair, must := w.compileAPI()
	en, qidx, _ := w.exprStruct()
	work := append([]*ssa.Function{}, pair...)
	seenPair := map[*ssa.Function]bool{}
	for len(work) > 0 {
		fn := work[0]
		work = work[1:]
		if seenPair[fn] {
			continue
		}
		seenPair[fn] = true
		r.FuncsAnalysed[fnName(fn)] = true
		if p := hasPanic(fn); p != nil {
			r.bad("T-SHAPE", fnName(fn)+":nopanic", w.instrPos(p), "compile entry point panics")
		}
		nret := 0
		for _, b := range fn.Blocks {
			ret, ok := normalReturn(b)
			if !ok || len(ret.Results) != 2 {
				continue
			}
			nret++
			key := fmt.Sprintf("%s:return", fnName(fn))
			r0, r1 := strip(retVal(ret, 0)), strip(retVal(ret, 1))
			// both results handed through from one call of a package function of the same shape
			if e0, ok := r0.(*ssa.Extract); ok && e0.Index == 0 {
				if e1, ok := r1.(*ssa.Extract); ok && e1.Index == 1 && e1.Tuple == e0.Tuple {
					if c, ok := e0.Tuple.(*ssa.Call); ok {
						if h := c.Call.StaticCallee(); h != nil && w.inPkg(h) && types.Identical(h.Signature.Results(), fn.Signature.Results()) {
							r.ok("T-SHAPE", key, w.instrPos(ret), "hands through both results of "+h.Name()+", whose returns are judged by the same rule")
							work = append(work, h)
							continue
						}
					}
				}
			}
			switch {
			case isNilConst(r0) && !isNilConst(r1):
				if w.nonNilByConstruction(r1, b) {
					r.ok("T-SHAPE", key, w.instrPos(ret), "(nil, non-nil error)")
				} else {
					r.bad("T-SHAPE", key, w.instrPos(ret), "returns a nil expression with an error value that is not non-nil by construction: (nil, nil) is possible")
				}
			case isNilConst(r1) && !isNilConst(r0):
				a, isAlloc := r0.(*ssa.Alloc)
				if !isAlloc {
					r.bad("T-SHAPE", key, w.instrPos(ret), "returns a nil error with an expression that is not a fresh &Expr{}")
					continue
				}
				// q field of the literal
				var qv ssa.Value
				for _, u := range uses(a) {
					if fa, ok := u.(*ssa.FieldAddr); ok && structOfAddr(fa) == en && fa.Field == qidx {
						for _, uu := range uses(fa) {
							if st, ok := uu.(*ssa.Store); ok {
								qv = st.Val
							}
						}
					}
				}
				if qv == nil {
					r.bad("T-SHAPE", key, w.instrPos(ret), "success return builds an Expr without a query: unusable expression")
					continue
				}
				okq := w.underNonNilTest(qv, b) || w.nonNilByConstruction(qv, b)
				// the builder error must be nil here: find an error-typed Extract of a call in fn
				okerr := false
				for _, bb := range fn.Blocks {
					for _, in := range bb.Instrs {
						if ex, ok := in.(*ssa.Extract); ok && isErrorType(ex.Type()) {
							if w.underNilTest(ex, b) {
								okerr = true
							}
						}
					}
				}
				if okq && okerr {
					r.ok("T-SHAPE", key, w.instrPos(ret), "(&Expr{q: qy}, nil) under err == nil and qy != nil")
				} else {
					r.bad("T-SHAPE", key, w.instrPos(ret), fmt.Sprintf("success return not guarded: builder error known nil=%v, query known non-nil=%v; Compile could return a nil error with an unusable expression", okerr, okq))
				}
			case isNilConst(r0) && isNilConst(r1):
				r.bad("T-SHAPE", key, w.instrPos(ret), "returns (nil, nil)")
			default:
				r.bad("T-SHAPE", key, w.instrPos(ret), "returns both an expression and an error, or values of unknown nil-ness")
			}
		}
		if nret == 0 {
			r.bad("T-SHAPE", fnName(fn)+":return", w.pos(fn.Pos()), "no return found")
		}
	}
	for _, fn := range must {
		// only string -> *Expr functions (MustCompile); methods excluded above
		if fn.Signature.Params().Len() != 1 {
			continue
		}
		r.FuncsAnalysed[fnName(fn)] = true
		if p := hasPanic(fn); p != nil {
			r.bad("T-SHAPE", fnName(fn)+":nopanic", w.instrPos(p), "MustCompile panics")
		} else {
			r.ok("T-SHAPE", fnName(fn)+":nopanic", w.pos(fn.Pos()), "no panic instruction")
		}
		for _, b := range fn.Blocks {
			ret, ok := normalReturn(b)
			if !ok || len(ret.Results) != 1 {
				continue
			}
			key := fnName(fn) + ":return"
			v := strip(retVal(ret, 0))
			if a, ok := v.(*ssa.Alloc); ok {
				var qv ssa.Value
				for _, u := range uses(a) {
					if fa, ok := u.(*ssa.FieldAddr); ok && structOfAddr(fa) == en && fa.Field == qidx {
						for _, uu := range uses(fa) {
							if st, ok := uu.(*ssa.Store); ok {
								qv = st.Val
							}
						}
					}
				}
				if qv != nil && w.nonNilByConstruction(qv, b) {
					r.ok("T-SHAPE", key, w.instrPos(ret), "fallback &Expr{} with a non-nil query")
				} else {
					r.bad("T-SHAPE", key, w.instrPos(ret), "fallback expression has no query: later Select/Evaluate dereference nil")
				}
				continue
			}
			// exp under err == nil where (exp, err) come from a pair function
			if ex, ok := v.(*ssa.Extract); ok && ex.Index == 0 {
				if call, ok := ex.Tuple.(*ssa.Call); ok {
					callee := call.Call.StaticCallee()
					isPair := false
					for _, p := range pair {
						if p == callee {
							isPair = true
						}
					}
					okerr := false
					for _, u := range uses(call) {
						if e2, ok := u.(*ssa.Extract); ok && e2.Index == 1 && w.underNilTest(e2, b) {
							okerr = true
						}
					}
					if isPair && okerr {
						r.ok("T-SHAPE", key, w.instrPos(ret), "result of "+callee.Name()+" under err == nil (non-nil by T-SHAPE of "+callee.Name()+")")
						continue
					}
				}
			}
			r.bad("T-SHAPE", key, w.instrPos(ret), "MustCompile may return nil")
		}
	}
}

// ---------- T-DEPTH ----------

type guardInfo struct {
	Field string
	Limit int64
	Dec   bool
}

// depthGuard recognises: entry increments an int field of the receiver,
// compares it with a constant; the greater branch panics or returns; every
// package call is dominated by the non-greater edge.
func (w *World) depthGuardInline(fn *ssa.Function) *guardInfo {
	if fn.Signature.Recv() == nil || len(fn.Blocks) == 0 {
		return nil
	}
	b0 := fn.Blocks[0]
	ifi := blockIf(b0)
	if ifi == nil {
		return nil
	}
	cmp, neg := decodeCond(ifi.Cond)
	if cmp == nil {
		return nil
	}
	var fld *types.Var
	var limit int64
	var gtSucc, okSucc *ssa.BasicBlock
	if f, ok := recvFieldLoad(cmp.X); ok {
		if c, ok := constInt(cmp.Y); ok {
			fld, limit = f, c
		}
	}
	if fld == nil {
		return nil
	}
	gt := cmp.Op == token.GTR || cmp.Op == token.GEQ
	if neg {
		gt = !gt
	}
	if cmp.Op != token.GTR && cmp.Op != token.GEQ && cmp.Op != token.LSS && cmp.Op != token.LEQ {
		return nil
	}
	if cmp.Op == token.LSS || cmp.Op == token.LEQ {
		gt = neg
	}
	if gt {
		gtSucc, okSucc = b0.Succs[0], b0.Succs[1]
	} else {
		gtSucc, okSucc = b0.Succs[1], b0.Succs[0]
	}
	// increment in block 0
	inc := false
	for _, in := range b0.Instrs {
		if st, ok := in.(*ssa.Store); ok {
			if f, ok := recvFieldAddr(st.Addr); ok && f == fld {
				if bo, ok := st.Val.(*ssa.BinOp); ok && bo.Op == token.ADD {
					if f2, ok := recvFieldLoad(bo.X); ok && f2 == fld {
						if c, ok := constInt(bo.Y); ok && c >= 1 {
							inc = true
						}
					}
				}
			}
		}
		if ci, ok := in.(ssa.CallInstruction); ok {
			if c := ci.Common().StaticCallee(); c != nil && w.inPkg(c) {
				return nil // a package call precedes the test
			}
			if ci.Common().IsInvoke() {
				return nil
			}
		}
	}
	if !inc {
		return nil
	}
	// greater branch: panics or returns without calling package functions
	for blk := range reachableFrom(gtSucc, nil) {
		if okSucc.Dominates(blk) || blk == okSucc {
			continue
		}
		for _, in := range blk.Instrs {
			if ci, ok := in.(ssa.CallInstruction); ok {
				if c := ci.Common().StaticCallee(); c != nil && w.inPkg(c) {
					return nil
				}
			}
		}
	}
	// every package call dominated by okSucc
	for _, blk := range fn.Blocks {
		for _, in := range blk.Instrs {
			if ci, ok := in.(ssa.CallInstruction); ok {
				c := ci.Common().StaticCallee()
				if (c != nil && w.inPkg(c)) || ci.Common().IsInvoke() {
					if !(okSucc == blk || okSucc.Dominates(blk)) || len(okSucc.Preds) != 1 {
						return nil
					}
				}
			}
		}
	}
	g := &guardInfo{Field: fld.Name(), Limit: limit}
	// decrement present?
	for _, blk := range fn.Blocks {
		for _, in := range blk.Instrs {
			if st, ok := in.(*ssa.Store); ok {
				if f, ok := recvFieldAddr(st.Addr); ok && f == fld {
					if bo, ok := st.Val.(*ssa.BinOp); ok && bo.Op == token.SUB {
						g.Dec = true
					}
				}
			}
		}
	}
	return g
}

// depthGuard recognises a depth-guard function: either the guard is written
// in the function itself (depthGuardInline), or the function's first package
// call, in its entry block, is a call on its own receiver of a leaf helper
// that increments the counter and panics beyond the limit (the decrement may
// likewise be a leaf helper). A leaf function (no package calls) is never a
// guard itself: it has no recursion to cut.
func (w *World) depthGuard(fn *ssa.Function) *guardInfo {
	if fn.Signature.Recv() == nil || len(fn.Blocks) == 0 {
		return nil
	}
	if w.isLeaf(fn) {
		return nil
	}
	if g := w.depthGuardInline(fn); g != nil {
		if !g.Dec {
			g.Dec = w.callsDecHelper(fn, g.Field)
		}
		return g
	}
	for _, in := range fn.Blocks[0].Instrs {
		ci, ok := in.(ssa.CallInstruction)
		if !ok {
			continue
		}
		if ci.Common().IsInvoke() {
			return nil
		}
		c := ci.Common().StaticCallee()
		if c == nil || !w.inPkg(c) {
			continue
		}
		// the first package call
		if len(ci.Common().Args) == 0 || !isRecv(ci.Common().Args[0]) || !w.isLeaf(c) {
			return nil
		}
		h := w.depthGuardInline(c)
		if h == nil {
			return nil
		}
		if !w.exceedPanics(c) && !w.exceedReportedAndObeyed(fn, c, ci) {
			return nil
		}
		g := &guardInfo{Field: h.Field, Limit: h.Limit}
		// decrement in fn or through a leaf helper
		for _, blk := range fn.Blocks {
			for _, x := range blk.Instrs {
				if st, ok := x.(*ssa.Store); ok {
					if f, ok := recvFieldAddr(st.Addr); ok && f.Name() == g.Field {
						if bo, ok := st.Val.(*ssa.BinOp); ok && bo.Op == token.SUB {
							g.Dec = true
						}
					}
				}
			}
		}
		if !g.Dec {
			g.Dec = w.callsDecHelper(fn, g.Field)
		}
		return g
	}
	return nil
}

func (w *World) isLeaf(fn *ssa.Function) bool {
	leaf := true
	eachInstr(fn, false, func(_ *ssa.Function, in ssa.Instruction) {
		if ci, ok := in.(ssa.CallInstruction); ok {
			if ci.Common().IsInvoke() {
				leaf = false
			} else if c := ci.Common().StaticCallee(); c != nil && w.inPkg(c) {
				leaf = false
			} else if c == nil {
				if _, isB := ci.Common().Value.(*ssa.Builtin); !isB {
					leaf = false
				}
			}
		}
	})
	return leaf
}

// exceedPanics: in guard helper c every path that leaves through the
// "counter too large" side ends in a panic (a helper that merely returned
// would not stop its caller).
func (w *World) exceedPanics(c *ssa.Function) bool {
	ifi := blockIf(c.Blocks[0])
	if ifi == nil {
		return false
	}
	okAll := false
	for _, s := range c.Blocks[0].Succs {
		allPanic := true
		for b := range reachableFrom(s, nil) {
			if _, isRet := b.Instrs[len(b.Instrs)-1].(*ssa.Return); isRet {
				allPanic = false
			}
		}
		if allPanic {
			okAll = true
		}
	}
	return okAll
}

// exceedReportedAndObeyed: the guard helper c does not panic beyond the limit
// but reports it (every return on the "counter too large" side yields a
// non-nil error / true, the plain return yields nil / false), and the caller
// fn tests that result at once and leaves without calling any package
// function when it is set.
func (w *World) exceedReportedAndObeyed(fn, c *ssa.Function, site ssa.CallInstruction) bool {
	if c.Signature.Results().Len() != 1 {
		return false
	}
	if blockIf(c.Blocks[0]) == nil {
		return false
	}
	exceedSide := false
	for _, s := range c.Blocks[0].Succs {
		if sideReturnsSet(s) {
			exceedSide = true
		}
	}
	return exceedSide && w.callerObeys(fn, site)
}

func isUnsetConst(v ssa.Value) bool {
	k, ok := strip(v).(*ssa.Const)
	if !ok {
		return false
	}
	return k.Value == nil || k.Value.ExactString() == "false"
}

// sideReturnsSet: every return reachable from s yields a single value that is
// not the nil/false constant (and there is at least one).
func sideReturnsSet(s *ssa.BasicBlock) bool {
	all, any := true, false
	for b := range reachableFrom(s, nil) {
		if ret, ok := b.Instrs[len(b.Instrs)-1].(*ssa.Return); ok {
			any = true
			if len(ret.Results) != 1 || isUnsetConst(ret.Results[0]) {
				all = false
			}
		}
	}
	return all && any
}

// callerObeys: fn tests the result of the call site in its entry block and,
// when it is set (non-nil / true), leaves without calling a package function;
// every other package call of fn lies behind the unset edge.
func (w *World) callerObeys(fn *ssa.Function, site ssa.CallInstruction) bool {
	call, ok := site.(*ssa.Call)
	if !ok || call.Block() != fn.Blocks[0] {
		return false
	}
	cifi := blockIf(fn.Blocks[0])
	if cifi == nil {
		return false
	}
	cond := cifi.Cond
	neg := false
	for {
		if u, ok := cond.(*ssa.UnOp); ok && u.Op == token.NOT {
			cond, neg = u.X, !neg
			continue
		}
		break
	}
	var setSucc, okSucc *ssa.BasicBlock
	switch x := cond.(type) {
	case *ssa.BinOp:
		var other ssa.Value
		if strip(x.X) == ssa.Value(call) {
			other = x.Y
		} else if strip(x.Y) == ssa.Value(call) {
			other = x.X
		}
		if other == nil || !isUnsetConst(other) || (x.Op != token.NEQ && x.Op != token.EQL) {
			return false
		}
		setOnTrue := x.Op == token.NEQ
		if neg {
			setOnTrue = !setOnTrue
		}
		if setOnTrue {
			setSucc, okSucc = fn.Blocks[0].Succs[0], fn.Blocks[0].Succs[1]
		} else {
			setSucc, okSucc = fn.Blocks[0].Succs[1], fn.Blocks[0].Succs[0]
		}
	case *ssa.Call:
		if x != call {
			return false
		}
		if neg {
			setSucc, okSucc = fn.Blocks[0].Succs[1], fn.Blocks[0].Succs[0]
		} else {
			setSucc, okSucc = fn.Blocks[0].Succs[0], fn.Blocks[0].Succs[1]
		}
	default:
		return false
	}
	if len(okSucc.Preds) != 1 {
		return false
	}
	for blk := range reachableFrom(setSucc, nil) {
		if okSucc.Dominates(blk) || blk == okSucc {
			continue
		}
		for _, in := range blk.Instrs {
			if ci, ok := in.(ssa.CallInstruction); ok {
				if cc := ci.Common().StaticCallee(); (cc != nil && w.inPkg(cc)) || ci.Common().IsInvoke() {
					return false
				}
			}
		}
	}
	for _, blk := range fn.Blocks {
		for _, in := range blk.Instrs {
			ci, ok := in.(ssa.CallInstruction)
			if !ok || in == ssa.Instruction(call) {
				continue
			}
			cc := ci.Common().StaticCallee()
			if (cc != nil && w.inPkg(cc)) || ci.Common().IsInvoke() {
				if !(okSucc == blk || okSucc.Dominates(blk)) {
					return false
				}
			}
		}
	}
	return true
}

// decHelpers: leaf methods whose body decrements the named receiver field.
func (w *World) isDecHelper(c *ssa.Function, field string) bool {
	if c == nil || !w.inPkg(c) || c.Signature.Recv() == nil || !w.isLeaf(c) {
		return false
	}
	dec := false
	eachInstr(c, false, func(_ *ssa.Function, in ssa.Instruction) {
		if st, ok := in.(*ssa.Store); ok {
			if f, ok := recvFieldAddr(st.Addr); ok && f.Name() == field {
				if bo, ok := st.Val.(*ssa.BinOp); ok && bo.Op == token.SUB {
					dec = true
				}
			}
		}
	})
	return dec
}

func (w *World) callsDecHelper(fn *ssa.Function, field string) bool {
	found := false
	eachInstr(fn, false, func(_ *ssa.Function, in ssa.Instruction) {
		if ci, ok := in.(ssa.CallInstruction); ok {
			if _, isDefer := in.(*ssa.Defer); isDefer {
				// counted by overDecrement
			}
			if c := ci.Common().StaticCallee(); c != nil && len(ci.Common().Args) > 0 && isRecv(ci.Common().Args[0]) && w.isDecHelper(c, field) {
				found = true
			}
		}
	})
	return found
}

func ruleTDepth(w *World, r *Report) {
	r.rule("T-DEPTH", "in the call graph of build-time package functions (direct package-to-package edges, reachable from the recovering build function), after removing depth-guard functions (entry: recv.d++; recv.d > K => panic/return; all package calls behind the test) no cycle remains; every guard also decrements its counter")
	recs := w.recoverers()
	var roots []*ssa.Function
	for _, f := range recs {
		if w.BuildTime[f] {
			roots = append(roots, f)
		}
	}
	if len(roots) == 0 {
		r.bad("ANCHOR", "T-DEPTH", "", "no recovering build function")
		return
	}
	reach := w.pkgReach(roots, nil)
	var nodes []*ssa.Function
	for f := range reach {
		nodes = append(nodes, f)
		r.FuncsAnalysed[fnName(f)] = true
	}
	sort.Slice(nodes, func(i, j int) bool { return fnName(nodes[i]) < fnName(nodes[j]) })
	guards := map[*ssa.Function]*guardInfo{}
	for _, f := range nodes {
		if g := w.depthGuard(f); g != nil {
			guards[f] = g
		}
	}
	for f, g := range guards {
		if g.Dec {
			r.ok("T-DEPTH", "guard:"+fnName(f), w.pos(f.Pos()), fmt.Sprintf("depth guard on %s, limit %d, with decrement", g.Field, g.Limit))
		} else {
			r.bad("T-DEPTH", "guard:"+fnName(f), w.pos(f.Pos()), fmt.Sprintf("guard on %s never decrements: the counter counts calls, not nesting, and valid long expressions are rejected", g.Field))
		}
		if site := w.overDecrement(f, g.Field); site != nil {
			r.bad("T-DEPTH", "guard-balance:"+fnName(f), w.instrPos(site), fmt.Sprintf("some path through %s lowers %s more than once (inline and/or deferred) for one increment: constructs with a completed sibling on each level are not counted, the limit never fires for them and nesting is unbounded (fatal stack overflow)", fnName(f), g.Field))
		} else {
			r.ok("T-DEPTH", "guard-balance:"+fnName(f), w.pos(f.Pos()), "no path decrements the counter more than once per increment")
		}
		if g.Limit > 100000 {
			r.bad("T-DEPTH", "guard-limit:"+fnName(f), w.pos(f.Pos()), fmt.Sprintf("depth limit %d is too large to protect the stack", g.Limit))
		}
	}
	// Tarjan on the graph without guards
	isGuard := func(f *ssa.Function) bool { return guards[f] != nil }
	idx := map[*ssa.Function]int{}
	low := map[*ssa.Function]int{}
	on := map[*ssa.Function]bool{}
	var stack []*ssa.Function
	n := 0
	var sccs [][]*ssa.Function
	var strong func(v *ssa.Function)
	strong = func(v *ssa.Function) {
		n++
		idx[v], low[v] = n, n
		stack = append(stack, v)
		on[v] = true
		for _, c := range w.csCallees(v, isGuard) {
			if guards[c] != nil || !reach[c] {
				continue
			}
			if idx[c] == 0 {
				strong(c)
				if low[c] < low[v] {
					low[v] = low[c]
				}
			} else if on[c] && idx[c] < low[v] {
				low[v] = idx[c]
			}
		}
		if low[v] == idx[v] {
			var comp []*ssa.Function
			for {
				x := stack[len(stack)-1]
				stack = stack[:len(stack)-1]
				on[x] = false
				comp = append(comp, x)
				if x == v {
					break
				}
			}
			self := false
			for _, c := range w.csCallees(v, isGuard) {
				if c == v {
					self = true
				}
			}
			if len(comp) > 1 || self {
				sccs = append(sccs, comp)
			}
		}
	}
	for _, f := range nodes {
		if guards[f] == nil && idx[f] == 0 {
			strong(f)
		}
	}
	if len(guards) == 0 {
		r.bad("T-DEPTH", "guards", "", "no depth guard recognised in the parser/builder")
	}
	for _, comp := range sccs {
		var names []string
		for _, f := range comp {
			names = append(names, fnName(f))
		}
		sort.Strings(names)
		if w.structuralRecursion(comp) {
			r.ok("T-DEPTH", "structural:"+strings.Join(names, "<->"), w.pos(comp[0].Pos()), fmt.Sprintf("recursion %v descends only through query-typed fields of the receiver: bounded by the depth of the query tree, which the builder guard bounds", names))
			continue
		}
		r.bad("T-DEPTH", "cycle:"+strings.Join(names, "<->"), w.pos(comp[0].Pos()), fmt.Sprintf("recursion %v is not cut by any depth guard: nesting of the corresponding construct is unbounded and ends in a fatal (unrecoverable) stack overflow", names))
	}
	nbad := 0
	for _, o := range r.Obls {
		if o.Rule == "T-DEPTH" && o.Status == Violated && strings.Contains(o.Key, "cycle:") {
			nbad++
		}
	}
	if nbad == 0 {
		r.ok("T-DEPTH", "acyclic", "", fmt.Sprintf("%d build-time functions, %d guards; the call graph without guards is acyclic", len(nodes), len(guards)))
	}
	// run-time recursion is bounded by the depth of the query tree: no
	// run-time code stores a query into a query-typed field of a query struct
	c := w.census
	for _, qt := range c.Types {
		for _, f := range qt.Fields {
			if !f.IsQuery {
				continue
			}
			if len(f.RTStores) > 0 {
				r.bad("T-DEPTH", "tree-fixed:"+qt.Name()+"."+f.Var.Name(), w.instrPos(f.RTStores[0]), "run-time code rewires the query tree: its depth is no longer bounded by the builder's guard")
			} else {
				r.ok("T-DEPTH", "tree-fixed:"+qt.Name()+"."+f.Var.Name(), "", "query-typed field only set at build time or in fresh literals")
			}
		}
	}
}

// structuralRecursion: every call edge inside the component is an interface
// invoke (or static method call) on a value loaded from a query-typed field
// of the caller's receiver.
func (w *World) structuralRecursion(comp []*ssa.Function) bool {
	in := map[*ssa.Function]bool{}
	for _, f := range comp {
		in[f] = true
	}
	for _, f := range comp {
		if f.Signature.Recv() == nil {
			return false
		}
		ok := true
		eachInstr(f, true, func(g *ssa.Function, ins ssa.Instruction) {
			ci, isCall := ins.(ssa.CallInstruction)
			if !isCall {
				return
			}
			cc := ci.Common()
			// does this call site have an edge into the component?
			into := false
			if n := w.CG.Nodes[g]; n != nil {
				for _, e := range n.Out {
					if e.Site == ci && in[e.Callee.Func] {
						into = true
					}
				}
			}
			if !into {
				return
			}
			var recv ssa.Value
			if cc.IsInvoke() {
				recv = cc.Value
			} else if len(cc.Args) > 0 {
				recv = cc.Args[0]
			}
			if recv == nil {
				ok = false
				return
			}
			fl, isField := recvFieldLoad(recv)
			if !isField || !w.isQueryType(fl.Type()) {
				ok = false
			}
		})
		if !ok {
			return false
		}
	}
	return true
}

// ---------- T-LOOP ----------

// primitiveConsumer: the scanner method that advances the position field:
// the only function that stores pos = pos + size.
func (w *World) primitiveConsumer() (*ssa.Function, *types.Var) {
	var best *ssa.Function
	var fld *types.Var
	for _, fn := range w.AllFuncs {
		if !w.BuildTime[fn] || fn.Signature.Recv() == nil {
			continue
		}
		for _, b := range fn.Blocks {
			for _, in := range b.Instrs {
				st, ok := in.(*ssa.Store)
				if !ok {
					continue
				}
				f, ok := recvFieldAddr(st.Addr)
				if !ok || !isIntType(f.Type()) {
					continue
				}
				bo, ok := st.Val.(*ssa.BinOp)
				if !ok || bo.Op != token.ADD {
					continue
				}
				if f2, ok := recvFieldLoad(bo.X); ok && f2 == f {
					// the receiver type must also hold the input text (a string field)
					st2, _ := fn.Signature.Recv().Type().(*types.Pointer)
					if st2 == nil {
						continue
					}
					sst, _ := st2.Elem().Underlying().(*types.Struct)
					if sst == nil {
						continue
					}
					hasStr := false
					for i := 0; i < sst.NumFields(); i++ {
						if b, ok := sst.Field(i).Type().(*types.Basic); ok && b.Kind() == types.String {
							hasStr = true
						}
					}
					if hasStr && fn.Signature.Results().Len() == 1 && w.depthGuard(fn) == nil {
						if best != nil && best != fn {
							continue
						}
						best, fld = fn, f
					}
				}
			}
		}
	}
	return best, fld
}

// mustConsumers: fix-point of functions all of whose normal return paths pass
// a call to the primitive or to another must-consumer.
func (w *World) mustConsumers(prim *ssa.Function, scope map[*ssa.Function]bool) map[*ssa.Function]bool {
	mc := map[*ssa.Function]bool{prim: true}
	changed := true
	for changed {
		changed = false
		for f := range scope {
			if mc[f] || len(f.Blocks) == 0 {
				continue
			}
			ok, _ := mustPass(f, func(in ssa.Instruction) bool {
				ci, isCall := in.(ssa.CallInstruction)
				if !isCall {
					return false
				}
				if _, isDefer := in.(*ssa.Defer); isDefer {
					return false
				}
				c := ci.Common().StaticCallee()
				return c != nil && mc[c]
			})
			if ok {
				mc[f] = true
				changed = true
			}
		}
	}
	return mc
}

// condConsumer: G begins with `for P(recv.curr) { ... consumer ... }`: if P
// holds of the current character on entry, G consumes. Returns P.
func (w *World) condConsumer(g *ssa.Function, mc map[*ssa.Function]bool) *ssa.Function {
	return w.condConsumerD(g, mc, 0)
}

func (w *World) condConsumerD(g *ssa.Function, mc map[*ssa.Function]bool, depth int) *ssa.Function {
	if len(g.Blocks) == 0 || g.Signature.Recv() == nil || depth > 4 {
		return nil
	}
	isCons := func(in ssa.Instruction) bool {
		ci, ok := in.(ssa.CallInstruction)
		if !ok {
			return false
		}
		c := ci.Common().StaticCallee()
		return c != nil && mc[c]
	}
	// first If reached from entry through consumer-free blocks
	b := g.Blocks[0]
	var prev *ssa.BasicBlock
	seen := map[*ssa.BasicBlock]bool{}
	for {
		if seen[b] {
			return nil
		}
		seen[b] = true
		// a test whose outcome is fixed on the way in (`for more := true; more && pred(c);`):
		// the branch is no decision on first entry
		if ifi := blockIf(b); ifi != nil && prev != nil {
			if ph, ok := ifi.Cond.(*ssa.Phi); ok && ph.Block() == b {
				taken := -1
				for i, p := range b.Preds {
					if p == prev {
						if k, ok := ph.Edges[i].(*ssa.Const); ok && k.Value != nil && k.Value.Kind() == constant.Bool {
							if constant.BoolVal(k.Value) {
								taken = 0
							} else {
								taken = 1
							}
						}
					}
				}
				onlyPhis := true
				for _, in := range b.Instrs {
					switch in.(type) {
					case *ssa.Phi, *ssa.If, *ssa.DebugRef:
					default:
						onlyPhis = false
					}
				}
				if taken >= 0 && onlyPhis {
					prev, b = b, b.Succs[taken]
					continue
				}
			}
		}
		for _, in := range b.Instrs {
			if isCons(in) {
				return nil // consumes unconditionally first: a must-consumer candidate, not conditional
			}
			// the first thing done is to call, on the same receiver, a function
			// that is itself a conditional consumer: same predicate
			if ci, ok := in.(ssa.CallInstruction); ok {
				if c := ci.Common().StaticCallee(); c != nil && c != g && w.inPkg(c) && c.Signature.Recv() != nil && len(ci.Common().Args) > 0 && isRecv(ci.Common().Args[0]) {
					if p := w.condConsumerD(c, mc, depth+1); p != nil {
						return p
					}
				}
			}
		}
		if ifi := blockIf(b); ifi != nil {
			call, ok := ifi.Cond.(*ssa.Call)
			if !ok {
				return nil
			}
			p := call.Call.StaticCallee()
			if p == nil || !w.inPkg(p) || len(call.Call.Args) != 1 {
				return nil
			}
			fl, ok := recvFieldLoad(call.Call.Args[0])
			if !ok {
				return nil
			}
			if bt, ok := fl.Type().Underlying().(*types.Basic); !ok || bt.Kind() != types.Int32 {
				return nil
			}
			// from the true successor every path passes a consumer before
			// returning or coming back to b
			okAll := true
			vis := map[*ssa.BasicBlock]bool{}
			var dfs func(x *ssa.BasicBlock)
			dfs = func(x *ssa.BasicBlock) {
				if !okAll || vis[x] {
					return
				}
				vis[x] = true
				if x == b {
					okAll = false
					return
				}
				for _, in := range x.Instrs {
					if isCons(in) {
						return
					}
					if _, isRet := in.(*ssa.Return); isRet {
						okAll = false
						return
					}
				}
				for _, s := range x.Succs {
					dfs(s)
				}
			}
			dfs(b.Succs[0])
			if okAll {
				return p
			}
			return nil
		}
		if len(b.Succs) != 1 {
			return nil
		}
		prev, b = b, b.Succs[0]
	}
}

// callUnderPredicate: call site of a conditional consumer is dominated by the
// true edge of the same predicate applied to the receiver's current rune,
// with no consumer call in between.
func (w *World) callUnderPredicate(call ssa.CallInstruction, pred *ssa.Function, isCons func(ssa.Instruction) bool) bool {
	fn := call.Parent()
	for _, b := range fn.Blocks {
		ifi := blockIf(b)
		if ifi == nil {
			continue
		}
		c, ok := ifi.Cond.(*ssa.Call)
		if !ok || c.Call.StaticCallee() != pred {
			continue
		}
		if _, ok := recvFieldLoad(c.Call.Args[0]); !ok {
			continue
		}
		t := b.Succs[0]
		if len(t.Preds) != 1 || !(t == call.Block() || t.Dominates(call.Block())) {
			continue
		}
		// no consumer between t and the call on dominating blocks
		clean := true
		for _, x := range fn.Blocks {
			if (x == t || t.Dominates(x)) && (x == call.Block() || x.Dominates(call.Block())) {
				for _, in := range x.Instrs {
					if in == call.(ssa.Instruction) {
						break
					}
					if isCons(in) {
						clean = false
					}
				}
			}
		}
		if clean {
			return true
		}
	}
	return false
}

// eofAwareConsumers: functions that consume on every normal path except paths
// on which the scanner's current character was tested equal to zero (end of
// input). These make progress unless the input is exhausted.
func (w *World) eofAwareConsumers(prim *ssa.Function, mc map[*ssa.Function]bool, scope map[*ssa.Function]bool) map[*ssa.Function]bool {
	out := map[*ssa.Function]bool{}
	changed := true
	for changed {
		changed = false
		for f := range scope {
			if mc[f] || out[f] || len(f.Blocks) == 0 {
				continue
			}
			// remove the edges taken when recv.<rune field> == 0
			skip := func(from, to *ssa.BasicBlock) bool {
				ifi := blockIf(from)
				if ifi == nil {
					return false
				}
				cmp, neg := decodeCond(ifi.Cond)
				if cmp == nil || cmp.Op != token.EQL && cmp.Op != token.NEQ {
					return false
				}
				var fldv ssa.Value
				if isZeroConst(cmp.Y) {
					fldv = cmp.X
				} else if isZeroConst(cmp.X) {
					fldv = cmp.Y
				} else {
					return false
				}
				fl, ok := recvFieldLoad(fldv)
				if !ok {
					return false
				}
				if b, ok := fl.Type().Underlying().(*types.Basic); !ok || b.Kind() != types.Int32 {
					return false
				}
				eq := cmp.Op == token.EQL
				if neg {
					eq = !eq
				}
				zero := from.Succs[1]
				if eq {
					zero = from.Succs[0]
				}
				return to == zero
			}
			reach := reachableFrom(f.Blocks[0], skip)
			// must-pass on the pruned graph
			ok := true
			hit := func(in ssa.Instruction) bool {
				ci, isCall := in.(ssa.CallInstruction)
				if !isCall {
					return false
				}
				c := ci.Common().StaticCallee()
				if c == nil {
					return false
				}
				if mc[c] || out[c] {
					return true
				}
				if p := w.condConsumer(c, mc); p != nil {
					return w.callUnderPredicate(ci, p, func(x ssa.Instruction) bool {
						cj, ok := x.(ssa.CallInstruction)
						if !ok {
							return false
						}
						d := cj.Common().StaticCallee()
						return d != nil && mc[d]
					})
				}
				return false
			}
			// simple DFS: from entry, stop at hits; reaching a Return is a failure
			seen := map[*ssa.BasicBlock]bool{}
			var dfs func(b *ssa.BasicBlock)
			dfs = func(b *ssa.BasicBlock) {
				if !ok || seen[b] || !reach[b] {
					return
				}
				seen[b] = true
				for _, in := range b.Instrs {
					if hit(in) {
						return
					}
					if _, isRet := in.(*ssa.Return); isRet {
						ok = false
						return
					}
				}
				for _, s := range b.Succs {
					if !skip(b, s) {
						dfs(s)
					}
				}
			}
			dfs(f.Blocks[0])
			if ok {
				out[f] = true
				changed = true
			}
		}
	}
	return out
}

func ruleTLoop(w *World, r *Report) {
	r.rule("T-LOOP", "every CFG cycle in build-time code (other than range loops over slices/strings) passes, on every way round, a call to a consumer: the scanner primitive that advances pos, a function all of whose normal paths call a consumer, or one that does so on every path except the one taken at end of input (and then the loop guard must fail: checked as the cycle containing a test of the token type / current rune)")
	prim, posf := w.primitiveConsumer()
	if prim == nil {
		r.bad("ANCHOR", "T-LOOP", "", "scanner primitive (the method advancing the input position) not found")
		return
	}
	recs := w.recoverers()
	var roots []*ssa.Function
	for _, f := range recs {
		if w.BuildTime[f] {
			roots = append(roots, f)
		}
	}
	scope := w.pkgReach(roots, nil)
	mc := w.mustConsumers(prim, scope)
	eof := w.eofAwareConsumers(prim, mc, scope)
	r.note("T-LOOP: primitive consumer %s (advances %s); must-consumers %v; consumers except at end of input %v", fnName(prim), posf.Name(), sortedFnNames(mc), sortedFnNames(eof))
	nloops := 0
	var fns []*ssa.Function
	for f := range scope {
		fns = append(fns, f)
	}
	sort.Slice(fns, func(i, j int) bool { return fnName(fns[i]) < fnName(fns[j]) })
	for _, f := range fns {
		if len(f.Blocks) == 0 {
			continue
		}
		r.FuncsAnalysed[fnName(f)] = true
		for li, comp := range cfgSCCs(f) {
			nloops++
			key := fmt.Sprintf("%s:loop%d", fnName(f), li+1)
			pos := w.loopPos(comp)
			if isRangeLoop(comp) {
				r.ok("T-LOOP", key, pos, "range loop over a finite slice/string/map")
				continue
			}
			// remove blocks with consumer calls; remaining subgraph must be acyclic
			inComp := map[*ssa.BasicBlock]bool{}
			for _, b := range comp {
				inComp[b] = true
			}
			cons := map[*ssa.BasicBlock]bool{}
			usesEOF := false
			for _, b := range comp {
				for _, in := range b.Instrs {
					if ci, ok := in.(ssa.CallInstruction); ok {
						if c := ci.Common().StaticCallee(); c != nil {
							if mc[c] {
								cons[b] = true
							} else if eof[c] {
								cons[b] = true
								usesEOF = true
							}
						}
					}
				}
			}
			if cyc := residualCycle(comp, inComp, cons); cyc != nil {
				r.bad("T-LOOP", key, w.instrPos(cyc.Instrs[0]), fmt.Sprintf("loop in %s can go round through block %d (%s) without consuming input: Compile may not terminate", fnName(f), cyc.Index, cyc.Comment))
				continue
			}
			detail := "every way round the loop consumes input"
			if usesEOF {
				// guard must depend on scanner state (token type or current rune)
				if !loopTestsScannerState(comp) {
					r.bad("T-LOOP", key, pos, "loop relies on a consumer that makes no progress at end of input, and its exit conditions do not test the token type/current character")
					continue
				}
				detail += " (consumer makes no progress only at end of input; the loop's exit tests the scanner state)"
			}
			r.ok("T-LOOP", key, pos, detail)
		}
	}
	if nloops == 0 {
		r.bad("T-LOOP", "loops", "", "no loops found in build-time code")
	}
}

func (w *World) loopPos(comp []*ssa.BasicBlock) string {
	best := token.NoPos
	for _, b := range comp {
		for _, in := range b.Instrs {
			if p := in.Pos(); p.IsValid() && (best == token.NoPos || p < best) {
				best = p
			}
		}
	}
	return w.pos(best)
}

func isRangeLoop(comp []*ssa.BasicBlock) bool {
	for _, b := range comp {
		if strings.HasPrefix(b.Comment, "rangeindex") || strings.HasPrefix(b.Comment, "rangeiter") {
			// the loop's only back edge must come through the range header
			return true
		}
		for _, in := range b.Instrs {
			if _, ok := in.(*ssa.Next); ok {
				return true
			}
		}
	}
	return false
}

func loopTestsScannerState(comp []*ssa.BasicBlock) bool {
	for _, b := range comp {
		ifi := blockIf(b)
		if ifi == nil {
			continue
		}
		found := false
		var walk func(v ssa.Value, d int)
		walk = func(v ssa.Value, d int) {
			if d > 6 || v == nil {
				return
			}
			switch x := v.(type) {
			case *ssa.BinOp:
				walk(x.X, d+1)
				walk(x.Y, d+1)
			case *ssa.UnOp:
				if x.Op == token.MUL {
					if _, ok := x.X.(*ssa.FieldAddr); ok {
						found = true
					}
				}
				walk(x.X, d+1)
			case *ssa.Call:
				for _, a := range x.Call.Args {
					walk(a, d+1)
				}
				if x.Call.StaticCallee() != nil {
					found = true // predicate over scanner state or a consumer's result
				}
			case *ssa.Phi:
				for _, e := range x.Edges {
					walk(e, d+1)
				}
			case *ssa.Extract:
				walk(x.Tuple, d+1) // (op, ok) := helper(token)
			}
		}
		walk(ifi.Cond, 0)
		if found {
			return true
		}
	}
	return false
}

// cfgSCCs returns the non-trivial strongly connected components of fn's CFG.
func cfgSCCs(fn *ssa.Function) [][]*ssa.BasicBlock {
	idx := map[*ssa.BasicBlock]int{}
	low := map[*ssa.BasicBlock]int{}
	on := map[*ssa.BasicBlock]bool{}
	var stack []*ssa.BasicBlock
	n := 0
	var out [][]*ssa.BasicBlock
	var strong func(v *ssa.BasicBlock)
	strong = func(v *ssa.BasicBlock) {
		n++
		idx[v], low[v] = n, n
		stack = append(stack, v)
		on[v] = true
		for _, s := range v.Succs {
			if idx[s] == 0 {
				strong(s)
				if low[s] < low[v] {
					low[v] = low[s]
				}
			} else if on[s] && idx[s] < low[v] {
				low[v] = idx[s]
			}
		}
		if low[v] == idx[v] {
			var comp []*ssa.BasicBlock
			for {
				x := stack[len(stack)-1]
				stack = stack[:len(stack)-1]
				on[x] = false
				comp = append(comp, x)
				if x == v {
					break
				}
			}
			self := false
			for _, s := range v.Succs {
				if s == v {
					self = true
				}
			}
			if len(comp) > 1 || self {
				sort.Slice(comp, func(i, j int) bool { return comp[i].Index < comp[j].Index })
				out = append(out, comp)
			}
		}
	}
	for _, b := range fn.Blocks {
		if idx[b] == 0 {
			strong(b)
		}
	}
	sort.Slice(out, func(i, j int) bool { return out[i][0].Index < out[j][0].Index })
	return out
}

// residualCycle: a cycle inside comp that avoids all blocks in cut.
func residualCycle(comp []*ssa.BasicBlock, inComp, cut map[*ssa.BasicBlock]bool) *ssa.BasicBlock {
	color := map[*ssa.BasicBlock]int{}
	var found *ssa.BasicBlock
	var dfs func(b *ssa.BasicBlock)
	dfs = func(b *ssa.BasicBlock) {
		color[b] = 1
		for _, s := range b.Succs {
			if !inComp[s] || cut[s] || found != nil {
				continue
			}
			if color[s] == 1 {
				found = s
				return
			}
			if color[s] == 0 {
				dfs(s)
			}
		}
		color[b] = 2
	}
	for _, b := range comp {
		if !cut[b] && color[b] == 0 && found == nil {
			dfs(b)
		}
	}
	return found
}

// overDecrement: a path from the entry of guard function fn to a return on
// which the depth field is decremented more than once (deferred closures that
// decrement count at the point where they are registered).
func (w *World) overDecrement(fn *ssa.Function, field string) ssa.Instruction {
	isDec := func(in ssa.Instruction) bool {
		st, ok := in.(*ssa.Store)
		if !ok {
			return false
		}
		fa, ok := st.Addr.(*ssa.FieldAddr)
		if !ok || fieldOfAddr(fa).Name() != field {
			return false
		}
		bo, ok := st.Val.(*ssa.BinOp)
		return ok && bo.Op == token.SUB
	}
	decs := func(in ssa.Instruction) int {
		if isDec(in) {
			return 1
		}
		if c, ok := in.(*ssa.Call); ok {
			if f := c.Call.StaticCallee(); f != nil && len(c.Call.Args) > 0 && isRecv(c.Call.Args[0]) && w.isDecHelper(f, field) {
				return 1
			}
		}
		if d, ok := in.(*ssa.Defer); ok {
			var cf *ssa.Function
			if mc, ok := d.Call.Value.(*ssa.MakeClosure); ok {
				cf, _ = mc.Fn.(*ssa.Function)
			} else if f, ok := d.Call.Value.(*ssa.Function); ok {
				cf = f
			} else if f := d.Call.StaticCallee(); f != nil {
				cf = f
			}
			n := 0
			if cf != nil && w.inPkg(cf) {
				eachInstr(cf, false, func(_ *ssa.Function, x ssa.Instruction) {
					if isDec(x) {
						n++
					}
				})
			}
			return n
		}
		return 0
	}
	type st struct {
		b *ssa.BasicBlock
		n int
	}
	seen := map[st]bool{}
	var found ssa.Instruction
	var dfs func(b *ssa.BasicBlock, n int)
	dfs = func(b *ssa.BasicBlock, n int) {
		if found != nil || seen[st{b, n}] {
			return
		}
		seen[st{b, n}] = true
		for _, in := range b.Instrs {
			if k := decs(in); k > 0 {
				n += k
				if n >= 2 {
					found = in
					return
				}
			}
		}
		for _, s := range b.Succs {
			dfs(s, n)
		}
	}
	if len(fn.Blocks) > 0 {
		dfs(fn.Blocks[0], 0)
	}
	return found
}

// fixedArraySafe: base is a local array of known length and idx a constant inside it.
func fixedArraySafe(base, idx ssa.Value) bool {
	a, ok := base.(*ssa.Alloc)
	if !ok {
		return false
	}
	arr, ok := a.Type().(*types.Pointer).Elem().Underlying().(*types.Array)
	if !ok {
		return false
	}
	k, ok := constInt(idx)
	return ok && k >= 0 && k < arr.Len()
}

// csCallees: the callees of v for recursion analysis, with calls made through a
// function-typed parameter attributed to the caller that passed the function.
//
// A generic helper `parseLogicalExpr(n, op, operand func(node) node)` calls
// `operand(n)`; the call graph gives that call every function any caller ever
// passed, which turns or -> helper -> and, and -> helper -> equality into an
// apparent cycle and -> helper -> and. Here the helper's call of its parameter is
// dropped from the helper's own callees (when every caller in the package
// passes a function that can be named), and each caller gets an edge to the
// function it passed at that call — unless the helper is a depth guard, in
// which case the path through it is cut like any path through a guard.
func (w *World) csCallees(v *ssa.Function, isGuard func(*ssa.Function) bool) []*ssa.Function {
	set := map[*ssa.Function]bool{}
	ho := w.calledFuncParams(v)
	attributable := len(ho) > 0 && w.allCallersNameTheirFuncs(v, ho)
	add := func(f *ssa.Function) {
		if f != nil && w.inPkg(f) && f.Synthetic == "" {
			set[f] = true
		}
	}
	n := w.CG.Nodes[v]
	for _, b := range v.Blocks {
		for _, in := range b.Instrs {
			site, ok := in.(ssa.CallInstruction)
			if !ok {
				continue
			}
			com := site.Common()
			if p, isP := com.Value.(*ssa.Parameter); isP && attributable && ho[paramIndex(v, p)] {
				continue // attributed to v's callers
			}
			if n != nil {
				for _, e := range n.Out {
					if e.Site != site {
						continue
					}
					c := e.Callee.Func
					add(c)
					if c.Synthetic != "" {
						if cn := w.CG.Nodes[c]; cn != nil {
							for _, e2 := range cn.Out {
								add(e2.Callee.Func)
							}
						}
					}
				}
			}
			// what v passes to a helper that calls its function parameters
			if h := com.StaticCallee(); h != nil && w.inPkg(h) && !isGuard(h) {
				hp := w.calledFuncParams(h)
				if len(hp) > 0 && w.allCallersNameTheirFuncs(h, hp) {
					for i := range hp {
						if i < len(com.Args) {
							add(namedFunc(w, com.Args[i]))
						}
					}
				}
			}
		}
	}
	// closures made here and anything else the call graph knows without a site in v's own blocks
	for _, c := range w.pkgCallees(v) {
		if c.Parent() == v {
			set[c] = true
		}
	}
	var out []*ssa.Function
	for f := range set {
		out = append(out, f)
	}
	sort.Slice(out, func(i, j int) bool { return fnName(out[i]) < fnName(out[j]) })
	return out
}

func paramIndex(f *ssa.Function, p *ssa.Parameter) int {
	for i, q := range f.Params {
		if q == p {
			return i
		}
	}
	return -1
}

// calledFuncParams: indices of the function-typed parameters f calls directly.
func (w *World) calledFuncParams(f *ssa.Function) map[int]bool {
	out := map[int]bool{}
	for _, b := range f.Blocks {
		for _, in := range b.Instrs {
			if site, ok := in.(ssa.CallInstruction); ok {
				if p, ok := site.Common().Value.(*ssa.Parameter); ok {
					if i := paramIndex(f, p); i >= 0 {
						out[i] = true
					}
				}
			}
		}
	}
	return out
}

// namedFunc: the package function a function-valued argument stands for: a
// function, a closure, or a method value.
func namedFunc(w *World, a ssa.Value) *ssa.Function {
	switch x := a.(type) {
	case *ssa.Function:
		return x
	case *ssa.MakeClosure:
		f, _ := x.Fn.(*ssa.Function)
		if f != nil && strings.HasPrefix(f.Synthetic, "bound method wrapper") {
			if obj, ok := f.Object().(*types.Func); ok {
				return w.Prog.FuncValue(obj)
			}
		}
		return f
	}
	return nil
}

// allCallersNameTheirFuncs: every call of h in the package is a static call
// that passes, for each of the given parameters, a function namedFunc resolves;
// and h's function parameters do not escape otherwise (h is not used as a value).
func (w *World) allCallersNameTheirFuncs(h *ssa.Function, params map[int]bool) bool {
	n := w.CG.Nodes[h]
	if n == nil || len(n.In) == 0 {
		return false
	}
	for _, e := range n.In {
		if e.Site == nil || e.Site.Common().StaticCallee() != h {
			return false
		}
		args := e.Site.Common().Args
		for i := range params {
			if i >= len(args) || namedFunc(w, args[i]) == nil {
				return false
			}
		}
	}
	return true
}
