package main

// Loader and shared program views: type-checked AST, SSA, VTA call graph,
// phase partition (build-time / run-time), lookup helpers. Everything here is
// recomputed from the working tree of the repository on every run.

import (
	"fmt"
	"go/ast"
	"go/token"
	"go/types"
	"os"
	"path/filepath"
	"sort"
	"strings"

	"golang.org/x/tools/go/callgraph"
	"golang.org/x/tools/go/callgraph/cha"
	"golang.org/x/tools/go/callgraph/vta"
	"golang.org/x/tools/go/packages"
	"golang.org/x/tools/go/ssa"
	"golang.org/x/tools/go/ssa/ssautil"
)

const xpathPath = "github.com/antchfx/xpath"

type World struct {
	Repo         string
	Fset         *token.FileSet
	Pkg          *packages.Package
	Types        *types.Package
	Info         *types.Info
	Prog         *ssa.Program
	SSA          *ssa.Package
	CG           *callgraph.Graph
	TableRefined int    // call-graph edges removed by refineTableCalls
	sharedWhy    string // paramAlwaysFresh: why an argument is build-time memory
	Files        []string
	NotAna       []string // go files present but excluded by build constraints

	// all package functions incl. anonymous ones
	AllFuncs []*ssa.Function
	byName   map[string]*ssa.Function

	// phases
	BuildTime map[*ssa.Function]bool
	RunTime   map[*ssa.Function]bool

	// FuncDecl for every *types.Func of the package
	Decls map[*types.Func]*ast.FuncDecl

	QueryIface *types.Interface
	NavIface   *types.Interface
	NavNamed   *types.Named
	QueryNamed *types.Named

	census          *Census
	argSite         *ssa.BasicBlock // scratch: call site whose arguments are being traced (B-ARGS)
	curProp         string          // property being decided (relevance.go)
	implNamesCache  map[*ssa.Function][]string
	faultScopeCache map[*ssa.Function]bool
	rolesCache      *builderRoles
	fnBuildsCache   map[fnBuildKey][]buildOutcome
	bindCache       map[string][]*types.Func
	opBuildsCache   map[string][]buildOutcome
	opDispatchCache *opDispatch
	roGlobalCache   map[*ssa.Global]bool
	nonNilDepth     int
	lockEntry       map[*ssa.Function]lockState
	lockSites       map[*ssa.Function][]lockState
	originScope     *ssa.Function // originFreeVar: only call sites inside this implementation
	reachStepCache  map[*ssa.Function]bool
	initStateCache  *AState
	axBuildsCache   map[string][]buildOutcome
}

func loadWorld(repo string, tags string) (*World, error) {
	os.Unsetenv("GOWORK")
	cfg := &packages.Config{
		Mode:  packages.LoadAllSyntax,
		Dir:   repo,
		Tests: false,
		Env:   append(os.Environ(), "GOFLAGS=-mod=mod", "GOPROXY=off", "GOSUMDB=off", "GOWORK=off"),
	}
	if tags != "" {
		cfg.BuildFlags = []string{"-tags=" + tags}
	}
	pkgs, err := packages.Load(cfg, "./...")
	if err != nil {
		return nil, fmt.Errorf("packages.Load: %v", err)
	}
	if len(pkgs) == 0 {
		return nil, fmt.Errorf("no packages loaded from %s", repo)
	}
	var xp *packages.Package
	for _, p := range pkgs {
		if len(p.Errors) > 0 {
			return nil, fmt.Errorf("package %s has errors: %v", p.PkgPath, p.Errors)
		}
		if p.PkgPath == xpathPath {
			xp = p
		}
	}
	if xp == nil {
		return nil, fmt.Errorf("package %s not found among %d packages", xpathPath, len(pkgs))
	}
	if xp.IllTyped {
		return nil, fmt.Errorf("package %s is ill-typed", xpathPath)
	}
	prog, _ := ssautil.AllPackages(pkgs, ssa.InstantiateGenerics)
	prog.Build()
	w := &World{Repo: repo, Fset: xp.Fset, Pkg: xp, Types: xp.Types, Info: xp.TypesInfo, Prog: prog}
	w.SSA = prog.Package(xp.Types)
	if w.SSA == nil {
		return nil, fmt.Errorf("no SSA package for %s", xpathPath)
	}
	for _, f := range xp.CompiledGoFiles {
		w.Files = append(w.Files, filepath.Base(f))
	}
	sort.Strings(w.Files)
	all, _ := filepath.Glob(filepath.Join(repo, "*.go"))
	for _, f := range all {
		b := filepath.Base(f)
		if strings.HasSuffix(b, "_test.go") {
			continue
		}
		found := false
		for _, g := range w.Files {
			if g == b {
				found = true
			}
		}
		if !found {
			w.NotAna = append(w.NotAna, b)
		}
	}
	allFns := ssautil.AllFunctions(prog)
	w.CG = vta.CallGraph(allFns, cha.CallGraph(prog))
	w.byName = map[string]*ssa.Function{}
	for fn := range allFns {
		if fn.Pkg == w.SSA || (fn.Parent() != nil && rootFn(fn).Pkg == w.SSA) {
			if fn.Synthetic != "" && !strings.HasPrefix(fn.Name(), "init") {
				// wrappers and bound-method thunks are skipped; init kept
				if fn.Blocks == nil {
					continue
				}
				if strings.Contains(fn.Synthetic, "wrapper") || strings.Contains(fn.Synthetic, "bound") || strings.Contains(fn.Synthetic, "thunk") {
					continue
				}
			}
			w.AllFuncs = append(w.AllFuncs, fn)
			w.byName[fnName(fn)] = fn
		}
	}
	sort.Slice(w.AllFuncs, func(i, j int) bool { return fnName(w.AllFuncs[i]) < fnName(w.AllFuncs[j]) })

	w.Decls = map[*types.Func]*ast.FuncDecl{}
	for _, f := range xp.Syntax {
		for _, d := range f.Decls {
			if fd, ok := d.(*ast.FuncDecl); ok {
				if obj, ok := w.Info.Defs[fd.Name].(*types.Func); ok {
					w.Decls[obj] = fd
				}
			}
		}
	}

	if err := w.findIfaces(); err != nil {
		return nil, err
	}
	w.refineTableCalls()
	w.computePhases()
	return w, nil
}

func rootFn(fn *ssa.Function) *ssa.Function {
	for fn.Parent() != nil {
		fn = fn.Parent()
	}
	return fn
}

// fnName gives a stable printable name: "(*childQuery).Select", "build",
// "countFunc$1", "(*childQuery).Select$1".
func fnName(fn *ssa.Function) string {
	s := fn.RelString(fn.Pkg.Pkg)
	if fn.Pkg == nil {
		s = fn.String()
	}
	return s
}

func init() {
	// RelString on closures needs Pkg; ssa sets Pkg for closures too.
}

func (w *World) Fn(name string) *ssa.Function { return w.byName[name] }

func (w *World) findIfaces() error {
	scope := w.Types.Scope()
	// The query interface: identified structurally, not by name: the named
	// interface type of the package that has methods Select, Evaluate and a
	// method returning itself (Clone).
	for _, n := range scope.Names() {
		tn, ok := scope.Lookup(n).(*types.TypeName)
		if !ok {
			continue
		}
		named, ok := tn.Type().(*types.Named)
		if !ok {
			continue
		}
		it, ok := named.Underlying().(*types.Interface)
		if !ok {
			continue
		}
		hasSelf := false
		for i := 0; i < it.NumMethods(); i++ {
			m := it.Method(i)
			sig := m.Type().(*types.Signature)
			if sig.Params().Len() == 0 && sig.Results().Len() == 1 && types.Identical(sig.Results().At(0).Type(), named) {
				hasSelf = true
			}
		}
		if hasSelf && it.NumMethods() >= 3 && !tn.Exported() {
			if w.QueryNamed != nil {
				return fmt.Errorf("anchor: more than one candidate for the query interface (%s, %s)", w.QueryNamed, named)
			}
			w.QueryNamed = named
			w.QueryIface = it
		}
		if tn.Exported() && hasSelf && it.NumMethods() >= 10 {
			// NodeNavigator: Copy() returns itself
			w.NavNamed = named
			w.NavIface = it
		}
	}
	if w.QueryIface == nil {
		return fmt.Errorf("anchor: query interface not found")
	}
	if w.NavIface == nil {
		return fmt.Errorf("anchor: NodeNavigator interface not found")
	}
	return nil
}

func (w *World) isQueryType(t types.Type) bool {
	return types.Identical(t, w.QueryNamed)
}

func (w *World) isNavType(t types.Type) bool {
	return types.Identical(t, w.NavNamed)
}

// reachable computes the set of package functions reachable from the given
// roots through the call graph; an anonymous function is also considered
// reachable when the function creating it is (MakeClosure), because a closure
// value created there can be invoked by whoever receives it.
func (w *World) reachable(roots []*ssa.Function, stop func(*ssa.Function) bool) map[*ssa.Function]bool {
	seen := map[*ssa.Function]bool{}
	var work []*ssa.Function
	push := func(f *ssa.Function) {
		if f == nil || seen[f] {
			return
		}
		if stop != nil && stop(f) {
			return
		}
		seen[f] = true
		work = append(work, f)
	}
	for _, r := range roots {
		push(r)
	}
	for len(work) > 0 {
		f := work[len(work)-1]
		work = work[:len(work)-1]
		if n := w.CG.Nodes[f]; n != nil {
			for _, e := range n.Out {
				push(e.Callee.Func)
			}
		}
	}
	return seen
}

func (w *World) inPkg(fn *ssa.Function) bool {
	if fn == nil {
		return false
	}
	r := rootFn(fn)
	return r.Pkg == w.SSA
}

func (w *World) computePhases() {
	build := w.Fn("build")
	var rt []*ssa.Function
	for _, n := range []string{"(*Expr).Select", "(*Expr).Evaluate", "(*NodeIterator).MoveNext", "(*NodeIterator).Current", "(*Expr).String"} {
		if f := w.Fn(n); f != nil {
			rt = append(rt, f)
		}
	}
	w.BuildTime = map[*ssa.Function]bool{}
	w.RunTime = map[*ssa.Function]bool{}
	if build != nil {
		for f := range w.reachable([]*ssa.Function{build}, nil) {
			if w.inPkg(f) {
				w.BuildTime[f] = true
			}
		}
	}
	for f := range w.reachable(rt, nil) {
		if w.inPkg(f) {
			w.RunTime[f] = true
		}
	}
	// The closures stored by build-time code in func-typed fields of query
	// types are invoked at run time through those fields; VTA resolves these.
	// As a safety net, any anonymous function nested in a run-time function is
	// run-time as well.
	changed := true
	for changed {
		changed = false
		for _, f := range w.AllFuncs {
			if p := f.Parent(); p != nil && w.RunTime[p] && !w.RunTime[f] {
				w.RunTime[f] = true
				changed = true
			}
		}
	}
}

// pos renders a position as "file.go:line".
func (w *World) pos(p token.Pos) string {
	if !p.IsValid() {
		return "?"
	}
	pp := w.Fset.Position(p)
	return fmt.Sprintf("%s:%d", filepath.Base(pp.Filename), pp.Line)
}

func (w *World) instrPos(in ssa.Instruction) string {
	p := in.Pos()
	if !p.IsValid() {
		// fall back to the closest positioned instruction in the block
		if b := in.Block(); b != nil {
			for _, x := range b.Instrs {
				if x.Pos().IsValid() {
					p = x.Pos()
					break
				}
			}
		}
		if !p.IsValid() && in.Parent() != nil {
			p = in.Parent().Pos()
		}
	}
	return w.pos(p)
}

// methodOf returns the SSA function of method name on *T or T.
func (w *World) methodOf(named *types.Named, name string) *ssa.Function {
	for _, t := range []types.Type{types.NewPointer(named), named} {
		ms := w.Prog.MethodSets.MethodSet(t)
		for i := 0; i < ms.Len(); i++ {
			sel := ms.At(i)
			if sel.Obj().Name() == name {
				fn := w.Prog.MethodValue(sel)
				if fn != nil && fn.Synthetic != "" {
					// wrapper: find the declared function
					if obj, ok := sel.Obj().(*types.Func); ok {
						if f := w.Prog.FuncValue(obj); f != nil {
							return f
						}
					}
				}
				return fn
			}
		}
	}
	return nil
}

// closuresOf returns fn and every anonymous function nested in it.
func closuresOf(fn *ssa.Function) []*ssa.Function {
	out := []*ssa.Function{fn}
	for _, a := range fn.AnonFuncs {
		out = append(out, closuresOf(a)...)
	}
	return out
}

func sortedFnNames(m map[*ssa.Function]bool) []string {
	var s []string
	for f := range m {
		s = append(s, fnName(f))
	}
	sort.Strings(s)
	return s
}
