package main

// Group S — state, cloning, sharing (C02 C04 C05 C11 C12 C13).

import (
	"fmt"
	"go/token"
	"go/types"
	"sort"
	"strings"

	"golang.org/x/tools/go/ssa"
)

// ---------- helpers shared by the S rules ----------

// cloneMethodName: the method of the query interface with signature
// func() query.
func (w *World) cloneMethod() string {
	for i := 0; i < w.QueryIface.NumMethods(); i++ {
		m := w.QueryIface.Method(i)
		sig := m.Type().(*types.Signature)
		if sig.Params().Len() == 0 && sig.Results().Len() == 1 && w.isQueryType(sig.Results().At(0).Type()) {
			return m.Name()
		}
	}
	return ""
}

// selectMethod / evaluateMethod: identified by signature: (iterator)->NodeNavigator
// and (iterator)->interface{}.
func (w *World) selectMethod() string {
	for i := 0; i < w.QueryIface.NumMethods(); i++ {
		m := w.QueryIface.Method(i)
		sig := m.Type().(*types.Signature)
		if sig.Params().Len() == 1 && sig.Results().Len() == 1 && w.isNavType(sig.Results().At(0).Type()) {
			return m.Name()
		}
	}
	return ""
}

func (w *World) evaluateMethod() string {
	for i := 0; i < w.QueryIface.NumMethods(); i++ {
		m := w.QueryIface.Method(i)
		sig := m.Type().(*types.Signature)
		if sig.Params().Len() == 1 && sig.Results().Len() == 1 {
			if it, ok := sig.Results().At(0).Type().Underlying().(*types.Interface); ok && it.Empty() {
				return m.Name()
			}
		}
	}
	return ""
}

// writesThroughRecv: fn (not its closures) stores into memory rooted at its
// receiver.
func writesThroughRecv(fn *ssa.Function) []ssa.Instruction {
	var out []ssa.Instruction
	eachInstr(fn, true, func(g *ssa.Function, in ssa.Instruction) {
		var addr ssa.Value
		switch x := in.(type) {
		case *ssa.Store:
			if _, isAlloc := x.Addr.(*ssa.Alloc); isAlloc {
				return
			}
			if _, isFV := x.Addr.(*ssa.FreeVar); isFV {
				return
			}
			addr = x.Addr
		case *ssa.MapUpdate:
			addr = x.Map
		default:
			return
		}
		for _, r := range addrRoots(addr) {
			if p, ok := r.(*ssa.Parameter); ok && p == recvOf(g) {
				out = append(out, in)
			}
		}
	})
	return out
}

// pureQueryMethods: methods M of the query interface such that no
// implementation of M writes through its receiver and M only invokes pure
// query methods on other queries (fix-point).
func (w *World) pureQueryMethods() map[string]bool {
	c := w.census
	pure := map[string]bool{}
	for i := 0; i < w.QueryIface.NumMethods(); i++ {
		pure[w.QueryIface.Method(i).Name()] = true
	}
	changed := true
	for changed {
		changed = false
		for name := range pure {
			if !pure[name] {
				continue
			}
			ok := true
			for _, qt := range c.Types {
				fn := qt.Methods[name]
				if fn == nil {
					continue
				}
				if len(writesThroughRecv(fn)) > 0 {
					ok = false
				}
				eachInstr(fn, true, func(g *ssa.Function, in ssa.Instruction) {
					ci, isCall := in.(ssa.CallInstruction)
					if !isCall {
						return
					}
					cc := ci.Common()
					if cc.IsInvoke() && w.isQueryType(cc.Value.Type()) && !pure[cc.Method.Name()] {
						ok = false
					}
					if f := cc.StaticCallee(); f != nil && w.inPkg(f) && f.Signature.Recv() != nil {
						// calls another method of a package type on the receiver
						if len(cc.Args) > 0 && isRecv(cc.Args[0]) && len(writesThroughRecv(f)) > 0 {
							ok = false
						}
					}
				})
			}
			if !ok {
				pure[name] = false
				changed = true
			}
		}
	}
	return pure
}

// methodPureEverywhere: every implementation of method name on a query type
// writes nothing through its receiver and invokes only receiver-pure query
// methods.
func (w *World) methodPureEverywhere(name string) bool {
	pure := w.pureQueryMethods()
	if v, ok := pure[name]; ok {
		return v
	}
	found := false
	ok := true
	for _, qt := range w.census.Types {
		fn := qt.Methods[name]
		if fn == nil {
			continue
		}
		found = true
		if len(writesThroughRecv(fn)) > 0 {
			ok = false
		}
		eachInstr(fn, true, func(g *ssa.Function, in ssa.Instruction) {
			if ci, isCall := in.(ssa.CallInstruction); isCall {
				cc := ci.Common()
				if cc.IsInvoke() && w.isQueryType(cc.Value.Type()) && !pure[cc.Method.Name()] {
					ok = false
				}
			}
		})
	}
	return found && ok
}

func pureList(m map[string]bool) []string {
	var s []string
	for k, v := range m {
		if v {
			s = append(s, k)
		}
	}
	sort.Strings(s)
	return s
}

// exprType: *Expr = result type of the exported function Compile.
func (w *World) exprStruct() (*types.Named, int, error) {
	obj := w.Types.Scope().Lookup("Compile")
	f, ok := obj.(*types.Func)
	if !ok {
		return nil, 0, fmt.Errorf("anchor: exported function Compile not found")
	}
	res := f.Type().(*types.Signature).Results()
	if res.Len() < 1 {
		return nil, 0, fmt.Errorf("anchor: Compile has no results")
	}
	pt, ok := res.At(0).Type().(*types.Pointer)
	if !ok {
		return nil, 0, fmt.Errorf("anchor: Compile's first result is not a pointer")
	}
	named, ok := pt.Elem().(*types.Named)
	if !ok {
		return nil, 0, fmt.Errorf("anchor: Compile's first result is not a named struct pointer")
	}
	st, ok := named.Underlying().(*types.Struct)
	if !ok {
		return nil, 0, fmt.Errorf("anchor: %s is not a struct", named)
	}
	idx := -1
	for i := 0; i < st.NumFields(); i++ {
		if w.isQueryType(st.Field(i).Type()) {
			if idx >= 0 {
				return nil, 0, fmt.Errorf("anchor: %s has more than one query field", named)
			}
			idx = i
		}
	}
	if idx < 0 {
		return nil, 0, fmt.Errorf("anchor: %s has no query-typed field", named)
	}
	return named, idx, nil
}

// iteratorStruct: *NodeIterator = result type of (*Expr).Select.
func (w *World) iterStruct() (*types.Named, int, int, error) {
	en, _, err := w.exprStruct()
	if err != nil {
		return nil, 0, 0, err
	}
	sel := w.methodOf(en, "Select")
	if sel == nil {
		return nil, 0, 0, fmt.Errorf("anchor: (*Expr).Select not found")
	}
	pt, ok := sel.Signature.Results().At(0).Type().(*types.Pointer)
	if !ok {
		return nil, 0, 0, fmt.Errorf("anchor: (*Expr).Select does not return a pointer")
	}
	named := pt.Elem().(*types.Named)
	st := named.Underlying().(*types.Struct)
	qi, ni := -1, -1
	for i := 0; i < st.NumFields(); i++ {
		if w.isQueryType(st.Field(i).Type()) {
			qi = i
		}
		if w.isNavType(st.Field(i).Type()) {
			ni = i
		}
	}
	if qi < 0 || ni < 0 {
		return nil, 0, 0, fmt.Errorf("anchor: %s lacks query/navigator fields", named)
	}
	return named, qi, ni, nil
}

// ---------- S-ENTRY ----------

func ruleSEntry(w *World, r *Report) {
	r.rule("S-ENTRY", "every use of the compiled tree Expr.q (anywhere in the package) is the receiver of a receiver-pure query method (Clone/ValueType/Properties), a nil comparison or a type test; it is never the receiver of Select/Evaluate, stored, returned or passed on. Every store into NodeIterator.query is a fresh Clone() result or a stateless query value.")
	en, qidx, err := w.exprStruct()
	if err != nil {
		r.bad("ANCHOR", "S-ENTRY", "", err.Error())
		return
	}
	pure := w.pureQueryMethods()
	r.note("receiver-pure query methods (computed): %v", pureList(pure))
	clone := w.cloneMethod()
	if !pure[clone] {
		r.bad("S-ENTRY", "clone-is-pure", "", "the Clone method is not receiver-pure: cloning the shared tree writes to it")
	}
	nuse := 0
	for _, fn := range w.AllFuncs {
		r.FuncsAnalysed[fnName(fn)] = true
		for _, b := range fn.Blocks {
			for _, in := range b.Instrs {
				fa, ok := in.(*ssa.FieldAddr)
				if !ok || structOfAddr(fa) != en || fa.Field != qidx {
					continue
				}
				for _, u := range uses(fa) {
					switch x := u.(type) {
					case *ssa.Store:
						if x.Addr == fa {
							nuse++
							if isFreshAlloc(fa.X) {
								r.ok("S-ENTRY", fnName(fn)+":init-q", w.instrPos(x), "Expr.q initialised in a composite literal")
							} else {
								r.bad("S-ENTRY", fnName(fn)+":store-q", w.instrPos(x), "Expr.q is reassigned after construction: the compiled tree of a live Expr changes")
							}
						} else {
							r.bad("S-ENTRY", fnName(fn)+":addr-q-escapes", w.instrPos(x), "address of Expr.q is stored")
						}
					case *ssa.UnOp:
						if x.Op != token.MUL {
							continue
						}
						w.checkSharedUses(r, "S-ENTRY", fn, x, "Expr.q", pure, &nuse, 0)
					case *ssa.DebugRef:
					default:
						nuse++
						r.bad("S-ENTRY", fnName(fn)+":addr-q", w.instrPos(u), fmt.Sprintf("address of Expr.q used by %T", u))
					}
				}
			}
		}
	}
	// NodeIterator.query stores
	in_, qi, _, err := w.iterStruct()
	if err != nil {
		r.bad("ANCHOR", "S-ENTRY-iter", "", err.Error())
		return
	}
	for _, fn := range w.AllFuncs {
		for _, b := range fn.Blocks {
			for _, ins := range b.Instrs {
				st, ok := ins.(*ssa.Store)
				if !ok {
					continue
				}
				fa, ok := st.Addr.(*ssa.FieldAddr)
				if !ok || structOfAddr(fa) != in_ || fa.Field != qi {
					continue
				}
				v := resolve(st.Val)
				key := fnName(fn) + ":iter-query"
				if w.isCloneCall(v) {
					r.ok("S-ENTRY", key, w.instrPos(st), "NodeIterator.query receives a Clone() result")
				} else if mi, ok := v.(*ssa.MakeInterface); ok && w.isStatelessQueryValue(mi.X.Type()) {
					r.ok("S-ENTRY", key, w.instrPos(st), "NodeIterator.query receives a stateless query value")
				} else {
					r.bad("S-ENTRY", key, w.instrPos(st), fmt.Sprintf("NodeIterator.query receives %s, which is not a fresh Clone() of the compiled tree: the iterator would run on shared state", v))
				}
			}
		}
	}
}

func (w *World) isCloneCall(v ssa.Value) bool {
	c, ok := v.(*ssa.Call)
	if !ok {
		return false
	}
	return c.Call.IsInvoke() && c.Call.Method.Name() == w.cloneMethod() && w.isQueryType(c.Call.Value.Type())
}

func (w *World) isStatelessQueryValue(t types.Type) bool {
	if p, ok := t.(*types.Pointer); ok {
		t = p.Elem()
	}
	n, ok := t.(*types.Named)
	if !ok {
		return false
	}
	qt := w.census.ByType[n]
	if qt == nil {
		return false
	}
	if len(qt.StateFields()) > 0 {
		return false
	}
	for _, f := range qt.Fields {
		if f.IsQuery {
			return false
		}
	}
	return true
}

// checkSharedUses examines every use of a value that denotes a query shared
// between evaluations.
func (w *World) checkSharedUses(r *Report, rule string, fn *ssa.Function, v ssa.Value, what string, pure map[string]bool, n *int, depth int) {
	for _, u := range uses(v) {
		*n++
		key := fmt.Sprintf("%s:%s", fnName(fn), what)
		switch x := u.(type) {
		case *ssa.DebugRef:
			*n--
		case ssa.CallInstruction:
			cc := x.Common()
			if cc.IsInvoke() && cc.Value == v {
				m := cc.Method.Name()
				if pure[m] {
					r.ok(rule, key+"."+m, w.instrPos(x), "shared query used as receiver of receiver-pure method "+m)
				} else {
					r.bad(rule, key+"."+m, w.instrPos(x), fmt.Sprintf("%s() is invoked on %s, the query tree shared by every evaluation of the expression; %s mutates iterator state, so evaluations (sequential or concurrent) interfere", m, what, m))
				}
				continue
			}
			// passed as an argument
			callee := cc.StaticCallee()
			if callee != nil && w.inPkg(callee) {
				idx := -1
				for i, a := range cc.Args {
					if a == v {
						idx = i
					}
				}
				if idx >= 0 && depth < 3 {
					if ok, why := w.paramSharedSafe(callee, idx, pure, depth+1); ok {
						r.ok(rule, key+"->"+callee.Name(), w.instrPos(x), "passed to "+callee.Name()+", which uses it only in shared-safe ways ("+why+")")
					} else {
						r.bad(rule, key+"->"+callee.Name(), w.instrPos(x), "passed to "+callee.Name()+": "+why)
					}
					continue
				}
			}
			r.bad(rule, key+"->call", w.instrPos(x), fmt.Sprintf("%s passed to a call that cannot be summarised", what))
		case *ssa.BinOp:
			if (x.Op == token.EQL || x.Op == token.NEQ) && (isNilConst(x.X) || isNilConst(x.Y)) {
				r.ok(rule, key+":nilcmp", w.instrPos(x), "nil comparison")
			} else {
				r.bad(rule, key+":binop", w.instrPos(x), "unexpected operator on shared query")
			}
		case *ssa.TypeAssert:
			if x.CommaOk {
				// uses of the asserted value are still the shared object
				for _, e := range uses(x) {
					if ex, ok := e.(*ssa.Extract); ok && ex.Index == 0 {
						w.checkSharedUses(r, rule, fn, ex, what, pure, n, depth)
					}
				}
				r.ok(rule, key+":typetest", w.instrPos(x), "comma-ok type test")
			} else {
				w.checkSharedUses(r, rule, fn, x, what, pure, n, depth)
				r.ok(rule, key+":typeassert", w.instrPos(x), "type assertion (result followed)")
			}
		case *ssa.MakeInterface, *ssa.ChangeInterface, *ssa.ChangeType:
			w.checkSharedUses(r, rule, fn, u.(ssa.Value), what, pure, n, depth)
		case *ssa.Store:
			if x.Val == v {
				// storing into a fresh local cell that is only read is fine; anything else is an escape
				if a := cellOf(x.Addr); a != nil && !cellEscapes(a) {
					// follow loads of the cell
					for _, fn2 := range closuresOf(a.Parent()) {
						for _, b := range fn2.Blocks {
							for _, in := range b.Instrs {
								if ld, ok := in.(*ssa.UnOp); ok && ld.Op == token.MUL && cellOf(ld.X) == a {
									w.checkSharedUses(r, rule, fn2, ld, what, pure, n, depth)
								}
							}
						}
					}
					*n--
					continue
				}
				r.bad(rule, key+":stored", w.instrPos(x), fmt.Sprintf("%s is stored into %s: the shared tree escapes into per-evaluation state", what, x.Addr))
			}
		case *ssa.Return:
			r.bad(rule, key+":returned", w.instrPos(x), what+" is returned to the caller without cloning")
		case *ssa.Phi:
			w.checkSharedUses(r, rule, fn, x, what, pure, n, depth)
		case *ssa.MakeClosure:
			// bound method value x.M: fine when M writes nothing through its receiver on any query type
			if bf, ok := x.Fn.(*ssa.Function); ok && strings.Contains(bf.Synthetic, "bound method") && len(x.Bindings) == 1 && x.Bindings[0] == v {
				m := strings.TrimSuffix(bf.Name(), "$bound")
				if w.methodPureEverywhere(m) {
					r.ok(rule, key+":bound."+m, w.instrPos(x), "method value "+m+"; no implementation of "+m+" writes through its receiver")
				} else {
					r.bad(rule, key+":bound."+m, w.instrPos(x), "method value "+m+" of a shared query, and some implementation of "+m+" writes through its receiver")
				}
			} else {
				r.undec(rule, key+":closure", w.instrPos(x), "shared query captured by a closure")
			}
		default:
			r.undec(rule, key+fmt.Sprintf(":%T", u), w.instrPos(u), "unrecognised use of a shared query")
		}
	}
}

// paramSharedSafe: parameter idx of callee is used only in shared-safe ways.
// Returns also whether the callee may return the parameter itself.
func (w *World) paramSharedSafe(callee *ssa.Function, idx int, pure map[string]bool, depth int) (bool, string) {
	if idx >= len(callee.Params) {
		return false, "variadic or missing parameter"
	}
	sub := newReport("", "", w)
	n := 0
	p := callee.Params[idx]
	// the parameter may live in a cell when captured
	w.checkSharedUses(sub, "X", callee, p, "param", pure, &n, depth)
	var bad []string
	for _, o := range sub.Obls {
		if o.Status != Discharged {
			if strings.Contains(o.Key, ":returned") {
				// returning the shared value: caller decides (see functionArgs handling)
				return false, "returns its argument unchanged on some path (" + o.Pos + ")"
			}
			bad = append(bad, o.Key+"@"+o.Pos+": "+o.Detail)
		}
	}
	if len(bad) > 0 {
		return false, strings.Join(bad, "; ")
	}
	return true, fmt.Sprintf("%d uses", n)
}

// ---------- S-CLONE ----------

func ruleSClone(w *World, r *Report) {
	r.rule("S-CLONE", "for every query type T, T.Clone returns on every path the receiver itself (only if T has no state and no query-typed field) or a fresh struct of T (or of a variant built under the same axis case) in which every run-time-read config field f is recv.f (query-typed: recv.f.Clone(), nil-guard accepted), and no state field is carried over")
	c := w.census
	clone := w.cloneMethod()
	variants := w.axisVariants(r)
	for _, qt := range c.Types {
		fn := qt.Methods[clone]
		if fn == nil {
			r.bad("S-CLONE", qt.Name(), "", "no Clone method found")
			continue
		}
		r.FuncsAnalysed[fnName(fn)] = true
		nret := 0
		for _, b := range fn.Blocks {
			if len(b.Instrs) == 0 {
				continue
			}
			ret, ok := normalReturn(b)
			if !ok || len(ret.Results) != 1 {
				continue
			}
			nret++
			w.checkCloneReturn(r, qt, fn, ret, variants)
		}
		if nret == 0 {
			r.bad("S-CLONE", qt.Name(), w.pos(fn.Pos()), "Clone has no return")
		}
	}
}

func (w *World) checkCloneReturn(r *Report, qt *QType, fn *ssa.Function, ret *ssa.Return, variants map[string]map[string]bool) {
	pos := w.instrPos(ret)
	v := strip(retVal(ret, 0))
	if mi, ok := v.(*ssa.MakeInterface); ok {
		v = strip(mi.X)
	}
	// returns the receiver itself?
	if isRecv(v) {
		if w.isStatelessQueryValue(qt.Named) {
			r.ok("S-CLONE", qt.Name()+":self", pos, "returns the receiver; the type has no state and no query-typed field")
		} else {
			r.bad("S-CLONE", qt.Name()+":self", pos, "Clone returns the receiver itself although the type carries iteration state or sub-queries: clones share state")
		}
		return
	}
	var alloc *ssa.Alloc
	var target *types.Named
	switch x := v.(type) {
	case *ssa.Alloc:
		alloc = x
		target, _ = x.Type().(*types.Pointer).Elem().(*types.Named)
	case *ssa.UnOp:
		// value type: load of a local alloc (nopQuery{})
		if a, ok := x.X.(*ssa.Alloc); ok && x.Op == token.MUL {
			alloc = a
			target, _ = a.Type().(*types.Pointer).Elem().(*types.Named)
		}
	case *ssa.Const:
		// zero value of a value type e.g. nopQuery{}
		if n, ok := x.Type().(*types.Named); ok && w.census.ByType[n] != nil {
			tq := w.census.ByType[n]
			if len(tq.Fields) == 0 {
				r.ok("S-CLONE", qt.Name()+":zero", pos, "returns the zero value of a field-less query type")
				return
			}
		}
	}
	if alloc == nil || target == nil {
		r.undec("S-CLONE", qt.Name()+":shape", pos, fmt.Sprintf("Clone returns %s, neither the receiver nor a fresh struct literal", v))
		return
	}
	tq := w.census.ByType[target]
	if tq == nil {
		r.bad("S-CLONE", qt.Name()+":type", pos, "Clone returns a non-query struct "+target.String())
		return
	}
	if tq != qt {
		same := false
		for _, set := range variants {
			if set[qt.Name()] && set[tq.Name()] {
				same = true
			}
		}
		if same {
			r.ok("S-CLONE", qt.Name()+":variant", pos, "clones into "+tq.Name()+", a variant built for the same axis")
		} else {
			r.bad("S-CLONE", qt.Name()+":variant", pos, "Clone returns a "+tq.Name()+", which is not a variant of the same axis as "+qt.Name())
		}
	}
	// collect what each field of the fresh struct receives
	type fval struct {
		vals []ssa.Value
		pos  []ssa.Instruction
	}
	fields := map[string]*fval{}
	wholeCopy := false
	for _, b := range fn.Blocks {
		for _, in := range b.Instrs {
			st, ok := in.(*ssa.Store)
			if !ok {
				continue
			}
			if st.Addr == alloc {
				// *n = *recv
				if ld, ok := st.Val.(*ssa.UnOp); ok && ld.Op == token.MUL && isRecv(ld.X) {
					wholeCopy = true
				} else if !isZeroConst(st.Val) {
					r.undec("S-CLONE", qt.Name()+":wholestore", w.instrPos(st), "whole-struct store of an unrecognised value")
				}
				continue
			}
			fa, ok := st.Addr.(*ssa.FieldAddr)
			if !ok || fa.X != alloc {
				continue
			}
			name := fieldOfAddr(fa).Name()
			if fields[name] == nil {
				fields[name] = &fval{}
			}
			fields[name].vals = append(fields[name].vals, st.Val)
			fields[name].pos = append(fields[name].pos, st)
		}
	}
	clone := w.cloneMethod()
	for _, sf := range qt.Fields {
		name := sf.Var.Name()
		tf := tq.ByName[name]
		key := qt.Name() + "." + name
		fv := fields[name]
		if tf == nil {
			if sf.Role == RoleConfig {
				r.bad("S-CLONE", key, pos, "config field has no counterpart in "+tq.Name())
			}
			continue
		}
		role := sf.Role
		if tf.Role == RoleState {
			role = RoleState
		}
		switch role {
		case RoleDead:
			r.skip("S-CLONE", key, pos, "field is never read at run time; not judged")
		case RoleState:
			switch {
			case fv == nil && !wholeCopy:
				r.ok("S-CLONE", key, pos, "state field starts at its zero value in the clone")
			case fv == nil && wholeCopy:
				r.bad("S-CLONE", key, pos, "state field is copied from the original by a whole-struct copy and never cleared")
			default:
				allZero := true
				for _, v := range fv.vals {
					if !isZeroConst(v) {
						allZero = false
					}
				}
				if allZero {
					r.ok("S-CLONE", key, pos, "state field explicitly zeroed")
				} else {
					r.bad("S-CLONE", key, w.instrPos(fv.pos[0]), "Clone carries iteration state over into the clone (state field "+name+" is initialised from a non-zero value)")
				}
			}
		case RoleConfig:
			if fv == nil {
				if wholeCopy && !sf.IsQuery {
					r.ok("S-CLONE", key, pos, "copied by whole-struct copy")
					continue
				}
				if sf.IsQuery && wholeCopy {
					r.bad("S-CLONE", key, pos, "sub-query is shared between original and clone (whole-struct copy, no Clone())")
					continue
				}
				// absent: acceptable only under a nil guard of recv.f
				if sf.IsQuery && w.underNilGuard(fn, ret.Block(), alloc, name) {
					r.ok("S-CLONE", key, pos, "omitted on the path where recv."+name+" == nil")
				} else {
					r.bad("S-CLONE", key, pos, "Clone drops config field "+name+": the clone behaves differently from the compiled query")
				}
				continue
			}
			for i, v := range fv.vals {
				vv := strip(v)
				if sf.IsQuery {
					if call, ok := vv.(*ssa.Call); ok && call.Call.IsInvoke() && call.Call.Method.Name() == clone {
						if f, ok := recvFieldLoad(call.Call.Value); ok && f.Name() == name {
							r.ok("S-CLONE", key, w.instrPos(fv.pos[i]), "recv."+name+".Clone()")
							continue
						}
					}
					r.bad("S-CLONE", key, w.instrPos(fv.pos[i]), "sub-query field "+name+" of the clone is not recv."+name+".Clone(): original and clone share a sub-tree or the wrong sub-tree is used")
				} else {
					if f, ok := recvFieldLoad(vv); ok && f.Name() == name {
						r.ok("S-CLONE", key, w.instrPos(fv.pos[i]), "recv."+name)
					} else {
						r.bad("S-CLONE", key, w.instrPos(fv.pos[i]), "config field "+name+" of the clone is not copied from the receiver's "+name)
					}
				}
			}
		}
	}
}

// underNilGuard: the block is dominated by the true edge of `recv.f == nil`.
func (w *World) underNilGuard(fn *ssa.Function, blk *ssa.BasicBlock, alloc *ssa.Alloc, field string) bool {
	for _, b := range fn.Blocks {
		ifi := blockIf(b)
		if ifi == nil {
			continue
		}
		cmp, neg := decodeCond(ifi.Cond)
		if cmp == nil {
			continue
		}
		var other ssa.Value
		if isNilConst(cmp.Y) {
			other = cmp.X
		} else if isNilConst(cmp.X) {
			other = cmp.Y
		} else {
			continue
		}
		f, ok := recvFieldLoad(other)
		if !ok || f.Name() != field {
			continue
		}
		isEq := cmp.Op == token.EQL
		if neg {
			isEq = !isEq
		}
		var nilSucc *ssa.BasicBlock
		if isEq {
			nilSucc = b.Succs[0]
		} else {
			nilSucc = b.Succs[1]
		}
		if len(nilSucc.Preds) == 1 && nilSucc.Dominates(blk) && nilSucc.Dominates(alloc.Block()) {
			return true
		}
	}
	return false
}

// ---------- S-WRITES / S-SHARED / S-GLOBAL ----------

// classify a written root
func (w *World) ruleSWritesPhase(r *Report, runtime bool) {
	c := w.census
	rule := "S-WRITES"
	for _, fn := range w.AllFuncs {
		if runtime && !w.RunTime[fn] {
			continue
		}
		if !runtime && (!w.BuildTime[fn] || w.RunTime[fn]) {
			continue
		}
		if w.irrelevantFn(fn) {
			continue
		}
		r.FuncsAnalysed[fnName(fn)] = true
		for _, b := range fn.Blocks {
			for _, in := range b.Instrs {
				var addr ssa.Value
				kind := ""
				switch x := in.(type) {
				case *ssa.Store:
					addr = x.Addr
					kind = "store"
				case *ssa.MapUpdate:
					addr = x.Map
					kind = "map update"
				default:
					continue
				}
				key := fmt.Sprintf("%s:%s", fnName(fn), describeAddr(addr))
				// direct write to a variable cell
				if a := cellOf(addr); a != nil {
					if a.Parent() == fn || w.sameTree(a.Parent(), fn) && (w.RunTime[a.Parent()] == w.RunTime[fn] || !runtime) {
						if runtime && !w.RunTime[a.Parent()] {
							r.bad(rule, key, w.instrPos(in), fmt.Sprintf("run-time closure %s writes variable %q captured from build-time function %s: the cell is shared by every clone and every goroutine evaluating the expression", fnName(fn), a.Comment, fnName(a.Parent())))
						} else {
							r.ok(rule, key, w.instrPos(in), "write to a variable of the same activation tree")
						}
						continue
					}
					if runtime && !w.RunTime[a.Parent()] {
						r.bad(rule, key, w.instrPos(in), fmt.Sprintf("run-time closure %s writes variable %q captured from build-time function %s: the cell is shared by every clone and every goroutine evaluating the expression", fnName(fn), a.Comment, fnName(a.Parent())))
						continue
					}
					r.ok(rule, key, w.instrPos(in), "write to a captured variable created in the same phase")
					continue
				}
				roots := addrRoots(addr)
				if len(roots) == 0 {
					r.undec(rule, key, w.instrPos(in), kind+" with no identifiable root")
					continue
				}
				for _, root := range roots {
					w.classifyRoot(r, rule, key, fn, in, root, runtime, c)
				}
			}
		}
	}
}

func (w *World) sameTree(a, b *ssa.Function) bool { return rootFn(a) == rootFn(b) }

func describeAddr(v ssa.Value) string {
	switch x := v.(type) {
	case *ssa.FieldAddr:
		return describeAddr(x.X) + "." + fieldOfAddr(x).Name()
	case *ssa.IndexAddr:
		return describeAddr(x.X) + "[]"
	case *ssa.UnOp:
		if a := cellOf(x.X); a != nil {
			return a.Comment
		}
		return "*" + describeAddr(x.X)
	case *ssa.Alloc:
		if x.Comment != "" {
			return x.Comment
		}
		return "new"
	case *ssa.FreeVar:
		return x.Name()
	case *ssa.Parameter:
		return x.Name()
	case *ssa.Global:
		return x.Name()
	}
	return v.Name()
}

func (w *World) classifyRoot(r *Report, rule, key string, fn *ssa.Function, in ssa.Instruction, root ssa.Value, runtime bool, c *Census) {
	pos := w.instrPos(in)
	switch x := root.(type) {
	case *ssa.Global:
		if strings.HasPrefix(fn.Name(), "init") && fn.Parent() == nil {
			r.ok(rule, key, pos, "package initialisation")
			return
		}
		r.bad(rule, key, pos, fmt.Sprintf("%s writes package-level variable %s (or memory reachable from it) outside initialisation: shared by all expressions and goroutines", fnName(fn), x.Name()))
	case *ssa.Alloc:
		if runtime && !w.RunTime[x.Parent()] && w.RunTime[fn] && x.Parent() != fn {
			r.bad(rule, key, pos, fmt.Sprintf("run-time code writes into an object allocated by build-time function %s and captured: shared between clones", fnName(x.Parent())))
			return
		}
		r.ok(rule, key, pos, "object allocated in this activation tree")
	case *ssa.MakeMap, *ssa.MakeSlice, *ssa.MakeChan, *ssa.MakeClosure:
		r.ok(rule, key, pos, "freshly made object")
	case *ssa.Const:
		r.ok(rule, key, pos, "constant/nil root")
	case *ssa.Parameter:
		owner := x.Parent()
		if runtime && !w.RunTime[owner] {
			r.bad(rule, key, pos, fmt.Sprintf("run-time closure %s writes through %q, a parameter of build-time function %s captured at compile time: that memory is shared by every clone", fnName(fn), x.Name(), fnName(owner)))
			return
		}
		if x == recvOf(owner) && (!runtime || w.ownedReceiver(x.Type())) {
			r.ok(rule, key, pos, "state of the receiver "+typeName(x.Type())+" (owned by one clone / one iterator / guarded by K-LOCK)")
			return
		}
		if !runtime {
			r.ok(rule, key, pos, "build-time write through parameter "+x.Name()+" (objects of one Compile call)")
			return
		}
		// a helper that fills an object its callers made: every call site passes,
		// in this position, a value rooted only at objects freshly made in the
		// caller's own activation (or nil)
		w.sharedWhy = ""
		if ok, why := w.paramAlwaysFresh(x, 0); ok {
			r.ok(rule, key, pos, "write through parameter "+x.Name()+": "+why)
			return
		}
		if w.sharedWhy != "" {
			r.bad(rule, key, pos, fmt.Sprintf("%s writes through %s, which %s: the memory is shared by every clone and every goroutine evaluating the expression", fnName(fn), x.Name(), w.sharedWhy))
			return
		}
		r.undec(rule, key, pos, fmt.Sprintf("run-time write through non-receiver parameter %s of %s", x.Name(), fnName(owner)))
	case *ssa.FreeVar:
		r.undec(rule, key, pos, "write through unresolved free variable "+x.Name())
	case *ssa.Convert:
		r.ok(rule, key, pos, "fresh copy made by a string conversion")
	case *ssa.Call:
		// result of a call: fresh objects from constructors are fine at build time
		if !runtime {
			r.ok(rule, key, pos, "build-time write into a call result")
			return
		}
		r.undec(rule, key, pos, fmt.Sprintf("run-time write into the result of %s", x.Call.String()))
	default:
		if !runtime {
			r.ok(rule, key, pos, fmt.Sprintf("build-time write rooted at %T", root))
			return
		}
		r.undec(rule, key, pos, fmt.Sprintf("write rooted at %T %s", root, root))
	}
}

func ruleSWritesRT(w *World, r *Report) {
	r.rule("S-WRITES", "effect census: every Store/MapUpdate in run-time code targets (a) a variable or object of the same activation tree, (b) state reachable from the receiver of a query/NodeIterator/loadingCache method; never a package-level variable, and never a variable or object created by build-time code and captured by a closure (those are shared by all clones and goroutines)")
	w.ruleSWritesPhase(r, true)
}

func ruleSWritesBT(w *World, r *Report) {
	r.rule("S-WRITES", "effect census (build-time half, for concurrent Compile): no Store/MapUpdate in build-time code is rooted at a package-level variable")
	w.ruleSWritesPhase(r, false)
}

// S-GLOBAL: inventory of package-level variables.
func ruleSGlobal(w *World, r *Report) {
	r.rule("S-GLOBAL", "every package-level variable is never stored to (nor memory reachable from it) outside package initialisation, or is a sync.Pool/sync.Mutex-family value used only through its methods, or is a pointer to a mutex-guarded struct whose accesses are decided by K-LOCK")
	var names []string
	for n, m := range w.SSA.Members {
		if _, ok := m.(*ssa.Global); ok && !strings.HasPrefix(n, "init$") {
			names = append(names, n)
		}
	}
	sort.Strings(names)
	for _, n := range names {
		g := w.SSA.Members[n].(*ssa.Global)
		elem := g.Type().(*types.Pointer).Elem()
		if w.curProp == "C16" {
			// the cache property only concerns the variable holding the cache
			pt, ok := elem.(*types.Pointer)
			if !ok || !hasMutex(pt.Elem()) {
				continue
			}
		}
		var writes []string
		var addrTaken []string
		for _, fn := range w.AllFuncs {
			isInit := fn.Parent() == nil && strings.HasPrefix(fn.Name(), "init")
			for _, b := range fn.Blocks {
				for _, in := range b.Instrs {
					switch x := in.(type) {
					case *ssa.Store:
						for _, root := range addrRoots(x.Addr) {
							if root == g && !isInit {
								writes = append(writes, w.instrPos(in)+" in "+fnName(fn))
							}
						}
						if x.Val == g {
							addrTaken = append(addrTaken, w.instrPos(in))
						}
					case *ssa.MapUpdate:
						for _, root := range addrRoots(x.Map) {
							if root == g && !isInit {
								writes = append(writes, w.instrPos(in)+" in "+fnName(fn))
							}
						}
					}
				}
			}
		}
		// the address of the variable (or of a part of it) handed to a call:
		// the callee (a pointer-receiver method such as (*bytes.Buffer).Write)
		// mutates memory shared by every goroutine
		if !isSyncType(elem) {
			addrs := map[ssa.Value]bool{g: true}
			for grow := true; grow; {
				grow = false
				for _, fn := range w.AllFuncs {
					eachInstr(fn, false, func(_ *ssa.Function, in ssa.Instruction) {
						switch x := in.(type) {
						case *ssa.FieldAddr:
							if addrs[x.X] && !addrs[x] {
								addrs[x] = true
								grow = true
							}
						case *ssa.IndexAddr:
							if addrs[x.X] && !addrs[x] {
								addrs[x] = true
								grow = true
							}
						}
					})
				}
			}
			// (globals have no referrer lists: scan the calls)
			for _, fn := range w.AllFuncs {
				if fn.Parent() == nil && strings.HasPrefix(fn.Name(), "init") {
					continue
				}
				eachInstr(fn, false, func(_ *ssa.Function, u ssa.Instruction) {
					ci, ok := u.(ssa.CallInstruction)
					if !ok {
						return
					}
					for _, arg := range ci.Common().Args {
						if addrs[arg] {
							callee := "a call"
							if f := ci.Common().StaticCallee(); f != nil {
								callee = f.String()
							}
							writes = append(writes, w.instrPos(u)+" in "+fnName(fn)+" (address passed to "+callee+")")
						}
					}
				})
			}
			sort.Strings(writes)
		}
		pos := w.pos(g.Pos())
		switch {
		case len(writes) > 0:
			r.bad("S-GLOBAL", n, writes[0], fmt.Sprintf("package-level variable %s is written outside initialisation at %v", n, writes))
		case isSyncType(elem):
			// used only through methods: every use is a call receiver
			bad := ""
			for _, u := range uses(g) {
				if ci, ok := u.(ssa.CallInstruction); ok {
					if len(ci.Common().Args) > 0 && ci.Common().Args[0] == g {
						continue
					}
				}
				if fa, ok := u.(*ssa.FieldAddr); ok {
					// initialisation of sync.Pool.New in init
					if in := fa.Parent(); in.Parent() == nil && strings.HasPrefix(in.Name(), "init") {
						continue
					}
				}
				if _, ok := u.(*ssa.DebugRef); ok {
					continue
				}
				bad = w.instrPos(u)
			}
			if bad != "" {
				r.bad("S-GLOBAL", n, bad, "sync value used other than through its methods")
			} else {
				r.ok("S-GLOBAL", n, pos, "sync."+typeName(elem)+" used only through its methods")
			}
		default:
			detail := "never written outside initialisation"
			if pt, ok := elem.(*types.Pointer); ok {
				if hasMutex(pt.Elem()) {
					detail += "; points to a mutex-guarded struct (field accesses decided by K-LOCK)"
				}
			}
			if len(addrTaken) > 0 {
				r.undec("S-GLOBAL", n, addrTaken[0], "address of the variable is stored")
			} else {
				r.ok("S-GLOBAL", n, pos, detail)
			}
		}
	}
}

func isSyncType(t types.Type) bool {
	n, ok := t.(*types.Named)
	if !ok || n.Obj().Pkg() == nil {
		return false
	}
	return n.Obj().Pkg().Path() == "sync"
}

func hasMutex(t types.Type) bool {
	st, ok := t.Underlying().(*types.Struct)
	if !ok {
		return false
	}
	for i := 0; i < st.NumFields(); i++ {
		if isSyncType(st.Field(i).Type()) {
			return true
		}
	}
	return false
}

// ---------- S-SHARED ----------

// sharedClosures: anonymous functions created by build-time-only code (their
// creating function is not run-time reachable) that are themselves run-time
// reachable.
func (w *World) sharedClosures() []*ssa.Function {
	var out []*ssa.Function
	for _, fn := range w.AllFuncs {
		p := fn.Parent()
		if p == nil {
			continue
		}
		if w.RunTime[p] {
			continue
		}
		if !w.RunTime[fn] {
			continue
		}
		out = append(out, fn)
	}
	return out
}

func ruleSShared(w *World, r *Report) {
	r.rule("S-SHARED", "closures created at build time (function factories, node-test predicates) are shared by every clone: each query reachable from their free variables (and parameter 0 of functionQuery.Func closures) is only cloned, passed to functionArgs/predicate, tested, or used through receiver-pure methods; never iterated (Select/Evaluate), stored or returned. functionArgs returns a Clone() or a value of a type whose Evaluate/Select write nothing through the receiver")
	pure := w.pureQueryMethods()
	shared := w.sharedClosures()
	if len(shared) == 0 {
		r.bad("ANCHOR", "S-SHARED", "", "no build-time-created run-time closures found")
		return
	}
	for _, fn := range shared {
		if w.irrelevantFn(fn) {
			continue
		}
		r.FuncsAnalysed[fnName(fn)] = true
		for _, fv := range fn.FreeVars {
			// type of the captured variable
			et := fv.Type().(*types.Pointer).Elem()
			isQ := w.isQueryType(et)
			isQSlice := false
			if sl, ok := et.Underlying().(*types.Slice); ok && w.isQueryType(sl.Elem()) {
				isQSlice = true
			}
			if !isQ && !isQSlice {
				r.ok("S-SHARED", fnName(fn)+":"+fv.Name(), w.pos(fn.Pos()), "captured "+et.String()+" (not a query); writes are decided by S-WRITES")
				continue
			}
			n := 0
			for _, u := range uses(fv) {
				switch x := u.(type) {
				case *ssa.UnOp:
					if x.Op != token.MUL {
						continue
					}
					if isQ {
						w.checkSharedUsesFA(r, fn, x, fv.Name(), pure, &n)
					} else {
						// slice of queries: follow Index/IndexAddr/Range
						w.followSliceElems(r, fn, x, fv.Name(), pure, &n)
					}
				case *ssa.Store:
					// decided by S-WRITES; counted here too so that C04 sees it
					n++
				case *ssa.MakeClosure:
					// passed on to a nested closure: its uses are visited when
					// that closure is processed (it is shared as well)
				}
			}
			if n == 0 {
				r.ok("S-SHARED", fnName(fn)+":"+fv.Name(), w.pos(fn.Pos()), "captured query has no uses")
			}
		}
		// parameter 0 of Func-shaped closures
		if len(fn.Params) >= 1 && w.isQueryType(fn.Params[0].Type()) {
			n := 0
			w.checkSharedUsesFA(r, fn, fn.Params[0], "param:"+fn.Params[0].Name(), pure, &n)
			if n == 0 {
				r.ok("S-SHARED", fnName(fn)+":param0", w.pos(fn.Pos()), "query parameter unused")
			}
		}
	}
	w.checkFunctionArgs(r, pure)
}

// checkSharedUsesFA is checkSharedUses with the two package helpers that are
// allowed to receive a shared query: functionArgs-like (result is owned) and
// predicate-like (summarised by paramSharedSafe).
func (w *World) checkSharedUsesFA(r *Report, fn *ssa.Function, v ssa.Value, what string, pure map[string]bool, n *int) {
	fa := w.functionArgsFn()
	for _, u := range uses(v) {
		if ci, ok := u.(ssa.CallInstruction); ok {
			cc := ci.Common()
			if callee := cc.StaticCallee(); callee != nil && callee == fa && len(cc.Args) == 1 && cc.Args[0] == v {
				*n++
				r.ok("S-SHARED", fmt.Sprintf("%s:%s->%s", fnName(fn), what, fa.Name()), w.instrPos(u), "passed to "+fa.Name()+" (returns an owned query; see S-SHARED/functionArgs)")
				continue
			}
		}
		// everything else through the generic walker, restricted to this use
		w.checkSharedUse1(r, fn, v, u, what, pure, n)
	}
}

// checkSharedUse1 handles a single use by delegating to checkSharedUses on a
// filtered view.
func (w *World) checkSharedUse1(r *Report, fn *ssa.Function, v ssa.Value, u ssa.Instruction, what string, pure map[string]bool, n *int) {
	// Reuse the walker: temporarily examine only u.
	sub := &singleUse{v: v, u: u}
	w.checkSharedUsesOn(r, "S-SHARED", fn, sub, what, pure, n)
}

type singleUse struct {
	v ssa.Value
	u ssa.Instruction
}

func (w *World) checkSharedUsesOn(r *Report, rule string, fn *ssa.Function, s *singleUse, what string, pure map[string]bool, n *int) {
	v, u := s.v, s.u
	key := fmt.Sprintf("%s:%s", fnName(fn), what)
	*n++
	switch x := u.(type) {
	case *ssa.DebugRef:
		*n--
	case ssa.CallInstruction:
		cc := x.Common()
		if cc.IsInvoke() && cc.Value == v {
			m := cc.Method.Name()
			if pure[m] {
				r.ok(rule, key+"."+m, w.instrPos(x), "receiver-pure method "+m+" on the shared query")
			} else {
				r.bad(rule, key+"."+m, w.instrPos(x), fmt.Sprintf("%s() is invoked directly on %s, a query captured at build time and shared by every clone of the expression; without Clone()/functionArgs its iterator state leaks between evaluations and races between goroutines", m, what))
			}
			return
		}
		callee := cc.StaticCallee()
		if callee != nil && w.inPkg(callee) {
			idx := -1
			for i, a := range cc.Args {
				if a == v {
					idx = i
				}
			}
			if idx >= 0 {
				if ok, why := w.paramSharedSafe(callee, idx, pure, 1); ok {
					r.ok(rule, key+"->"+callee.Name(), w.instrPos(x), "passed to "+callee.Name()+" ("+why+", all shared-safe)")
				} else {
					r.bad(rule, key+"->"+callee.Name(), w.instrPos(x), "shared query passed to "+callee.Name()+": "+why)
				}
				return
			}
		}
		r.bad(rule, key+"->call", w.instrPos(x), "shared query passed to a call that cannot be summarised")
	case *ssa.BinOp:
		if (x.Op == token.EQL || x.Op == token.NEQ) && (isNilConst(x.X) || isNilConst(x.Y)) {
			r.ok(rule, key+":nilcmp", w.instrPos(x), "nil comparison")
		} else {
			r.bad(rule, key+":binop", w.instrPos(x), "unexpected operator on shared query")
		}
	case *ssa.TypeAssert:
		cnt := 0
		if x.CommaOk {
			for _, e := range uses(x) {
				if ex, ok := e.(*ssa.Extract); ok && ex.Index == 0 {
					w.checkSharedUses(r, rule, fn, ex, what, pure, &cnt, 1)
				}
			}
		} else {
			w.checkSharedUses(r, rule, fn, x, what, pure, &cnt, 1)
		}
		r.ok(rule, key+":typetest", w.instrPos(x), "type test (asserted value followed)")
	case *ssa.Store:
		if x.Val == v {
			r.bad(rule, key+":stored", w.instrPos(x), fmt.Sprintf("shared query %s is stored into %s", what, describeAddr(x.Addr)))
		} else {
			*n--
		}
	case *ssa.Return:
		r.bad(rule, key+":returned", w.instrPos(x), "shared query returned")
	case *ssa.Phi, *ssa.MakeInterface, *ssa.ChangeInterface, *ssa.ChangeType:
		cnt := 0
		w.checkSharedUses(r, rule, fn, u.(ssa.Value), what, pure, &cnt, 1)
		*n += cnt - 1
	default:
		r.undec(rule, key+fmt.Sprintf(":%T", u), w.instrPos(u), "unrecognised use of a shared query")
	}
}

func (w *World) followSliceElems(r *Report, fn *ssa.Function, sl ssa.Value, what string, pure map[string]bool, n *int) {
	for _, u := range uses(sl) {
		switch x := u.(type) {
		case *ssa.IndexAddr:
			for _, uu := range uses(x) {
				if ld, ok := uu.(*ssa.UnOp); ok && ld.Op == token.MUL {
					w.checkSharedUsesFA(r, fn, ld, what+"[i]", pure, n)
				} else if _, ok := uu.(*ssa.Store); ok {
					*n++
					r.bad("S-SHARED", fnName(fn)+":"+what+"[i]:store", w.instrPos(uu), "element of a captured query slice is overwritten at run time")
				}
			}
		case *ssa.Index:
			w.checkSharedUsesFA(r, fn, x, what+"[i]", pure, n)
		case *ssa.Call:
			// len(args)
			if b, ok := x.Call.Value.(*ssa.Builtin); ok && (b.Name() == "len" || b.Name() == "cap") {
				continue
			}
			*n++
			r.undec("S-SHARED", fnName(fn)+":"+what+":call", w.instrPos(x), "captured query slice passed to a call")
		case *ssa.Range, *ssa.DebugRef:
		case *ssa.Slice:
			w.followSliceElems(r, fn, x, what, pure, n)
		default:
			*n++
			r.undec("S-SHARED", fnName(fn)+":"+what+fmt.Sprintf(":%T", u), w.instrPos(u), "unrecognised use of a captured query slice")
		}
	}
}

// functionArgsFn: the package function query -> query that is called on
// captured queries inside shared closures (found structurally: unexported,
// one query parameter, one query result, not a method, called from shared
// closures).
func (w *World) functionArgsFn() *ssa.Function {
	var best *ssa.Function
	cnt := 0
	for _, fn := range w.AllFuncs {
		if fn.Parent() != nil || fn.Signature.Recv() != nil {
			continue
		}
		sig := fn.Signature
		if sig.Params().Len() == 1 && sig.Results().Len() == 1 && w.isQueryType(sig.Params().At(0).Type()) && w.isQueryType(sig.Results().At(0).Type()) {
			// count callers among shared closures
			c := 0
			if n := w.CG.Nodes[fn]; n != nil {
				for _, e := range n.In {
					if e.Caller.Func.Parent() != nil {
						c++
					}
				}
			}
			if c > cnt {
				cnt = c
				best = fn
			}
		}
	}
	return best
}

func (w *World) checkFunctionArgs(r *Report, pure map[string]bool) {
	fa := w.functionArgsFn()
	if fa == nil {
		r.bad("ANCHOR", "S-SHARED/functionArgs", "", "argument-cloning helper not found")
		return
	}
	r.FuncsAnalysed[fnName(fa)] = true
	p := fa.Params[0]
	sel, ev := w.selectMethod(), w.evaluateMethod()
	for _, b := range fa.Blocks {
		if len(b.Instrs) == 0 {
			continue
		}
		ret, ok := normalReturn(b)
		if !ok {
			continue
		}
		v := strip(retVal(ret, 0))
		key := "functionArgs:return"
		if w.isCloneCall(v) && resolve(v.(*ssa.Call).Call.Value) == ssa.Value(p) {
			r.ok("S-SHARED", key, w.instrPos(ret), "returns param.Clone()")
			continue
		}
		if resolve(v) == ssa.Value(p) {
			// must be under a successful comma-ok assertion to a stateless type
			tn := w.assertGuard(fa, ret.Block(), p)
			if tn == nil {
				r.bad("S-SHARED", key, w.instrPos(ret), fa.Name()+" returns its argument unchanged: callers iterate the shared, captured query (state leaks between evaluations, data race between goroutines)")
				continue
			}
			qt := w.census.ByType[tn]
			okType := qt != nil && len(qt.StateFields()) == 0
			if okType {
				for _, mname := range []string{sel, ev} {
					if m := qt.Methods[mname]; m != nil && len(writesThroughRecv(m)) > 0 {
						okType = false
					}
				}
			}
			if okType {
				r.ok("S-SHARED", key, w.instrPos(ret), "returns the argument itself only when it is a *"+tn.Obj().Name()+", a type without state fields whose Select/Evaluate write nothing through the receiver")
			} else {
				r.bad("S-SHARED", key, w.instrPos(ret), fa.Name()+" returns the shared argument uncloned for type "+tn.Obj().Name()+", which carries iteration state")
			}
			continue
		}
		r.undec("S-SHARED", key, w.instrPos(ret), "unrecognised return value "+v.String())
	}
}

// assertGuard: blk is dominated by the ok-edge of `_, ok := p.(*T)`; returns T.
func (w *World) assertGuard(fn *ssa.Function, blk *ssa.BasicBlock, p ssa.Value) *types.Named {
	for _, b := range fn.Blocks {
		ifi := blockIf(b)
		if ifi == nil {
			continue
		}
		ex, ok := ifi.Cond.(*ssa.Extract)
		if !ok || ex.Index != 1 {
			continue
		}
		ta, ok := ex.Tuple.(*ssa.TypeAssert)
		if !ok || !ta.CommaOk || resolve(ta.X) != p {
			continue
		}
		if b.Succs[0].Dominates(blk) && len(b.Succs[0].Preds) == 1 {
			t := ta.AssertedType
			if pt, ok := t.(*types.Pointer); ok {
				t = pt.Elem()
			}
			n, _ := t.(*types.Named)
			return n
		}
	}
	return nil
}

// paramAlwaysFresh: at every call site of p's function the argument for p is
// rooted only at objects made in the calling activation (make, new, composite
// literal, nil) — or at a parameter of the caller for which the same holds.
func (w *World) paramAlwaysFresh(p *ssa.Parameter, depth int) (bool, string) {
	if depth > 3 {
		return false, ""
	}
	fn := p.Parent()
	idx := -1
	for i, q := range fn.Params {
		if q == p {
			idx = i
		}
	}
	node := w.CG.Nodes[fn]
	if idx < 0 || node == nil || len(node.In) == 0 {
		return false, ""
	}
	n := 0
	for _, e := range node.In {
		site := e.Site
		if site == nil {
			return false, ""
		}
		// a method wrapper go/ssa synthesised that nothing calls passes nothing
		if cf := e.Caller.Func; cf != nil && cf.Synthetic != "" && len(e.Caller.In) == 0 {
			continue
		}
		args := site.Common().Args
		off := 0
		if site.Common().IsInvoke() {
			off = 1
		}
		if idx-off < 0 || idx-off >= len(args) {
			return false, ""
		}
		roots := addrRoots(args[idx-off])
		// a captured variable: what the enclosing function bound to it
		for i := 0; i < len(roots) && len(roots) < 64; i++ {
			if fv, ok := roots[i].(*ssa.FreeVar); ok {
				if b := bindingOf(fv); b != nil {
					roots = append(roots[:i:i], append(addrRoots(b), roots[i+1:]...)...)
					i--
				} else if bs := w.boundBindings(fv); len(bs) > 0 {
					// the receiver bound into a method value (w.next handed around
					// as a func value): wherever such a value is made
					var rs []ssa.Value
					for _, b := range bs {
						rs = append(rs, addrRoots(b)...)
					}
					roots = append(roots[:i:i], append(rs, roots[i+1:]...)...)
					i--
				}
			}
		}
		for _, root := range roots {
			switch x := root.(type) {
			case *ssa.MakeMap, *ssa.MakeSlice, *ssa.Const:
			case *ssa.Alloc:
				if w.RunTime[x.Parent()] {
					continue // made during the evaluation (also when it reaches the call through a bound-method value)
				}
				if x.Parent() != site.Parent() && !w.sameTree(x.Parent(), site.Parent()) {
					return false, ""
				}
				if w.RunTime[site.Parent()] && !w.RunTime[x.Parent()] {
					w.sharedWhy = fmt.Sprintf("at %s is %q, a variable of build-time function %s captured by the run-time closure", w.instrPos(site), x.Comment, fnName(x.Parent()))
					return false, ""
				}
			case *ssa.Parameter:
				if x == recvOf(x.Parent()) && w.ownedReceiver(x.Type()) {
					continue // state of a query / iterator / cache object
				}
				if w.RunTime[site.Parent()] && !w.RunTime[x.Parent()] {
					w.sharedWhy = fmt.Sprintf("at %s is %q, a parameter of build-time function %s captured by the run-time closure", w.instrPos(site), x.Name(), fnName(x.Parent()))
					return false, ""
				}
				if ok, _ := w.paramAlwaysFresh(x, depth+1); !ok {
					return false, ""
				}
			default:
				return false, ""
			}
		}
		n++
	}
	if n == 0 {
		return false, ""
	}
	return true, fmt.Sprintf("at all %d call sites the argument is an object made by the caller for this evaluation", n)
}

// ownedReceiver: the receiver is an object one clone, one iterator or the
// lock-guarded cache owns: a query type, the pattern cache, or an exported type
// of the package (Expr, NodeIterator). Methods of other (helper) types are
// judged by what their callers pass as receiver.
func (w *World) ownedReceiver(t types.Type) bool {
	n, ok := derefNamed(t)
	if !ok {
		return false
	}
	if w.census.ByType[n] != nil || n.Obj().Exported() {
		return true
	}
	if ct, _ := w.cacheType(); ct != nil && ct == n {
		return true
	}
	return false
}

// boundBindings: fv is the receiver slot of a bound-method wrapper; the values
// bound to it at every place the package makes that method value.
func (w *World) boundBindings(fv *ssa.FreeVar) []ssa.Value {
	fn := fv.Parent()
	if fn == nil || fn.Parent() != nil || !strings.HasPrefix(fn.Synthetic, "bound method wrapper") {
		return nil
	}
	var out []ssa.Value
	for _, f := range w.AllFuncs {
		eachInstr(f, false, func(_ *ssa.Function, in ssa.Instruction) {
			if mc, ok := in.(*ssa.MakeClosure); ok && mc.Fn == ssa.Value(fn) && len(mc.Bindings) == 1 {
				out = append(out, mc.Bindings[0])
			}
		})
	}
	return out
}
