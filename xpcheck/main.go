package main

import (
	"flag"
	"fmt"
	"os"
	"sort"
	"strconv"
	"strings"
	"time"
)

var verbose bool
var debugHooks = map[string]func(*World){}

type ruleFunc func(w *World, r *Report)

// which rules decide which property (DESIGN.md §3)
var propRules = map[string][]ruleFunc{}
var propRuleNames = map[string][]string{}

func register(prop string, name string, f ruleFunc) {
	propRules[prop] = append(propRules[prop], f)
	propRuleNames[prop] = append(propRuleNames[prop], name)
}

func main() {
	prop := flag.String("prop", "", "property id (C01..C17) or 'census'")
	tier := flag.String("tier", "quick", "quick|thorough")
	repo := flag.String("repo", "/repo", "repository root")
	verif := flag.String("verif", "/verif", "verif root (floors, known findings, evidence)")
	tags := flag.String("tags", "", "build tags")
	flag.BoolVar(&verbose, "v", false, "print every obligation")
	flag.Parse()
	if t := os.Getenv("VERIF_TIER"); t != "" && *tier == "" {
		*tier = t
	}
	seed := 0
	if s := os.Getenv("VERIF_SEED"); s != "" {
		seed, _ = strconv.Atoi(s)
	}
	start := time.Now()
	// a check that does not come to a verdict is a failed check, not a hanging one
	limit := 20 * time.Minute
	if *tier == "thorough" {
		limit = 90 * time.Minute
	}
	time.AfterFunc(limit, func() {
		fmt.Printf("xpcheck: no verdict for %s within %s (the analysis did not terminate on this tree): undecided, which fails the check\n", *prop, limit)
		fmt.Printf("VIOLATION property=%s replay=%s/evidence/%s.violations.json\n", *prop, *verif, *prop)
		os.Exit(1)
	})

	code := run(*prop, *tier, *repo, *verif, *tags, seed, start)
	os.Exit(code)
}

func run(prop, tier, repo, verif, tags string, seed int, start time.Time) (code int) {
	defer func() {
		if e := recover(); e != nil {
			// a panic of the checker is a failure of the check, reported as such
			fmt.Printf("xpcheck: internal error while checking %s: %v\n", prop, e)
			fmt.Printf("VIOLATION property=%s replay=%s/evidence/%s.violations.json\n", prop, verif, prop)
			panic(e)
		}
	}()
	w, err := loadWorld(repo, tags)
	if err != nil {
		fmt.Printf("xpcheck: cannot analyse %s: %v\n", repo, err)
		if prop != "census" {
			fmt.Printf("VIOLATION property=%s replay=%s/evidence/%s.violations.json\n", prop, verif, prop)
		}
		return 1
	}
	if h, ok := debugHooks[prop]; ok {
		h(w)
		return 0
	}
	if prop == "census" {
		c, err := w.Census()
		if err != nil {
			fmt.Println(err)
			return 1
		}
		for _, l := range c.table() {
			fmt.Println(l)
		}
		fmt.Println("build-time:", len(w.BuildTime), "run-time:", len(w.RunTime), "all:", len(w.AllFuncs))
		fmt.Println("RUNTIME", sortedFnNames(w.RunTime))
		fmt.Println("BUILDTIME", sortedFnNames(w.BuildTime))
		return 0
	}
	rules, ok := propRules[prop]
	if !ok {
		var ps []string
		for p := range propRules {
			ps = append(ps, p)
		}
		sort.Strings(ps)
		fmt.Printf("xpcheck: unknown property %q (have %v)\n", prop, ps)
		return 3
	}
	w.curProp = prop
	r := newReport(prop, tier, w)
	if _, err := w.Census(); err != nil {
		r.bad("ANCHOR", "census", "", err.Error())
	} else {
		for _, f := range rules {
			f(w, r)
		}
	}
	extra := map[string]interface{}{}
	if tier == "thorough" {
		thorough(w, r, prop, verif, extra)
	}
	return r.finish(verif, start, seed, extra)
}

func init() {
	debugHooks["fnbuilds"] = func(w *World) {
		w.Census()
		fb, br, err := w.functionBuilds()
		if err != nil {
			fmt.Println(err)
			return
		}
		fmt.Println("names:", br.Names)
		var keys []fnBuildKey
		for k := range fb {
			keys = append(keys, k)
		}
		sort.Slice(keys, func(i, j int) bool {
			if keys[i].Name != keys[j].Name {
				return keys[i].Name < keys[j].Name
			}
			return keys[i].N < keys[j].N
		})
		for _, k := range keys {
			for _, o := range fb[k] {
				var cs []string
				for _, c := range o.Calls {
					var as []string
					for _, a := range c.Args {
						as = append(as, a.String())
					}
					cs = append(cs, c.Fn.Name()+"("+strings.Join(as, ",")+")")
				}
				fmt.Printf("%s/%d acc=%v rej=%v nilnil=%v unk=%v panic=%v res=%s calls=%v\n", k.Name, k.N, o.Accepted, o.Rejected, o.NilNil, o.Unknown, o.Panicked, o.Result.String(), cs)
			}
		}
	}
	debugHooks["opbuilds"] = func(w *World) {
		w.Census()
		ob, br, err := w.operatorBuilds()
		if err != nil {
			fmt.Println(err)
			return
		}
		fmt.Println("ops:", br.Ops)
		for _, op := range append(br.Ops, unknownOperator) {
			for _, o := range ob[op] {
				fmt.Printf("%s acc=%v rej=%v nilnil=%v unk=%v res=%s\n", op, o.Accepted, o.Rejected, o.NilNil, o.Unknown, w.describeResult(o))
			}
		}
		ab, br, err := w.axisBuildsAI()
		if err != nil {
			fmt.Println(err)
			return
		}
		fmt.Println("axes:", br.Axes)
		var keys []string
		for k := range ab {
			keys = append(keys, k)
		}
		sort.Strings(keys)
		for _, k := range keys {
			for _, o := range ab[k] {
				fmt.Printf("%s acc=%v rej=%v nilnil=%v unk=%v res=%s\n", k, o.Accepted, o.Rejected, o.NilNil, o.Unknown, w.describeResult(o))
			}
		}
	}
	debugHooks["filterbuilds"] = func(w *World) {
		w.Census()
		tab, _, err := w.axisTable()
		if err != nil {
			fmt.Println(err)
			return
		}
		seen := map[*QType]bool{}
		var ts []*QType
		for _, e := range tab {
			if !seen[e.Type] {
				seen[e.Type] = true
				ts = append(ts, e.Type)
			}
		}
		fbs, _, err := w.filterBuilds(ts)
		if err != nil {
			fmt.Println(err)
			return
		}
		for _, f := range fbs {
			fmt.Printf("%s rewritten=%v plain=%v why=%s\n", f.Step.Name(), f.Rewritten, f.Plain, f.Why)
		}
	}
	debugHooks["initstate"] = func(w *World) {
		st := w.initState()
		for g, o := range st.globals {
			fmt.Printf("%s:", g.Name())
			for k, v := range st.obj(o).Fields {
				fmt.Printf(" %d=%s", k, v.String())
				if v.Kind == avPtr && st.obj(v.Obj).IsMap {
					m := st.obj(v.Obj)
					fmt.Printf(" map(opaque=%v){", m.Opaque)
					for id, e := range m.Map {
						fmt.Printf(" %s->%s", id, e.String())
						if e.Kind == avStruct && e.Obj != nil {
							fmt.Printf("%v", st.obj(e.Obj).Fields)
						}
					}
					fmt.Printf(" }")
				}
			}
			fmt.Println()
		}
	}
	debugHooks["axtable"] = func(w *World) {
		w.Census()
		ab, br, err := w.axisBuildsAI()
		if err != nil {
			fmt.Println(err)
			return
		}
		fmt.Println("axes:", br.Axes)
		var keys []string
		for k := range ab {
			keys = append(keys, k)
		}
		sort.Strings(keys)
		for _, k := range keys {
			for _, o := range ab[k] {
				at := ""
				if o.At != nil {
					at = w.instrPos(o.At) + " " + o.At.String()
				}
				fmt.Printf("%s: acc=%v rej=%v unk=%v nilnil=%v %s  [%s] ret=%s\n", k, o.Accepted, o.Rejected, o.Unknown, o.NilNil, w.describeResult(o), at, o.Result.String())
			}
		}
	}
	debugHooks["scan"] = func(w *World) {
		g, err := w.grammar()
		if err != nil {
			fmt.Println(err)
			return
		}
		for _, c := range []rune{'.', '<', 'a', '!', ':', '1'} {
			for _, o := range w.scanFrom(g, c) {
				fmt.Printf("%q text=%q tok=%s panicked=%v cut=%v colons=%d\n", c, o.Text, g.tokName(o.Tok), o.Panicked, o.Cut, o.Colons)
			}
		}
	}
	debugHooks["risks"] = func(w *World) {
		w.Census()
		cnt := map[string]int{}
		for _, s := range w.riskSites() {
			cnt[s.class]++
		}
		fmt.Println(cnt, len(w.evalScope()))
	}
}

func init() {
	debugHooks["callees"] = func(w *World) {
		for _, fn := range w.AllFuncs {
			if strings.Contains(fnName(fn), "parseSequence") || strings.Contains(fnName(fn), "parseStep") || strings.Contains(fnName(fn), "nested") {
				var names []string
				for _, c := range w.pkgCallees(fn) {
					names = append(names, fnName(c))
				}
				fmt.Printf("%s guard=%v -> %v\n", fnName(fn), w.depthGuard(fn) != nil, names)
			}
		}
	}
}
