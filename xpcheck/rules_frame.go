package main

// N-FRAME (C01, C12) and B-NAMETEST (C01, C14).

import (
	"fmt"
	"go/constant"
	"go/token"
	"go/types"
	"sort"
	"strings"

	"golang.org/x/tools/go/ssa"
)

type frame struct {
	allowed   []string
	mandatory []string
}

var descFrame = []string{"MoveToChild", "MoveToNext", "MoveToParent"}

// frames from the XPath 1.0 axis definitions (not from the code)
var axisFrames = map[string]frame{
	"child":              {[]string{"MoveToChild", "MoveToNext"}, []string{"MoveToChild", "MoveToNext"}},
	"attribute":          {[]string{"MoveToNextAttribute"}, []string{"MoveToNextAttribute"}},
	"self":               {nil, nil},
	"parent":             {[]string{"MoveToParent"}, []string{"MoveToParent"}},
	"ancestor":           {[]string{"MoveToParent"}, []string{"MoveToParent"}},
	"ancestor-or-self":   {[]string{"MoveToParent"}, []string{"MoveToParent"}},
	"following-sibling":  {[]string{"MoveToNext"}, []string{"MoveToNext"}},
	"preceding-sibling":  {[]string{"MoveToPrevious"}, []string{"MoveToPrevious"}},
	"descendant":         {descFrame, []string{"MoveToChild", "MoveToNext"}},
	"descendant-or-self": {descFrame, []string{"MoveToChild", "MoveToNext"}},
	"following":          {append([]string{"MoveToNext", "MoveToParent"}, descFrame...), []string{"MoveToNext", "MoveToParent"}},
	"preceding":          {append([]string{"MoveToPrevious", "MoveToParent"}, descFrame...), []string{"MoveToPrevious", "MoveToParent"}},
}

// movesOf collects the moving navigator calls made by fn, its closures and the
// methods of the same receiver type it calls; constructing another query type
// and iterating it adds that type's Select moves. When flagField != "" only
// the code selected by recv.flagField == flagVal is followed at the first
// branch on that field.
func (w *World) movesOf(fn *ssa.Function, flagField string, flagVal bool, seen map[*ssa.Function]bool) map[string]bool {
	out := map[string]bool{}
	if fn == nil || seen[fn] {
		return out
	}
	seen[fn] = true
	sel := w.selectMethod()
	// blocks excluded by the flag
	excluded := map[*ssa.BasicBlock]bool{}
	if flagField != "" {
		for _, b := range fn.Blocks {
			ifi := blockIf(b)
			if ifi == nil {
				continue
			}
			cond := ifi.Cond
			neg := false
			for {
				if u, ok := cond.(*ssa.UnOp); ok && u.Op == token.NOT {
					cond = u.X
					neg = !neg
					continue
				}
				break
			}
			f, ok := recvFieldLoad(cond)
			if !ok || f.Name() != flagField {
				continue
			}
			taken := 0
			if flagVal == neg {
				taken = 1
			}
			dead := b.Succs[1-taken]
			live := b.Succs[taken]
			// blocks dominated by the dead successor (and not reachable from live)
			reach := reachableFrom(live, nil)
			for _, x := range fn.Blocks {
				if (x == dead || dead.Dominates(x)) && !reach[x] {
					excluded[x] = true
				}
			}
			// blocks only reachable through dead
			if len(dead.Preds) == 1 {
				for _, x := range fn.Blocks {
					if x == dead || dead.Dominates(x) {
						excluded[x] = true
					}
				}
			}
		}
	}
	for _, b := range fn.Blocks {
		if excluded[b] {
			continue
		}
		for _, in := range b.Instrs {
			switch x := in.(type) {
			case ssa.CallInstruction:
				if _, m, class, ok := w.isNavCall(x); ok && class == "move" && !w.isContextRegister(x.Common().Value) {
					out[m] = true
				}
				cc := x.Common()
				if callee := cc.StaticCallee(); callee != nil && w.inPkg(callee) {
					// a helper of this iterator: a method on the same receiver sees the
					// same configuration flag; any other package function or method
					// (an extracted walker, a shared iterator constructor) is followed as it is
					ff, fv := "", false
					if callee.Signature.Recv() != nil && len(cc.Args) > 0 && isRecv(cc.Args[0]) {
						ff, fv = flagField, flagVal
					}
					if w.isIteratorHelper(callee, fn, cc) {
						for m := range w.movesOf(callee, ff, fv, seen) {
							out[m] = true
						}
					}
				}
				// iterating a locally constructed query
				if cc.IsInvoke() && cc.Method.Name() == sel {
					for _, v := range append([]ssa.Value{resolve(cc.Value)}, cellVals(cc.Value)...) {
						if mi, ok := strip(v).(*ssa.MakeInterface); ok {
							v = mi.X
						}
						if a, ok := strip(v).(*ssa.Alloc); ok {
							if n, ok := a.Type().(*types.Pointer).Elem().(*types.Named); ok {
								if qt := w.census.ByType[n]; qt != nil {
									for m := range w.movesOf(qt.Methods[sel], "", false, seen) {
										out[m] = true
									}
								}
							}
						}
					}
				}
			case *ssa.MakeClosure:
				if cf, ok := x.Fn.(*ssa.Function); ok {
					for m := range w.movesOf(cf, "", false, seen) {
						out[m] = true
					}
				}
			}
		}
	}
	return out
}

func cellVals(v ssa.Value) []ssa.Value {
	vals, _ := cellValues(v)
	return vals
}

func ruleNFrame(w *World, r *Report) {
	r.rule("N-FRAME", "for each axis, the iterator type the builder selects moves its (owned) cursor only with the primitives the axis definition allows, and uses the ones it cannot do without: child {MoveToChild, MoveToNext}; attribute {MoveToNextAttribute}; self {}; parent, ancestor(-or-self) {MoveToParent}; following-sibling {MoveToNext}; preceding-sibling {MoveToPrevious}; descendant(-or-self) within {MoveToChild, MoveToNext, MoveToParent}; following within {MoveToNext, MoveToParent}+descendant; preceding within {MoveToPrevious, MoveToParent}+descendant. For the flat axes a forward-only walk from one input node cannot repeat or reorder nodes")
	tab, _, err := w.axisTable()
	if err != nil {
		r.bad("ANCHOR", "N-FRAME", "", "axis dispatch not found: "+err.Error())
		return
	}
	sel := w.selectMethod()
	type abT struct {
		Label  string
		Type   *QType
		Fields map[string]bool
	}
	var builds []abT
	seenB := map[string]bool{}
	for _, e := range tab {
		if isFoldType(tab, e.Label, e.Type) {
			continue
		}
		k := e.Label + "|" + e.Type.Name()
		if seenB[k] {
			continue
		}
		seenB[k] = true
		builds = append(builds, abT{e.Label, e.Type, e.Flags})
	}
	n := 0
	for _, ab := range builds {
		fr, ok := axisFrames[ab.Label]
		if !ok {
			continue
		}
		hasPred := false
		for _, f := range ab.Type.Fields {
			if w.isPredicateFuncType(f.Var.Type()) {
				hasPred = true
			}
		}
		if !hasPred {
			continue
		}
		n++
		sfn := ab.Type.Methods[sel]
		r.FuncsAnalysed[fnName(sfn)] = true
		// bool config fields select code paths: use the value given in the literal
		flagField, flagVal := "", false
		for _, f := range ab.Type.Fields {
			if b, ok := f.Var.Type().Underlying().(*types.Basic); ok && b.Kind() == types.Bool && f.Role == RoleConfig {
				// only flags that guard closure creation (a branch in Select proper)
				if w.branchesOn(sfn, f.Var.Name()) {
					flagField = f.Var.Name()
					flagVal = ab.Fields[f.Var.Name()]
				}
			}
		}
		moves := w.movesOf(sfn, flagField, flagVal, map[*ssa.Function]bool{})
		key := fmt.Sprintf("%s:%s", ab.Label, ab.Type.Name())
		allowed := map[string]bool{}
		for _, m := range fr.allowed {
			allowed[m] = true
		}
		var extra, missing []string
		for m := range moves {
			if !allowed[m] {
				extra = append(extra, m)
			}
		}
		for _, m := range fr.mandatory {
			if !moves[m] {
				missing = append(missing, m)
			}
		}
		sort.Strings(extra)
		sort.Strings(missing)
		pos := w.pos(sfn.Pos())
		if len(extra)+len(missing) == 0 {
			r.ok("N-FRAME", key, pos, fmt.Sprintf("moves %v", sortedKeys(moves)))
		} else {
			r.bad("N-FRAME", key, pos, fmt.Sprintf("the iterator for the %s axis moves with %v; outside the axis' frame: %v, missing: %v — it walks in a direction the axis does not have (or cannot reach all of it)", ab.Label, sortedKeys(moves), extra, missing))
		}
	}
	if n < 12 {
		r.bad("N-FRAME", "sites", "", fmt.Sprintf("only %d axis builds examined", n))
	}
}

// branchesOn: Select proper (not its closures) branches on recv.<field>.
func (w *World) branchesOn(fn *ssa.Function, field string) bool {
	return w.branchesOnD(fn, field, map[*ssa.Function]bool{})
}

func (w *World) branchesOnD(fn *ssa.Function, field string, seen map[*ssa.Function]bool) bool {
	if fn == nil || seen[fn] {
		return false
	}
	seen[fn] = true
	// helper methods on the same receiver that Select proper calls
	for _, b := range fn.Blocks {
		for _, in := range b.Instrs {
			if ci, ok := in.(ssa.CallInstruction); ok {
				cc := ci.Common()
				if c := cc.StaticCallee(); c != nil && w.inPkg(c) && c.Signature.Recv() != nil && len(cc.Args) > 0 && isRecv(cc.Args[0]) {
					if w.branchesOnD(c, field, seen) {
						return true
					}
				}
			}
		}
	}
	for _, b := range fn.Blocks {
		if ifi := blockIf(b); ifi != nil {
			cond := ifi.Cond
			for {
				if u, ok := cond.(*ssa.UnOp); ok && u.Op == token.NOT {
					cond = u.X
					continue
				}
				break
			}
			if f, ok := recvFieldLoad(cond); ok && f.Name() == field {
				return true
			}
		}
	}
	return false
}

// ---------- B-NAMETEST ----------

type ntFact struct {
	desc string
	val  bool
}

func ruleBNameTest(w *World, r *Report) {
	r.rule("B-NAMETEST", "path enumeration of the node-test predicate: every path returning true carries (type test == node type, or type test == any) and, when the step has a name test (LocalName or Prefix non-empty), LocalName == n.LocalName() together with either Prefix == n.Prefix() or — only where the navigator exposes namespace URIs and the step has a bound URI — namespaceURI == NamespaceURL(); every path returning false carries a failed one of these; the URI of a prefixed step is set from the namespace map exactly when the prefix is bound")
	var pred, predFactory *ssa.Function
	for _, ntp := range w.nodeTestPredicates() {
		if ntp.Method || len(ntp.Fn.FreeVars) >= 1 {
			pred, predFactory = ntp.Fn, ntp.Factory
		}
	}
	if pred == nil {
		r.bad("ANCHOR", "B-NAMETEST", "", "node-test predicate closure not found")
		return
	}
	r.FuncsAnalysed[fnName(pred)] = true
	// by outcome where the predicate reduces to constants (rules_nametest_ai.go);
	// path enumeration of its conditions otherwise
	if w.nameTestByInterp(r, predFactory, pred) {
		return
	}
	all, _ := w.allNodeConst()
	desc := func(v ssa.Value) string { return w.ntDescribe(pred, v, all) }
	// enumerate paths
	type path struct {
		facts []ntFact
		ret   bool
	}
	var paths []path
	var walk func(b *ssa.BasicBlock, from *ssa.BasicBlock, facts []ntFact, depth int)
	walk = func(b, from *ssa.BasicBlock, facts []ntFact, depth int) {
		if depth > 40 || len(paths) > 256 {
			return
		}
		last := b.Instrs[len(b.Instrs)-1]
		switch x := last.(type) {
		case *ssa.If:
			// conditions are described positively: `a != b` true is `a == b` false
			cond, pos := x.Cond, true
			for {
				if u, ok := cond.(*ssa.UnOp); ok && u.Op == token.NOT {
					cond, pos = u.X, !pos
					continue
				}
				break
			}
			if bo, ok := cond.(*ssa.BinOp); ok && bo.Op == token.NEQ {
				pos = !pos
			}
			d := desc(cond)
			walk(b.Succs[0], b, append(append([]ntFact{}, facts...), ntFact{d, pos}), depth+1)
			walk(b.Succs[1], b, append(append([]ntFact{}, facts...), ntFact{d, !pos}), depth+1)
		case *ssa.Jump:
			walk(b.Succs[0], b, facts, depth+1)
		case *ssa.Return:
			v := x.Results[0]
			if phi, ok := v.(*ssa.Phi); ok && phi.Block() == b {
				for i, p := range b.Preds {
					if p == from {
						v = phi.Edges[i]
					}
				}
			}
			if c, ok := v.(*ssa.Const); ok && c.Value != nil && c.Value.Kind() == constant.Bool {
				paths = append(paths, path{facts, constant.BoolVal(c.Value)})
			} else {
				d := desc(v)
				paths = append(paths, path{append(append([]ntFact{}, facts...), ntFact{d, true}), true})
				paths = append(paths, path{append(append([]ntFact{}, facts...), ntFact{d, false}), false})
			}
		}
	}
	walk(pred.Blocks[0], nil, nil, 0)
	if len(paths) == 0 || len(paths) > 256 {
		r.undec("B-NAMETEST", "paths", w.pos(pred.Pos()), fmt.Sprintf("%d paths", len(paths)))
		return
	}
	const (
		fType  = "step.typeTest == n.NodeType()"
		fAny   = "step.typeTest == ANY"
		fName  = "nametest"
		fLocal = "step.LocalName == n.LocalName()"
		fPref  = "step.Prefix == n.Prefix()"
		fURI   = "step.namespaceURI == ns.NamespaceURL()"
		fNS    = "n implements NamespaceURL"
		fHas   = "step.hasNamespaceURI"
	)
	has := func(p path, d string, v bool) bool {
		for _, f := range p.facts {
			if f.desc == d && f.val == v {
				return true
			}
		}
		return false
	}
	nT, nF := 0, 0
	for i, p := range paths {
		var fs []string
		for _, f := range p.facts {
			fs = append(fs, fmt.Sprintf("%s=%v", f.desc, f.val))
		}
		key := fmt.Sprintf("path%d", i+1)
		pos := w.pos(pred.Pos())
		// unknown facts make the path undecidable
		unknown := ""
		for _, f := range p.facts {
			switch f.desc {
			case fType, fAny, fName, fLocal, fPref, fURI, fNS, fHas:
			default:
				unknown = f.desc
			}
		}
		if unknown != "" {
			r.undec("B-NAMETEST", key, pos, "condition not understood: "+unknown)
			continue
		}
		typeOK := has(p, fType, true) || has(p, fAny, true)
		if p.ret {
			nT++
			ok := typeOK
			why := ""
			if !typeOK {
				why = "accepts a node without a successful node-type test"
			}
			if !has(p, fName, false) {
				// name test applies (nametest true or not tested => must be checked)
				if !has(p, fName, true) {
					ok, why = false, "accepts without deciding whether the step has a name test"
				} else {
					viaPrefix := has(p, fLocal, true) && has(p, fPref, true)
					viaURI := has(p, fLocal, true) && has(p, fURI, true) && has(p, fNS, true) && has(p, fHas, true)
					if !viaPrefix && !viaURI {
						ok, why = false, "accepts a node under a name test without LocalName and (Prefix | bound namespace URI) both matching"
					}
					if has(p, fNS, true) && has(p, fHas, true) && !viaURI {
						ok, why = false, "accepts a node by its prefix although the step has a bound namespace URI and the navigator reports URIs: a document binding the same prefix to another namespace is matched"
					}
				}
			}
			if ok {
				r.ok("B-NAMETEST", key, pos, "true: "+strings.Join(fs, ", "))
			} else {
				r.bad("B-NAMETEST", key, pos, "the node test "+why+" ["+strings.Join(fs, ", ")+"]")
			}
		} else {
			nF++
			reason := (has(p, fType, false) && has(p, fAny, false)) || has(p, fLocal, false) || has(p, fPref, false) || has(p, fURI, false)
			if reason {
				r.ok("B-NAMETEST", key, pos, "false: "+strings.Join(fs, ", "))
			} else {
				r.bad("B-NAMETEST", key, pos, "the node test rejects a node although no type or name comparison failed ["+strings.Join(fs, ", ")+"]")
			}
		}
	}
	if nT < 2 || nF < 2 {
		r.bad("B-NAMETEST", "paths", w.pos(pred.Pos()), fmt.Sprintf("%d accepting and %d rejecting paths", nT, nF))
	}
	// nametest definition in the factory
	fac := predFactory
	okDef := false
	eachInstr(fac, false, func(_ *ssa.Function, in ssa.Instruction) {
		if phi, ok := in.(*ssa.Phi); ok && phi.Comment == "||" {
			// edges: true (LocalName != "") and Prefix != ""
			n := 0
			for _, e := range phi.Edges {
				if bo, ok := e.(*ssa.BinOp); ok && bo.Op == token.NEQ {
					if s, ok := constString(bo.Y); ok && s == "" {
						n++
					}
				}
				if c, ok := e.(*ssa.Const); ok && c.Value != nil && c.Value.Kind() == constant.Bool && constant.BoolVal(c.Value) {
					n++
				}
			}
			if n == 2 {
				okDef = true
			}
		}
	})
	// both name fields are read by the factory
	rd := map[string]bool{}
	eachInstr(fac, false, func(_ *ssa.Function, in ssa.Instruction) {
		if fa, ok := in.(*ssa.FieldAddr); ok {
			// fields of the step node the factory was given (not of an object it builds)
			if len(fac.Params) > 0 && types.Identical(fa.X.Type(), fac.Params[0].Type()) {
				rd[fieldOfAddr(fa).Name()] = true
			}
		}
	})
	if okDef && len(rd) == 2 {
		r.ok("B-NAMETEST", "nametest-def", w.pos(fac.Pos()), fmt.Sprintf("a step has a name test iff one of %v is non-empty", sortedKeys(rd)))
	} else {
		r.bad("B-NAMETEST", "nametest-def", w.pos(fac.Pos()), fmt.Sprintf("the name-test flag is not `LocalName != \"\" || Prefix != \"\"` (fields read: %v)", sortedKeys(rd)))
	}
}

// ntDescribe canonicalises a condition of the predicate closure.
func (w *World) ntDescribe(pred *ssa.Function, v ssa.Value, all int64) string {
	side := func(x ssa.Value) string {
		x = strip(x)
		switch y := x.(type) {
		case *ssa.UnOp:
			if fa, ok := y.X.(*ssa.FieldAddr); ok {
				return "step." + fieldOfAddr(fa).Name()
			}
			if fv, ok := y.X.(*ssa.FreeVar); ok {
				return "free:" + fv.Name()
			}
		case *ssa.Call:
			if y.Call.IsInvoke() {
				recv := "n"
				if !w.isNavType(y.Call.Value.Type()) {
					recv = "ns"
				}
				return recv + "." + y.Call.Method.Name() + "()"
			}
		case *ssa.Const:
			if k, ok := constInt(y); ok && k == all {
				return "ANY"
			}
			return y.String()
		}
		return x.String()
	}
	switch x := v.(type) {
	case *ssa.BinOp:
		if x.Op == token.EQL || x.Op == token.NEQ {
			// (an inequality is described by its equality; the caller flips the outcome)
			a, b := side(x.X), side(x.Y)
			if strings.HasPrefix(b, "step.") {
				a, b = b, a
			}
			return a + " == " + b
		}
	case *ssa.UnOp:
		if x.Op == token.MUL {
			if fv, ok := x.X.(*ssa.FreeVar); ok {
				// a captured bool: the name-test flag
				if b, ok := fv.Type().(*types.Pointer).Elem().Underlying().(*types.Basic); ok && b.Kind() == types.Bool {
					return "nametest"
				}
			}
			if fa, ok := x.X.(*ssa.FieldAddr); ok {
				// a bool field of the predicate's own receiver (the predicate written as
				// a type with a match method): the name-test flag
				if p, isParam := fa.X.(*ssa.Parameter); isParam && len(pred.Params) > 0 && p == pred.Params[0] && pred.Signature.Recv() != nil {
					if b, ok := fieldOfAddr(fa).Type().Underlying().(*types.Basic); ok && b.Kind() == types.Bool {
						return "nametest"
					}
				}
				return "step." + fieldOfAddr(fa).Name()
			}
		}
	case *ssa.Extract:
		if ta, ok := x.Tuple.(*ssa.TypeAssert); ok && x.Index == 1 {
			if it, ok := ta.AssertedType.Underlying().(*types.Interface); ok && it.NumMethods() == 1 {
				return "n implements " + it.Method(0).Name()
			}
		}
	}
	return v.String()
}

// isQueryMethodOfOtherType: callee is a method of a query type other than the
// one fn belongs to (running another query is not this iterator's own walk).
func (w *World) isQueryMethodOfOtherType(callee, fn *ssa.Function) bool {
	if callee.Signature.Recv() == nil {
		return false
	}
	cn, ok := derefNamed(callee.Signature.Recv().Type())
	if !ok || w.census.ByType[cn] == nil {
		return false
	}
	root := rootFn(fn)
	if root.Signature.Recv() == nil {
		return true
	}
	fnN, ok := derefNamed(root.Signature.Recv().Type())
	return !ok || fnN != cn
}

// isIteratorHelper: callee is part of the walk of the iterator fn belongs to:
// a method on the same receiver, a function or method that returns an
// iterator closure (func() NodeNavigator), or a method of a helper struct type
// of the package that is not itself a query type (an extracted walker).
// Functions that work on a cursor of their own (the identity key computed on
// a copy) are not.
func (w *World) isIteratorHelper(callee, fn *ssa.Function, cc *ssa.CallCommon) bool {
	if callee.Signature.Recv() != nil && len(cc.Args) > 0 && isRecv(cc.Args[0]) {
		return true
	}
	res := callee.Signature.Results()
	for i := 0; i < res.Len(); i++ {
		if sig, ok := res.At(i).Type().Underlying().(*types.Signature); ok && sig.Params().Len() == 0 && sig.Results().Len() == 1 && w.isNavType(sig.Results().At(0).Type()) {
			return true
		}
	}
	if callee.Signature.Recv() != nil {
		if n, ok := derefNamed(callee.Signature.Recv().Type()); ok && n.Obj().Pkg() == w.Types && w.census.ByType[n] == nil {
			if _, isStruct := n.Underlying().(*types.Struct); isStruct && !w.isNavType(n) {
				return true
			}
		}
	}
	return false
}
