package main

// B-NAMETEST by outcome: the node-test predicate as a truth table.
//
// The predicate factory is run by constant propagation (absint.go) on a step
// node whose type test, local name, prefix and bound namespace URI are
// constants, and the predicate it returns is run on a symbolic navigator whose
// NodeType()/LocalName()/Prefix()/namespace-URI answers are constants too,
// once assuming the navigator exposes namespace URIs and once that it does
// not. The verdict must be the documented one in every cell. How the test is
// spread over closures, helpers and early returns does not matter.

import (
	"fmt"
	"go/constant"
	"go/types"
	"sort"
	"strings"

	"golang.org/x/tools/go/ssa"
)

// callFunc runs a function value (closure or bound method) on args.
func (ai *AInterp) callFunc(fv AVal, args []AVal, st *AState) []AOutcome {
	if fv.Kind != avFunc || fv.Fn == nil {
		return nil
	}
	callee, free := fv.Fn, fv.Bind
	if strings.HasPrefix(callee.Synthetic, "bound method wrapper") && len(free) == 1 {
		if obj, ok := callee.Object().(*types.Func); ok {
			if m := ai.w.Prog.FuncValue(obj); m != nil {
				callee = m
				args = append([]AVal{free[0]}, args...)
				free = nil
			}
		}
	}
	if len(callee.Blocks) == 0 {
		return nil
	}
	return ai.Exec(callee, args, free, st)
}

type ntStep struct {
	anyType       bool
	typ           int64
	local, prefix string
	hasURI        bool
}

type ntNode struct {
	typ           int64
	local, prefix string
	uri           string
}

// nameTestByInterp returns false when the predicate could not be followed to
// constants (the caller then falls back to path enumeration).
func (w *World) nameTestByInterp(r *Report, fac, pred *ssa.Function) bool {
	all, okAll := w.allNodeConst()
	if !okAll {
		return false
	}
	// the step node: a parameter of the factory pointing to a struct with a
	// node-type field
	pi := -1
	var S *types.Named
	for i, p := range fac.Params {
		if n, ok := derefNamed(p.Type()); ok {
			if st, ok := n.Underlying().(*types.Struct); ok {
				for j := 0; j < st.NumFields(); j++ {
					if nt, ok := st.Field(j).Type().(*types.Named); ok && nt.Obj().Name() == "NodeType" {
						pi, S = i, n
					}
				}
			}
		}
	}
	if pi < 0 {
		return false
	}
	sst := S.Underlying().(*types.Struct)
	fType, fLocal, fPrefix, fHas, fURI := -1, -1, -1, -1, -1
	for j := 0; j < sst.NumFields(); j++ {
		f := sst.Field(j)
		lname := strings.ToLower(f.Name())
		switch {
		case isNamedNodeType(f.Type()):
			fType = j
		case f.Name() == "LocalName":
			fLocal = j
		case f.Name() == "Prefix":
			fPrefix = j
		case isBoolType(f.Type()) && strings.Contains(lname, "uri"):
			fHas = j
		case isStringType(f.Type()) && strings.Contains(lname, "uri"):
			fURI = j
		}
	}
	if fType < 0 || fLocal < 0 || fPrefix < 0 || fHas < 0 || fURI < 0 {
		return false
	}
	// the node types: the package's constants of the node-type type, the any-node one aside
	var nodeTypes []int64
	var typeNames = map[int64]string{}
	for _, name := range w.Types.Scope().Names() {
		if c, ok := w.Types.Scope().Lookup(name).(*types.Const); ok && isNamedNodeType(c.Type()) {
			if k, ok := constant.Int64Val(c.Val()); ok && k != all {
				nodeTypes = append(nodeTypes, k)
				typeNames[k] = name
			}
		}
	}
	sort.Slice(nodeTypes, func(i, j int) bool { return nodeTypes[i] < nodeTypes[j] })
	if len(nodeTypes) < 2 {
		return false
	}
	type cell struct {
		bad   []string
		cells int
	}
	var cur ntNode
	hooks := AHooks{}
	hooks.Call = func(ai *AInterp, st *AState, site ssa.CallInstruction, callee *ssa.Function, args []AVal) (bool, AVal) {
		com := site.Common()
		if !com.IsInvoke() || len(args) == 0 || args[0].Tag != "nav" {
			return false, AVal{}
		}
		sig := com.Method.Type().(*types.Signature)
		if sig.Params().Len() != 0 || sig.Results().Len() != 1 {
			return false, AVal{}
		}
		switch com.Method.Name() {
		case "NodeType":
			return true, aInt(cur.typ)
		case "LocalName":
			return true, aStr(cur.local)
		case "Prefix":
			return true, aStr(cur.prefix)
		}
		if isStringType(sig.Results().At(0).Type()) && !w.isNavType(com.Value.Type()) {
			// the one method of the optional namespace interface
			return true, aStr(cur.uri)
		}
		return false, AVal{}
	}
	hooks.Branch = func(ai *AInterp, st *AState, fr *aFrame, cond ssa.Value, taken bool) {
		for {
			u, ok := cond.(*ssa.UnOp)
			if !ok || u.Op.String() != "!" {
				break
			}
			cond, taken = u.X, !taken
		}
		if ex, ok := cond.(*ssa.Extract); ok && ex.Index == 1 {
			if ta, ok := ex.Tuple.(*ssa.TypeAssert); ok && ta.CommaOk {
				if _, isI := ta.AssertedType.Underlying().(*types.Interface); isI {
					st.Trace = append(st.Trace, AEvent{Kind: "nsimpl", Taken: taken})
				}
			}
		}
	}
	// the documented answer, and whether the properties state one for the cell
	expected := func(s ntStep, n ntNode, nsImpl bool) (want, stated bool) {
		typeOK := s.anyType || n.typ == s.typ
		if !typeOK {
			return false, true
		}
		if s.local == "" && s.prefix == "" {
			return true, true
		}
		byURI := nsImpl && s.hasURI
		if s.local == "" {
			// prefix:* — stated only as far as the namespace goes: a node of
			// another prefix (namespace) does not match
			if byURI && n.uri != "urn:x" || !byURI && s.prefix != n.prefix {
				return false, true
			}
			return false, false
		}
		if byURI {
			return s.local == n.local && n.uri == "urn:x", true
		}
		return s.local == n.local && s.prefix == n.prefix, true
	}
	var steps []ntStep
	stepTypes := append([]int64{all}, nodeTypes...)
	for _, st := range stepTypes {
		for _, local := range []string{"", "a"} {
			for _, prefix := range []string{"", "p"} {
				for _, has := range []bool{false, true} {
					if has && prefix == "" {
						continue // a URI is bound only to a prefixed test
					}
					steps = append(steps, ntStep{st == all, st, local, prefix, has})
				}
			}
		}
	}
	var nodes []ntNode
	for _, nt := range nodeTypes {
		for _, local := range []string{"a", "b"} {
			for _, prefix := range []string{"", "p", "q"} {
				for _, uri := range []string{"urn:x", "urn:y", ""} {
					nodes = append(nodes, ntNode{nt, local, prefix, uri})
				}
			}
		}
	}
	type verdict struct {
		key string
		bad string
		n   int
	}
	var verdicts []verdict
	for _, s := range steps {
		res := map[bool]*verdict{}
		for _, ns := range []bool{false, true} {
			tt := typeNames[s.typ]
			if s.anyType {
				tt = "node()"
			}
			res[ns] = &verdict{key: fmt.Sprintf("table:type=%s,local=%q,prefix=%q,uri-bound=%v,navigator-reports-uri=%v", tt, s.local, s.prefix, s.hasURI, ns)}
		}
		ai := w.newInterp(hooks)
		st := w.initState()
		obj := st.newObj(S, nil)
		for j := 0; j < sst.NumFields(); j++ {
			obj.Fields[j] = zeroOf(sst.Field(j).Type())
		}
		obj.Fields[fType] = aInt(s.typ)
		obj.Fields[fLocal] = aStr(s.local)
		obj.Fields[fPrefix] = aStr(s.prefix)
		obj.Fields[fHas] = aBool(s.hasURI)
		if s.hasURI {
			obj.Fields[fURI] = aStr("urn:x")
		}
		var args []AVal
		for i, p := range fac.Params {
			if i == pi {
				if _, isPtr := p.Type().(*types.Pointer); !isPtr {
					return false
				}
				args = append(args, AVal{Kind: avPtr, Obj: obj, Field: -1})
			} else {
				args = append(args, aUnknown(p))
			}
		}
		facOuts := ai.Exec(fac, args, nil, st)
		nclos := 0
		for _, fo := range facOuts {
			if fo.Panicked {
				continue
			}
			if fo.Cut || fo.Ret.Kind != avFunc {
				return false
			}
			nclos++
			for _, n := range nodes {
				cur = n
				nav := AVal{Kind: avUnknown, Tag: "nav"}
				outs := ai.callFunc(fo.Ret, []AVal{nav}, fo.St.fork())
				if len(outs) == 0 {
					return false
				}
				for _, o := range outs {
					if o.Cut {
						return false
					}
					assumed := map[bool]bool{false: true, true: true}
					for _, ev := range o.St.Trace {
						if ev.Kind == "nsimpl" {
							assumed[!ev.Taken] = false
						}
					}
					for _, ns := range []bool{false, true} {
						if !assumed[ns] {
							continue
						}
						v := res[ns]
						if o.Panicked {
							v.n++
							v.bad = fmt.Sprintf("the node test panics for a %s node %s:%s in %s", typeNames[n.typ], n.prefix, n.local, n.uri)
							continue
						}
						got, ok := o.Ret.Bool()
						if !ok {
							return false
						}
						want, stated := expected(s, n, ns)
						if !stated {
							continue
						}
						v.n++
						if got != want {
							what := "rejects"
							if got {
								what = "accepts"
							}
							why := ""
							switch {
							case got && !(s.anyType || n.typ == s.typ):
								why = "a node of another type passes the type test"
							case got && ns && s.hasURI:
								why = "with a bound namespace URI and a navigator that reports URIs the match must be by (URI, local name), whatever prefix the document uses"
							case got:
								why = "local name and prefix must both be equal"
							case !got && s.local == "" && s.prefix == "":
								why = "a step without a name test matches every node of its type"
							case !got && ns && s.hasURI:
								why = "the node has the local name and the namespace URI bound to the step's prefix"
							default:
								why = "the node has the prefix and local name of the test"
							}
							v.bad = fmt.Sprintf("the node test %s a %s node named %q:%q in namespace %q where the documented answer is %v: %s", what, typeNames[n.typ], n.prefix, n.local, n.uri, want, why)
						}
					}
				}
			}
		}
		if nclos == 0 {
			return false
		}
		for _, ns := range []bool{false, true} {
			if res[ns].n == 0 {
				return false
			}
			verdicts = append(verdicts, *res[ns])
		}
	}
	pos := w.pos(pred.Pos())
	for _, v := range verdicts {
		if v.bad != "" {
			r.bad("B-NAMETEST", v.key, pos, v.bad)
		} else {
			r.ok("B-NAMETEST", v.key, pos, fmt.Sprintf("%d (node, path) cells give the documented answer", v.n))
		}
	}
	return true
}

func isNamedNodeType(t types.Type) bool {
	n, ok := t.(*types.Named)
	return ok && n.Obj().Name() == "NodeType"
}

func isBoolType(t types.Type) bool {
	b, ok := t.Underlying().(*types.Basic)
	return ok && b.Kind() == types.Bool
}

func isStringType(t types.Type) bool {
	b, ok := t.Underlying().(*types.Basic)
	return ok && b.Info()&types.IsString != 0
}
