package main

// Calls through a read-only package-level table of functions whose key is
// pinned by the enclosing switch.
//
//	switch root.FuncName {
//	case "boolean", "string", "number":
//		... unaryFuncs[root.FuncName](inp)
//
// The call graph (VTA) gives such a call every function stored in the table.
// Where the call is reached only through `root.FuncName == <label>` edges, the
// table is never written after initialisation and the field is not assigned in
// the function, the callees are the entries under those labels: the other edges
// are removed, so that what one case hands its constructor is not attributed to
// the constructors of another case.

import (
	"go/token"

	"golang.org/x/tools/go/callgraph"
	"golang.org/x/tools/go/ssa"
)

func (w *World) refineTableCalls() {
	var st *AState
	for _, fn := range w.AllFuncs {
		for _, b := range fn.Blocks {
			for _, in := range b.Instrs {
				c, ok := in.(ssa.CallInstruction)
				if !ok {
					continue
				}
				com := c.Common()
				if com.IsInvoke() || com.StaticCallee() != nil {
					continue
				}
				v := com.Value
				if ex, ok := v.(*ssa.Extract); ok && ex.Index == 0 {
					v = ex.Tuple
				}
				lk, ok := v.(*ssa.Lookup)
				if !ok {
					continue
				}
				ld, ok := lk.X.(*ssa.UnOp)
				if !ok || ld.Op != token.MUL {
					continue
				}
				g, ok := ld.X.(*ssa.Global)
				if !ok || !w.readOnlyGlobal(g) {
					continue
				}
				kl, ok := lk.Index.(*ssa.UnOp)
				if !ok || kl.Op != token.MUL {
					continue
				}
				kfa, ok := kl.X.(*ssa.FieldAddr)
				if !ok || fieldStoredIn(fn, kfa) {
					continue
				}
				labels := pinnedLabels(b, kfa)
				if len(labels) == 0 {
					continue
				}
				if st == nil {
					st = w.initState()
				}
				gobj, ok := st.globals[g]
				if !ok {
					continue
				}
				mv := st.obj(gobj).Fields[0]
				if mv.Kind != avPtr {
					continue
				}
				mo := st.obj(mv.Obj)
				if !mo.IsMap || mo.Opaque {
					continue
				}
				allowed := map[*ssa.Function]bool{}
				complete := true
				for _, l := range labels {
					id, ok := keyID(aStr(l))
					if !ok {
						complete = false
						break
					}
					e, ok := mo.Map[id]
					if !ok || e.Kind != avFunc || e.Fn == nil {
						complete = false
						break
					}
					allowed[e.Fn] = true
				}
				if !complete {
					continue
				}
				n := w.CG.Nodes[fn]
				if n == nil {
					continue
				}
				var keep []*callgraph.Edge
				for _, e := range n.Out {
					if e.Site == c && !allowed[e.Callee.Func] {
						var in2 []*callgraph.Edge
						for _, x := range e.Callee.In {
							if x != e {
								in2 = append(in2, x)
							}
						}
						e.Callee.In = in2
						w.TableRefined++
						continue
					}
					keep = append(keep, e)
				}
				n.Out = keep
			}
		}
	}
}

// fieldStoredIn: fn assigns the field fa addresses (of any value).
func fieldStoredIn(fn *ssa.Function, fa *ssa.FieldAddr) bool {
	f := fieldOfAddr(fa)
	stored := false
	eachInstr(fn, true, func(_ *ssa.Function, in ssa.Instruction) {
		if st, ok := in.(*ssa.Store); ok {
			if a, ok := st.Addr.(*ssa.FieldAddr); ok && fieldOfAddr(a) == f {
				stored = true
			}
		}
	})
	return stored
}

// pinnedLabels: the string constants one of which the field fa addresses (same
// base value, same field) equals whenever blk runs: blk is dominated by a block
// t every way into which is the true edge of a comparison of that field with a
// constant. The smallest such set is returned.
func pinnedLabels(blk *ssa.BasicBlock, fa *ssa.FieldAddr) []string {
	labelOf := func(p *ssa.BasicBlock, t *ssa.BasicBlock) (string, bool) {
		ifi := blockIf(p)
		if ifi == nil || p.Succs[0] != t || p.Succs[1] == t {
			return "", false
		}
		bo, ok := ifi.Cond.(*ssa.BinOp)
		if !ok || bo.Op != token.EQL {
			return "", false
		}
		s, ok := constString(bo.Y)
		if !ok {
			return "", false
		}
		ld, ok := bo.X.(*ssa.UnOp)
		if !ok || ld.Op != token.MUL {
			return "", false
		}
		a, ok := ld.X.(*ssa.FieldAddr)
		if !ok || a.X != fa.X || a.Field != fa.Field {
			return "", false
		}
		return s, true
	}
	var best []string
	for _, t := range blk.Parent().Blocks {
		if len(t.Preds) == 0 || !(t == blk || t.Dominates(blk)) {
			continue
		}
		var ls []string
		all := true
		for _, p := range t.Preds {
			s, ok := labelOf(p, t)
			if !ok {
				all = false
				break
			}
			ls = append(ls, s)
		}
		if all && (best == nil || len(ls) < len(best)) {
			best = ls
		}
	}
	return best
}
