package main

// S-RESET, S-PROP, S-POOL.

import (
	"fmt"
	"go/token"
	"go/types"
	"strings"

	"golang.org/x/tools/go/ssa"
)

// exemptions (one symbol each, with reason): state that only matters outside
// the fragments of C02/C03/C12.
var resetExempt = map[string]string{
	"filterQuery.posit":     "position of a filter expression's own results; only read by an outer positional predicate on a filter expression, outside the fragments of C02/C03/C12",
	"filterQuery.positmap":  "same as filterQuery.posit",
	"lastFuncQuery.buffer":  "last() over a filter expression ((path)[pred][last()]) — outside the fragments of C02/C03",
	"lastFuncQuery.counted": "same as lastFuncQuery.buffer",
	"booleanQuery.iterator": "only used when a boolean expression is iterated as a node-set (booleanQuery.Select); Evaluate computes a bool and carries no state",
}

var propExempt = map[string]string{
	"lastFuncQuery.Input": "see resetExempt lastFuncQuery.*",
	"booleanQuery.Left":   "booleanQuery.Select iterates a boolean expression as a node-set (outside the properties' fragment); Evaluate short-circuits by design",
	"booleanQuery.Right":  "same as booleanQuery.Left",
}

// resetSummary: set of receiver fields that fn assigns a zero value on every
// path to a return (following calls to other methods on the receiver, depth<=3).
func (w *World) mustResetFields(fn *ssa.Function, depth int) map[string]bool {
	out := map[string]bool{}
	if fn == nil || len(fn.Blocks) == 0 {
		return out
	}
	// candidate fields: any zero store through the receiver
	cands := map[string]bool{}
	hitsFor := func(in ssa.Instruction) []string {
		var fs []string
		switch x := in.(type) {
		case *ssa.Store:
			if f, ok := recvFieldAddr(x.Addr); ok && isZeroConst(x.Val) {
				fs = append(fs, f.Name())
			}
		case ssa.CallInstruction:
			if depth < 3 {
				cc := x.Common()
				if callee := cc.StaticCallee(); callee != nil && w.inPkg(callee) && callee.Signature.Recv() != nil && len(cc.Args) > 0 && isRecv(cc.Args[0]) && callee != fn {
					for f := range w.mustResetFields(callee, depth+1) {
						fs = append(fs, f)
					}
				}
			}
		}
		return fs
	}
	for _, b := range fn.Blocks {
		for _, in := range b.Instrs {
			for _, f := range hitsFor(in) {
				cands[f] = true
			}
		}
	}
	for f := range cands {
		f := f
		ok, _ := mustPass(fn, func(in ssa.Instruction) bool {
			for _, g := range hitsFor(in) {
				if g == f {
					return true
				}
			}
			return false
		})
		if ok {
			out[f] = true
		}
	}
	return out
}

// accessesField: fn (with closures, and methods it calls on the receiver,
// depth<=2) loads or stores receiver field name.
func (w *World) fieldAccesses(fn *ssa.Function, name string, withClosures bool) (loads, stores []ssa.Instruction) {
	eachInstr(fn, withClosures, func(g *ssa.Function, in ssa.Instruction) {
		switch x := in.(type) {
		case *ssa.Store:
			if f, ok := recvFieldAddr(x.Addr); ok && f.Name() == name {
				stores = append(stores, in)
			}
		case *ssa.UnOp:
			if x.Op == token.MUL {
				if f, ok := recvFieldAddr(x.X); ok && f.Name() == name {
					loads = append(loads, in)
				}
			}
		}
	})
	return
}

// methodTouches: static method callee on the receiver that (transitively)
// reads field name.
func (w *World) calleeReadsField(callee *ssa.Function, name string, depth int) bool {
	if callee == nil || depth > 2 {
		return false
	}
	l, _ := w.fieldAccesses(callee, name, true)
	if len(l) > 0 {
		return true
	}
	found := false
	eachInstr(callee, true, func(g *ssa.Function, in ssa.Instruction) {
		if ci, ok := in.(ssa.CallInstruction); ok {
			cc := ci.Common()
			if c2 := cc.StaticCallee(); c2 != nil && w.inPkg(c2) && c2.Signature.Recv() != nil && len(cc.Args) > 0 && isRecv(cc.Args[0]) && c2 != callee {
				if w.calleeReadsField(c2, name, depth+1) {
					found = true
				}
			}
		}
	})
	return found
}

// guardReset decides whether state field s is re-initialised by Select under
// the test "recv.g is zero" before any read, for a guard field g that
// Evaluate resets. Returns the guard name and an explanation.
func (w *World) guardReset(qt *QType, sel *ssa.Function, s string, evalResets map[string]bool) (bool, string) {
	if sel == nil {
		return false, "no Select method"
	}
	var why []string
	for g := range evalResets {
		if g == s {
			continue
		}
		ok, reason := w.guardResetBy(qt, sel, s, g)
		if ok {
			return true, fmt.Sprintf("re-initialised in Select under the test %s==zero, and Evaluate resets %s", g, g)
		}
		why = append(why, g+": "+reason)
	}
	if len(why) == 0 {
		return false, "Evaluate resets no field that could guard it"
	}
	return false, strings.Join(why, "; ")
}

func (w *World) guardResetBy(qt *QType, sel *ssa.Function, s, g string) (bool, string) {
	// 1. find the test block
	var tb *ssa.BasicBlock
	var zeroSucc, nzSucc *ssa.BasicBlock
	for _, b := range sel.Blocks {
		ifi := blockIf(b)
		if ifi == nil {
			continue
		}
		cmp, neg := decodeCond(ifi.Cond)
		if cmp == nil || (cmp.Op != token.EQL && cmp.Op != token.NEQ) {
			continue
		}
		var fld ssa.Value
		if isZeroConst(cmp.Y) {
			fld = cmp.X
		} else if isZeroConst(cmp.X) {
			fld = cmp.Y
		} else {
			continue
		}
		f, ok := recvFieldLoad(fld)
		if !ok || f.Name() != g {
			continue
		}
		eq := cmp.Op == token.EQL
		if neg {
			eq = !eq
		}
		if tb != nil {
			// more than one test of g: take the one that dominates the other
			if tb.Dominates(b) {
				continue
			}
			if !b.Dominates(tb) {
				return false, "several unrelated tests of " + g
			}
		}
		tb = b
		if eq {
			zeroSucc, nzSucc = b.Succs[0], b.Succs[1]
		} else {
			zeroSucc, nzSucc = b.Succs[1], b.Succs[0]
		}
	}
	if tb == nil {
		return false, "no test of " + g + " against its zero value in Select"
	}
	_ = zeroSucc
	// 2. accesses of s and stores of g in Select proper must be dominated by tb
	loads, stores := w.fieldAccesses(sel, s, false)
	_, gstores := w.fieldAccesses(sel, g, false)
	// loads of g in the test block itself precede the test and are fine
	type acc struct {
		in   ssa.Instruction
		load bool
	}
	var accs []acc
	for _, l := range loads {
		accs = append(accs, acc{l, true})
	}
	for _, st := range stores {
		accs = append(accs, acc{st, false})
	}
	// calls to methods of the receiver that read s count as loads
	eachInstr(sel, false, func(_ *ssa.Function, in ssa.Instruction) {
		if ci, ok := in.(ssa.CallInstruction); ok {
			cc := ci.Common()
			if c2 := cc.StaticCallee(); c2 != nil && w.inPkg(c2) && c2.Signature.Recv() != nil && len(cc.Args) > 0 && isRecv(cc.Args[0]) {
				if w.calleeReadsField(c2, s, 0) {
					accs = append(accs, acc{in, true})
				}
			}
		}
		// closures reading s: their creation point counts as a load site
		if mc, ok := in.(*ssa.MakeClosure); ok {
			if cf, ok := mc.Fn.(*ssa.Function); ok {
				l, _ := w.fieldAccesses(cf, s, true)
				if len(l) > 0 {
					accs = append(accs, acc{in, true})
				}
			}
		}
	})
	for _, a := range accs {
		if !tb.Dominates(a.in.Block()) || a.in.Block() == tb {
			if a.in.Block() == tb {
				return false, fmt.Sprintf("%s is accessed in the block of the test itself", s)
			}
			return false, fmt.Sprintf("%s is accessed at %s on a path that does not pass the test of %s", s, w.instrPos(a.in), g)
		}
	}
	for _, st := range gstores {
		if !tb.Dominates(st.Block()) {
			return false, fmt.Sprintf("%s is written at %s before the test", g, w.instrPos(st))
		}
	}
	// 3. in the CFG without the non-zero edge, every load of s is dominated by
	// a store to s whose value does not depend on s.
	skip := func(from, to *ssa.BasicBlock) bool { return from == tb && to == nzSucc && nzSucc != zeroSucc }
	dom := domPruned(sel, skip)
	var initStores []ssa.Instruction
	for _, st := range stores {
		if !dependsOnField(st.(*ssa.Store).Val, s) {
			initStores = append(initStores, st)
		}
	}
	if len(initStores) == 0 {
		return false, "no store re-initialises " + s
	}
	for _, a := range accs {
		if !a.load {
			continue
		}
		if _, reach := dom[a.in.Block()]; !reach {
			continue // not reachable when g is zero at the test
		}
		okd := false
		for _, st := range initStores {
			if st.Block() == a.in.Block() {
				if instrIndex(st) < instrIndex(a.in) {
					okd = true
				}
			} else if dom[a.in.Block()][st.Block()] {
				okd = true
			}
		}
		if !okd {
			return false, fmt.Sprintf("read of %s at %s can be reached from the test (with %s zero) without passing a re-initialisation", s, w.instrPos(a.in), g)
		}
	}
	return true, ""
}

func dependsOnField(v ssa.Value, field string) bool {
	seen := map[ssa.Value]bool{}
	var walk func(v ssa.Value) bool
	walk = func(v ssa.Value) bool {
		if v == nil || seen[v] {
			return false
		}
		seen[v] = true
		if f, ok := recvFieldLoad(v); ok && f.Name() == field {
			return true
		}
		switch x := v.(type) {
		case *ssa.BinOp:
			return walk(x.X) || walk(x.Y)
		case *ssa.UnOp:
			return walk(x.X)
		case *ssa.Phi:
			for _, e := range x.Edges {
				if walk(e) {
					return true
				}
			}
		case *ssa.Convert:
			return walk(x.X)
		}
		return false
	}
	return walk(v)
}

func ruleSReset(w *World, r *Report) {
	r.rule("S-RESET", "for every query type T and every state field s: T.Evaluate assigns s its zero value on every path to a return (directly or through a method of the receiver), or s is guard-reset: T.Select re-initialises s, before any read, under the test `recv.g == zero` of a field g that Evaluate resets. Fields listed in the exemption table are reported as not judged")
	c := w.census
	ev, sel := w.evaluateMethod(), w.selectMethod()
	for _, qt := range c.Types {
		st := qt.StateFields()
		if len(st) == 0 {
			continue
		}
		efn := qt.Methods[ev]
		sfn := qt.Methods[sel]
		if efn == nil {
			r.bad("S-RESET", qt.Name(), "", "no Evaluate method")
			continue
		}
		r.FuncsAnalysed[fnName(efn)] = true
		if sfn != nil {
			r.FuncsAnalysed[fnName(sfn)] = true
		}
		resets := w.mustResetFields(efn, 0)
		for _, f := range st {
			key := qt.Name() + "." + f.Var.Name()
			pos := w.pos(efn.Pos())
			if why, ex := resetExempt[key]; ex {
				if resets[f.Var.Name()] {
					r.ok("S-RESET", key, pos, "reset by Evaluate (exemption not needed)")
				} else {
					r.skip("S-RESET", key, pos, "exempt: "+why)
				}
				continue
			}
			if resets[f.Var.Name()] {
				r.ok("S-RESET", key, pos, "Evaluate assigns the zero value on every path")
				continue
			}
			if ok, how := w.guardReset(qt, sfn, f.Var.Name(), resets); ok {
				r.ok("S-RESET", key, w.pos(sfn.Pos()), how)
				continue
			} else {
				r.bad("S-RESET", key, pos, fmt.Sprintf("%s.Evaluate does not re-arm state field %s (written at run time at %s) and Select does not re-initialise it under a guard that Evaluate resets [%s]: what an earlier candidate/evaluation left in %s leaks into the next one", qt.Name(), f.Var.Name(), w.instrPos(f.RTStores[0]), how, f.Var.Name()))
			}
		}
	}
}

// ---------- S-PROP ----------

func ruleSProp(w *World, r *Report) {
	r.rule("S-PROP", "for every query-typed field c of T on which T's run-time code calls Select: T.Evaluate calls c.Evaluate on every path, or every c.Select call is dominated by a c.Evaluate call in the same function")
	c := w.census
	ev, sel := w.evaluateMethod(), w.selectMethod()
	for _, qt := range c.Types {
		for _, f := range qt.Fields {
			if !f.IsQuery {
				continue
			}
			name := f.Var.Name()
			key := qt.Name() + "." + name
			// find Select calls on recv.name in any method of T (with closures)
			type site struct {
				fn *ssa.Function
				in ssa.Instruction
			}
			var selects, evals []site
			for _, m := range qt.Methods {
				eachInstr(m, true, func(g *ssa.Function, in ssa.Instruction) {
					ci, ok := in.(ssa.CallInstruction)
					if !ok {
						return
					}
					cc := ci.Common()
					if !cc.IsInvoke() {
						return
					}
					fl, ok := recvFieldLoad(cc.Value)
					if !ok || fl.Name() != name {
						return
					}
					switch cc.Method.Name() {
					case sel:
						selects = append(selects, site{g, in})
					case ev:
						evals = append(evals, site{g, in})
					}
				})
			}
			if len(selects) == 0 {
				continue
			}
			efn := qt.Methods[ev]
			if efn == nil {
				r.bad("S-PROP", key, "", "no Evaluate method")
				continue
			}
			r.FuncsAnalysed[fnName(efn)] = true
			must, _ := mustPass(efn, func(in ssa.Instruction) bool {
				ci, ok := in.(ssa.CallInstruction)
				if !ok {
					return false
				}
				cc := ci.Common()
				if !cc.IsInvoke() || cc.Method.Name() != ev {
					return false
				}
				fl, ok := recvFieldLoad(cc.Value)
				return ok && fl.Name() == name
			})
			if must {
				r.ok("S-PROP", key, w.pos(efn.Pos()), "Evaluate calls "+name+".Evaluate on every path")
				continue
			}
			allDom := true
			var offender ssa.Instruction
			for _, s := range selects {
				d := false
				for _, e := range evals {
					if e.fn == s.fn && instrDominates(e.in, s.in) {
						d = true
					}
				}
				if !d {
					allDom = false
					offender = s.in
				}
			}
			if allDom {
				r.ok("S-PROP", key, w.instrPos(selects[0].in), "every "+name+".Select is dominated by "+name+".Evaluate in the same function")
				continue
			}
			if why, ex := propExempt[key]; ex {
				r.skip("S-PROP", key, w.instrPos(offender), "exempt: "+why)
				continue
			}
			r.bad("S-PROP", key, w.instrPos(offender), fmt.Sprintf("%s iterates %s (Select) but its Evaluate does not re-arm %s on every path, and this Select is not preceded by %s.Evaluate: the sub-query keeps the state of the previous candidate", qt.Name(), name, name, name))
		}
	}
}

// ---------- S-POOL ----------

func ruleSPool(w *World, r *Report) {
	r.rule("S-POOL", "every Put into a package-level sync.Pool is preceded in the same block by Reset() on the same value, with no write to it in between, and the value came from Get of the same pool")
	n := 0
	// for a property that talks about particular XPath functions, only the
	// pools those functions take from matter: what any other user leaves in
	// such a pool is what they get
	var relevantPools map[ssa.Value]bool
	if _, filtered := propFuncs[w.curProp]; filtered {
		relevantPools = map[ssa.Value]bool{}
		for _, fn := range w.AllFuncs {
			if w.irrelevantFn(fn) || !w.RunTime[fn] {
				continue
			}
			if _, isImpl := w.implNames()[rootFn(fn)]; !isImpl {
				continue
			}
			// in the implementation itself or in a helper it calls
			for f2 := range w.pkgReach([]*ssa.Function{fn}, nil) {
				if _, isImpl := w.implNames()[rootFn(f2)]; isImpl && rootFn(f2) != rootFn(fn) {
					continue
				}
				eachInstr(f2, false, func(_ *ssa.Function, in ssa.Instruction) {
					if ci, ok := in.(ssa.CallInstruction); ok {
						if g := ci.Common().StaticCallee(); g != nil && g.Name() == "Get" && g.Pkg != nil && g.Pkg.Pkg.Path() == "sync" && len(ci.Common().Args) > 0 {
							relevantPools[ci.Common().Args[0]] = true
						}
					}
				})
			}
		}
	}
	for _, fn := range w.AllFuncs {
		for _, b := range fn.Blocks {
			for i, in := range b.Instrs {
				ci, ok := in.(ssa.CallInstruction)
				if !ok {
					continue
				}
				cc := ci.Common()
				callee := cc.StaticCallee()
				if callee == nil || callee.Name() != "Put" || callee.Pkg == nil || callee.Pkg.Pkg.Path() != "sync" {
					continue
				}
				if relevantPools != nil && !relevantPools[cc.Args[0]] {
					continue
				}
				n++
				r.FuncsAnalysed[fnName(fn)] = true
				key := fnName(fn) + ":Put"
				pool := cc.Args[0]
				if _, ok := pool.(*ssa.Global); !ok {
					r.undec("S-POOL", key, w.instrPos(in), "pool is not a package-level variable")
					continue
				}
				arg := strip(cc.Args[1])
				// arg is a MakeInterface/ChangeInterface of the value obtained by Get().(T)
				var base ssa.Value = arg
				if mi, ok := arg.(*ssa.MakeInterface); ok {
					base = strip(mi.X)
				}
				if ci2, ok := base.(*ssa.ChangeInterface); ok {
					base = strip(ci2.X)
				}
				base = resolve(base)
				isGetOf := func(v ssa.Value) bool {
					ta, ok := resolve(strip(v)).(*ssa.TypeAssert)
					if !ok {
						return false
					}
					call, ok := ta.X.(*ssa.Call)
					if !ok {
						return false
					}
					g := call.Call.StaticCallee()
					return g != nil && g.Name() == "Get" && len(call.Call.Args) > 0 && call.Call.Args[0] == pool
				}
				fromGet := isGetOf(base)
				// the pooled value carried in a field of a small wrapper struct: every
				// value ever stored in that field came from Get of this pool
				var fieldRoot ssa.Value
				fieldIdx := -1
				if root, idx, n, ok := structFieldKey(strip(cc.Args[1])); ok && !fromGet && n.Obj().Pkg() == w.Types {
					vals, zero := w.structFieldOrigins(n, idx)
					all := len(vals) > 0 && !zero
					for _, ov := range vals {
						if !isGetOf(ov) {
							all = false
						}
					}
					if all {
						fromGet = true
						fieldRoot, fieldIdx = root, idx
					}
				}
				if !fromGet {
					r.bad("S-POOL", key, w.instrPos(in), "value put into the pool did not come from Get of the same pool")
					continue
				}
				// scan backwards in the block for Reset on base, no Write* after it
				resetAt := -1
				for j := i - 1; j >= 0; j-- {
					c2, ok := b.Instrs[j].(ssa.CallInstruction)
					if !ok {
						continue
					}
					cc2 := c2.Common()
					sameObj := resolve(cc2.Value) == base
					if fieldRoot != nil {
						if r2, i2, _, ok := structFieldKey(cc2.Value); ok && r2 == fieldRoot && i2 == fieldIdx {
							sameObj = true
						}
					}
					if cc2.IsInvoke() && sameObj {
						m := cc2.Method.Name()
						if m == "Reset" {
							resetAt = j
							break
						}
						if strings.HasPrefix(m, "Write") || m == "Grow" {
							break
						}
					}
				}
				if resetAt < 0 {
					r.bad("S-POOL", key, w.instrPos(in), "builder is returned to the pool without Reset(): leftover bytes leak into the next evaluation that takes it")
				} else {
					r.ok("S-POOL", key, w.instrPos(in), "Reset() precedes Put with no write in between")
				}
			}
		}
	}
	if n == 0 {
		r.note("S-POOL: no sync.Pool.Put calls in the package")
	}
}

var _ = types.Typ

// structFieldKey: v is field idx of a struct variable of a named type, read
// as `x.f` on a loaded value or through `&x.f`: the variable (its allocation,
// or the parameter), the field and the type.
func structFieldKey(v ssa.Value) (root ssa.Value, idx int, T *types.Named, ok bool) {
	for {
		switch x := v.(type) {
		case *ssa.ChangeInterface:
			v = x.X
			continue
		case *ssa.MakeInterface:
			v = x.X
			continue
		}
		break
	}
	rootOf := func(x ssa.Value) ssa.Value {
		if ld, ok := x.(*ssa.UnOp); ok && ld.Op == token.MUL {
			return ld.X
		}
		return x
	}
	switch x := v.(type) {
	case *ssa.Field:
		if n, isN := x.X.Type().(*types.Named); isN {
			return rootOf(x.X), x.Field, n, true
		}
	case *ssa.UnOp:
		if fa, isF := x.X.(*ssa.FieldAddr); isF && x.Op == token.MUL {
			if n := structOfAddr(fa); n != nil {
				return fa.X, fa.Field, n, true
			}
		}
	}
	return nil, 0, nil, false
}
