package main

// The builder's dispatch tables, read off by constant propagation (absint.go)
// instead of by the shape of the switch statements: for every function name
// and argument count, every operator string and every axis name, the builder
// method is followed with that constant in the node it is given, calls of the
// node dispatcher are replaced by a tagged "query built from <that node>", and
// the query object that comes back (and the factory calls on the way) are
// inspected. Helper functions, closures, early returns, flattened or nested
// switches all propagate the same constants to the same result.

import (
	"fmt"
	"go/constant"
	"go/token"
	"go/types"
	"sort"
	"strings"

	"golang.org/x/tools/go/ssa"
)

type builderRoles struct {
	BuilderT *types.Named
	Dispatch *ssa.Function
	FuncB    *ssa.Function
	OpB      *ssa.Function
	AxisB    *ssa.Function
	FilterB  *ssa.Function
	FuncNode *types.Named
	OpNode   *types.Named
	AxisNode *types.Named
	NodeT    *types.Named
	// field indexes
	FnName, FnArgs        int
	OpOp, OpLeft, OpRight int
	AxAxis, AxInput       int
	Names                 []string // function names the builder compares with
	Ops                   []string
	Axes                  []string
}

func (w *World) roles() (*builderRoles, error) {
	if w.rolesCache != nil {
		return w.rolesCache, nil
	}
	g, err := w.grammar()
	if err != nil {
		return nil, err
	}
	br := &builderRoles{NodeT: g.NodeT, FnName: -1, FnArgs: -1}
	for _, fn := range w.AllFuncs {
		if fn.Parent() != nil || g.isParserMethod(fn) || len(fn.Params) < 2 {
			continue
		}
		if w.depthGuard(fn) != nil && types.Identical(fn.Params[1].Type(), g.NodeT) {
			br.Dispatch = fn
			br.BuilderT, _ = derefNamed(fn.Signature.Recv().Type())
		}
	}
	if br.Dispatch == nil || br.BuilderT == nil {
		return nil, fmt.Errorf("anchor: the builder's node dispatcher (depth-guarded method taking a node) not found")
	}
	iface := g.NodeT.Underlying().(*types.Interface)
	isNode := func(t types.Type) bool { return types.Identical(t, g.NodeT) }
	calledByDispatch := map[*ssa.Function]bool{}
	for _, c := range w.pkgCallees(br.Dispatch) {
		calledByDispatch[c] = true
	}
	for _, fn := range w.AllFuncs {
		if fn.Parent() != nil || fn.Signature.Recv() == nil || len(fn.Params) < 2 || !calledByDispatch[fn] {
			continue
		}
		if n, ok := derefNamed(fn.Signature.Recv().Type()); !ok || n != br.BuilderT {
			continue
		}
		nt, ok := derefNamed(fn.Params[1].Type())
		if !ok || !types.Implements(types.NewPointer(nt), iface) {
			continue
		}
		st, ok := nt.Underlying().(*types.Struct)
		if !ok {
			continue
		}
		nNode, nStr, sliceIdx := 0, 0, -1
		var nodeIdx, strIdx []int
		for i := 0; i < st.NumFields(); i++ {
			ft := st.Field(i).Type()
			if isNode(ft) {
				nNode++
				nodeIdx = append(nodeIdx, i)
			}
			if b, ok := ft.Underlying().(*types.Basic); ok && b.Kind() == types.String {
				nStr++
				strIdx = append(strIdx, i)
			}
			if sl, ok := ft.Underlying().(*types.Slice); ok && isNode(sl.Elem()) {
				sliceIdx = i
			}
		}
		switch {
		case sliceIdx >= 0:
			br.FuncB, br.FuncNode, br.FnArgs = fn, nt, sliceIdx
			br.FnName, br.Names = w.comparedStringField(fn, nt, strIdx)
		case nNode == 2 && nStr == 1:
			br.OpB, br.OpNode, br.OpOp, br.OpLeft, br.OpRight = fn, nt, strIdx[0], nodeIdx[0], nodeIdx[1]
			_, br.Ops = w.comparedStringField(fn, nt, strIdx)
		case nNode == 2 && nStr == 0:
			br.FilterB = fn
		case nNode == 1 && nStr >= 2:
			br.AxisB, br.AxisNode, br.AxInput = fn, nt, nodeIdx[0]
			br.AxAxis, br.Axes = w.comparedStringField(fn, nt, strIdx)
		}
	}
	if br.FuncB == nil || br.OpB == nil || br.AxisB == nil {
		return nil, fmt.Errorf("anchor: builder methods for function / operator / axis nodes not all found")
	}
	w.rolesCache = br
	return br, nil
}

// comparedStringField: among the string fields of node struct nt, the one
// whose loads are compared with the most string constants in fn and the
// package functions it calls; returns its index and the constants.
func (w *World) comparedStringField(fn *ssa.Function, nt *types.Named, strIdx []int) (int, []string) {
	st := nt.Underlying().(*types.Struct)
	count := map[int]map[string]bool{}
	for f := range w.pkgReach([]*ssa.Function{fn}, nil) {
		for _, c := range closuresOf(f) {
			eachInstr(c, false, func(_ *ssa.Function, in ssa.Instruction) {
				// a table lookup keyed by the field: the keys of a package-level map
				// that nothing writes after initialisation are the strings "compared with"
				if lk, ok := in.(*ssa.Lookup); ok {
					ld, ok := lk.Index.(*ssa.UnOp)
					if !ok || ld.Op != token.MUL {
						return
					}
					fa, ok := ld.X.(*ssa.FieldAddr)
					if !ok {
						return
					}
					if n, ok := derefNamed(fa.X.Type()); !ok || n != nt {
						return
					}
					ml, ok := lk.X.(*ssa.UnOp)
					if !ok || ml.Op != token.MUL {
						return
					}
					gl, ok := ml.X.(*ssa.Global)
					if !ok || !w.readOnlyGlobal(gl) {
						return
					}
					ist := w.initState()
					gobj, ok := ist.globals[gl]
					if !ok {
						return
					}
					mv := ist.obj(gobj).Fields[0]
					if mv.Kind != avPtr {
						return
					}
					mo := ist.obj(mv.Obj)
					if !mo.IsMap || mo.Opaque {
						return
					}
					for _, k := range mo.Keys {
						if ks, ok := k.Str(); ok {
							if count[fa.Field] == nil {
								count[fa.Field] = map[string]bool{}
							}
							count[fa.Field][ks] = true
						}
					}
					return
				}
				// the field handed to a helper that compares its parameter with constants
				if call, ok := in.(*ssa.Call); ok {
					h := call.Call.StaticCallee()
					if h == nil || !w.inPkg(h) || len(h.Blocks) == 0 {
						return
					}
					for ai, a := range call.Call.Args {
						ld, ok := a.(*ssa.UnOp)
						if !ok || ld.Op != token.MUL || ai >= len(h.Params) {
							continue
						}
						fa, ok := ld.X.(*ssa.FieldAddr)
						if !ok {
							continue
						}
						if n, ok := derefNamed(fa.X.Type()); !ok || n != nt {
							continue
						}
						p := h.Params[ai]
						eachInstr(h, false, func(_ *ssa.Function, in2 ssa.Instruction) {
							b2, ok := in2.(*ssa.BinOp)
							if !ok || b2.Op != token.EQL && b2.Op != token.NEQ {
								return
							}
							for _, pr := range [][2]ssa.Value{{b2.X, b2.Y}, {b2.Y, b2.X}} {
								if pr[0] != ssa.Value(p) {
									continue
								}
								if cs, ok := constString(pr[1]); ok {
									if count[fa.Field] == nil {
										count[fa.Field] = map[string]bool{}
									}
									count[fa.Field][cs] = true
								}
							}
						})
					}
					return
				}
				bo, ok := in.(*ssa.BinOp)
				if !ok || bo.Op != token.EQL && bo.Op != token.NEQ {
					return
				}
				for _, pr := range [][2]ssa.Value{{bo.X, bo.Y}, {bo.Y, bo.X}} {
					s, ok := constString(pr[1])
					if !ok {
						continue
					}
					ld, ok := pr[0].(*ssa.UnOp)
					if !ok || ld.Op != token.MUL {
						continue
					}
					fa, ok := ld.X.(*ssa.FieldAddr)
					if !ok {
						continue
					}
					if n, ok := derefNamed(fa.X.Type()); !ok || n != nt {
						continue
					}
					if count[fa.Field] == nil {
						count[fa.Field] = map[string]bool{}
					}
					count[fa.Field][s] = true
				}
			})
		}
	}
	best, bestN := -1, 0
	for _, i := range strIdx {
		if len(count[i]) > bestN {
			best, bestN = i, len(count[i])
		}
	}
	_ = st
	if best < 0 {
		return -1, nil
	}
	return best, sortedKeysStr(count[best])
}

// ---- common hooks ----

type factoryCall struct {
	Fn   *ssa.Function
	Args []AVal
	Site ssa.CallInstruction
}

// globalFuncInit: the function value package initialisation stores in a
// package-level variable (S-GLOBAL decides separately that nothing else ever
// writes it).
func (w *World) globalFuncInit(g *ssa.Global) *ssa.Function {
	var out *ssa.Function
	for _, fn := range w.AllFuncs {
		if fn.Parent() != nil || !strings.HasPrefix(fn.Name(), "init") {
			continue
		}
		eachInstr(fn, false, func(_ *ssa.Function, in ssa.Instruction) {
			st, ok := in.(*ssa.Store)
			if !ok || st.Addr != ssa.Value(g) {
				return
			}
			switch v := st.Val.(type) {
			case *ssa.Function:
				out = v
			case *ssa.MakeClosure:
				if len(v.Bindings) == 0 {
					out, _ = v.Fn.(*ssa.Function)
				}
			}
		})
	}
	return out
}

func (w *World) builderHooks(br *builderRoles) AHooks {
	var h AHooks
	h.Global = func(st *AState, g *ssa.Global) *AObj {
		if f := w.globalFuncInit(g); f != nil {
			o := st.newObj(g.Type().(*types.Pointer).Elem(), g)
			o.Fields[0] = AVal{Kind: avFunc, Fn: f, Tag: "var:" + g.Name()}
			return o
		}
		return nil
	}
	h.Call = func(ai *AInterp, st *AState, site ssa.CallInstruction, callee *ssa.Function, args []AVal) (bool, AVal) {
		if callee == nil {
			return false, AVal{}
		}
		if callee == br.Dispatch && len(args) >= 2 {
			q := AVal{Kind: avUnknown, Tag: "q:" + w.nodeTag(st, args[1])}
			return true, AVal{Kind: avTuple, Tup: []AVal{q, {Kind: avNil}}}
		}
		if callee.Pkg != nil && (callee.String() == "errors.New" || callee.String() == "fmt.Errorf") {
			o := st.newObj(nil, nil)
			return true, AVal{Kind: avPtr, Obj: o, Field: -1, Tag: "error"}
		}
		if ai.w.inPkg(callee) && callee.Signature.Recv() == nil && callee.Signature.Results().Len() == 1 {
			if _, ok := callee.Signature.Results().At(0).Type().Underlying().(*types.Signature); ok {
				fc := &factoryCall{Fn: callee, Args: args, Site: site}
				st.Trace = append(st.Trace, AEvent{Kind: "factory", Site: site, Callee: callee, Args: args})
				return true, AVal{Kind: avUnknown, Tag: "factory:" + callee.Name(), Any: fc}
			}
		}
		return false, AVal{}
	}
	return h
}

// nodeTag names a node value: the tag given by the client ("arg0", "left",
// "input"), or a description of a node object built on the path.
func (w *World) nodeTag(st *AState, v AVal) string {
	if v.Tag != "" {
		return v.Tag
	}
	if v.Kind == avNil {
		return "nil"
	}
	if v.Kind == avPtr && v.Field < 0 {
		o := st.obj(v.Obj)
		if nm, ok := o.Type.(*types.Named); ok {
			s := "new:" + nm.Obj().Name()
			if stt, ok := nm.Underlying().(*types.Struct); ok {
				var parts []string
				for i := 0; i < stt.NumFields(); i++ {
					if fv, ok := o.Fields[i]; ok && fv.isConst() {
						parts = append(parts, stt.Field(i).Name()+"="+fv.C.ExactString())
					}
				}
				sort.Strings(parts)
				s += "{" + strings.Join(parts, ",") + "}"
			}
			return s
		}
	}
	return "?"
}

type buildOutcome struct {
	Accepted bool // non-nil query, nil error
	Rejected bool // non-nil error or panic
	NilNil   bool // nil query and nil error
	Unknown  bool
	Panicked bool
	Result   AVal
	St       *AState
	Calls    []*factoryCall
	At       ssa.Instruction
	Root     *AObj // the node object the builder was given
}

func classify(o AOutcome) buildOutcome {
	bo := buildOutcome{St: o.St, At: o.At}
	for _, ev := range o.St.Trace {
		if ev.Kind == "factory" {
			bo.Calls = append(bo.Calls, &factoryCall{Fn: ev.Callee, Args: ev.Args, Site: ev.Site.(ssa.CallInstruction)})
		}
	}
	if o.Cut {
		bo.Unknown = true
		return bo
	}
	if o.Panicked {
		bo.Rejected, bo.Panicked = true, true
		return bo
	}
	if o.Ret.Kind != avTuple || len(o.Ret.Tup) != 2 {
		bo.Unknown = true
		return bo
	}
	q, e := o.Ret.Tup[0], o.Ret.Tup[1]
	bo.Result = q
	switch {
	case e.Kind == avPtr || e.Kind == avStruct:
		bo.Rejected = true
	case e.Kind == avNil && (q.Kind == avPtr || q.Kind == avStruct || q.Kind == avUnknown && q.Tag != ""):
		bo.Accepted = true
	case e.Kind == avNil && q.Kind == avNil:
		bo.NilNil = true
	default:
		bo.Unknown = true
	}
	return bo
}

// ---- functions ----

type fnBuildKey struct {
	Name string
	N    int
}

const unknownFunctionName = "no-such-function-name"

// functionBuilds: outcomes of the function builder for every compared name
// (plus one name it compares with nothing) and 0..4 arguments.
func (w *World) functionBuilds() (map[fnBuildKey][]buildOutcome, *builderRoles, error) {
	br, err := w.roles()
	if err != nil {
		return nil, nil, err
	}
	if w.fnBuildsCache != nil {
		return w.fnBuildsCache, br, nil
	}
	if br.FnName < 0 {
		return nil, br, fmt.Errorf("anchor: the function builder compares no field of its node with string constants")
	}
	out := map[fnBuildKey][]buildOutcome{}
	names := append([]string{}, br.Names...)
	names = append(names, unknownFunctionName)
	for _, name := range names {
		for n := 0; n <= 4; n++ {
			var all []buildOutcome
			hooks := w.builderHooks(br)
			ai := w.newInterp(hooks)
			ai.MaxVisits = 8
			st := w.initState()
			root := st.newObj(br.FuncNode, nil)
			root.Fields[br.FnName] = aStr(name)
			sl := st.newObj(br.FuncNode.Underlying().(*types.Struct).Field(br.FnArgs).Type(), nil)
			sl.Len = n
			for i := 0; i < n; i++ {
				sl.Fields[i] = AVal{Kind: avUnknown, Tag: fmt.Sprintf("arg%d", i)}
			}
			root.Fields[br.FnArgs] = AVal{Kind: avPtr, Obj: sl, Field: -1}
			b := st.externObj(br.BuilderT, nil)
			args := []AVal{{Kind: avPtr, Obj: b, Field: -1}, {Kind: avPtr, Obj: root, Field: -1}}
			for i := 2; i < len(br.FuncB.Params); i++ {
				pt := br.FuncB.Params[i].Type()
				if p, ok := pt.(*types.Pointer); ok {
					o := st.newObj(p.Elem(), nil)
					o.Extern = true
					args = append(args, AVal{Kind: avPtr, Obj: o, Field: -1})
				} else {
					args = append(args, aUnknown(nil))
				}
			}
			for _, o := range ai.Exec(br.FuncB, args, nil, st) {
				all = append(all, classify(o))
			}
			out[fnBuildKey{name, n}] = all
		}
	}
	w.fnBuildsCache = out
	return out, br, nil
}

// ---- operators ----

const unknownOperator = "no-such-operator"

func (w *World) builderArgs(st *AState, br *builderRoles, fn *ssa.Function, root *AObj) []AVal {
	b := st.externObj(br.BuilderT, nil)
	args := []AVal{{Kind: avPtr, Obj: b, Field: -1}, {Kind: avPtr, Obj: root, Field: -1}}
	for i := 2; i < len(fn.Params); i++ {
		pt := fn.Params[i].Type()
		if p, ok := pt.(*types.Pointer); ok {
			o := st.newObj(p.Elem(), nil)
			o.Extern = true
			args = append(args, AVal{Kind: avPtr, Obj: o, Field: -1})
		} else if bt, ok := pt.Underlying().(*types.Basic); ok && bt.Info()&types.IsInteger != 0 {
			args = append(args, aInt(0)) // flags: none
		} else {
			args = append(args, aUnknown(nil))
		}
	}
	return args
}

// operatorBuilds: outcomes of the operator builder for every operator string
// it compares with (plus one it compares with nothing).
func (w *World) operatorBuilds() (map[string][]buildOutcome, *builderRoles, error) {
	br, err := w.roles()
	if err != nil {
		return nil, nil, err
	}
	if w.opBuildsCache != nil {
		return w.opBuildsCache, br, nil
	}
	out := map[string][]buildOutcome{}
	ops := append(append([]string{}, br.Ops...), unknownOperator)
	for _, op := range ops {
		ai := w.newInterp(w.builderHooks(br))
		st := w.initState()
		root := st.newObj(br.OpNode, nil)
		root.Fields[br.OpOp] = aStr(op)
		root.Fields[br.OpLeft] = AVal{Kind: avUnknown, Tag: "left"}
		root.Fields[br.OpRight] = AVal{Kind: avUnknown, Tag: "right"}
		for _, o := range ai.Exec(br.OpB, w.builderArgs(st, br, br.OpB, root), nil, st) {
			out[op] = append(out[op], classify(o))
		}
	}
	w.opBuildsCache = out
	return out, br, nil
}

// ---- axes ----

const unknownAxis = "no-such-axis"

// axisBuildsAI: outcomes of the axis builder for every axis name it compares
// with, with an input step ("input") and without one.
func (w *World) axisBuildsAI() (map[string][]buildOutcome, *builderRoles, error) {
	br, err := w.roles()
	if err != nil {
		return nil, nil, err
	}
	if w.axBuildsCache != nil {
		return w.axBuildsCache, br, nil
	}
	out := map[string][]buildOutcome{}
	axes := append(append([]string{}, br.Axes...), unknownAxis)
	for _, ax := range axes {
		for _, withInput := range []bool{true, false} {
			ai := w.newInterp(w.builderHooks(br))
			st := w.initState()
			root := st.newObj(br.AxisNode, nil)
			root.Extern = true // name, prefix, type test: whatever the expression said
			root.Fields[br.AxAxis] = aStr(ax)
			if withInput {
				in := st.newObj(nil, nil)
				in.Extern = true
				root.Fields[br.AxInput] = AVal{Kind: avPtr, Obj: in, Field: -1, Tag: "input"}
			} else {
				root.Fields[br.AxInput] = AVal{Kind: avNil}
			}
			key := ax
			if !withInput {
				key += "|noinput"
			}
			// the flags handed down by the enclosing construct select variants of
			// a step (a descendant step below another descendant step): all of them
			args := w.builderArgs(st, br, br.AxisB, root)
			for i := 2; i < len(args) && i < len(br.AxisB.Params); i++ {
				if bt, ok := br.AxisB.Params[i].Type().Underlying().(*types.Basic); ok && bt.Info()&types.IsInteger != 0 {
					args[i] = aUnknown(nil)
				}
			}
			for _, o := range ai.Exec(br.AxisB, args, nil, st) {
				bo := classify(o)
				bo.Root = root
				out[key] = append(out[key], bo)
			}
		}
	}
	w.axBuildsCache = out
	return out, br, nil
}

// describeResult renders the query object an accepted build returned:
// type{field=value,...} with query fields shown by their tags.
func (w *World) describeResult(o buildOutcome) string {
	if o.Result.Kind != avPtr {
		return o.Result.String()
	}
	obj := o.St.obj(o.Result.Obj)
	nm, _ := obj.Type.(*types.Named)
	st, ok := obj.Type.Underlying().(*types.Struct)
	if !ok || nm == nil {
		return o.Result.String()
	}
	var parts []string
	for i := 0; i < st.NumFields(); i++ {
		v, ok := obj.Fields[i]
		if !ok {
			continue
		}
		s := ""
		switch {
		case v.isConst():
			s = v.C.ExactString()
		case v.Kind == avFunc && v.Tag != "":
			s = "func:" + strings.TrimPrefix(v.Tag, "var:")
		case v.Kind == avFunc:
			s = "func:" + v.Fn.Name()
		case v.Kind == avNil:
			s = "nil"
		case v.Tag != "":
			s = v.Tag
		case v.Kind == avPtr:
			s = "&" + typeName(o.St.obj(v.Obj).Type)
		default:
			s = "?"
		}
		parts = append(parts, st.Field(i).Name()+"="+s)
	}
	return nm.Obj().Name() + "{" + strings.Join(parts, ",") + "}"
}

// axisEntry: one query the axis builder can build for an axis name.
type axisEntry struct {
	Label   string
	Type    *QType
	HasIn   bool            // built from a step that has an input step
	Input   string          // "input" (the query built from the step's input), "context", or a description of something else
	PredOK  bool            // the node-test field holds the predicate built from this very step
	RawIn   string          // tag of the input value
	Flags   map[string]bool // constant bool fields
	Outcome buildOutcome
}

// axisTable: the axis dispatch as a table, from the builds.
func (w *World) axisTable() ([]axisEntry, *builderRoles, error) {
	ab, br, err := w.axisBuildsAI()
	if err != nil {
		return nil, nil, err
	}
	var out []axisEntry
	var keys []string
	for k := range ab {
		keys = append(keys, k)
	}
	sort.Strings(keys)
	seen := map[string]bool{}
	for _, k := range keys {
		label := strings.TrimSuffix(k, "|noinput")
		for _, o := range ab[k] {
			if !o.Accepted || o.Result.Kind != avPtr {
				continue
			}
			obj := o.St.obj(o.Result.Obj)
			nm, _ := obj.Type.(*types.Named)
			qt := w.census.ByType[nm]
			if qt == nil {
				continue
			}
			st := nm.Underlying().(*types.Struct)
			e := axisEntry{Label: label, Type: qt, HasIn: !strings.HasSuffix(k, "|noinput"), Flags: map[string]bool{}, Outcome: o, Input: "none"}
			for i := 0; i < st.NumFields(); i++ {
				f := st.Field(i)
				v, have := obj.Fields[i]
				if w.isPredicateFuncType(f.Type()) {
					if fc, ok := v.Any.(*factoryCall); ok && have && len(fc.Args) > 0 && fc.Args[0].Kind == avPtr && o.Root != nil && fc.Args[0].Obj.ID == o.Root.ID {
						e.PredOK = true
					}
				}
				if w.isQueryType(f.Type()) && have {
					e.RawIn = v.Tag
					switch {
					case v.Tag == "q:input":
						e.Input = "input"
					case v.Kind == avPtr:
						tn := typeName(o.St.obj(v.Obj).Type)
						if q := w.census.ByName[tn]; q != nil {
							nq := 0
							for _, qf := range q.Fields {
								if qf.IsQuery {
									nq++
								}
							}
							if nq == 0 {
								e.Input = "context"
								break
							}
						}
						e.Input = "a fresh " + tn
					case v.Kind == avNil:
						e.Input = "nil"
					default:
						e.Input = describeTag(v)
					}
				}
				if b, ok := v.Bool(); ok && have {
					e.Flags[f.Name()] = b
				} else if bt, ok := f.Type().Underlying().(*types.Basic); ok && bt.Kind() == types.Bool && !have {
					e.Flags[f.Name()] = false
				}
			}
			sig := fmt.Sprintf("%s|%s|%v|%s|%v|%v", e.Label, qt.Name(), e.HasIn, e.Input, e.PredOK, e.Flags)
			if seen[sig] {
				continue
			}
			seen[sig] = true
			out = append(out, e)
		}
	}
	return out, br, nil
}

// isFoldType: for this axis label the builder builds queries of this type from
// the *input step's own input* (a query built from a node other than the
// step's input): the rewrite that folds two steps into one (`//name`), which
// A-ELIDE judges.
func isFoldType(tab []axisEntry, label string, t *QType) bool {
	for _, o := range tab {
		if o.Label == label && o.Type == t && o.HasIn && strings.HasPrefix(o.RawIn, "q:") && o.RawIn != "q:input" {
			return true
		}
	}
	return false
}

// ---- the per-parent rewrite of positional predicates (C03-MERGE) ----

type filterBuild struct {
	Step      *QType
	Rewritten bool   // the step was detached: result is a two-query object whose first query is the step's former input
	Why       string // when the outcome is neither the rewrite nor the plain filter
	Plain     bool   // plain filter over the untouched step
	Outcome   buildOutcome
}

// filterBuilds follows the predicate builder for a positional predicate
// (constant 1) on a step of each given type whose input is some non-context
// query: the node dispatcher is replaced by "returns that step object (and
// records it as the builder's first input, as the real dispatcher does)".
func (w *World) filterBuilds(stepTypes []*QType) ([]filterBuild, *builderRoles, error) {
	br, err := w.roles()
	if err != nil {
		return nil, nil, err
	}
	if br.FilterB == nil {
		return nil, br, fmt.Errorf("anchor: predicate builder (method taking a node with two node fields) not found")
	}
	fnode, _ := derefNamed(br.FilterB.Params[1].Type())
	fst := fnode.Underlying().(*types.Struct)
	var nodeIdx []int
	for i := 0; i < fst.NumFields(); i++ {
		if types.Identical(fst.Field(i).Type(), br.NodeT) {
			nodeIdx = append(nodeIdx, i)
		}
	}
	// the builder's query-typed scratch field (first input)
	bst := br.BuilderT.Underlying().(*types.Struct)
	firstIdx := -1
	for i := 0; i < bst.NumFields(); i++ {
		if w.isQueryType(bst.Field(i).Type()) {
			firstIdx = i
		}
	}
	// a constant-query type: one field of empty interface type, no query fields
	var constT, parentT *QType
	for _, qt := range w.census.Types {
		nq := 0
		for _, f := range qt.Fields {
			if f.IsQuery {
				nq++
			}
		}
		if nq == 0 && len(qt.Fields) == 1 && isEmptyIface(qt.Fields[0].Var.Type()) {
			constT = qt
		}
	}
	if constT == nil || firstIdx < 0 || len(nodeIdx) != 2 {
		return nil, br, fmt.Errorf("anchor: constant query type / builder first-input field not found")
	}
	var out []filterBuild
	for _, T := range stepTypes {
		// some other step type serves as the (non-context) parent path
		parentT = nil
		for _, o := range stepTypes {
			if o != T {
				parentT = o
			}
		}
		if parentT == nil {
			continue
		}
		inField := -1
		tst := T.Named.Underlying().(*types.Struct)
		for i := 0; i < tst.NumFields(); i++ {
			if w.isQueryType(tst.Field(i).Type()) {
				inField = i
			}
		}
		if inField < 0 {
			continue
		}
		st := w.initState()
		P := st.newObj(parentT.Named, nil)
		P.Extern = true
		pv := AVal{Kind: avPtr, Obj: P, Field: -1, Dyn: types.NewPointer(parentT.Named), Tag: "parent-path"}
		O := st.newObj(T.Named, nil)
		O.Extern = true
		O.Fields[inField] = pv
		ov := AVal{Kind: avPtr, Obj: O, Field: -1, Dyn: types.NewPointer(T.Named), Tag: "step"}
		C := st.newObj(constT.Named, nil)
		C.Fields[0] = AVal{Kind: avConst, C: constant.MakeFloat64(1), Dyn: types.Typ[types.Float64]}
		cv := AVal{Kind: avPtr, Obj: C, Field: -1, Dyn: types.NewPointer(constT.Named), Tag: "cond"}
		root := st.newObj(fnode, nil)
		// the filtered expression is a step: a node of the axis-node type (kind constant as its constructor sets it)
		inNode := st.newObj(br.AxisNode, nil)
		inNode.Extern = true
		if k, ok := w.nodeKindConst(br.AxisNode); ok {
			ast := br.AxisNode.Underlying().(*types.Struct)
			for i := 0; i < ast.NumFields(); i++ {
				if ast.Field(i).Embedded() {
					inNode.Fields[i] = aInt(k)
				}
			}
		}
		root.Fields[nodeIdx[0]] = AVal{Kind: avPtr, Obj: inNode, Field: -1, Dyn: types.NewPointer(br.AxisNode), Tag: "in"}
		root.Fields[nodeIdx[1]] = AVal{Kind: avUnknown, Tag: "cond"}
		hooks := w.builderHooks(br)
		base := hooks.Call
		var bObj *AObj
		hooks.Call = func(ai *AInterp, s2 *AState, site ssa.CallInstruction, callee *ssa.Function, args []AVal) (bool, AVal) {
			if callee == br.Dispatch && len(args) >= 2 {
				// *props = None, as the dispatcher does first
				for _, a := range args[2:] {
					if a.Kind == avPtr && a.Field < 0 {
						if bt, ok := s2.obj(a.Obj).Type.Underlying().(*types.Basic); ok && bt.Info()&types.IsInteger != 0 {
							ai.store(s2, a, aInt(0))
						}
					}
				}
				switch args[1].Tag {
				case "in":
					if bObj != nil {
						s2.obj(bObj).Fields[firstIdx] = ov
					}
					return true, AVal{Kind: avTuple, Tup: []AVal{ov, {Kind: avNil}}}
				case "cond":
					return true, AVal{Kind: avTuple, Tup: []AVal{cv, {Kind: avNil}}}
				}
			}
			return base(ai, s2, site, callee, args)
		}
		ai := w.newInterp(hooks)
		ai.MaxVisits = 4
		args := w.builderArgs(st, br, br.FilterB, root)
		bObj = args[0].Obj
		fb := filterBuild{Step: T}
		for _, o := range ai.Exec(br.FilterB, args, nil, st) {
			if debugFilterBuilds {
				var ds []string
				for _, ev := range o.St.Trace {
					if ev.Kind == "branch" {
						ds = append(ds, fmt.Sprintf("%s=%v", w.instrPos(ev.Site), ev.Taken))
					}
				}
				fmt.Printf("  %s: ret=%s cut=%v panic=%v branches=%v\n", T.Name(), o.Ret.String(), o.Cut, o.Panicked, ds)
			}
			bo := classify(o)
			fb.Outcome = bo
			if !bo.Accepted || bo.Result.Kind != avPtr {
				fb.Why = "the builder does not return a query (" + o.Ret.String() + ")"
				continue
			}
			res := o.St.obj(bo.Result.Obj)
			rn, _ := res.Type.(*types.Named)
			rqt := w.census.ByType[rn]
			stepNow := o.St.obj(O)
			stepIn := stepNow.Fields[inField]
			var qf []AVal
			if rqt != nil {
				rst := rn.Underlying().(*types.Struct)
				for i := 0; i < rst.NumFields(); i++ {
					if w.isQueryType(rst.Field(i).Type()) {
						qf = append(qf, res.Fields[i])
					}
				}
			}
			isCtx := func(v AVal) bool {
				if v.Kind != avPtr {
					return false
				}
				tn := typeName(o.St.obj(v.Obj).Type)
				q := w.census.ByName[tn]
				if q == nil {
					return false
				}
				for _, f := range q.Fields {
					if f.IsQuery {
						return false
					}
				}
				return v.Obj.ID != P.ID && v.Obj.ID != C.ID
			}
			switch {
			case len(qf) == 2 && qf[0].Kind == avPtr && qf[0].Obj.ID == P.ID && isCtx(stepIn):
				// second query: a filter over the step
				fb.Rewritten = true
				if qf[1].Kind != avPtr {
					fb.Rewritten, fb.Why = false, "the merged step's second query is not built"
				} else {
					child := o.St.obj(qf[1].Obj)
					over := false
					for _, v := range child.Fields {
						if v.Kind == avPtr && v.Obj.ID == O.ID {
							over = true
						}
					}
					if !over {
						fb.Rewritten, fb.Why = false, "the per-parent step does not filter the detached step"
					}
				}
			case stepIn.Kind == avPtr && stepIn.Obj.ID == P.ID:
				fb.Plain = true
			default:
				fb.Why = fmt.Sprintf("result %s, the step's input is now %s", w.describeResult(bo), stepIn.String())
			}
		}
		out = append(out, fb)
	}
	return out, br, nil
}

var debugFilterBuilds = false

// nodeKindConst: the kind constant the constructors store in the embedded
// kind field of node type nt.
func (w *World) nodeKindConst(nt *types.Named) (int64, bool) {
	var out int64
	found := false
	for _, fn := range w.AllFuncs {
		eachInstr(fn, false, func(_ *ssa.Function, in ssa.Instruction) {
			st, ok := in.(*ssa.Store)
			if !ok {
				return
			}
			k, ok := constInt(st.Val)
			if !ok {
				return
			}
			fa, ok := st.Addr.(*ssa.FieldAddr)
			if !ok {
				return
			}
			if a, ok := fa.X.(*ssa.Alloc); ok {
				if nm, ok := derefNamed(a.Type()); ok && nm == nt && fieldOfAddr(fa).Embedded() {
					out, found = k, true
				}
			}
		})
	}
	return out, found
}
