package main

import (
	"encoding/json"
	"fmt"
	"os"
	"path/filepath"
	"sort"
	"strings"
	"time"
)

type Status string

const (
	Discharged Status = "discharged"
	Violated   Status = "violated"
	Undecided  Status = "undecided" // fail closed: counted as violation
	NotJudged  Status = "not-judged"
)

type Obligation struct {
	Rule   string `json:"rule"`
	Key    string `json:"key"` // rule/construct, never a line number
	Status Status `json:"status"`
	Pos    string `json:"pos,omitempty"`
	Detail string `json:"detail,omitempty"`
}

type Report struct {
	Prop   string
	Tier   string
	W      *World
	Obls   []Obligation
	Notes  []string
	Rules  map[string]string // rule -> text
	Assume []string
	seen   map[string]bool
	// counters for evidence
	FuncsAnalysed map[string]bool
}

func newReport(prop, tier string, w *World) *Report {
	return &Report{Prop: prop, Tier: tier, W: w, Rules: map[string]string{}, seen: map[string]bool{}, FuncsAnalysed: map[string]bool{}}
}

func (r *Report) add(rule, construct string, st Status, pos, detail string) {
	key := rule + "/" + construct
	// keep keys unique: a second obligation on the same construct gets #n
	base := key
	for i := 2; r.seen[key]; i++ {
		key = fmt.Sprintf("%s#%d", base, i)
	}
	r.seen[key] = true
	r.Obls = append(r.Obls, Obligation{Rule: rule, Key: key, Status: st, Pos: pos, Detail: detail})
}

func (r *Report) ok(rule, construct, pos, detail string) {
	r.add(rule, construct, Discharged, pos, detail)
}
func (r *Report) bad(rule, construct, pos, detail string) {
	r.add(rule, construct, Violated, pos, detail)
}
func (r *Report) undec(rule, construct, pos, detail string) {
	r.add(rule, construct, Undecided, pos, detail)
}
func (r *Report) skip(rule, construct, pos, detail string) {
	r.add(rule, construct, NotJudged, pos, detail)
}
func (r *Report) note(f string, a ...interface{}) { r.Notes = append(r.Notes, fmt.Sprintf(f, a...)) }
func (r *Report) rule(name, text string)          { r.Rules[name] = text }
func (r *Report) assume(s string) {
	for _, a := range r.Assume {
		if a == s {
			return
		}
	}
	r.Assume = append(r.Assume, s)
}

func (r *Report) count(rule string) int {
	n := 0
	for _, o := range r.Obls {
		if o.Rule == rule {
			n++
		}
	}
	return n
}

// ---- known findings ----

type KnownFinding struct {
	Property string `json:"property"`
	Key      string `json:"key"`     // obligation key
	Witness  string `json:"witness"` // substring that must occur in the obligation detail (the specific construct)
	Status   string `json:"status"`  // "known" | "fixed"
	Commit   string `json:"commit,omitempty"`
	What     string `json:"what"`
}

func loadKnown(path string) ([]KnownFinding, error) {
	b, err := os.ReadFile(path)
	if err != nil {
		if os.IsNotExist(err) {
			return nil, nil
		}
		return nil, err
	}
	var k struct {
		Findings []KnownFinding `json:"findings"`
	}
	if err := json.Unmarshal(b, &k); err != nil {
		return nil, err
	}
	return k.Findings, nil
}

// ---- floors ----

func loadFloors(path string) (map[string]int, error) {
	b, err := os.ReadFile(path)
	if err != nil {
		return nil, err
	}
	m := map[string]int{}
	if err := json.Unmarshal(b, &m); err != nil {
		return nil, err
	}
	return m, nil
}

// finish applies floors, matches known findings, writes evidence and prints
// the verdict lines. Returns the exit code.
func (r *Report) finish(verifDir string, start time.Time, seed int, extra map[string]interface{}) int {
	floors, err := loadFloors(filepath.Join(verifDir, "rules", "floors.json"))
	if err != nil {
		r.bad("FLOOR", "floors.json", "", "cannot read floors: "+err.Error())
	}
	rulesUsed := map[string]bool{}
	for _, o := range r.Obls {
		rulesUsed[o.Rule] = true
	}
	for name := range r.Rules {
		rulesUsed[name] = true
	}
	var ruleNames []string
	for n := range rulesUsed {
		ruleNames = append(ruleNames, n)
	}
	sort.Strings(ruleNames)
	for _, n := range ruleNames {
		if n == "FLOOR" || n == "ANCHOR" {
			continue
		}
		fl, ok := floors[r.Prop+":"+n]
		if !ok {
			fl, ok = floors[n]
		}
		if !ok {
			continue
		}
		if c := r.count(n); c < fl {
			r.bad("FLOOR", n, "", fmt.Sprintf("rule %s produced %d obligations, fewer than the %d confirmed by hand: its anchors were hidden by a restructuring; the rule cannot be said to hold", n, c, fl))
		}
	}

	known, err := loadKnown(filepath.Join(verifDir, "known_findings.json"))
	if err != nil {
		r.bad("FLOOR", "known_findings.json", "", "cannot read: "+err.Error())
	}

	var viol []Obligation
	var knownHit []string
	nd, nv, nj := 0, 0, 0
	for _, o := range r.Obls {
		switch o.Status {
		case Discharged:
			nd++
		case NotJudged:
			nj++
		case Violated, Undecided:
			matched := false
			for _, k := range known {
				if k.Status == "known" && k.Property == r.Prop && k.Key == o.Key && (k.Witness == "" || strings.Contains(o.Detail+" "+o.Pos, k.Witness)) {
					matched = true
					knownHit = append(knownHit, fmt.Sprintf("KNOWN-FINDING: property=%s %s %s", r.Prop, o.Key, k.What))
					break
				}
			}
			if !matched {
				nv++
				viol = append(viol, o)
			}
		}
	}

	evDir := filepath.Join(verifDir, "evidence")
	os.MkdirAll(evDir, 0o755)
	violPath := filepath.Join(evDir, r.Prop+".violations.json")
	os.Remove(violPath)

	// samples: a few obligations of every rule
	var samples []interface{}
	perRule := map[string]int{}
	for _, o := range r.Obls {
		if perRule[o.Rule] < 4 || o.Status == Violated || o.Status == Undecided {
			perRule[o.Rule]++
			samples = append(samples, o)
		}
	}
	ruleCounts := map[string]map[string]int{}
	for _, o := range r.Obls {
		if ruleCounts[o.Rule] == nil {
			ruleCounts[o.Rule] = map[string]int{}
		}
		ruleCounts[o.Rule][string(o.Status)]++
	}
	var fa []string
	for f := range r.FuncsAnalysed {
		fa = append(fa, f)
	}
	sort.Strings(fa)
	expl := fmt.Sprintf("Static rule checking over the type-checked AST, go/ssa and the VTA call graph of %s's current working tree (files: %s; not analysed because excluded by build constraints: %v). %d obligations from rules %v: %d discharged, %d violated/undecided not listed as known, %d matched known findings, %d reported as not judged (outside the property's fragment). The rules decide code-shape necessary conditions of the property, not the behavioural statement; see DESIGN.md §3 %s for what is not decided.",
		r.W.Repo, strings.Join(r.W.Files, ","), r.W.NotAna, len(r.Obls), ruleNames, nd, nv, len(knownHit), nj, r.Prop)
	cov := map[string]interface{}{
		"explanation":        expl,
		"obligations":        len(r.Obls),
		"discharged":         nd,
		"not_judged":         nj,
		"known_findings":     len(knownHit),
		"violated":           nv,
		"rules":              r.Rules,
		"per_rule":           ruleCounts,
		"functions_analysed": len(fa),
		"function_names":     fa,
		"samples":            samples,
		"notes":              r.Notes,
		"checker_cmd":        fmt.Sprintf("bin/xpcheck -prop %s -tier %s -repo %s", r.Prop, r.Tier, r.W.Repo),
		"trusted_base": []string{"go/types, go/ssa, VTA call graph (golang.org/x/tools v0.29.0)",
			"NodeNavigator contract: Copy returns an independent cursor; a failed MoveToX leaves the cursor unmoved; navigators are not shared between goroutines",
			"Go standard library (regexp, strings, strconv, sync, math) behaves as documented"},
		"exhaustive": true,
	}
	for k, v := range extra {
		cov[k] = v
	}
	ev := map[string]interface{}{
		"property_id": r.Prop,
		"tier":        r.Tier,
		"seed":        seed,
		"level":       "other",
		"coverage":    cov,
		"assumptions": append([]string{"default build file set of the installed toolchain"}, r.Assume...),
		"wall_s":      time.Since(start).Seconds(),
		"violations":  nv,
	}
	b, _ := json.MarshalIndent(ev, "", " ")
	if err := os.WriteFile(filepath.Join(evDir, r.Prop+".json"), b, 0o644); err != nil {
		fmt.Fprintln(os.Stderr, "cannot write evidence:", err)
		return 2
	}

	fmt.Printf("xpcheck property=%s tier=%s obligations=%d discharged=%d not_judged=%d known=%d violations=%d functions=%d\n",
		r.Prop, r.Tier, len(r.Obls), nd, nj, len(knownHit), nv, len(fa))
	for _, n := range ruleNames {
		c := ruleCounts[n]
		fmt.Printf("  rule %-12s %v\n", n, c)
	}
	if verbose {
		for _, o := range r.Obls {
			fmt.Printf("  [%s] %s at %s: %s\n", o.Status, o.Key, o.Pos, o.Detail)
		}
	}
	sort.Strings(knownHit)
	for _, k := range knownHit {
		fmt.Println(k)
	}
	if nv > 0 {
		vb, _ := json.MarshalIndent(viol, "", " ")
		os.WriteFile(violPath, vb, 0o644)
		for _, o := range viol {
			fmt.Printf("  %s %s at %s: %s\n", strings.ToUpper(string(o.Status)), o.Key, o.Pos, o.Detail)
		}
		fmt.Printf("VIOLATION property=%s replay=%s\n", r.Prop, violPath)
		return 1
	}
	return 0
}
