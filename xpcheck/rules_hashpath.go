package main

// B-HASH, clause "path": the identity key records the sibling index at every
// level, the topmost one included.
//
// The key function is followed by constant propagation on a symbolic navigator
// that stands at a given depth with a given number of previous siblings at each
// level (MoveToPrevious succeeds that many times, MoveToParent as many times as
// there are levels above). What the function hands to the standard library as
// integers (the decimal rendering of the indexes) is its signature for that
// position. Two positions that differ in the number of previous siblings at one
// level — including the level that has no parent, which a navigator over a
// fragment or a forest has several nodes at — must have different signatures.

import (
	"fmt"
	"go/types"
	"strings"

	"golang.org/x/tools/go/ssa"
)

func (w *World) hashPathSignature(fn *ssa.Function, prevs []int) (string, bool) {
	level := 0
	left := append([]int{}, prevs...)
	var sig []string
	hooks := AHooks{}
	hooks.Call = func(ai *AInterp, st *AState, site ssa.CallInstruction, callee *ssa.Function, args []AVal) (bool, AVal) {
		com := site.Common()
		if com.IsInvoke() && len(args) > 0 && args[0].Tag == "nav" {
			sg := com.Method.Type().(*types.Signature)
			switch w.navMethodClass(com.Method.Name()) {
			case "copy":
				return true, args[0]
			}
			switch com.Method.Name() {
			case "MoveToPrevious":
				if level < len(left) && left[level] > 0 {
					left[level]--
					return true, aBool(true)
				}
				return true, aBool(false)
			case "MoveToParent":
				if level+1 < len(left) {
					level++
					return true, aBool(true)
				}
				return true, aBool(false)
			case "NodeType":
				return true, aInt(1)
			}
			if sg.Results().Len() == 1 {
				if isStringType(sg.Results().At(0).Type()) {
					return true, aStr("s")
				}
				if isBoolType(sg.Results().At(0).Type()) {
					return true, aBool(false)
				}
			}
			return false, AVal{}
		}
		if callee != nil && !w.inPkg(callee) {
			// integers handed to the standard library: the rendered indexes
			for _, a := range args {
				if k, ok := a.Int(); ok && a.C != nil && a.C.Kind().String() == "Int" {
					name := callee.Name()
					if strings.Contains(name, "Itoa") || strings.Contains(name, "Int") || strings.Contains(name, "Uint") {
						sig = append(sig, fmt.Sprintf("%s(%d)", name, k))
					}
				}
			}
		}
		return false, AVal{}
	}
	ai := w.newInterp(hooks)
	ai.MaxVisits = 12
	nav := AVal{Kind: avUnknown, Tag: "nav"}
	outs := ai.Exec(fn, []AVal{nav}, nil, w.initState())
	n := 0
	for _, o := range outs {
		if o.Cut {
			return "", false
		}
		if !o.Panicked {
			n++
		}
	}
	if n != 1 {
		return "", false // the walk forked: the navigator's answers did not decide it
	}
	return strings.Join(sig, " "), true
}

func (w *World) checkHashPath(r *Report, fn *ssa.Function) {
	pos := w.pos(fn.Pos())
	type pair struct {
		a, b []int
		what string
	}
	pairs := []pair{
		{[]int{0}, []int{1}, "two nodes that have no parent (the first and the second top-level node of a fragment)"},
		{[]int{0, 0}, []int{1, 0}, "the first and the second child of one parent"},
		{[]int{0, 0}, []int{0, 1}, "the first children of two sibling parents that have no parent themselves"},
		{[]int{0, 0, 0}, []int{0, 1, 0}, "the first children of two sibling parents"},
	}
	for i, p := range pairs {
		key := fmt.Sprintf("path%d", i+1)
		sa, ok1 := w.hashPathSignature(fn, p.a)
		sb, ok2 := w.hashPathSignature(fn, p.b)
		switch {
		case !ok1 || !ok2:
			r.undec("B-HASH", key, pos, "the key function could not be followed on a symbolic navigator for "+p.what)
		case sa == sb:
			r.bad("B-HASH", key, pos, fmt.Sprintf("%s get the same index path in the identity key (%q): an index computed at one level is never written, so two different nodes with equal names and values are treated as one by union and de-duplication", p.what, sa))
		default:
			r.ok("B-HASH", key, pos, fmt.Sprintf("index paths differ (%q vs %q)", sa, sb))
		}
	}
}
