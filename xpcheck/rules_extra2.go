package main

// Rules added after the second seeded round.
//
//   C08-FIRST  a node-set converted to number/string/boolean is represented
//              by its first node: the conversions pull from the operand once.
//   C08-LIT    a number literal's value is the result of one strconv.ParseFloat
//              over the literal's text, returned and stored unmodified.
//   C09-ROUND  substring() rounds its numeric arguments as XPath round() does
//              (to nearest, ties towards +Inf) before using them.
//   C12-EVAL   Expr.Evaluate only returns an iterator, or the dynamic value
//              after it has been tested not to be a query.
//   N-REJECT   rejecting a candidate never ends a node sequence: after a
//              node-test predicate says no, a Select method cannot return nil
//              without first trying to obtain another candidate.

import (
	"fmt"
	"go/ast"
	"go/constant"
	"go/token"
	"go/types"
	"sort"

	"golang.org/x/tools/go/ssa"
)

func (w *World) fnByString(s string) *ssa.Function {
	for _, f := range w.AllFuncs {
		if f.String() == s {
			return f
		}
	}
	return nil
}

func inLoop(fn *ssa.Function, b *ssa.BasicBlock) bool {
	for _, comp := range cfgSCCs(fn) {
		for _, cb := range comp {
			if cb == b {
				return true
			}
		}
	}
	return false
}

func ruleConvFirst(w *World, r *Report) {
	r.rule("C08-FIRST", "number(), string() and boolean() of a node-set use its first node in document order: in each conversion function the operand's Select is invoked outside any loop (one pull), so a later node can never stand in for the first")
	truth, num, str := w.conversionFns()
	sel := w.selectMethod()
	for _, name := range []string{truth, num, str} {
		fn := w.fnByString(name)
		if fn == nil {
			r.bad("ANCHOR", "C08-FIRST", "", "conversion function "+name+" not found")
			continue
		}
		r.FuncsAnalysed[fnName(fn)] = true
		n := 0
		for _, b := range fn.Blocks {
			for _, in := range b.Instrs {
				c, ok := in.(*ssa.Call)
				if !ok || !c.Call.IsInvoke() || c.Call.Method.Name() != sel || !w.isQueryType(c.Call.Value.Type()) {
					continue
				}
				n++
				key := fmt.Sprintf("%s:pull", fn.Name())
				if inLoop(fn, b) {
					r.bad("C08-FIRST", key, w.instrPos(c), fmt.Sprintf("%s pulls nodes from its node-set operand in a loop: the conversion can be decided by a node other than the first one", fn.Name()))
				} else {
					r.ok("C08-FIRST", key, w.instrPos(c), "single pull: the first node represents the node-set")
				}
			}
		}
		if n == 0 {
			r.bad("C08-FIRST", fn.Name()+":pull", w.pos(fn.Pos()), "no node-set case found in the conversion")
		}
	}
}

// parseFloatCall: v is element 0 of a strconv.ParseFloat call.
func parseFloatCall(v ssa.Value) *ssa.Call {
	ex, ok := v.(*ssa.Extract)
	if !ok || ex.Index != 0 {
		return nil
	}
	c, ok := ex.Tuple.(*ssa.Call)
	if !ok {
		return nil
	}
	f := c.Call.StaticCallee()
	if f == nil || f.Pkg == nil || f.Pkg.Pkg.Path() != "strconv" || f.Name() != "ParseFloat" {
		return nil
	}
	return c
}

// textSliceOf: v is a slice of a string that is the scanner's text — a slice
// expression over a string loaded from a field (or over a string parameter, when
// inHelper), or the result of a helper all of whose normal returns are such a
// slice of a string parameter to which the caller hands the text.
func textSliceOf(v ssa.Value, inHelper bool, depth int) bool {
	v = strip(v)
	switch x := v.(type) {
	case *ssa.Slice:
		return textOrigin(x.X, inHelper)
	case *ssa.Phi:
		for _, e := range x.Edges {
			if !textSliceOf(e, inHelper, depth) {
				return false
			}
		}
		return len(x.Edges) > 0
	case *ssa.Call:
		f := x.Call.StaticCallee()
		if f == nil || len(f.Blocks) == 0 || depth <= 0 {
			return false
		}
		anyText := false
		for _, a := range x.Call.Args {
			if textOrigin(a, inHelper) {
				anyText = true
			}
		}
		if !anyText {
			return false
		}
		n := 0
		for _, b := range f.Blocks {
			ret, ok := normalReturn(b)
			if !ok {
				continue
			}
			if len(ret.Results) != 1 || !textSliceOf(retVal(ret, 0), true, depth-1) {
				return false
			}
			n++
		}
		return n > 0
	}
	return false
}

// textOrigin: a string loaded from a struct field, or (inside a helper) a
// string parameter.
func textOrigin(v ssa.Value, inHelper bool) bool {
	v = strip(v)
	if b, ok := v.Type().Underlying().(*types.Basic); !ok || b.Info()&types.IsString == 0 {
		return false
	}
	switch x := v.(type) {
	case *ssa.UnOp:
		_, ok := x.X.(*ssa.FieldAddr)
		return ok && x.Op == token.MUL
	case *ssa.Parameter:
		return inHelper
	}
	return false
}

// numLiteralValue judges a float64 that is to become a number literal's value:
// "" when on every way it is element 0 of strconv.ParseFloat applied to a slice
// of the text (directly, or as the result of a function whose normal returns
// all are), otherwise what it is instead.
func numLiteralValue(v ssa.Value, depth int, seen map[ssa.Value]bool) string {
	if seen[v] {
		return ""
	}
	seen[v] = true
	if ph, ok := v.(*ssa.Phi); ok {
		for _, e := range ph.Edges {
			if bad := numLiteralValue(e, depth, seen); bad != "" {
				return bad
			}
		}
		return ""
	}
	if c, ok := strip(v).(*ssa.Call); ok {
		f := c.Call.StaticCallee()
		if f != nil && len(f.Blocks) > 0 && depth > 0 && f.Signature.Results().Len() == 1 {
			n := 0
			for _, b := range f.Blocks {
				ret, ok := normalReturn(b)
				if !ok {
					continue
				}
				n++
				if bad := numLiteralValue(retVal(ret, 0), depth-1, seen); bad != "" {
					return bad
				}
			}
			if n > 0 {
				return ""
			}
		}
	}
	pc := parseFloatCall(v)
	if pc == nil {
		return fmt.Sprintf("is %s, which is not the result of strconv.ParseFloat", describeVal(v))
	}
	if !textSliceOf(pc.Call.Args[0], false, 2) {
		return "ParseFloat is not applied to a slice of the expression text"
	}
	return ""
}

func ruleNumLiteral(w *World, r *Report) {
	r.rule("C08-LIT", "every scanner method returning float64 returns, on each normal return, element 0 of a strconv.ParseFloat call whose argument is a slice of the scanner's text — never a value computed from it (one correctly rounded conversion per literal); the scanner's float64 field is only ever assigned such a method's result; and the parser hands that field, unmodified, to the constant-operand constructor; the scanner followed by constant propagation from a digit and from '.', with positions counted from the start of the token: the slice converted is exactly the characters consumed for the token")
	g, err := w.grammar()
	if err != nil {
		r.bad("ANCHOR", "C08-LIT", "", err.Error())
		return
	}
	var numFns []*ssa.Function
	for _, fn := range w.AllFuncs {
		if fn.Signature.Recv() == nil || typeName(fn.Signature.Recv().Type()) != g.ScannerT.Obj().Name() || fn.Parent() != nil {
			continue
		}
		res := fn.Signature.Results()
		if res.Len() != 1 {
			continue
		}
		if b, ok := res.At(0).Type().(*types.Basic); !ok || b.Kind() != types.Float64 {
			continue
		}
		numFns = append(numFns, fn)
	}
	isNum := map[*ssa.Function]bool{}
	for _, fn := range numFns {
		isNum[fn] = true
	}
	for _, fn := range numFns {
		r.FuncsAnalysed[fnName(fn)] = true
		for _, b := range fn.Blocks {
			ret, ok := normalReturn(b)
			if !ok {
				continue
			}
			key := fmt.Sprintf("%s:return", fn.Name())
			v := retVal(ret, 0)
			bad := ""
			if c, ok := strip(v).(*ssa.Call); ok && isNum[c.Call.StaticCallee()] && c.Call.StaticCallee() != fn {
				// the result of another scanner method of the same kind, judged by the same rule
			} else if b := numLiteralValue(v, 2, map[ssa.Value]bool{}); b != "" {
				bad = "returns what " + b
			}
			if bad != "" {
				r.bad("C08-LIT", key, w.instrPos(ret), fmt.Sprintf("%s %s: the literal's value is assembled from parts and rounded more than once (1.14 becomes 1.1400000000000001)", fn.Name(), bad))
			} else {
				r.ok("C08-LIT", key, w.instrPos(ret), "the ParseFloat result is returned unmodified")
			}
		}
	}
	// the text converted is the text of the token: the scanner followed from a
	// digit and from '.', positions counted from the start of the token
	{
		nspan := 0
		bad := ""
		var badAt ssa.Instruction
		undec := ""
		for _, c := range []rune{'0', '7', '.'} {
			for _, o := range w.scanFrom(g, c) {
				if o.Panicked {
					continue
				}
				if o.Cut {
					continue // longer digit runs than followed: the loop bodies are covered by the shorter ones
				}
				for _, sp := range o.Spans {
					nspan++
					switch {
					case !sp.Known || sp.Consumed < 0:
						undec = "the bounds of the slice handed to strconv.ParseFloat are not constants relative to the start of the token"
					case sp.Lo != tokenStart || sp.Hi != tokenStart+sp.Consumed:
						bad = fmt.Sprintf("for a literal that starts with %q and has consumed %q (%d characters) the scanner converts the text from offset %+d to offset %+d relative to the first character of the token, not the %d characters of the token: a character of the literal is dropped or a foreign one included (.5 read as 5)", string(c), o.Text, sp.Consumed, sp.Lo-tokenStart, sp.Hi-tokenStart, sp.Consumed)
						badAt = sp.At
					}
				}
			}
		}
		key := "literal-span"
		switch {
		case bad != "":
			r.bad("C08-LIT", key, w.instrPos(badAt), bad)
		case undec != "" || nspan == 0:
			r.undec("C08-LIT", key, w.pos(g.NextItem.Pos()), "number literals could not be followed through the scanner: "+undec)
		default:
			r.ok("C08-LIT", key, w.pos(g.NextItem.Pos()), fmt.Sprintf("on %d paths from a digit or '.', the text handed to strconv.ParseFloat is exactly the characters consumed for the token", nspan))
		}
	}
	// the numeric field of the scanner
	var numField *types.Var
	sst := g.ScannerT.Underlying().(*types.Struct)
	for i := 0; i < sst.NumFields(); i++ {
		if b, ok := sst.Field(i).Type().(*types.Basic); ok && b.Kind() == types.Float64 {
			numField = sst.Field(i)
		}
	}
	if numField == nil {
		r.bad("ANCHOR", "C08-LIT", "", "scanner has no float64 field")
		return
	}
	nst, nld := 0, 0
	for _, fn := range w.AllFuncs {
		eachInstr(fn, false, func(_ *ssa.Function, in ssa.Instruction) {
			switch x := in.(type) {
			case *ssa.Store:
				fa, ok := x.Addr.(*ssa.FieldAddr)
				if !ok || fieldOfAddr(fa) != numField {
					return
				}
				nst++
				key := fmt.Sprintf("%s:store-%s", fn.Name(), numField.Name())
				if c, ok := x.Val.(*ssa.Call); ok && c.Call.StaticCallee() != nil && isNum[c.Call.StaticCallee()] {
					r.ok("C08-LIT", key, w.instrPos(x), "assigned the scanned number as is")
				} else if b := numLiteralValue(x.Val, 2, map[ssa.Value]bool{}); b == "" {
					r.ok("C08-LIT", key, w.instrPos(x), "assigned the ParseFloat result of a slice of the text as is")
				} else {
					r.bad("C08-LIT", key, w.instrPos(x), "the scanner's number field is assigned something other than the direct result of a number-scanning method: the value "+b)
				}
			case *ssa.UnOp:
				if x.Op != token.MUL {
					return
				}
				fa, ok := x.X.(*ssa.FieldAddr)
				if !ok || fieldOfAddr(fa) != numField {
					return
				}
				nld++
				key := fmt.Sprintf("%s:use-%s", fn.Name(), numField.Name())
				okUse := true
				for _, u := range uses(x) {
					switch y := u.(type) {
					case *ssa.MakeInterface:
						for _, uu := range uses(y) {
							if c, ok := uu.(*ssa.Call); !ok || c.Call.StaticCallee() != g.NewOperand {
								okUse = false
							}
						}
					case *ssa.DebugRef:
					default:
						okUse = false
					}
				}
				if okUse {
					r.ok("C08-LIT", key, w.instrPos(x), "handed unmodified to the constant-operand constructor")
				} else {
					r.bad("C08-LIT", key, w.instrPos(x), "the scanned number is transformed before it becomes a constant operand")
				}
			}
		})
	}
	if nst == 0 || nld == 0 {
		r.bad("C08-LIT", "flow", "", fmt.Sprintf("number field %s: %d stores, %d loads found", numField.Name(), nst, nld))
	}
}

func describeVal(v ssa.Value) string {
	switch x := v.(type) {
	case *ssa.BinOp:
		return "the result of `" + x.Op.String() + "`"
	case *ssa.Call:
		if f := x.Call.StaticCallee(); f != nil {
			return "the result of " + f.String()
		}
		return "the result of a call"
	case *ssa.Const:
		return "the constant " + x.String()
	}
	return v.Name() + " (" + fmt.Sprintf("%T", v) + ")"
}

// ---------- C09-ROUND ----------

func isMathCall(v ssa.Value, name string) *ssa.Call {
	c, ok := v.(*ssa.Call)
	if !ok {
		return nil
	}
	f := c.Call.StaticCallee()
	if f == nil || f.Pkg == nil || f.Pkg.Pkg.Path() != "math" || f.Name() != name {
		return nil
	}
	return c
}

func constFloat(v ssa.Value) (float64, bool) {
	c, ok := v.(*ssa.Const)
	if !ok || c.Value == nil {
		return 0, false
	}
	if c.Value.Kind() != constant.Float && c.Value.Kind() != constant.Int {
		return 0, false
	}
	f, _ := constant.Float64Val(constant.ToFloat(c.Value))
	return f, true
}

// halfUpRounder: fn(x float64) float64 computing floor(x+0.5), or
// f := floor(x); if x-f >= 0.5 { f+1 } else { f }.
func (w *World) halfUpRounder(fn *ssa.Function) (bool, string) {
	if fn == nil || len(fn.Params) != 1 || len(fn.Blocks) == 0 {
		return false, "not a one-argument function"
	}
	p := ssa.Value(fn.Params[0])
	var floor *ssa.Call
	eachInstr(fn, false, func(_ *ssa.Function, in ssa.Instruction) {
		if c := isMathCallInstr(in, "Floor"); c != nil {
			floor = c
		}
	})
	if floor == nil {
		return false, "does not use math.Floor"
	}
	arg := floor.Call.Args[0]
	if bo, ok := arg.(*ssa.BinOp); ok && bo.Op == token.ADD {
		k, ok := constFloat(bo.Y)
		if ok && k == 0.5 && bo.X == p {
			// floor(x+0.5): every return is the floor
			for _, b := range fn.Blocks {
				if ret, ok := normalReturn(b); ok && retVal(ret, 0) != ssa.Value(floor) {
					return false, "returns something other than floor(x+0.5)"
				}
			}
			return true, "floor(x+0.5)"
		}
	}
	if arg != p {
		return false, "math.Floor is not applied to the argument"
	}
	// find the decision x - f >= 0.5
	for _, b := range fn.Blocks {
		ifi := blockIf(b)
		if ifi == nil {
			continue
		}
		cmp, neg := decodeCond(ifi.Cond)
		if cmp == nil {
			continue
		}
		sub, ok := cmp.X.(*ssa.BinOp)
		if !ok || sub.Op != token.SUB || sub.X != p || sub.Y != ssa.Value(floor) {
			continue
		}
		k, ok := constFloat(cmp.Y)
		if !ok || k != 0.5 {
			continue
		}
		var upSucc, downSucc *ssa.BasicBlock
		switch cmp.Op {
		case token.GEQ:
			upSucc, downSucc = b.Succs[0], b.Succs[1]
		case token.LSS:
			upSucc, downSucc = b.Succs[1], b.Succs[0]
		default:
			return false, fmt.Sprintf("the tie is decided with %s (ties must go up: >= 0.5)", cmp.Op)
		}
		if neg {
			upSucc, downSucc = downSucc, upSucc
		}
		val := func(blk *ssa.BasicBlock) ssa.Value {
			// follow jumps to a return
			for i := 0; i < 4; i++ {
				if ret, ok := normalReturn(blk); ok {
					v := retVal(ret, 0)
					if ph, ok := v.(*ssa.Phi); ok && ph.Block() == blk {
						return nil
					}
					return v
				}
				if len(blk.Succs) != 1 {
					return nil
				}
				blk = blk.Succs[0]
			}
			return nil
		}
		up, down := val(upSucc), val(downSucc)
		if up == nil || down == nil {
			// merged return through a phi
			for _, blk := range fn.Blocks {
				if ret, ok := normalReturn(blk); ok {
					if ph, ok := retVal(ret, 0).(*ssa.Phi); ok {
						for i, pred := range ph.Block().Preds {
							if pred == upSucc || pred == b && b.Succs[0] == ph.Block() && upSucc == ph.Block() {
								up = ph.Edges[i]
							}
							if pred == downSucc || pred == b && downSucc == ph.Block() {
								down = ph.Edges[i]
							}
						}
					}
				}
			}
		}
		if down != ssa.Value(floor) {
			return false, "below the half the result is not floor(x)"
		}
		if bo, ok := up.(*ssa.BinOp); ok && bo.Op == token.ADD && bo.X == ssa.Value(floor) {
			if k, ok := constFloat(bo.Y); ok && k == 1 {
				return true, "f := floor(x); x-f >= 0.5 ? f+1 : f"
			}
		}
		return false, "from the half upwards the result is not floor(x)+1"
	}
	return false, "no comparison of x-floor(x) with 0.5"
}

func isMathCallInstr(in ssa.Instruction, name string) *ssa.Call {
	v, ok := in.(ssa.Value)
	if !ok {
		return nil
	}
	return isMathCall(v, name)
}

func ruleSubstrRound(w *World, r *Report) {
	r.rule("C09-ROUND", "in substring() every number obtained from an argument (comma-ok assertion to float64) is used only as the argument of an XPath rounding — floor(x+0.5), or f=floor(x) with x-f >= 0.5 going to f+1 — i.e. to nearest with ties towards +Inf; math.Round (ties away from zero), truncation and integer conversion differ from round() for negative fractions")
	fns := w.funcBindings()["substring"]
	if len(fns) == 0 {
		r.bad("ANCHOR", "C09-ROUND", "", "substring() is not bound")
		return
	}
	n := 0
	for _, tf := range fns {
		top := w.Prog.FuncValue(tf)
		if top == nil {
			continue
		}
		for _, fn := range closuresOf(top) {
			r.FuncsAnalysed[fnName(fn)] = true
			eachInstr(fn, false, func(_ *ssa.Function, in ssa.Instruction) {
				ta, ok := in.(*ssa.TypeAssert)
				if !ok || !ta.CommaOk {
					return
				}
				if b, ok := ta.AssertedType.(*types.Basic); !ok || b.Kind() != types.Float64 {
					return
				}
				for _, u := range uses(ta) {
					ex, ok := u.(*ssa.Extract)
					if !ok || ex.Index != 0 {
						continue
					}
					n++
					key := fmt.Sprintf("%s:number%d", fn.Name(), n)
					bad := ""
					how := ""
					nuse := 0
					for _, uu := range uses(ex) {
						switch y := uu.(type) {
						case *ssa.DebugRef:
						case *ssa.Call:
							nuse++
							callee := y.Call.StaticCallee()
							if callee == nil {
								bad = "passed to a dynamic call"
								break
							}
							if callee.Pkg != nil && callee.Pkg.Pkg.Path() == "math" {
								bad = fmt.Sprintf("rounded with math.%s", callee.Name())
								if callee.Name() == "Round" {
									bad += " (ties away from zero: round(-0.5) must be -0, round(-1.5) must be -1)"
								}
								break
							}
							if ok, why := w.halfUpRounder(callee); ok {
								how = callee.Name() + ": " + why
							} else {
								bad = fmt.Sprintf("passed to %s, which is not an XPath rounding (%s)", callee.Name(), why)
							}
						case *ssa.BinOp:
							nuse++
							k, isHalf := constFloat(y.Y)
							okForm := false
							if y.Op == token.ADD && isHalf && k == 0.5 {
								okForm = true
								for _, u3 := range uses(y) {
									if c := isMathCallInstr(u3, "Floor"); c == nil {
										if _, dbg := u3.(*ssa.DebugRef); !dbg {
											okForm = false
										}
									}
								}
							}
							if okForm {
								how = "floor(x+0.5)"
							} else {
								bad = "used in arithmetic/comparison before being rounded"
							}
						default:
							nuse++
							bad = fmt.Sprintf("used unrounded (%T)", uu)
						}
					}
					if nuse == 0 {
						bad = "never used"
					}
					if bad != "" {
						r.bad("C09-ROUND", key, w.instrPos(ta), fmt.Sprintf("substring(): a numeric argument is %s; XPath: positions p with round(start) <= p < round(start)+round(length), round() = nearest with ties towards +Inf", bad))
					} else {
						r.ok("C09-ROUND", key, w.instrPos(ta), "rounded by "+how)
					}
				}
			})
		}
	}
	if n < 2 {
		r.bad("C09-ROUND", "numbers", "", fmt.Sprintf("only %d numeric arguments found in substring()", n))
	}
}

// ---------- C12-EVAL ----------

func ruleExprEvaluate(w *World, r *Report) {
	r.rule("C12-EVAL", "the exported Evaluate returns either a freshly made *NodeIterator, or the value the query's Evaluate produced on the no-match edge of a type test against the internal query interface: an internal query object never reaches the caller, and every node-set expression comes back as an iterator")
	ev := w.evaluateMethod()
	var entry *ssa.Function
	for _, fn := range w.AllFuncs {
		if fn.Parent() != nil || fn.Object() == nil || !fn.Object().Exported() || fn.Signature.Recv() == nil {
			continue
		}
		if n, ok := derefNamed(fn.Signature.Recv().Type()); !ok || !n.Obj().Exported() {
			continue
		}
		res := fn.Signature.Results()
		if res.Len() != 1 {
			continue
		}
		if it, ok := res.At(0).Type().Underlying().(*types.Interface); !ok || !it.Empty() {
			continue
		}
		if fn.Signature.Params().Len() == 1 && w.isNavType(fn.Signature.Params().At(0).Type()) {
			entry = fn
		}
	}
	if entry == nil {
		r.bad("ANCHOR", "C12-EVAL", "", "exported Evaluate(NodeNavigator) interface{} not found")
		return
	}
	r.FuncsAnalysed[fnName(entry)] = true
	n := 0
	for _, b := range entry.Blocks {
		ret, ok := normalReturn(b)
		if !ok {
			continue
		}
		n++
		key := fmt.Sprintf("%s:return%d", entry.Name(), n)
		v := retVal(ret, 0)
		var leaves []ssa.Value
		seen := map[ssa.Value]bool{}
		var walk func(v ssa.Value)
		walk = func(v ssa.Value) {
			if seen[v] {
				return
			}
			seen[v] = true
			if ph, ok := v.(*ssa.Phi); ok {
				for _, e := range ph.Edges {
					walk(e)
				}
				return
			}
			leaves = append(leaves, v)
		}
		walk(v)
		bad := ""
		for _, l := range leaves {
			if mi, ok := l.(*ssa.MakeInterface); ok {
				if a, ok := mi.X.(*ssa.Alloc); ok {
					if nm, ok := derefNamed(a.Type()); ok && nm.Obj().Exported() {
						continue // a fresh exported iterator object
					}
				}
				if c2, ok := mi.X.(*ssa.Call); ok && !c2.Call.IsInvoke() {
					if h := c2.Call.StaticCallee(); h != nil && w.inPkg(h) && w.returnsFreshExported(h) {
						continue // the iterator another entry point of the package builds
					}
				}
				bad = "returns a wrapped value that is not a fresh iterator"
				continue
			}
			c, ok := l.(*ssa.Call)
			// an iterator obtained from a package function all of whose returns are fresh iterators
			if ok && !c.Call.IsInvoke() {
				if h := c.Call.StaticCallee(); h != nil && w.inPkg(h) && w.returnsFreshExported(h) {
					continue
				}
			}
			if mi, isMI := l.(*ssa.MakeInterface); isMI {
				_ = mi
			}
			if !ok || !c.Call.IsInvoke() || c.Call.Method.Name() != ev || !w.isQueryType(c.Call.Value.Type()) {
				bad = "returns a value that is neither an iterator nor the query's Evaluate result"
				continue
			}
			// must be under the no-match edge of a type test of c against query
			guarded := false
			for _, u := range uses(c) {
				ta, ok := u.(*ssa.TypeAssert)
				if !ok || !ta.CommaOk || !w.isQueryType(ta.AssertedType) {
					continue
				}
				for _, u2 := range uses(ta) {
					ex, ok := u2.(*ssa.Extract)
					if !ok || ex.Index != 1 {
						continue
					}
					for _, u3 := range uses(ex) {
						if ifi, ok := u3.(*ssa.If); ok {
							no := ifi.Block().Succs[1]
							if len(no.Preds) == 1 && (no == b || no.Dominates(b)) {
								guarded = true
							}
						}
					}
				}
			}
			if !guarded {
				bad = "returns the dynamic result of the query's Evaluate without testing that it is not an internal query object (reverse(), a parenthesised path and other node-set expressions evaluate to one)"
			}
		}
		if bad != "" {
			r.bad("C12-EVAL", key, w.instrPos(ret), entry.Name()+" "+bad)
		} else {
			r.ok("C12-EVAL", key, w.instrPos(ret), "iterator, or a value tested not to be a query")
		}
	}
	if n == 0 {
		r.bad("C12-EVAL", "returns", w.pos(entry.Pos()), "no return found")
	}
}

// ---------- N-REJECT ----------

func ruleNReject(w *World, r *Report) {
	r.rule("N-REJECT", "in the Select method of every query type (and the iterator closures it creates), when a node test held in a func(NodeNavigator) bool field rejects a candidate, no path leads to `return nil` (end of the sequence) without first passing an attempt to obtain another candidate (a Select of an operand, a cursor movement, or a call of an iterator closure)")
	sel := w.selectMethod()
	n := 0
	for _, qt := range w.census.Types {
		top := qt.Methods[sel]
		if top == nil {
			continue
		}
		for _, fn := range closuresOf(top) {
			for _, b := range fn.Blocks {
				ifi := blockIf(b)
				if ifi == nil {
					continue
				}
				// condition: (possibly negated / and-ed) result of a dynamic call of a func field with a navigator argument
				call, negated := predicateCallOf(w, ifi.Cond)
				if call == nil {
					continue
				}
				n++
				r.FuncsAnalysed[fnName(fn)] = true
				reject := b.Succs[1]
				if negated {
					reject = b.Succs[0]
				}
				key := fmt.Sprintf("%s:test@%d", fnName(fn), n)
				if bad := w.rejectEndsSequence(fn, reject, call); bad != nil {
					r.bad("N-REJECT", fmt.Sprintf("%s:test", fnName(fn)), w.instrPos(call), fmt.Sprintf("after the node test rejects a candidate, %s returns nil (at %s) without trying another candidate: the first non-matching node ends the sequence and later matching nodes are lost", fnName(fn), w.instrPos(bad)))
				} else {
					r.ok("N-REJECT", fmt.Sprintf("%s:test", fnName(fn)), w.instrPos(call), "a rejected candidate is followed by another attempt before the sequence can end")
				}
				_ = key
			}
		}
	}
	if n < 8 {
		r.bad("N-REJECT", "sites", "", fmt.Sprintf("only %d node-test decisions found in Select methods", n))
	}
}

// predicateCallOf: cond is (not)* of a call through a func(NodeNavigator) bool
// value loaded from a struct field.
func predicateCallOf(w *World, cond ssa.Value) (*ssa.Call, bool) {
	neg := false
	for {
		if u, ok := cond.(*ssa.UnOp); ok && u.Op == token.NOT {
			neg = !neg
			cond = u.X
			continue
		}
		break
	}
	c, ok := cond.(*ssa.Call)
	if !ok || c.Call.IsInvoke() || c.Call.StaticCallee() != nil {
		return nil, false
	}
	sig, ok := c.Call.Value.Type().Underlying().(*types.Signature)
	if !ok || sig.Params().Len() != 1 || !w.isNavType(sig.Params().At(0).Type()) || sig.Results().Len() != 1 {
		return nil, false
	}
	if b, ok := sig.Results().At(0).Type().(*types.Basic); !ok || b.Kind() != types.Bool {
		return nil, false
	}
	return c, neg
}

func (w *World) rejectEndsSequence(fn *ssa.Function, start *ssa.BasicBlock, test *ssa.Call) ssa.Instruction {
	sel := w.selectMethod()
	seen := map[*ssa.BasicBlock]bool{}
	var found ssa.Instruction
	var dfs func(b *ssa.BasicBlock)
	dfs = func(b *ssa.BasicBlock) {
		if found != nil || seen[b] {
			return
		}
		seen[b] = true
		for _, in := range b.Instrs {
			if ci, ok := in.(ssa.CallInstruction); ok && in != ssa.Instruction(test) {
				cc := ci.Common()
				if cc.IsInvoke() {
					if w.isQueryType(cc.Value.Type()) && cc.Method.Name() == sel {
						return
					}
					if _, _, class, ok := w.isNavCall(ci); ok && class == "move" {
						return
					}
				} else if cc.StaticCallee() == nil {
					if _, isB := cc.Value.(*ssa.Builtin); !isB {
						if c2, _ := predicateCallOf(w, ci.Value()); c2 == nil {
							return // iterator closure / other dynamic call: another attempt
						}
					}
				}
			}
			if ret, ok := in.(*ssa.Return); ok {
				if len(ret.Results) == 1 && isNilConst(ret.Results[0]) {
					found = ret
				}
				return
			}
		}
		for _, s := range b.Succs {
			dfs(s)
		}
	}
	dfs(start)
	return found
}

// ---------- N-NODROP ----------

// ruleNoDrop: a node pulled from an operand is never thrown away unjudged.
func ruleNoDrop(w *World, r *Report) {
	r.rule("N-NODROP", "in every Select method, after an operand (a query-typed field of the receiver) has produced a non-nil node inside a loop, control cannot come back to that pull without passing a call that judges or uses the node (a node test, a predicate evaluation, a sub-query, an iterator closure, any package function); reading the node's own properties (NodeType, names, value) or copying it does not count — a step that skips input nodes by their kind loses results for text/attribute context nodes")
	sel := w.selectMethod()
	n := 0
	for _, qt := range w.census.Types {
		fn := qt.Methods[sel]
		if fn == nil {
			continue
		}
		for _, b := range fn.Blocks {
			for i, in := range b.Instrs {
				c, ok := in.(*ssa.Call)
				if !ok || !c.Call.IsInvoke() || c.Call.Method.Name() != sel || !w.isQueryType(c.Call.Value.Type()) {
					continue
				}
				if _, ok := recvFieldLoad(c.Call.Value); !ok {
					continue
				}
				if !inLoop(fn, b) {
					continue
				}
				// the non-nil edge
				var nonNil *ssa.BasicBlock
				for _, u := range uses(c) {
					bo, ok := u.(*ssa.BinOp)
					if !ok || !isNilConst(bo.Y) && !isNilConst(bo.X) {
						continue
					}
					for _, uu := range uses(bo) {
						if ifi, ok := uu.(*ssa.If); ok {
							if bo.Op == token.EQL {
								nonNil = ifi.Block().Succs[1]
							} else if bo.Op == token.NEQ {
								nonNil = ifi.Block().Succs[0]
							}
						}
					}
				}
				if nonNil == nil {
					continue
				}
				n++
				r.FuncsAnalysed[fnName(fn)] = true
				key := fmt.Sprintf("%s:pull@%d", fnName(fn), i)
				key = fmt.Sprintf("%s:%s", fnName(fn), describeAddr(c.Call.Value))
				// search a path nonNil -> b avoiding judging calls
				seen := map[*ssa.BasicBlock]bool{}
				var bad bool
				var dfs func(x *ssa.BasicBlock)
				dfs = func(x *ssa.BasicBlock) {
					if bad || seen[x] {
						return
					}
					seen[x] = true
					if x == b {
						bad = true
						return
					}
					for _, in2 := range x.Instrs {
						if st, ok := in2.(*ssa.Store); ok && w.isNavType(st.Val.Type()) {
							return // the node is kept
						}
						ci, ok := in2.(ssa.CallInstruction)
						if !ok {
							continue
						}
						if bi, isB := ci.Common().Value.(*ssa.Builtin); isB {
							if bi.Name() == "append" {
								return // the node is collected
							}
							continue
						}
						if _, _, class, ok := w.isNavCall(ci); ok && (class == "read" || class == "copy") {
							continue
						}
						return // a judging/using call
					}
					for _, s := range x.Succs {
						dfs(s)
					}
				}
				dfs(nonNil)
				if bad {
					r.bad("N-NODROP", key, w.instrPos(c), fmt.Sprintf("%s can discard a node its operand produced and pull the next one without any test, predicate or sub-query having looked at it (only the node's own properties are read): input nodes of some kinds are silently skipped", fnName(fn)))
				} else {
					r.ok("N-NODROP", key, w.instrPos(c), "every pulled node reaches a judging call before the next pull")
				}
			}
		}
	}
	if n < 4 {
		r.bad("N-NODROP", "sites", "", fmt.Sprintf("only %d operand pulls in loops found", n))
	}
}

// ---------- C14-NSMAP ----------

func isStringMap(t types.Type) bool {
	m, ok := t.Underlying().(*types.Map)
	if !ok {
		return false
	}
	k, ok1 := m.Key().Underlying().(*types.Basic)
	v, ok2 := m.Elem().Underlying().(*types.Basic)
	return ok1 && ok2 && k.Kind() == types.String && v.Kind() == types.String
}

func ruleNSMap(w *World, r *Report) {
	r.rule("C14-NSMAP", "the prefix table given to CompileWithNS reaches the parser on every path: in each function that has a map[string]string parameter, every call to a package function from which such a function is reachable passes that very parameter in the map position — it is never replaced by nil or another map, and no path goes through an entry point that has no table (so an empty table still makes every prefix unbound)")
	mapParam := func(f *ssa.Function) int {
		for i, p := range f.Params {
			if isStringMap(p.Type()) {
				return i
			}
		}
		return -1
	}
	var holders []*ssa.Function
	for _, fn := range w.AllFuncs {
		if fn.Parent() == nil && mapParam(fn) >= 0 {
			holders = append(holders, fn)
		}
	}
	if len(holders) < 2 {
		r.bad("ANCHOR", "C14-NSMAP", "", fmt.Sprintf("only %d functions take a prefix table", len(holders)))
		return
	}
	reachesHolder := func(f *ssa.Function) bool {
		for g := range w.pkgReach([]*ssa.Function{f}, nil) {
			if mapParam(g) >= 0 {
				return true
			}
		}
		return false
	}
	n := 0
	exported := 0
	for _, fn := range holders {
		if fn.Object() != nil && fn.Object().Exported() {
			exported++
		}
		r.FuncsAnalysed[fnName(fn)] = true
		m := ssa.Value(fn.Params[mapParam(fn)])
		used := false
		eachInstr(fn, false, func(_ *ssa.Function, in ssa.Instruction) {
			switch x := in.(type) {
			case *ssa.Store:
				if strip(x.Val) == m {
					if _, ok := x.Addr.(*ssa.FieldAddr); ok {
						used = true // kept in the parser
					}
				}
			case ssa.CallInstruction:
				g := x.Common().StaticCallee()
				if g == nil || !w.inPkg(g) || len(g.Blocks) == 0 {
					return
				}
				gi := mapParam(g)
				key := fmt.Sprintf("%s->%s", fn.Name(), g.Name())
				if gi >= 0 {
					n++
					args := x.Common().Args
					if gi < len(args) && strip(args[gi]) == m {
						used = true
						r.ok("C14-NSMAP", key, w.instrPos(in), "the caller's table is passed on")
					} else {
						r.bad("C14-NSMAP", key, w.instrPos(in), fmt.Sprintf("%s calls %s with a prefix table other than the one it was given: prefixes are resolved against the wrong bindings", fn.Name(), g.Name()))
					}
				} else if reachesHolder(g) {
					n++
					r.bad("C14-NSMAP", key, w.instrPos(in), fmt.Sprintf("%s reaches the parser through %s, which takes no prefix table: on that path the table is dropped (an unbound prefix is no longer a compile error and prefixed tests match by the document's prefix)", fn.Name(), g.Name()))
				}
			}
		})
		if !used {
			r.bad("C14-NSMAP", fn.Name()+":use", w.pos(fn.Pos()), fn.Name()+" never hands its prefix table on")
		}
	}
	if exported == 0 {
		r.bad("C14-NSMAP", "entry", "", "no exported function takes a prefix table")
	}
	if n == 0 {
		r.bad("C14-NSMAP", "sites", "", "no call passing a prefix table found")
	}
	// the syntax tree a compilation uses was parsed under this compilation's
	// table: in a function that holds a table, every syntax-tree value it
	// returns or hands to another function comes from a call that received
	// that table (prefixes are resolved, and unbound ones rejected, while
	// parsing) — never from a store that outlives the call
	g, err := w.grammar()
	if err != nil {
		return
	}
	isTree := func(t types.Type) bool { return types.Identical(t, g.NodeT) }
	for _, fn := range holders {
		m := ssa.Value(fn.Params[mapParam(fn)])
		var fromTableCall func(v ssa.Value, seen map[ssa.Value]bool) (bool, ssa.Value)
		fromTableCall = func(v ssa.Value, seen map[ssa.Value]bool) (bool, ssa.Value) {
			v = strip(v)
			if seen[v] {
				return true, nil
			}
			seen[v] = true
			switch x := v.(type) {
			case *ssa.Phi:
				for _, e := range x.Edges {
					if ok, why := fromTableCall(e, seen); !ok {
						return false, why
					}
				}
				return true, nil
			case *ssa.Extract:
				return fromTableCall(x.Tuple, seen)
			case *ssa.Call:
				callee := x.Call.StaticCallee()
				if callee != nil && w.inPkg(callee) {
					if gi := mapParam(callee); gi >= 0 && gi < len(x.Call.Args) && strip(x.Call.Args[gi]) == m {
						return true, nil
					}
					// a method of an object that was given the table (the parser)
					if callee.Signature.Recv() != nil && len(x.Call.Args) > 0 {
						if a, ok := strip(x.Call.Args[0]).(*ssa.Alloc); ok {
							holds := false
							for _, u := range uses(a) {
								if fa, ok := u.(*ssa.FieldAddr); ok {
									for _, u2 := range uses(fa) {
										if st, ok := u2.(*ssa.Store); ok && strip(st.Val) == m {
											holds = true
										}
									}
								}
							}
							if holds {
								return true, nil
							}
						}
					}
				}
				return false, v
			case *ssa.Const:
				return true, nil // nil
			case *ssa.UnOp:
				if x.Op == token.MUL {
					if a, ok := x.X.(*ssa.Alloc); ok {
						for _, st := range cellStores(a) {
							if ok, why := fromTableCall(st.Val, seen); !ok {
								return false, why
							}
						}
						return true, nil
					}
				}
				return false, v
			case *ssa.Parameter:
				return true, nil // the caller's tree: judged at the caller
			}
			return false, v
		}
		judged := 0
		bad := false
		eachInstr(fn, false, func(_ *ssa.Function, in ssa.Instruction) {
			var vals []ssa.Value
			switch x := in.(type) {
			case *ssa.Return:
				vals = x.Results
			case ssa.CallInstruction:
				if callee := x.Common().StaticCallee(); callee != nil && w.inPkg(callee) {
					vals = x.Common().Args
				}
			}
			for _, v := range vals {
				if !isTree(v.Type()) || bad {
					continue
				}
				judged++
				if ok, why := fromTableCall(v, map[ssa.Value]bool{}); !ok {
					bad = true
					what := "a value that does not come from a parse of this call"
					if why != nil {
						what = fmt.Sprintf("%s (%s)", why.Name(), w.pos(why.Pos()))
					}
					r.bad("C14-NSMAP", fn.Name()+":tree", w.instrPos(in), fmt.Sprintf("%s uses a syntax tree that was not parsed under the prefix table of this call: %s — prefixes are resolved (and unbound ones rejected) while parsing, so a tree kept from another compilation carries that compilation's bindings", fn.Name(), what))
				}
			}
		})
		if judged > 0 && !bad {
			r.ok("C14-NSMAP", fn.Name()+":tree", w.pos(fn.Pos()), "every syntax tree used comes from a parse that received this call's prefix table")
		}
	}
}

// ---------- T-ERRFLOW ----------

// ruleErrFlow: an error produced while compiling is never dropped.
func ruleErrFlow(w *World, r *Report) {
	r.rule("T-ERRFLOW", "in compile-time code, for every call of a package function that returns (..., error): the error is extracted, and every other result of the call is used only (a) in a Return that also returns that error, or (b) at a point dominated by the edge on which the error was tested nil (for a phi: the incoming edge is so dominated). A diagnosed fault (unknown function or axis, missing argument) in a sub-expression can then never be lost while its half-built query is used")
	var fns []*ssa.Function
	for _, fn := range w.AllFuncs {
		if w.BuildTime[fn] || (fn.Object() != nil && fn.Object().Exported() && fn.Signature.Recv() == nil) {
			fns = append(fns, fn)
		}
	}
	n := 0
	for _, fn := range fns {
		for _, b := range fn.Blocks {
			for _, in := range b.Instrs {
				c, ok := in.(*ssa.Call)
				if !ok {
					continue
				}
				tup, ok := c.Type().(*types.Tuple)
				if !ok || tup.Len() < 2 {
					continue
				}
				last := tup.At(tup.Len() - 1).Type()
				if !types.Identical(last, types.Universe.Lookup("error").Type()) {
					continue
				}
				callee := c.Call.StaticCallee()
				if callee == nil || !w.inPkg(callee) {
					continue
				}
				n++
				r.FuncsAnalysed[fnName(fn)] = true
				key := fmt.Sprintf("%s->%s", fnName(fn), callee.Name())
				var errEx *ssa.Extract
				var vals []*ssa.Extract
				for _, u := range uses(c) {
					if ex, ok := u.(*ssa.Extract); ok {
						if ex.Index == tup.Len()-1 {
							errEx = ex
						} else {
							vals = append(vals, ex)
						}
					}
				}
				if errEx == nil {
					r.bad("T-ERRFLOW", key, w.instrPos(c), fmt.Sprintf("the error returned by %s is discarded", callee.Name()))
					continue
				}
				bad := ""
				var badAt ssa.Instruction
				// check(v, e): value v travels with error e
				var check func(v, e ssa.Value, depth int)
				check = func(v, e ssa.Value, depth int) {
					if depth > 4 {
						bad, badAt = "merged too deeply to follow", c
						return
					}
					// nil-test edges of e
					type edge struct{ from, to *ssa.BasicBlock }
					var nilEdges []edge
					var nilDoms []*ssa.BasicBlock
					for _, u := range uses(e) {
						if bo, ok := u.(*ssa.BinOp); ok && (isNilConst(bo.X) || isNilConst(bo.Y)) {
							for _, uu := range uses(bo) {
								if ifi, ok := uu.(*ssa.If); ok {
									s := ifi.Block().Succs[0]
									if bo.Op == token.NEQ {
										s = ifi.Block().Succs[1]
									}
									nilEdges = append(nilEdges, edge{ifi.Block(), s})
									if len(s.Preds) == 1 {
										nilDoms = append(nilDoms, s)
									}
								}
							}
						}
					}
					under := func(blk *ssa.BasicBlock) bool {
						for _, s := range nilDoms {
							if s == blk || s.Dominates(blk) {
								return true
							}
						}
						return false
					}
					for _, u := range uses(v) {
						switch x := u.(type) {
						case *ssa.DebugRef:
						case *ssa.Return:
							okRet := under(x.Block())
							for _, res := range x.Results {
								if res == e {
									okRet = true
								}
							}
							if !okRet {
								bad, badAt = "returned without the error", x
							}
						case *ssa.Phi:
							for i, ed := range x.Edges {
								if ed != v {
									continue
								}
								pred := x.Block().Preds[i]
								if under(pred) {
									continue
								}
								isNilEdge := false
								for _, ne := range nilEdges {
									if ne.from == pred && ne.to == x.Block() {
										isNilEdge = true
									}
								}
								if isNilEdge {
									continue
								}
								// a sibling phi carrying the error along the same edge
								var sib *ssa.Phi
								for _, in2 := range x.Block().Instrs {
									if p2, ok := in2.(*ssa.Phi); ok && p2 != x && i < len(p2.Edges) && p2.Edges[i] == e {
										sib = p2
									}
								}
								if sib != nil {
									check(x, sib, depth+1)
								} else {
									bad, badAt = "merged into a value used later", x
								}
							}
						case *ssa.Store:
							if under(x.Block()) {
								continue
							}
							if _, ok := recvFieldAddr(x.Addr); ok {
								continue // scratch state of the builder object; the error still travels on
							}
							if _, ok := x.Addr.(*ssa.Alloc); ok {
								// result cell: the error must be stored to a cell in the same block
								okCell := false
								for _, in2 := range x.Block().Instrs {
									if st2, ok := in2.(*ssa.Store); ok && st2.Val == e {
										if _, ok := st2.Addr.(*ssa.Alloc); ok {
											okCell = true
										}
									}
								}
								if okCell {
									continue
								}
							}
							bad, badAt = "stored", x
						default:
							if !under(u.Block()) {
								bad, badAt = "used", u
							}
						}
					}
				}
				for _, v := range vals {
					check(v, errEx, 0)
				}
				if bad != "" {
					r.bad("T-ERRFLOW", key, w.instrPos(c), fmt.Sprintf("a result of %s is %s (at %s) on a path where its error has not been tested nil: a fault diagnosed inside the sub-expression is lost and Compile succeeds", callee.Name(), bad, w.instrPos(badAt)))
				} else {
					r.ok("T-ERRFLOW", key, w.instrPos(c), "results used only behind the nil test of the error (or returned together with it)")
				}
			}
		}
	}
	if n < 15 {
		r.bad("T-ERRFLOW", "sites", "", fmt.Sprintf("only %d error-returning package calls found in compile-time code", n))
	}
}

// ---------- B-ARITY (minimum argument counts) ----------

// xpathMinArity: the number of arguments XPath (1.0; 2.0 for the adopted
// functions) requires.
var xpathMinArity = map[string]int{
	"count": 1, "sum": 1, "boolean": 1, "not": 1, "concat": 2, "starts-with": 2, "contains": 2, "ends-with": 2,
	"substring": 2, "substring-before": 2, "substring-after": 2, "translate": 3, "floor": 1, "ceiling": 1, "round": 1,
	"matches": 2, "replace": 3, "reverse": 1, "string-join": 2, "lower-case": 1,
}

type arityEnv struct {
	w     *World
	n     int64
	label string
}

// evalInt: len(x.Args) => n, integer constants.
func (a *arityEnv) evalInt(e ast.Expr) (int64, bool) {
	if k, ok := a.w.constIntExpr(e); ok {
		return k, true
	}
	if p, ok := e.(*ast.ParenExpr); ok {
		return a.evalInt(p.X)
	}
	if c, ok := e.(*ast.CallExpr); ok && len(c.Args) == 1 {
		if id, ok := c.Fun.(*ast.Ident); ok && id.Name == "len" {
			if a.isArgsExpr(c.Args[0]) {
				return a.n, true
			}
		}
	}
	return 0, false
}

// isArgsExpr: a selector whose type is a slice of the parser's node type.
func (a *arityEnv) isArgsExpr(e ast.Expr) bool {
	sel, ok := e.(*ast.SelectorExpr)
	if !ok {
		return false
	}
	tv, ok := a.w.Info.Types[sel]
	if !ok {
		return false
	}
	sl, ok := tv.Type.Underlying().(*types.Slice)
	if !ok {
		return false
	}
	_, isIface := sl.Elem().Underlying().(*types.Interface)
	return isIface
}

// evalBool: 1 true, 0 false, -1 unknown.
func (a *arityEnv) evalBool(e ast.Expr) int {
	switch x := e.(type) {
	case *ast.ParenExpr:
		return a.evalBool(x.X)
	case *ast.UnaryExpr:
		if x.Op == token.NOT {
			switch a.evalBool(x.X) {
			case 1:
				return 0
			case 0:
				return 1
			}
		}
		return -1
	case *ast.BinaryExpr:
		switch x.Op {
		case token.LAND:
			l, r := a.evalBool(x.X), a.evalBool(x.Y)
			if l == 0 || r == 0 {
				return 0
			}
			if l == 1 && r == 1 {
				return 1
			}
			return -1
		case token.LOR:
			l, r := a.evalBool(x.X), a.evalBool(x.Y)
			if l == 1 || r == 1 {
				return 1
			}
			if l == 0 && r == 0 {
				return 0
			}
			return -1
		case token.EQL, token.NEQ, token.LSS, token.LEQ, token.GTR, token.GEQ:
			if l, ok := a.evalInt(x.X); ok {
				if r, ok := a.evalInt(x.Y); ok {
					var res bool
					switch x.Op {
					case token.EQL:
						res = l == r
					case token.NEQ:
						res = l != r
					case token.LSS:
						res = l < r
					case token.LEQ:
						res = l <= r
					case token.GTR:
						res = l > r
					case token.GEQ:
						res = l >= r
					}
					if res {
						return 1
					}
					return 0
				}
			}
			// comparison of the dispatched name with a literal
			if x.Op == token.EQL || x.Op == token.NEQ {
				for _, pr := range [][2]ast.Expr{{x.X, x.Y}, {x.Y, x.X}} {
					if s, ok := a.w.constStr(pr[1]); ok {
						if tv, ok := a.w.Info.Types[pr[0]]; ok && tv.Value == nil {
							if b, ok := tv.Type.Underlying().(*types.Basic); ok && b.Kind() == types.String {
								if _, isSel := pr[0].(*ast.SelectorExpr); isSel {
									if (s == a.label) == (x.Op == token.EQL) {
										return 1
									}
									return 0
								}
							}
						}
					}
				}
			}
		}
	}
	return -1
}

// indexFault: the statement (outside nested blocks) indexes the argument
// slice with a constant >= n.
func (a *arityEnv) indexFault(n ast.Node) bool {
	fault := false
	ast.Inspect(n, func(x ast.Node) bool {
		switch y := x.(type) {
		case *ast.BlockStmt, *ast.FuncLit:
			return false
		case *ast.IndexExpr:
			if a.isArgsExpr(y.X) {
				if k, ok := a.w.constIntExpr(y.Index); ok && k >= a.n {
					fault = true
				}
			}
		}
		return true
	})
	return fault
}

func (a *arityEnv) returnsError(rs *ast.ReturnStmt) bool {
	if len(rs.Results) != 2 {
		return false
	}
	return a.w.astNonNilError(rs.Results[1], rs)
}

// run interprets a statement list; returns "rejected", "accepted" (reached a
// return that is not an error return) or "" (fell through).
func (a *arityEnv) run(list []ast.Stmt) string {
	for _, st := range list {
		switch s := st.(type) {
		case *ast.IfStmt:
			if s.Init != nil && a.indexFault(s.Init) {
				return "rejected"
			}
			c := a.evalBool(s.Cond)
			if c == -1 && a.indexFault(s.Cond) {
				return "rejected"
			}
			switch c {
			case 1:
				if res := a.run(s.Body.List); res != "" {
					return res
				}
			case 0:
				if blk, ok := s.Else.(*ast.BlockStmt); ok {
					if res := a.run(blk.List); res != "" {
						return res
					}
				} else if ei, ok := s.Else.(*ast.IfStmt); ok {
					if res := a.run([]ast.Stmt{ei}); res != "" {
						return res
					}
				}
			}
		case *ast.ReturnStmt:
			if a.indexFault(s) {
				return "rejected"
			}
			if a.returnsError(s) {
				return "rejected"
			}
			return "accepted"
		case *ast.SwitchStmt:
			// nested dispatch on the name: run the clause of the current label
			for _, cl := range s.Body.List {
				cc := cl.(*ast.CaseClause)
				for _, e := range cc.List {
					if lab, ok := a.w.constStr(e); ok && lab == a.label {
						if res := a.run(cc.Body); res != "" {
							return res
						}
					}
				}
			}
		case *ast.BlockStmt:
			if res := a.run(s.List); res != "" {
				return res
			}
		case *ast.ForStmt, *ast.RangeStmt:
			// loops over the arguments do not fault
		default:
			if a.indexFault(st) {
				return "rejected"
			}
		}
	}
	return ""
}

func ruleBArityMin(w *World, r *Report) {
	r.rule("B-ARITY", "minimum argument counts: for every function name XPath gives required arguments, the function builder is followed by constant propagation for each smaller argument count: every path must end in a non-nil error or a run-time panic (an index fault inside the builder's recover); none may produce a query")
	fb, br, err := w.functionBuilds()
	if err != nil {
		r.bad("ANCHOR", "B-ARITY", "", err.Error())
		return
	}
	pos := w.pos(br.FuncB.Pos())
	n := 0
	var names []string
	for name := range xpathMinArity {
		names = append(names, name)
	}
	sort.Strings(names)
	for _, name := range names {
		min := xpathMinArity[name]
		if len(fb[fnBuildKey{name, min}]) == 0 {
			continue
		}
		bound := false
		for _, o := range fb[fnBuildKey{name, min}] {
			if o.Accepted {
				bound = true
			}
		}
		if !bound {
			continue // not a function of this engine
		}
		n++
		key := "min:" + name
		var accepted, unknown []int
		for k := 0; k < min; k++ {
			for _, o := range fb[fnBuildKey{name, k}] {
				if o.Accepted || o.NilNil {
					accepted = append(accepted, k)
				}
				if o.Unknown {
					unknown = append(unknown, k)
				}
			}
		}
		switch {
		case len(accepted) > 0:
			r.bad("B-ARITY", key, pos, fmt.Sprintf("%s() compiles with %v argument(s); XPath requires at least %d: an expression damaged by removing required arguments is accepted", name, dedupInts(accepted), min))
		case len(unknown) > 0:
			r.undec("B-ARITY", key, pos, fmt.Sprintf("%s() with %v argument(s): the builder could not be followed to a result", name, dedupInts(unknown)))
		default:
			r.ok("B-ARITY", key, pos, fmt.Sprintf("fewer than %d arguments are rejected", min))
		}
	}
	if n < 15 {
		r.bad("B-ARITY", "min:names", "", fmt.Sprintf("only %d of the functions with required arguments found in the dispatch", n))
	}
}

// returnsFreshExported: every normal return of h is a freshly allocated
// object of an exported type of the package (an iterator).
func (w *World) returnsFreshExported(h *ssa.Function) bool {
	n := 0
	for _, b := range h.Blocks {
		ret, ok := normalReturn(b)
		if !ok || len(ret.Results) != 1 {
			continue
		}
		n++
		a, ok := strip(retVal(ret, 0)).(*ssa.Alloc)
		if !ok {
			return false
		}
		nm, ok := derefNamed(a.Type())
		if !ok || !nm.Obj().Exported() || nm.Obj().Pkg() != w.Types {
			return false
		}
	}
	return n > 0
}

// ---------- C12-SELF ----------

// ruleEvalSelf: a query that declares itself a node-set (its ValueType is the
// value the context-reading leaf producers declare) is its own value: its
// Evaluate returns the receiver on every path. count(), reverse(), the
// comparison cells and the exported Evaluate all iterate what Evaluate
// returned; a query that hands back one of its parts instead is iterated from
// the wrong place (count(a/b[2]) = 0 while Select finds the nodes).
func ruleEvalSelf(w *World, r *Report) {
	r.rule("C12-SELF", "every query type whose ValueType is constantly the node-set code (the code the context-reading leaf producers declare) returns its own receiver from Evaluate on every path: the value of a node-set expression is the query itself")
	sel, ev := w.selectMethod(), w.evaluateMethod()
	vtName := ""
	for i := 0; i < w.QueryIface.NumMethods(); i++ {
		m := w.QueryIface.Method(i)
		sig := m.Type().(*types.Signature)
		if sig.Params().Len() == 0 && sig.Results().Len() == 1 {
			if n, ok := sig.Results().At(0).Type().(*types.Named); ok {
				if bt, ok := n.Underlying().(*types.Basic); ok && bt.Info()&types.IsInteger != 0 && !w.isQueryType(n) {
					// two such methods exist (value type, properties): the value type is the one the builder compares
					if vtName == "" || m.Name() < vtName {
						vtName = m.Name()
					}
				}
			}
		}
	}
	// the code a method constantly returns: (global, field index), or ""
	codeOf := func(fn *ssa.Function) string {
		if fn == nil {
			return ""
		}
		code := ""
		for _, b := range fn.Blocks {
			ret, ok := normalReturn(b)
			if !ok || len(ret.Results) != 1 {
				continue
			}
			ld, ok := strip(ret.Results[0]).(*ssa.UnOp)
			if !ok || ld.Op != token.MUL {
				return ""
			}
			fa, ok := ld.X.(*ssa.FieldAddr)
			if !ok {
				return ""
			}
			g, ok := fa.X.(*ssa.Global)
			if !ok {
				return ""
			}
			k := fmt.Sprintf("%s.%d", g.Name(), fa.Field)
			if code != "" && code != k {
				return ""
			}
			code = k
		}
		return code
	}
	// candidates for the value-type method: the parameterless int-coded methods
	nodeSet := ""
	var vtMethod string
	for i := 0; i < w.QueryIface.NumMethods(); i++ {
		m := w.QueryIface.Method(i)
		sig := m.Type().(*types.Signature)
		if sig.Params().Len() != 0 || sig.Results().Len() != 1 {
			continue
		}
		// what the context-reading leaf producers return from it
		codes := map[string]int{}
		for _, qt := range w.census.Types {
			hasQ := false
			for _, f := range qt.Fields {
				if f.IsQuery {
					hasQ = true
				}
			}
			sfn := qt.Methods[sel]
			if hasQ || sfn == nil {
				continue
			}
			usesCtx := false
			eachInstr(sfn, false, func(_ *ssa.Function, in ssa.Instruction) {
				if c, ok := in.(*ssa.Call); ok && w.isContextRegister(c) {
					usesCtx = true
				}
			})
			if !usesCtx {
				continue
			}
			if c := codeOf(qt.Methods[m.Name()]); c != "" {
				codes[c]++
			}
		}
		if len(codes) == 1 {
			for c, n := range codes {
				if n >= 2 && (vtMethod == "" || m.Name() == vtName) {
					// both leaf producers agree on one code: candidates are the value type and the
					// properties; the value type is the one whose code other, non-node-set, types do not share
					nodeSet, vtMethod = c, m.Name()
				}
			}
		}
	}
	_ = vtName
	if nodeSet == "" {
		r.bad("ANCHOR", "C12-SELF", "", "the node-set value-type code could not be derived from the leaf producers")
		return
	}
	n := 0
	for _, qt := range w.census.Types {
		if codeOf(qt.Methods[vtMethod]) != nodeSet {
			continue
		}
		efn := qt.Methods[ev]
		if efn == nil || len(efn.Blocks) == 0 {
			continue
		}
		// the empty node-set (a Select that only ever answers nil) has nothing to iterate
		if sfn := qt.Methods[sel]; sfn != nil {
			onlyNil := true
			for _, b := range sfn.Blocks {
				if ret, ok := normalReturn(b); ok && len(ret.Results) == 1 && !isNilConst(strip(ret.Results[0])) {
					onlyNil = false
				}
			}
			if onlyNil {
				continue
			}
		}
		n++
		r.FuncsAnalysed[fnName(efn)] = true
		key := qt.Name()
		bad := ""
		for _, b := range efn.Blocks {
			ret, ok := normalReturn(b)
			if !ok || len(ret.Results) != 1 {
				continue
			}
			v := strip(retVal(ret, 0))
			for i := 0; i < 4; i++ {
				switch x := v.(type) {
				case *ssa.MakeInterface:
					v = strip(x.X)
					continue
				case *ssa.ChangeInterface:
					v = strip(x.X)
					continue
				case *ssa.Call:
					// a helper that hands one of its arguments back
					if h := x.Call.StaticCallee(); h != nil && w.inPkg(h) && len(h.Blocks) > 0 {
						pk := -1
						same := true
						for _, hb := range h.Blocks {
							hr, ok := normalReturn(hb)
							if !ok || len(hr.Results) != 1 {
								continue
							}
							rv := strip(hr.Results[0])
							for {
								if mi, ok := rv.(*ssa.MakeInterface); ok {
									rv = strip(mi.X)
									continue
								}
								if ci, ok := rv.(*ssa.ChangeInterface); ok {
									rv = strip(ci.X)
									continue
								}
								break
							}
							p, ok := rv.(*ssa.Parameter)
							if !ok {
								same = false
								break
							}
							for k, q := range h.Params {
								if q == p {
									if pk >= 0 && pk != k {
										same = false
									}
									pk = k
								}
							}
						}
						if same && pk >= 0 && pk < len(x.Call.Args) {
							v = strip(x.Call.Args[pk])
							continue
						}
					}
				}
				break
			}
			if v != ssa.Value(efn.Params[0]) {
				// a value receiver: the address or a copy of the receiver is not "itself" either
				bad = fmt.Sprintf("%s.%s returns %s at %s, not the query itself: count(), reverse(), comparisons and the exported Evaluate iterate what Evaluate returns", qt.Name(), ev, describeVal(v), w.instrPos(ret))
			}
		}
		if bad != "" {
			r.bad("C12-SELF", key, w.pos(efn.Pos()), bad)
		} else {
			r.ok("C12-SELF", key, w.pos(efn.Pos()), "Evaluate returns the receiver")
		}
	}
	if n < 8 {
		r.bad("C12-SELF", "types", "", fmt.Sprintf("only %d node-set query types found", n))
	}
}
