package main

// Group B — name -> implementation bindings (C08, C09, C14, C16): B-ARGS, B-PRIM.

import (
	"fmt"
	"go/ast"
	"go/token"
	"go/types"
	"os"
	"sort"
	"strings"

	"golang.org/x/tools/go/ssa"
)

// funcBindings: XPath function name -> factory function called for it in the
// builder's function dispatch (innermost label wins).
func (w *World) funcBindings() map[string][]*types.Func {
	if w.bindCache != nil {
		return w.bindCache
	}
	out := map[string][]*types.Func{}
	fb, _, err := w.functionBuilds()
	if err != nil {
		return out
	}
	add := func(name string, fn *ssa.Function) {
		if fn == nil {
			return
		}
		obj, ok := fn.Object().(*types.Func)
		if !ok {
			return
		}
		for _, x := range out[name] {
			if x == obj {
				return
			}
		}
		out[name] = append(out[name], obj)
	}
	for k, outs := range fb {
		if k.Name == unknownFunctionName {
			continue
		}
		for _, o := range outs {
			if !o.Accepted {
				continue
			}
			for _, c := range o.Calls {
				add(k.Name, c.Fn)
			}
			// a named function used directly as the implementation (Func: reverseFunc)
			for _, fv := range w.funcFieldsOf(o) {
				if fv.Kind == avFunc && fv.Fn.Parent() == nil {
					add(k.Name, fv.Fn)
				}
			}
		}
	}
	w.bindCache = out
	return out
}

// funcFieldsOf: the values of the func-typed fields of the query object an
// accepted build returned.
func (w *World) funcFieldsOf(o buildOutcome) []AVal {
	var out []AVal
	if o.Result.Kind != avPtr {
		return out
	}
	obj := o.St.obj(o.Result.Obj)
	st, ok := obj.Type.Underlying().(*types.Struct)
	if !ok {
		return out
	}
	for i := 0; i < st.NumFields(); i++ {
		if _, isSig := st.Field(i).Type().Underlying().(*types.Signature); isSig {
			if v, ok := obj.Fields[i]; ok {
				out = append(out, v)
			}
		}
	}
	return out
}

// closureOf: the function literal a factory returns (or the function itself
// when it is used directly as the implementation).
func (w *World) closureOf(f *types.Func) *ssa.Function {
	fn := w.Prog.FuncValue(f)
	if fn == nil {
		return nil
	}
	// a factory: what it returns (a closure, or a named function of the package)
	if _, isFactory := fn.Signature.Results().At(0).Type().Underlying().(*types.Signature); fn.Signature.Results().Len() == 1 && isFactory {
		for _, b := range fn.Blocks {
			if ret, ok := normalReturn(b); ok {
				if mc, ok := retVal(ret, 0).(*ssa.MakeClosure); ok {
					cf := mc.Fn.(*ssa.Function)
					// a method value (x.evaluate): the method itself
					if strings.HasPrefix(cf.Synthetic, "bound method wrapper") {
						if obj, ok := cf.Object().(*types.Func); ok {
							if m := w.Prog.FuncValue(obj); m != nil {
								return m
							}
						}
					}
					return cf
				}
				if cf, ok := retVal(ret, 0).(*ssa.Function); ok {
					return cf
				}
			}
		}
	}
	if len(fn.AnonFuncs) > 0 {
		return fn.AnonFuncs[0]
	}
	return fn
}

// calleesIn: names of the functions/methods called in cl and its closures.
func (w *World) calleeNames(cl *ssa.Function) map[string][]*ssa.Call {
	out := map[string][]*ssa.Call{}
	w.calleeNamesInto(cl, out, 0, map[*ssa.Function]bool{})
	return out
}

// isPlainHelper: a package-level function that is neither a value conversion,
// nor asks the pattern cache itself, nor implements an XPath function or a
// query: a piece of an implementation that was given a name.
func (w *World) isPlainHelper(f *ssa.Function) bool {
	if f == nil || !w.inPkg(f) || f.Parent() != nil || f.Signature.Recv() != nil || len(f.Blocks) == 0 {
		return false
	}
	truth, number, str := w.conversionFns()
	switch f.String() {
	case truth, number, str:
		return false
	}
	for _, g := range w.regexpGetters() {
		if g == f {
			return false
		}
	}
	if _, isImpl := w.implNames()[f]; isImpl {
		return false
	}
	// helpers that work on queries (argument cloning, node tests) are shared infrastructure
	for i := 0; i < f.Signature.Params().Len(); i++ {
		if w.isQueryType(f.Signature.Params().At(i).Type()) {
			return false
		}
	}
	return true
}

func (w *World) calleeNamesInto(cl *ssa.Function, out map[string][]*ssa.Call, depth int, seen map[*ssa.Function]bool) {
	if seen[cl] {
		return
	}
	seen[cl] = true
	eachInstr(cl, true, func(_ *ssa.Function, in ssa.Instruction) {
		c, ok := in.(*ssa.Call)
		if !ok {
			return
		}
		if f := c.Call.StaticCallee(); depth < 2 && w.isPlainHelper(f) {
			w.calleeNamesInto(f, out, depth+1, seen)
		}
		if c.Call.IsInvoke() {
			if w.isNavType(c.Call.Value.Type()) {
				out["nav:"+c.Call.Method.Name()] = append(out["nav:"+c.Call.Method.Name()], c)
			} else {
				out["iface:"+c.Call.Method.Name()] = append(out["iface:"+c.Call.Method.Name()], c)
			}
			return
		}
		if f := c.Call.StaticCallee(); f != nil {
			out[f.String()] = append(out[f.String()], c)
			return
		}
		if b, ok := c.Call.Value.(*ssa.Builtin); ok {
			out["builtin:"+b.Name()] = append(out["builtin:"+b.Name()], c)
		}
	})
}

type primSpec struct {
	must    []string
	mustNot []string
	// callee -> expected origin (factory parameter index) of its arguments, -1 = don't care
	args map[string][]int
}

const pkgp = xpathPath + "."

func ruleBPrim(w *World, r *Report) {
	r.rule("B-PRIM", "each XPath function name is bound, through the builder's function dispatch, to a closure that computes with the expected primitive (convention table: contains=>strings.Contains, starts-with=>HasPrefix, ends-with=>HasSuffix, substring-before/after=>strings.Index, lower-case=>ToLower, translate=>NewReplacer, string-join=>Join, normalize-space=>TrimSpace+IsSpace, matches=>Regexp.MatchString, replace=>Regexp.ReplaceAllString, floor/ceiling=>math.Floor/Ceil, sum=>ParseFloat, name=>Prefix+LocalName, local-name=>LocalName only, namespace-uri=>NamespaceURL, boolean/number/string=>the truth/number/string conversions), never with its sibling's primitive, and the haystack/needle (subject/pattern) arguments reach the primitive in order. Necessary only while the implementation delegates to the standard library")
	getter := ""
	if gs := w.regexpGetters(); len(gs) > 0 {
		for _, g := range gs {
			if g.Signature.Recv() == nil {
				getter = g.String()
			}
		}
	}
	truth, number, str := w.conversionFns()
	table := map[string]primSpec{
		"contains":         {must: []string{"strings.Contains"}, mustNot: []string{"strings.HasPrefix", "strings.HasSuffix"}, args: map[string][]int{"strings.Contains": {0, 1}}},
		"starts-with":      {must: []string{"strings.HasPrefix"}, mustNot: []string{"strings.Contains", "strings.HasSuffix"}, args: map[string][]int{"strings.HasPrefix": {0, 1}}},
		"ends-with":        {must: []string{"strings.HasSuffix"}, mustNot: []string{"strings.Contains", "strings.HasPrefix"}, args: map[string][]int{"strings.HasSuffix": {0, 1}}},
		"substring-before": {must: []string{"strings.Index"}, args: map[string][]int{"strings.Index": {0, 1}}},
		"substring-after":  {must: []string{"strings.Index"}, args: map[string][]int{"strings.Index": {0, 1}}},
		"lower-case":       {must: []string{"strings.ToLower"}, mustNot: []string{"strings.ToUpper"}},
		"translate":        {must: []string{"strings.NewReplacer"}},
		"string-join":      {must: []string{"strings.Join"}},
		"normalize-space":  {must: []string{"strings.TrimSpace", "unicode.IsSpace"}},
		"concat":           {must: []string{"iface:WriteString"}},
		"matches":          {must: []string{"(*regexp.Regexp).MatchString", getter}, args: map[string][]int{"(*regexp.Regexp).MatchString": {-1, 0}, getter: {1}}},
		"replace":          {must: []string{"(*regexp.Regexp).ReplaceAllString", getter}, args: map[string][]int{"(*regexp.Regexp).ReplaceAllString": {-1, 0, 2}, getter: {1}}},
		"floor":            {must: []string{"math.Floor"}, mustNot: []string{"math.Ceil"}},
		"ceiling":          {must: []string{"math.Ceil"}, mustNot: []string{"math.Floor"}},
		"sum":              {must: []string{"strconv.ParseFloat"}},
		"string-length":    {must: []string{"builtin:len"}},
		"name":             {must: []string{"nav:Prefix", "nav:LocalName"}},
		"local-name":       {must: []string{"nav:LocalName"}, mustNot: []string{"nav:Prefix"}},
		"namespace-uri":    {must: []string{"iface:NamespaceURL"}, mustNot: []string{"nav:LocalName"}},
		"boolean":          {must: []string{truth}},
		"number":           {must: []string{number}},
		"string":           {must: []string{str}},
		"count":            {},
		"not":              {},
		"position":         {must: []string{"nav:MoveToPrevious"}},
		"last":             {must: []string{"nav:MoveToFirst", "nav:MoveToNext"}},
	}
	binds := w.funcBindings()
	if len(binds) < 20 {
		r.bad("ANCHOR", "B-PRIM", "", fmt.Sprintf("only %d function names bound in the dispatch", len(binds)))
		return
	}
	var names []string
	for n := range table {
		names = append(names, n)
	}
	sort.Strings(names)
	for _, name := range names {
		if !w.relevantName(name) {
			continue
		}
		spec := table[name]
		fs := binds[name]
		if len(fs) == 0 {
			r.bad("B-PRIM", name, "", fmt.Sprintf("the function dispatch has no implementation bound to %s()", name))
			continue
		}
		f := fs[len(fs)-1]
		cl := w.closureOf(f)
		if cl == nil {
			r.undec("B-PRIM", name, "", "implementation not resolved")
			continue
		}
		r.FuncsAnalysed[fnName(cl)] = true
		cs := w.calleeNames(cl)
		var probs []string
		for _, m := range spec.must {
			if m == "" {
				continue
			}
			if len(cs[m]) == 0 {
				probs = append(probs, "does not use "+strings.TrimPrefix(m, pkgp))
			}
		}
		for _, m := range spec.mustNot {
			if len(cs[m]) > 0 {
				probs = append(probs, "uses "+m+", the primitive of a different function")
			}
		}
		for callee, origins := range spec.args {
			for _, c := range cs[callee] {
				args := c.Call.Args
				for i, want := range origins {
					if want < 0 || i >= len(args) {
						continue
					}
					w.originScope = rootFn(cl)
					fv := w.originFreeVar(args[i])
					w.originScope = nil
					if fv == nil {
						probs = append(probs, fmt.Sprintf("argument %d of %s does not derive from an argument of %s()", i+1, strings.TrimPrefix(callee, pkgp), name))
						continue
					}
					if got, ok := factoryParamOf(fv); !ok || got != want {
						probs = append(probs, fmt.Sprintf("argument %d of %s derives from argument %d of %s(), expected argument %d", i+1, strings.TrimPrefix(callee, pkgp), got+1, name, want+1))
					}
				}
			}
		}
		// special shapes
		switch name {
		case "count":
			if !w.countsSelectResults(cl) {
				probs = append(probs, "does not increment a counter once per node of its argument")
			}
		case "not":
			if !w.negates(cl) {
				probs = append(probs, "does not negate a boolean / test a node-set for emptiness")
			}
		case "name", "local-name", "namespace-uri":
			if !w.emptySetGivesEmptyString(cl) && !w.emptySetByInterp(name) {
				probs = append(probs, "an empty node-set argument does not yield the empty string")
			}
		case "substring-before", "substring-after":
			// the flag argument distinguishes them: substring-after passes true exactly for its own name
		}
		// the value returned is the primitive's result (or a constant), on every return
		if prod, ok := resultProducer[name]; ok {
			if prod == "@truth" {
				prod = truth
			} else if prod == "@number" {
				prod = number
			} else if prod == "@string" {
				prod = str
			}
			for _, b := range cl.Blocks {
				ret, okr := normalReturn(b)
				if !okr || len(ret.Results) != 1 {
					continue
				}
				if !w.resultFrom(retVal(ret, 0), prod, map[ssa.Value]bool{}) {
					probs = append(probs, fmt.Sprintf("returns (at %s) a value that is neither a constant nor the result of %s: a second way of computing the answer bypasses the primitive", w.instrPos(ret), strings.TrimPrefix(prod, pkgp)))
				}
			}
		}
		pos := w.pos(cl.Pos())
		// the same judgement independent of how the implementation is factored
		// (shared helper closures, the primitive passed as a function value):
		// follow factory and closure with symbolic arguments and look at what is returned
		if len(probs) > 0 {
			if prod, ok := resultProducer[name]; ok && !strings.HasPrefix(prod, "@") && len(spec.mustNot) >= 0 {
				if okI, how := w.primViaInterp(w.Prog.FuncValue(f), prod, spec.args[prod]); okI {
					r.ok("B-PRIM", name, pos, fmt.Sprintf("%s() => %s: %s", name, f.Name(), how))
					continue
				}
			}
		}
		if len(probs) == 0 {
			r.ok("B-PRIM", name, pos, fmt.Sprintf("%s() => %s", name, f.Name()))
		} else {
			r.bad("B-PRIM", name, pos, fmt.Sprintf("%s() is bound to %s, which %s", name, f.Name(), strings.Join(dedup(probs), "; ")))
		}
	}
	w.checkTrueFalse(r)
	w.checkBeforeAfterFlag(r)
	w.checkNumberConversion(r, number)
}

// conversionFns: the truth, number and string conversion functions
// (iterator, interface{}) -> bool / float64 / string.
func (w *World) conversionFns() (truth, number, str string) {
	for _, fn := range w.AllFuncs {
		if fn.Parent() != nil || fn.Signature.Recv() != nil {
			continue
		}
		sig := fn.Signature
		if sig.Params().Len() != 2 || sig.Results().Len() != 1 || !isEmptyIface(sig.Params().At(1).Type()) {
			continue
		}
		b, ok := sig.Results().At(0).Type().(*types.Basic)
		if !ok {
			continue
		}
		// a type switch over the parameter with >= 3 cases
		n := 0
		eachInstr(fn, false, func(_ *ssa.Function, in ssa.Instruction) {
			if ta, ok := in.(*ssa.TypeAssert); ok && ta.X == ssa.Value(fn.Params[1]) {
				n++
			}
		})
		if n < 3 {
			continue
		}
		switch b.Kind() {
		case types.Bool:
			truth = fn.String()
		case types.Float64:
			number = fn.String()
		case types.String:
			str = fn.String()
		}
	}
	return
}

func (w *World) countsSelectResults(cl *ssa.Function) bool {
	sel := w.selectMethod()
	ok := false
	for _, comp := range cfgSCCs(cl) {
		hasSel, hasInc := false, false
		for _, b := range comp {
			for _, in := range b.Instrs {
				if c, isC := in.(*ssa.Call); isC && c.Call.IsInvoke() && c.Call.Method.Name() == sel {
					hasSel = true
				}
				if bo, isB := in.(*ssa.BinOp); isB && bo.Op == token.ADD && isIntType(bo.Type()) {
					if k, isK := constInt(bo.Y); isK && k == 1 {
						hasInc = true
					}
				}
				// the increment written in a helper the loop calls (a counter object's method)
				if c, isC := in.(*ssa.Call); isC {
					if h := c.Call.StaticCallee(); h != nil && w.inPkg(h) && h != cl {
						eachInstr(h, false, func(_ *ssa.Function, in2 ssa.Instruction) {
							if bo, isB := in2.(*ssa.BinOp); isB && bo.Op == token.ADD && isIntType(bo.Type()) {
								if k, isK := constInt(bo.Y); isK && k == 1 {
									hasInc = true
								}
							}
						})
					}
				}
			}
		}
		if hasSel && hasInc {
			ok = true
		}
	}
	return ok
}

func (w *World) negates(cl *ssa.Function) bool {
	sel := w.selectMethod()
	notBool, emptyTest := false, false
	eachInstr(cl, false, func(_ *ssa.Function, in ssa.Instruction) {
		if u, ok := in.(*ssa.UnOp); ok && u.Op == token.NOT {
			notBool = true
		}
		if bo, ok := in.(*ssa.BinOp); ok && bo.Op == token.EQL && isNilConst(bo.Y) {
			if c, ok := bo.X.(*ssa.Call); ok && c.Call.IsInvoke() && c.Call.Method.Name() == sel {
				emptyTest = true
			}
		}
	})
	return notBool && emptyTest
}

func (w *World) emptySetGivesEmptyString(cl *ssa.Function) bool {
	sel := w.selectMethod()
	ok := false
	for _, b := range cl.Blocks {
		ret, isR := normalReturn(b)
		if !isR {
			continue
		}
		v := strip(retVal(ret, 0))
		if mi, isM := v.(*ssa.MakeInterface); isM {
			if s, isS := constString(mi.X); isS && s == "" {
				// under `Select result == nil`
				for _, p := range b.Preds {
					if w.edgeIsSelectNil(p, b, sel, 0) {
						ok = true
					}
				}
			}
		}
	}
	return ok
}

// checkTrueFalse: true()/false() are bound to the constant of their name.
func (w *World) checkTrueFalse(r *Report) {
	fb, br, err := w.functionBuilds()
	if err != nil {
		r.bad("ANCHOR", "B-PRIM:true/false", "", err.Error())
		return
	}
	pos := w.pos(br.FuncB.Pos())
	for _, name := range []string{"true", "false"} {
		want := name == "true"
		outs := fb[fnBuildKey{name, 0}]
		okAll, n := true, 0
		why := ""
		for _, o := range outs {
			if !o.Accepted {
				continue
			}
			for _, fv := range w.funcFieldsOf(o) {
				if fv.Kind != avFunc {
					okAll, why = false, "the implementation is not a function value the builder makes in place"
					continue
				}
				n++
				// the implementation evaluated on unknown arguments must return the constant
				ai := w.newInterp(AHooks{})
				var args []AVal
				for range fv.Fn.Params {
					args = append(args, aUnknown(nil))
				}
				for _, ro := range ai.Exec(fv.Fn, args, fv.Bind, o.St.fork()) {
					if b, ok := ro.Ret.Bool(); !ok || b != want || ro.Panicked || ro.Cut {
						okAll, why = false, fmt.Sprintf("%s() evaluates to %s", name, ro.Ret.String())
					}
				}
			}
		}
		if n == 0 {
			okAll, why = false, "no implementation built for "+name+"()"
		}
		if okAll {
			r.ok("B-PRIM", "true/false:"+name, pos, name+"() evaluates to the constant "+name)
		} else {
			r.bad("B-PRIM", "true/false:"+name, pos, "true()/false() are not bound to the boolean constant of their own name: "+why)
		}
	}
}

func (w *World) checkBeforeAfterFlag(r *Report) {
	si := w.functionSwitch()
	if si == nil {
		return
	}
	for _, c := range si.Cases {
		isBA := false
		for _, l := range c.Labels {
			if l == "substring-after" {
				isBA = true
			}
		}
		if !isBA {
			continue
		}
		ok := false
		ast.Inspect(c.Clause, func(x ast.Node) bool {
			be, isB := x.(*ast.BinaryExpr)
			if isB && be.Op == token.EQL {
				if s, isS := w.constStr(be.Y); isS && s == "substring-after" {
					ok = true
				}
			}
			return true
		})
		// the implementations followed with the flag their build passes: every
		// non-constant result of substring-after is a suffix (a slice with a low
		// bound only), of substring-before a prefix (a high bound only)
		okSel := w.beforeAfterByInterp()
		if ok && okSel {
			r.ok("B-PRIM", "before/after-flag", w.pos(c.Clause.Pos()), "the suffix is selected exactly for substring-after")
		} else {
			r.bad("B-PRIM", "before/after-flag", w.pos(c.Clause.Pos()), fmt.Sprintf("substring-before/after are not distinguished correctly (flag is name==\"substring-after\": %v; flag selects the suffix: %v)", ok, okSel))
		}
		return
	}
}

// checkNumberConversion (C08-NAN): the to-number conversion never panics; each
// return is the float operand, a successfully parsed float, or NaN.
func (w *World) checkNumberConversion(r *Report, number string) {
	var fn *ssa.Function
	for _, f := range w.AllFuncs {
		if f.String() == number {
			fn = f
		}
	}
	if fn == nil {
		r.bad("ANCHOR", "C08-NAN", "", "to-number conversion not found")
		return
	}
	r.FuncsAnalysed[fnName(fn)] = true
	if p := hasPanic(fn); p != nil {
		r.bad("C08-NAN", fn.Name()+":nopanic", w.instrPos(p), "the to-number conversion panics")
	} else {
		r.ok("C08-NAN", fn.Name()+":nopanic", w.pos(fn.Pos()), "no panic")
	}
	okAll := true
	why := ""
	for _, b := range fn.Blocks {
		ret, ok := normalReturn(b)
		if !ok {
			continue
		}
		v := retVal(ret, 0)
		switch x := v.(type) {
		case *ssa.Call:
			if f := x.Call.StaticCallee(); f != nil && f.String() == "math.NaN" {
				continue
			}
			// a helper that yields only constants (a boolean's 1/0)
			if f := x.Call.StaticCallee(); f != nil && w.inPkg(f) && len(f.Blocks) > 0 {
				consts := true
				for _, hb := range f.Blocks {
					if hr, ok := normalReturn(hb); ok {
						for _, rv := range hr.Results {
							if _, isC := strip(rv).(*ssa.Const); !isC {
								consts = false
							}
						}
					}
				}
				if consts && hasPanic(f) == nil {
					continue
				}
			}
			okAll, why = false, "returns "+x.String()
		case *ssa.Extract:
			// parsed float under err == nil
			if c, ok := x.Tuple.(*ssa.Call); ok && c.Call.StaticCallee() != nil && c.Call.StaticCallee().String() == "strconv.ParseFloat" {
				errOK := false
				for _, u := range uses(c) {
					if e2, ok := u.(*ssa.Extract); ok && e2.Index == 1 && w.underNilTest(e2, b) {
						errOK = true
					}
				}
				if !errOK {
					okAll, why = false, "returns a parsed value without checking the parse error"
				}
				continue
			}
			if ta, ok := x.Tuple.(*ssa.TypeAssert); ok && isFloat64(ta.AssertedType) {
				continue
			}
			okAll, why = false, "returns "+x.String()
		case *ssa.Const:
			// boolean => 1 / 0
			continue
		case *ssa.Phi:
			continue
		default:
			okAll, why = false, fmt.Sprintf("returns %s", v)
		}
	}
	if okAll {
		r.ok("C08-NAN", fn.Name()+":returns", w.pos(fn.Pos()), "every return is the operand, a successfully parsed float, a boolean's 1/0 or NaN")
	} else {
		r.bad("C08-NAN", fn.Name()+":returns", w.pos(fn.Pos()), "the to-number conversion "+why)
	}
	// XPath defines number() for every value type: boolean must be handled
	got := map[string]bool{}
	eachInstr(fn, false, func(_ *ssa.Function, in ssa.Instruction) {
		if ta, ok := in.(*ssa.TypeAssert); ok && ta.X == ssa.Value(fn.Params[1]) {
			got[w.typeKey(ta.AssertedType)] = true
		}
	})
	var missing []string
	for _, k := range []string{"bool", "float64", "string", "query"} {
		if !got[k] {
			missing = append(missing, k)
		}
	}
	if len(missing) == 0 {
		r.ok("C08-NAN", fn.Name()+":types", w.pos(fn.Pos()), "converts booleans, numbers, strings and node-sets")
	} else {
		r.bad("C08-NAN", fn.Name()+":types", w.pos(fn.Pos()), fmt.Sprintf("the to-number conversion has no case for %v: XPath defines number(true()) = 1, here it falls through to NaN (true() + 1 is NaN)", missing))
	}
}

// ---------- B-ARGS ----------

// argIndexOf: which root.Args[j] a query value was built from (-1: a
// synthesised self step / context, -2: nil, -3: unknown, -4: all args in order).
func (w *World) argIndexOf(fn *ssa.Function, v ssa.Value, seen map[ssa.Value]bool) []int {
	v = strip(v)
	if seen[v] {
		return nil
	}
	seen[v] = true
	switch x := v.(type) {
	case *ssa.Const:
		if x.Value == nil {
			return []int{-2}
		}
	case *ssa.Phi:
		var out []int
		for i, e := range x.Edges {
			if w.argSite != nil && !w.edgeCompatible(fn, x.Block().Preds[i], x.Block(), w.argSite) {
				continue // this alternative belongs to a different function name than the call site
			}
			out = append(out, w.argIndexOf(fn, e, seen)...)
		}
		return out
	case *ssa.UnOp:
		if x.Op == token.MUL {
			if a := cellOf(x.X); a != nil {
				var out []int
				for _, st := range cellStores(a) {
					out = append(out, w.argIndexOf(fn, st.Val, seen)...)
				}
				if zeroReaches(a.Parent(), a, x) {
					out = append(out, -2)
				}
				return out
			}
			// element of the args slice being ranged over / indexed
			if ia, ok := x.X.(*ssa.IndexAddr); ok {
				if k, ok := constInt(ia.Index); ok {
					return []int{int(k)}
				}
				if isRangeIndex(ia.Index) {
					return []int{-4}
				}
			}
		}
	case *ssa.Extract:
		if c, ok := x.Tuple.(*ssa.Call); ok && x.Index == 0 && c.Call.StaticCallee() != nil && len(c.Call.Args) >= 2 {
			// builder call: its node argument
			return w.argIndexOf(fn, c.Call.Args[1], seen)
		}
	case *ssa.Call:
		if f := x.Call.StaticCallee(); f != nil {
			if g, err := w.grammar(); err == nil && f == g.NewAxis {
				if ax, _ := constString(x.Call.Args[0]); ax == "self" {
					// the context step must be self::node(): any-node type test, no name
					all, okAll := w.allNodeConst()
					tt, okT := constInt(x.Call.Args[1])
					n1, _ := constString(x.Call.Args[2])
					n2, _ := constString(x.Call.Args[3])
					if okAll && okT && tt == all && n1 == "" && n2 == "" {
						return []int{-1}
					}
					return []int{-5}
				}
			}
		}
		if b, ok := x.Call.Value.(*ssa.Builtin); ok && b.Name() == "append" {
			var out []int
			for _, a := range x.Call.Args {
				out = append(out, w.argIndexOf(fn, a, seen)...)
			}
			return out
		}
	case *ssa.Slice:
		return w.argIndexOf(fn, x.X, seen)
	case *ssa.Alloc:
		// varargs array: its stored elements
		var out []int
		for _, u := range uses(x) {
			if ia, ok := u.(*ssa.IndexAddr); ok {
				for _, uu := range uses(ia) {
					if st, ok := uu.(*ssa.Store); ok && st.Addr == ssa.Value(ia) {
						out = append(out, w.argIndexOf(fn, st.Val, seen)...)
					}
				}
			}
		}
		return out
	}
	return []int{-3}
}

func ruleBArgs(w *World, r *Report) {
	r.rule("B-ARGS", "for every function name the builder compares with and every argument count 0..4 the function builder is followed by constant propagation (absint.go), calls of the node dispatcher standing for \"the query built from that node\": the i-th query parameter of the factory receives the query built from the i-th argument expression (or, for an optional argument, nothing / the synthesised context step self::node()); variadic factories receive all arguments in order. B-ARITY: a parameter is left out only where XPath makes the argument optional")
	fb, br, err := w.functionBuilds()
	if err != nil {
		r.bad("ANCHOR", "B-ARGS", "", err.Error())
		return
	}
	r.FuncsAnalysed[fnName(br.FuncB)] = true
	all, okAll := w.allNodeConst()
	isCtxStep := func(tag string) (isSynth, good bool) {
		if !strings.HasPrefix(tag, "q:new:") {
			return false, false
		}
		good = strings.Contains(tag, `AxisType="self"`) && strings.Contains(tag, `LocalName=""`) && strings.Contains(tag, `Prefix=""`) && okAll && strings.Contains(tag, fmt.Sprintf("typeTest=%d}", all)) || strings.Contains(tag, fmt.Sprintf("typeTest=%d,", all)) && strings.Contains(tag, `AxisType="self"`) && strings.Contains(tag, `LocalName=""`) && strings.Contains(tag, `Prefix=""`)
		return true, good
	}
	type paramKey struct {
		fn *ssa.Function
		i  int
	}
	type paramInfo struct {
		name     string
		site     ssa.CallInstruction
		problems []string
		sources  map[string]bool
		omitted  bool
	}
	params := map[paramKey]*paramInfo{}
	var order []paramKey
	n := 0
	for _, name := range br.Names {
		if !w.relevantName(name) {
			continue
		}
		for cnt := 0; cnt <= 4; cnt++ {
			for _, o := range fb[fnBuildKey{name, cnt}] {
				if !o.Accepted {
					continue
				}
				for _, c := range o.Calls {
					qi := 0
					// more arguments than the factory has query parameters: beyond what
					// XPath allows for this function, outside every property's fragment
					nq := 0
					for i := 0; i < c.Fn.Signature.Params().Len(); i++ {
						if w.isQueryType(c.Fn.Signature.Params().At(i).Type()) {
							nq++
						}
					}
					if !c.Fn.Signature.Variadic() && cnt > nq {
						continue
					}
					for i, a := range c.Args {
						sig := c.Fn.Signature
						pt := sig.Params().At(min(i, sig.Params().Len()-1)).Type()
						isVariadic := sig.Variadic() && i == sig.Params().Len()-1
						if !w.isQueryType(pt) && !isVariadic {
							continue
						}
						k := paramKey{c.Fn, qi}
						pi := params[k]
						if pi == nil {
							pi = &paramInfo{name: name, site: c.Site, sources: map[string]bool{}}
							params[k] = pi
							order = append(order, k)
							n++
						}
						if isVariadic {
							elems, ok := o.St.elems(a)
							if !ok {
								pi.problems = append(pi.problems, "the variadic argument list is not a slice built from the arguments")
							} else {
								for j, e := range elems {
									if e.Tag != fmt.Sprintf("q:arg%d", j) {
										pi.problems = append(pi.problems, fmt.Sprintf("element %d of the variadic list is built from %s", j+1, describeTag(e)))
									}
								}
								if len(elems) != cnt {
									pi.problems = append(pi.problems, fmt.Sprintf("%d of %d arguments are passed on", len(elems), cnt))
								}
								pi.sources["all arguments in order"] = true
							}
							qi++
							continue
						}
						switch {
						case a.Tag == fmt.Sprintf("q:arg%d", qi):
							pi.sources[fmt.Sprintf("#%d", qi+1)] = true
						case a.Kind == avNil && cnt <= qi:
							pi.sources["nothing (optional)"] = true
							pi.omitted = true
						default:
							if synth, good := isCtxStep(a.Tag); synth && cnt <= qi {
								pi.omitted = true
								if good {
									pi.sources["the context step"] = true
								} else {
									pi.problems = append(pi.problems, "a synthesised step that is not self::node() (it drops context nodes that are not elements)")
								}
							} else {
								pi.problems = append(pi.problems, fmt.Sprintf("with %d argument(s) it receives %s", cnt, describeTag(a)))
							}
						}
						qi++
					}
				}
			}
		}
	}
	for _, k := range order {
		pi := params[k]
		key := fmt.Sprintf("%s:arg%d", k.fn.Name(), k.i+1)
		pos := w.instrPos(pi.site)
		if pi.omitted && len(pi.problems) == 0 && !w.optionalArgAllowed(k.fn, k.i) {
			r.bad("B-ARITY", key, pos, fmt.Sprintf("argument %d of %s may be omitted (the builder substitutes %s), but XPath requires it: an expression damaged by removing the argument still compiles", k.i+1, k.fn.Name(), strings.Join(sortedKeysStr(pi.sources), " | ")))
		} else if len(pi.problems) == 0 {
			r.ok("B-ARITY", key, pos, "required arguments cannot be omitted (arity test or index fault inside the recover)")
		}
		if w.curProp == "C17" {
			if len(pi.problems) > 0 {
				r.undec("B-ARITY", key, pos, "argument source not understood: "+strings.Join(dedup(pi.problems), "; "))
			}
			continue
		}
		if len(pi.problems) == 0 {
			r.ok("B-ARGS", key, pos, "built from argument expression "+strings.Join(sortedKeysStr(pi.sources), " | "))
		} else {
			r.bad("B-ARGS", key, pos, fmt.Sprintf("parameter %d of %s: %s: not the argument XPath prescribes for that position", k.i+1, k.fn.Name(), strings.Join(dedup(pi.problems), "; ")))
		}
	}
	need := 20
	if _, filtered := propFuncs[w.curProp]; filtered {
		need = 1 // only the factories of the functions this property covers are examined
	}
	if n < need {
		r.bad("B-ARGS", "sites", "", fmt.Sprintf("only %d factory arguments examined", n))
	}
}

func describeTag(a AVal) string {
	switch {
	case a.Kind == avNil:
		return "nothing"
	case strings.HasPrefix(a.Tag, "q:arg"):
		return "the query built from argument #" + strings.TrimPrefix(a.Tag, "q:arg") + " (counted from 0)"
	case strings.HasPrefix(a.Tag, "q:"):
		return "the query built from " + strings.TrimPrefix(a.Tag, "q:")
	case a.Tag != "":
		return a.Tag
	}
	return "a value of unknown origin"
}

func min(a, b int) int {
	if a < b {
		return a
	}
	return b
}

func dedupInts(s []int) []int {
	seen := map[int]bool{}
	var out []int
	for _, x := range s {
		if !seen[x] {
			seen[x] = true
			out = append(out, x)
		}
	}
	sort.Ints(out)
	return out
}

func describeIdx(idx []int) string {
	var p []string
	for _, j := range idx {
		switch j {
		case -1:
			p = append(p, "the context step")
		case -2:
			p = append(p, "nothing (optional)")
		case -3:
			p = append(p, "an unknown source")
		case -4:
			p = append(p, "all arguments in order")
		case -5:
			p = append(p, "a synthesised self step that is not self::node() (it drops context nodes that are not elements)")
		default:
			p = append(p, fmt.Sprintf("#%d", j+1))
		}
	}
	return strings.Join(p, " | ")
}

// optionalArgAllowed: XPath lets the i-th argument of the function(s) bound to
// this factory be omitted (name(), local-name(), namespace-uri(), string(),
// number(), normalize-space() apply to the context node; substring's length;
// concat is variadic).
func (w *World) optionalArgAllowed(f *ssa.Function, i int) bool {
	allowed := map[string][]int{"name": {0}, "local-name": {0}, "namespace-uri": {0}, "string": {0}, "number": {0}, "normalize-space": {0}, "substring": {2}, "concat": {0}, "string-length": {0}}
	for name, fs := range w.funcBindings() {
		for _, tf := range fs {
			if w.Prog.FuncValue(tf) == f {
				for _, j := range allowed[name] {
					if j == i {
						return true
					}
				}
			}
		}
	}
	return false
}

// edgeCompatible: the string facts (switch labels) that hold on the edge
// pred->blk are compatible with those that hold at block site.
func (w *World) edgeCompatible(fn *ssa.Function, pred, blk, site *ssa.BasicBlock) bool {
	keys := map[string]bool{}
	for _, b := range fn.Blocks {
		if k, _, ok := strTestOf(b); ok {
			keys[k] = true
		}
	}
	for key := range keys {
		atSite, k1 := possibleStrings(site, key, 0, map[*ssa.BasicBlock]bool{})
		if !k1 {
			continue
		}
		// on the edge
		var onEdge map[string]bool
		k2 := false
		if k, c, isTest := strTestOf(pred); isTest && k == key && pred.Succs[0] != pred.Succs[1] {
			if pred.Succs[0] == blk {
				onEdge, k2 = map[string]bool{c: true}, true
			} else {
				up, kn := possibleStrings(pred, key, 0, map[*ssa.BasicBlock]bool{})
				if kn {
					onEdge, k2 = map[string]bool{}, true
					for s := range up {
						if s != c {
							onEdge[s] = true
						}
					}
				}
			}
		} else {
			onEdge, k2 = possibleStrings(pred, key, 0, map[*ssa.BasicBlock]bool{})
		}
		if !k2 {
			continue
		}
		common := false
		for s := range onEdge {
			if atSite[s] {
				common = true
			}
		}
		if !common {
			return false
		}
	}
	return true
}

// resultProducer: the callee whose result is what the function returns.
var resultProducer = map[string]string{
	"contains": "strings.Contains", "starts-with": "strings.HasPrefix", "ends-with": "strings.HasSuffix",
	"matches": "(*regexp.Regexp).MatchString", "replace": "(*regexp.Regexp).ReplaceAllString",
	"lower-case": "strings.ToLower", "translate": "(*strings.Replacer).Replace", "string-join": "strings.Join",
	"floor": "math.Floor", "ceiling": "math.Ceil", "boolean": "@truth", "number": "@number", "string": "@string",
}

// resultFrom: v is a constant, the result of the producer, or (string-join)
// the string operand passed through; through MakeInterface / phis.
func (w *World) resultFrom(v ssa.Value, prod string, seen map[ssa.Value]bool) bool {
	v = strip(v)
	if seen[v] {
		return true
	}
	seen[v] = true
	switch x := v.(type) {
	case *ssa.Const:
		return true
	case *ssa.MakeInterface:
		return w.resultFrom(x.X, prod, seen)
	case *ssa.Phi:
		for _, e := range x.Edges {
			if !w.resultFrom(e, prod, seen) {
				return false
			}
		}
		return true
	case *ssa.Call:
		if f := x.Call.StaticCallee(); f != nil && f.String() == prod {
			return true
		}
	case *ssa.Extract:
		// string-join of a plain string returns it unchanged
		if ta, ok := x.Tuple.(*ssa.TypeAssert); ok && x.Index == 0 && prod == "strings.Join" {
			if b, ok := ta.AssertedType.(*types.Basic); ok && b.Kind() == types.String {
				return true
			}
		}
	case *ssa.UnOp:
		if a := cellOf(x.X); a != nil {
			for _, st := range cellStores(a) {
				if !w.resultFrom(st.Val, prod, seen) {
					return false
				}
			}
			return true
		}
	}
	return false
}

// primViaInterp: the closure a factory returns, followed with symbolic
// arguments (absint.go), returns on every completed path either a constant or
// prim(...) applied to the string/number values of the factory's arguments in
// the expected order (order: for each argument of prim the index of the
// factory argument it must come from, -1 = any).
func (w *World) primViaInterp(factory *ssa.Function, prim string, order []int) (bool, string) {
	if factory == nil {
		return false, ""
	}
	sel, ev := w.selectMethod(), w.evaluateMethod()
	var hooks AHooks
	hooks.Call = func(ai *AInterp, st *AState, site ssa.CallInstruction, callee *ssa.Function, args []AVal) (bool, AVal) {
		com := site.Common()
		if com.IsInvoke() && len(args) > 0 && args[0].Tag != "" {
			base := args[0].Tag
			idx := base[strings.Index(base, "arg"):]
			idx = strings.TrimSuffix(idx, ")")
			switch {
			case com.Method.Name() == ev && strings.HasPrefix(base, "q:"):
				return true, AVal{Kind: avUnknown, Tag: "val(" + idx + ")"}
			case com.Method.Name() == sel:
				return true, AVal{Kind: avUnknown, Tag: "node(" + idx + ")"}
			case strings.HasPrefix(base, "node("):
				return true, AVal{Kind: avUnknown, Tag: "str(" + idx + ")"}
			case w.isQueryType(com.Value.Type()) && strings.HasPrefix(base, "q:"):
				return true, AVal{Kind: avUnknown, Tag: base} // Clone() and the like
			}
		}
		if callee != nil && w.inPkg(callee) && callee.Signature.Recv() == nil && len(args) == 1 && strings.HasPrefix(args[0].Tag, "q:") && callee.Signature.Results().Len() == 1 && w.isQueryType(callee.Signature.Results().At(0).Type()) {
			return true, args[0] // the argument wrapper (a private clone of the argument query)
		}
		// the string conversion of a value
		if _, _, str := w.conversionFns(); callee != nil && callee.String() == str && len(args) == 2 && args[1].Tag != "" {
			idx := args[1].Tag[strings.Index(args[1].Tag, "arg"):]
			return true, AVal{Kind: avUnknown, Tag: "str(" + strings.TrimSuffix(idx, ")") + ")"}
		}
		return false, AVal{}
	}
	ai := w.newInterp(hooks)
	var fargs []AVal
	for i := range factory.Params {
		fargs = append(fargs, AVal{Kind: avUnknown, Tag: fmt.Sprintf("q:arg%d", i)})
	}
	n := 0
	for _, fo := range ai.Exec(factory, fargs, nil, w.initState()) {
		if fo.Cut || fo.Panicked || fo.Ret.Kind != avFunc {
			return false, ""
		}
		cl := fo.Ret
		var cargs []AVal
		for range cl.Fn.Params {
			cargs = append(cargs, aUnknown(nil))
		}
		for _, o := range ai.Exec(cl.Fn, cargs, cl.Bind, fo.St) {
			if o.Cut {
				return false, ""
			}
			if o.Panicked {
				continue // a typed complaint about an argument: judged by X-DELIB
			}
			if o.Ret.isConst() || o.Ret.Kind == avNil {
				continue
			}
			e := o.Ret.Expr
			if e == nil || e.Call != prim {
				return false, ""
			}
			for i, want := range order {
				if want < 0 || i >= len(e.Args) {
					continue
				}
				if !strings.HasSuffix(e.Args[i].Tag, fmt.Sprintf("(arg%d)", want)) {
					return false, ""
				}
			}
			n++
		}
	}
	if n == 0 {
		return false, ""
	}
	return true, fmt.Sprintf("followed with symbolic arguments, every non-constant result is %s(...) of the arguments in order (%d paths)", prim, n)
}

// beforeAfterByInterp follows the implementations bound to substring-before
// and substring-after, built with the arguments the function builder passes
// for each name, on symbolic strings.
func (w *World) beforeAfterByInterp() bool {
	fb, _, err := w.functionBuilds()
	if err != nil {
		return false
	}
	sel, ev := w.selectMethod(), w.evaluateMethod()
	_, _, strConv := w.conversionFns()
	var hooks AHooks
	hooks.Call = func(ai *AInterp, st *AState, site ssa.CallInstruction, callee *ssa.Function, args []AVal) (bool, AVal) {
		com := site.Common()
		if com.IsInvoke() && len(args) > 0 && args[0].Tag != "" {
			switch {
			case com.Method.Name() == ev && strings.HasPrefix(args[0].Tag, "q:"):
				return true, AVal{Kind: avUnknown, Tag: "val:" + args[0].Tag}
			case com.Method.Name() == sel:
				return true, AVal{Kind: avUnknown, Tag: "node:" + args[0].Tag}
			case strings.HasPrefix(args[0].Tag, "node:"):
				return true, AVal{Kind: avUnknown, Tag: "str:" + args[0].Tag}
			case w.isQueryType(com.Value.Type()) && strings.HasPrefix(args[0].Tag, "q:"):
				return true, args[0]
			}
		}
		if callee != nil && w.inPkg(callee) && callee.Signature.Recv() == nil && len(args) == 1 && strings.HasPrefix(args[0].Tag, "q:") && callee.Signature.Results().Len() == 1 && w.isQueryType(callee.Signature.Results().At(0).Type()) {
			return true, args[0]
		}
		if callee != nil && callee.String() == strConv && len(args) == 2 {
			return true, AVal{Kind: avUnknown, Tag: "str:" + args[1].Tag}
		}
		return false, AVal{}
	}
	judge := func(name string, wantSuffix bool) bool {
		n := 0
		for _, o := range fb[fnBuildKey{name, 2}] {
			if !o.Accepted || o.Result.Kind != avPtr {
				continue
			}
			// the factory call that produced the function of the built query
			for _, fc := range o.Calls {
				ai := w.newInterp(hooks)
				for _, fo := range ai.Exec(fc.Fn, fc.Args, nil, w.initState()) {
					if fo.Cut || fo.Panicked || fo.Ret.Kind != avFunc {
						return false
					}
					var cargs []AVal
					for range fo.Ret.Fn.Params {
						cargs = append(cargs, aUnknown(nil))
					}
					for _, co := range ai.Exec(fo.Ret.Fn, cargs, fo.Ret.Bind, fo.St) {
						if co.Cut {
							return false
						}
						if co.Panicked || co.Ret.isConst() || co.Ret.Kind == avNil {
							continue
						}
						e := co.Ret.Expr
						if os.Getenv("XPDEBUG") != "" {
							fmt.Println("before/after", name, co.Ret.String(), co.Ret.Tag)
						}
						if e == nil || e.Call != "slice" || len(e.Args) != 3 {
							return false
						}
						lowSet, highSet := e.Args[1].Kind != avNil, e.Args[2].Kind != avNil
						if wantSuffix && !(lowSet && !highSet) || !wantSuffix && !(!lowSet && highSet) {
							return false
						}
						n++
					}
				}
			}
		}
		return n > 0
	}
	return judge("substring-after", true) && judge("substring-before", false)
}

// emptySetByInterp: the implementation bound to a name function, built with
// one argument and followed with that argument selecting nothing, returns the
// empty string on every path.
func (w *World) emptySetByInterp(name string) bool {
	fb, _, err := w.functionBuilds()
	if err != nil {
		return false
	}
	sel := w.selectMethod()
	var hooks AHooks
	hooks.Call = func(ai *AInterp, st *AState, site ssa.CallInstruction, callee *ssa.Function, args []AVal) (bool, AVal) {
		com := site.Common()
		if com.IsInvoke() && len(args) > 0 && strings.HasPrefix(args[0].Tag, "q:") {
			if com.Method.Name() == sel {
				return true, AVal{Kind: avNil} // the argument selects nothing
			}
			if w.isQueryType(com.Value.Type()) && com.Signature().Results().Len() == 1 && w.isQueryType(com.Signature().Results().At(0).Type()) {
				return true, args[0] // Clone() and the like
			}
		}
		if callee != nil && w.inPkg(callee) && callee.Signature.Recv() == nil && len(args) == 1 && strings.HasPrefix(args[0].Tag, "q:") && callee.Signature.Results().Len() == 1 && w.isQueryType(callee.Signature.Results().At(0).Type()) {
			return true, args[0]
		}
		return false, AVal{}
	}
	n := 0
	for _, o := range fb[fnBuildKey{name, 1}] {
		if !o.Accepted {
			continue
		}
		for _, fc := range o.Calls {
			ai := w.newInterp(hooks)
			st0 := w.initState()
			// the argument queries are there (not nil): objects the hooks answer for
			var fargs []AVal
			for _, a := range fc.Args {
				if strings.HasPrefix(a.Tag, "q:") {
					ob := st0.newObj(nil, nil)
					ob.Extern = true
					a = AVal{Kind: avPtr, Obj: ob, Field: -1, Tag: a.Tag}
				}
				fargs = append(fargs, a)
			}
			for _, fo := range ai.Exec(fc.Fn, fargs, nil, st0) {
				if fo.Cut || fo.Panicked || fo.Ret.Kind != avFunc {
					return false
				}
				var cargs []AVal
				for range fo.Ret.Fn.Params {
					cargs = append(cargs, AVal{Kind: avUnknown, Tag: "param"})
				}
				for _, co := range ai.Exec(fo.Ret.Fn, cargs, fo.Ret.Bind, fo.St) {
					if co.Cut {
						return false
					}
					if co.Panicked {
						continue
					}
					if s, ok := co.Ret.Str(); !ok || s != "" {
						return false
					}
					n++
				}
			}
		}
	}
	return n > 0
}
