package main

// G-PATH — a path separator is followed by a step.
//
// The parser below the '|' level (path expression, location path, relative
// location path, filter expression, primary expression) is followed by
// constant propagation on token streams [X, sep, T, end] and [sep, T, end];
// the step parser and the expression entry are replaced by "consumes one token
// and yields a node". On every completed path, every consumption of a '/' or
// '//' token must be followed by a call of the step parser (or the path must
// panic): otherwise the tokens after the separator are dropped ("/@id" is
// compiled as "/"), or an expression cut after a separator is accepted
// ("(//a)/"). The one exception XPath makes is the lone leading '/', which may
// stand alone when the next token cannot start a step; which tokens can start
// a step is read off the step parser itself.

import (
	"fmt"
	"go/types"
	"sort"

	"golang.org/x/tools/go/ssa"
)

type pathOutcome struct {
	Panicked, Cut bool
	Events        []pathEvent
	Ret           AVal
}

type pathEvent struct {
	Kind string // "sep", "step", "expr"
	Tok  int64
	Pos  int // stream position of the token current when the event happened
}

// pathEntry: the function that parses the operands of the last operator level.
func (w *World) pathEntry(g *Grammar) (entry *ssa.Function, exprEntry *ssa.Function) {
	fn := g.EntryLevel
	seen := map[*ssa.Function]bool{}
	for fn != nil && !seen[fn] {
		seen[fn] = true
		lv := g.levelShape(w, fn)
		if lv == nil {
			break
		}
		fn = lv.Operand
	}
	if fn == nil || fn == g.EntryLevel {
		return nil, nil
	}
	// the expression entry: the node parser(s) calling the first level that are not levels
	for _, f := range w.AllFuncs {
		if !g.isNodeParser(f) || seen[f] {
			continue
		}
		if calleesOf(f)[g.EntryLevel] || passesAsValue(f, g.EntryLevel) {
			exprEntry = f
		}
	}
	return fn, exprEntry
}

func (w *World) runPath(g *Grammar, entry, step, expr *ssa.Function, stream []tokSpec) []pathOutcome {
	sf := w.scannerFieldIdx(g)
	scannerField := -1
	pst := g.ParserT.Underlying().(*types.Struct)
	for i := 0; i < pst.NumFields(); i++ {
		if p, ok := pst.Field(i).Type().(*types.Pointer); ok && types.Identical(p.Elem(), g.ScannerT) {
			scannerField = i
		}
	}
	var scObj *AObj
	advance := func(st *AState) {
		o := st.obj(scObj)
		pos := 0
		if k, ok := o.Fields[streamPos].Int(); ok {
			pos = int(k)
		}
		pos++
		o.Fields[streamPos] = aInt(int64(pos))
		if pos < len(stream) {
			w.setToken(st, scObj, sf, stream[pos])
		} else {
			w.setToken(st, scObj, sf, tokSpec{Unknown: true})
		}
	}
	cur := func(st *AState) (int64, int) {
		o := st.obj(scObj)
		pos := 0
		if k, ok := o.Fields[streamPos].Int(); ok {
			pos = int(k)
		}
		if pos < len(stream) && !stream[pos].Unknown {
			return stream[pos].Tok, pos
		}
		return -1, pos
	}
	var hooks AHooks
	hooks.Call = func(ai *AInterp, st *AState, site ssa.CallInstruction, callee *ssa.Function, args []AVal) (bool, AVal) {
		if callee == nil {
			return false, AVal{}
		}
		if callee == g.NewAxis && len(args) >= 4 {
			ax, _ := args[0].Str()
			tt, okT := args[1].Int()
			ln, _ := args[2].Str()
			px, _ := args[3].Str()
			if !okT {
				tt = -1
			}
			st.Trace = append(st.Trace, AEvent{Kind: "axis", Name: fmt.Sprintf("%s|%d|%s|%s", ax, tt, ln, px)})
			return false, AVal{}
		}
		switch {
		case callee == g.NextItem:
			k, pos := cur(st)
			st.Trace = append(st.Trace, AEvent{Kind: "tok", Name: fmt.Sprintf("%d@%d", k, pos)})
			advance(st)
			return true, aUnknown(nil)
		case callee == step:
			k, pos := cur(st)
			st.Trace = append(st.Trace, AEvent{Kind: "step", Name: fmt.Sprintf("%d@%d", k, pos)})
			advance(st)
			return true, AVal{Kind: avUnknown, Tag: "node:step"}
		case callee == expr:
			k, pos := cur(st)
			st.Trace = append(st.Trace, AEvent{Kind: "expr", Name: fmt.Sprintf("%d@%d", k, pos)})
			advance(st)
			return true, AVal{Kind: avUnknown, Tag: "node:expr"}
		}
		return false, AVal{}
	}
	ai := w.newInterp(hooks)
	ai.MaxVisits = 5
	ai.MaxDepth = 8
	st := w.initState()
	scObj = st.externObj(g.ScannerT, nil)
	scObj.Fields[streamPos] = aInt(0)
	w.setToken(st, scObj, sf, stream[0])
	p := st.externObj(g.ParserT, nil)
	if scannerField >= 0 {
		p.Fields[scannerField] = AVal{Kind: avPtr, Obj: scObj, Field: -1}
	}
	var res []pathOutcome
	for _, o := range ai.Exec(entry, []AVal{{Kind: avPtr, Obj: p, Field: -1}, {Kind: avUnknown, Tag: "n"}}, nil, st) {
		po := pathOutcome{Panicked: o.Panicked, Cut: o.Cut, Ret: o.Ret}
		for _, ev := range o.St.Trace {
			switch ev.Kind {
			case "axis":
				po.Events = append(po.Events, pathEvent{Kind: "axis:" + ev.Name})
			case "tok", "step", "expr":
				var k int64
				var pos int
				fmt.Sscanf(ev.Name, "%d@%d", &k, &pos)
				kind := ev.Kind
				if kind == "tok" {
					kind = "consume"
				}
				po.Events = append(po.Events, pathEvent{Kind: kind, Tok: k, Pos: pos})
			}
		}
		res = append(res, po)
	}
	return res
}

func ruleGPath(w *World, r *Report) {
	r.rule("G-PATH", "constant propagation through the parser below the '|' level on token streams [X, sep, T] and [sep, T]: every consumed '/' or '//' is followed by a call of the step parser (or a panic), except a lone leading '/' before a token that cannot start an XPath 1.0 step ('.', '..', '@', axis name, name test: those of them the step parser accepts)")
	g, err := w.grammar()
	if err != nil {
		r.bad("ANCHOR", "G-PATH", "", err.Error())
		return
	}
	entry, expr := w.pathEntry(g)
	step := w.stepParser(g)
	t := w.stepTokens(g)
	slash, dslash := g.tokOfText("/"), g.tokOfText("//")
	eof, okE := g.eofTok()
	if entry == nil || step == nil || !t.ok || slash < 0 || dslash < 0 || !okE {
		r.bad("ANCHOR", "G-PATH", "", "path-expression parser, step parser or the separator tokens not found")
		return
	}
	r.FuncsAnalysed[fnName(entry)] = true
	pos := w.pos(entry.Pos())
	var toks []int64
	for k := range g.TokNames {
		toks = append(toks, k)
	}
	sort.Slice(toks, func(i, j int) bool { return toks[i] < toks[j] })
	spec := func(k int64) tokSpec {
		switch k {
		case t.name:
			return tokSpec{Tok: k, Name: "x"}
		case t.axe:
			return tokSpec{Tok: k, Name: "child"}
		}
		return tokSpec{Tok: k, Keep: true}
	}
	// tokens that can start a step: the step parser has a path that does not panic
	starter := map[int64]bool{}
	for _, k := range toks {
		for _, o := range w.runStep(g, step, []tokSpec{spec(k)}, nil, false) {
			if !o.Cut && !o.Panicked {
				starter[k] = true
			}
		}
	}
	if !starter[t.name] || !starter[t.at] || starter[eof] {
		r.undec("G-PATH", "starters", pos, "the set of tokens that can start a step could not be read off the step parser")
		return
	}
	// XPath 1.0: a step starts with '.', '..', '@', an axis name or a name test.
	// Anything else the step parser accepts is an extension of this library
	// (a parenthesised sequence in step position): after a leading '/' it is
	// not required to be taken as a step.
	spec10 := map[int64]bool{t.dot: true, t.dotdot: true, t.at: true, t.axe: true, t.star: true, t.name: true}
	for k := range starter {
		if !spec10[k] {
			delete(starter, k)
		}
	}
	// atoms: tokens X that the path-expression parser consumes as a complete primary expression
	var atoms []int64
	for _, k := range toks {
		if k == slash || k == dslash || k == eof {
			continue
		}
		for _, o := range w.runPath(g, entry, step, expr, []tokSpec{spec(k), {Tok: eof, Keep: true}}) {
			if o.Cut || o.Panicked {
				continue
			}
			primary := len(o.Events) > 0
			for _, e := range o.Events {
				if e.Kind != "consume" {
					primary = false
				}
			}
			if primary {
				atoms = append(atoms, k)
				break
			}
		}
	}
	firsts := []tokSpec{{Tok: t.name, Name: "x"}} // a step
	if len(atoms) > 0 {
		firsts = append(firsts, spec(atoms[0])) // a primary expression
	}
	nRuns, nSeps := 0, 0
	var bad []string
	undecided := ""
	judge := func(stream []tokSpec, what string, leading bool, next int64) {
		outs := w.runPath(g, entry, step, expr, stream)
		if len(outs) == 0 {
			undecided = what + ": not followed"
			return
		}
		for _, o := range outs {
			if o.Cut {
				undecided = what + ": a path was cut"
				return
			}
			nRuns++
			if o.Panicked {
				continue
			}
			for i, e := range o.Events {
				if e.Kind != "consume" || (e.Tok != slash && e.Tok != dslash) {
					continue
				}
				nSeps++
				followed := false
				for _, e2 := range o.Events[i+1:] {
					if e2.Kind == "step" {
						followed = true
					}
				}
				if followed {
					continue
				}
				if leading && e.Pos == 0 && e.Tok == slash && !starter[next] {
					continue // the lone root path
				}
				bad = append(bad, what)
			}
		}
	}
	for _, sep := range []int64{slash, dslash} {
		for _, k := range toks {
			if k == slash || k == dslash {
				continue
			}
			tn := g.tokName(k)
			judge([]tokSpec{{Tok: sep, Keep: true}, spec(k), {Tok: eof, Keep: true}}, fmt.Sprintf("%q then %s", g.tokTextOf(sep), tn), true, k)
			for fi, f := range firsts {
				kind := "a step"
				if fi == 1 {
					kind = "a primary expression"
				}
				judge([]tokSpec{f, {Tok: sep, Keep: true}, spec(k), {Tok: eof, Keep: true}}, fmt.Sprintf("%s, %q, then %s", kind, g.tokTextOf(sep), tn), false, k)
			}
		}
	}
	switch {
	case undecided != "":
		r.undec("G-PATH", "separator-step", pos, "the path parser could not be followed ("+undecided+")")
	case nSeps == 0:
		r.undec("G-PATH", "separator-step", pos, "no separator token was consumed on any followed path")
	case len(bad) > 0:
		r.bad("G-PATH", "separator-step", pos, fmt.Sprintf("after a path separator no step is parsed, the rest of the expression is dropped or a cut expression is accepted: %v", dedup(bad)))
	default:
		r.ok("G-PATH", "separator-step", pos, fmt.Sprintf("%d paths on %d token kinds, %d separator consumptions each followed by the step parser (lone leading '/' excepted); step starters %v", nRuns, len(toks), nSeps, tokNames(g, starter)))
	}
}

func tokNames(g *Grammar, m map[int64]bool) []string {
	var out []string
	for k := range m {
		out = append(out, g.tokName(k))
	}
	sort.Strings(out)
	return out
}

func (g *Grammar) tokTextOf(k int64) string {
	for t, v := range g.TextTok {
		if v == k {
			return t
		}
	}
	return g.tokName(k)
}

// dslashExpansion: in each grammatical position of `//` (leading, between two
// steps, after a primary expression) every completed path that consumed the
// `//` token builds descendant-or-self::node() before it parses the next step.
func (w *World) dslashExpansion(r *Report, g *Grammar, all int64) {
	entry, expr := w.pathEntry(g)
	step := w.stepParser(g)
	t := w.stepTokens(g)
	dslash := g.tokOfText("//")
	eof, okE := g.eofTok()
	if entry == nil || step == nil || !t.ok || dslash < 0 || !okE {
		r.bad("ANCHOR", "G-ABBREV:sites", "", "path-expression parser or the `//` token not found")
		return
	}
	pos := w.pos(entry.Pos())
	want := fmt.Sprintf("axis:descendant-or-self|%d||", all)
	name := tokSpec{Tok: t.name, Name: "x"}
	// a token the path parser takes as a complete primary expression
	var prim *tokSpec
	var toks []int64
	for k := range g.TokNames {
		toks = append(toks, k)
	}
	sort.Slice(toks, func(i, j int) bool { return toks[i] < toks[j] })
	for _, k := range toks {
		if k == eof || k == dslash || k == g.tokOfText("/") || prim != nil {
			continue
		}
		for _, o := range w.runPath(g, entry, step, expr, []tokSpec{{Tok: k, Keep: true}, {Tok: eof, Keep: true}}) {
			if o.Cut || o.Panicked || len(o.Events) == 0 {
				continue
			}
			onlyConsume := true
			for _, e := range o.Events {
				if e.Kind != "consume" {
					onlyConsume = false
				}
			}
			if onlyConsume {
				ts := tokSpec{Tok: k, Keep: true}
				prim = &ts
			}
		}
	}
	positions := map[string][]tokSpec{
		"leading":       {{Tok: dslash, Keep: true}, name, {Tok: eof, Keep: true}},
		"between steps": {name, {Tok: dslash, Keep: true}, name, {Tok: eof, Keep: true}},
	}
	if prim != nil {
		positions["after a primary expression"] = []tokSpec{*prim, {Tok: dslash, Keep: true}, name, {Tok: eof, Keep: true}}
	}
	var names []string
	for n := range positions {
		names = append(names, n)
	}
	sort.Strings(names)
	for _, pn := range names {
		key := "sites://:" + pn
		outs := w.runPath(g, entry, step, expr, positions[pn])
		n, bad, cut := 0, "", false
		for _, o := range outs {
			if o.Cut {
				cut = true
				continue
			}
			if o.Panicked {
				continue
			}
			for i, e := range o.Events {
				if e.Kind != "consume" || e.Tok != dslash {
					continue
				}
				n++
				found := false
				for _, e2 := range o.Events[i+1:] {
					if e2.Kind == "step" {
						break
					}
					if e2.Kind == want {
						found = true
					}
				}
				if !found {
					bad = fmt.Sprintf("`//` %s is consumed without descendant-or-self::node() being built before the next step: it is read as a plain `/`", pn)
				}
			}
		}
		switch {
		case bad != "":
			r.bad("G-ABBREV", key, pos, bad)
		case cut || n == 0:
			r.undec("G-ABBREV", key, pos, "the path parser could not be followed for `//` "+pn)
		default:
			r.ok("G-ABBREV", key, pos, "`//` "+pn+" => descendant-or-self::node() before the next step")
		}
	}
	// and the converse: a plain `/` builds nothing between two steps, also when a
	// `//` came earlier in the same path (a//b/c is not a//b//c)
	slash := g.tokOfText("/")
	if slash < 0 {
		return
	}
	plain := map[string][]tokSpec{
		"between steps":       {name, {Tok: slash, Keep: true}, name, {Tok: eof, Keep: true}},
		"after an earlier //": {name, {Tok: dslash, Keep: true}, name, {Tok: slash, Keep: true}, name, {Tok: eof, Keep: true}},
	}
	for _, pn := range []string{"after an earlier //", "between steps"} {
		key := "sites:/:" + pn
		n, bad, cut := 0, "", false
		for _, o := range w.runPath(g, entry, step, expr, plain[pn]) {
			if o.Cut {
				cut = true
				continue
			}
			if o.Panicked {
				continue
			}
			for i, e := range o.Events {
				if e.Kind != "consume" || e.Tok != slash {
					continue
				}
				n++
				for _, e2 := range o.Events[i+1:] {
					if e2.Kind == "step" {
						break
					}
					if e2.Kind == want {
						bad = fmt.Sprintf("a plain `/` %s builds descendant-or-self::node() before the next step: it is read as `//` (a//b/c selects the c descendants of b, not its c children)", pn)
					}
				}
			}
		}
		switch {
		case bad != "":
			r.bad("G-ABBREV", key, pos, bad)
		case cut || n == 0:
			r.undec("G-ABBREV", key, pos, "the path parser could not be followed for `/` "+pn)
		default:
			r.ok("G-ABBREV", key, pos, "`/` "+pn+" => the next step directly")
		}
	}
}

// passesAsValue: f makes a method value (or function value) of target and hands
// it to a call (`p.nested(p.parseOrExpr, n)`).
func passesAsValue(f, target *ssa.Function) bool {
	found := false
	eachInstr(f, false, func(_ *ssa.Function, in ssa.Instruction) {
		c, ok := in.(ssa.CallInstruction)
		if !ok {
			return
		}
		for _, a := range c.Common().Args {
			switch x := a.(type) {
			case *ssa.MakeClosure:
				if bf, ok := x.Fn.(*ssa.Function); ok && bf.Object() != nil && target.Object() != nil && bf.Object() == target.Object() {
					found = true
				}
			case *ssa.Function:
				if x == target {
					found = true
				}
			}
		}
	})
	return found
}
