package main

// N-UNCHECKED — the outcome of a cursor move is not thrown away.
//
// The moving methods of NodeNavigator that report success (MoveToChild,
// MoveToNext, MoveToParent, ...) leave the cursor where it was when they
// fail. An iterator that discards the result and goes on to test or return
// the cursor treats the node it started from as the node it wanted to move to
// (a leaf handed out as its own descendant). The package checks these results
// everywhere but at a handful of sites; each such site must be one of:
//   - MoveToParent next to a decrement of a depth counter (the counter says a
//     parent exists: the level arithmetic is N-DEPTH's business);
//   - a positioning move, whose failure means "already there": MoveToRoot,
//     MoveToFirst, and MoveTo(saved position) (the restore discipline of the
//     context cursor is N-RESTORE's business).
// The directional moves, whose failure means "there is no such node", are
// MoveToChild, MoveToNext, MoveToPrevious, MoveToParent, MoveToNextAttribute.
// The rule covers helper functions that merely hand a move's result on.

import (
	"fmt"
	"go/token"
	"go/types"
	"os"

	"golang.org/x/tools/go/ssa"
)

// moveResultHelper: a package function with one bool result every returned
// value of which is a constant or derives from the result of a cursor move.
func (w *World) moveResultHelper(fn *ssa.Function, seen map[*ssa.Function]bool) bool {
	if fn == nil || len(fn.Blocks) == 0 || seen[fn] || !w.inPkg(fn) {
		return false
	}
	res := fn.Signature.Results()
	if res.Len() != 1 {
		return false
	}
	if b, ok := res.At(0).Type().Underlying().(*types.Basic); !ok || b.Kind() != types.Bool {
		return false
	}
	seen[fn] = true
	hasMove := false
	eachInstr(fn, false, func(_ *ssa.Function, in ssa.Instruction) {
		if c, ok := in.(ssa.CallInstruction); ok {
			if _, m, class, ok := w.isNavCall(c); ok && class == "move" && directionalMoves[m] {
				hasMove = true
			}
		}
	})
	if !hasMove {
		return false
	}
	okAll := true
	var fromMove func(v ssa.Value, d int) bool
	fromMove = func(v ssa.Value, d int) bool {
		if d > 6 {
			return false
		}
		switch x := strip(v).(type) {
		case *ssa.Const:
			return true
		case *ssa.Phi:
			for _, e := range x.Edges {
				if !fromMove(e, d+1) {
					return false
				}
			}
			return true
		case *ssa.UnOp:
			if x.Op == token.NOT {
				return fromMove(x.X, d+1)
			}
		case *ssa.Call:
			if _, m, class, ok := w.isNavCall(x); ok && class == "move" && directionalMoves[m] {
				return true
			}
			if f := x.Call.StaticCallee(); f != nil {
				return w.moveResultHelper(f, seen)
			}
		}
		return false
	}
	for _, b := range fn.Blocks {
		if ret, ok := normalReturn(b); ok && len(ret.Results) == 1 {
			if !fromMove(ret.Results[0], 0) {
				okAll = false
			}
		}
	}
	return okAll
}

var directionalMoves = map[string]bool{"MoveToChild": true, "MoveToNext": true, "MoveToPrevious": true, "MoveToParent": true, "MoveToNextAttribute": true}

func ruleNUnchecked(w *World, r *Report) {
	r.rule("N-UNCHECKED", "in run-time code the boolean outcome of a directional cursor move (MoveToChild, MoveToNext, MoveToPrevious, MoveToParent, MoveToNextAttribute, or a package function that hands such an outcome on) is used; it may be discarded only for MoveToParent next to the decrement of a depth counter (a parent is known to exist); and from the failure edge of such a move the node test or a return of the cursor is not reached without a further move of that cursor. A discarded outcome means the code that follows treats the node the cursor started from as the node it was to move to")
	n, dropped := 0, 0
	for _, fn := range w.AllFuncs {
		if !w.RunTime[fn] {
			continue
		}
		for _, b := range fn.Blocks {
			for _, in := range b.Instrs {
				c, ok := in.(*ssa.Call)
				if !ok {
					continue
				}
				name := ""
				if _, m, class, ok := w.isNavCall(c); ok && class == "move" && directionalMoves[m] {
					if tup := c.Type(); tup != nil {
						if bt, ok := tup.Underlying().(*types.Basic); ok && bt.Kind() == types.Bool {
							name = m
						}
					}
				} else if f := c.Call.StaticCallee(); f != nil && w.moveResultHelper(f, map[*ssa.Function]bool{}) {
					name = f.Name()
				}
				if name == "" {
					continue
				}
				n++
				if len(*c.Referrers()) > 0 {
					continue
				}
				dropped++
				r.FuncsAnalysed[fnName(fn)] = true
				key := fmt.Sprintf("%s:%s", fnName(fn), name)
				if name == "MoveToParent" && decrementNearby(b) {
					r.ok("N-UNCHECKED", key, w.instrPos(in), "MoveToParent beside the decrement of a depth counter: a parent exists (N-DEPTH)")
					continue
				}
				r.bad("N-UNCHECKED", key, w.instrPos(in), fmt.Sprintf("the outcome of %s is discarded: when the move fails the cursor is still on the node it started from, and the code that follows tests or returns that node as if the move had happened (a node without children is handed out as its own descendant)", name))
			}
		}
	}
	// the outcome looked at, but a failed move still treated as done: from the
	// failure edge of a directional move of cursor c, the node test or a return
	// of c is reached without any further move of c in between
	for _, fn := range w.AllFuncs {
		if !w.RunTime[fn] {
			continue
		}
		type mv struct {
			call *ssa.Call
			key  string
			name string
		}
		var moves []mv
		for _, b := range fn.Blocks {
			for _, in := range b.Instrs {
				c, ok := in.(*ssa.Call)
				if !ok {
					continue
				}
				if recv, m, class, ok := w.isNavCall(c); ok && class == "move" && directionalMoves[m] && !w.isContextRegister(c.Call.Value) {
					moves = append(moves, mv{c, cursorKey(recv), m})
				} else if f := c.Call.StaticCallee(); f != nil && w.moveResultHelper(f, map[*ssa.Function]bool{}) {
					// the cursor the helper moves
					hk := ""
					eachInstr(f, false, func(_ *ssa.Function, in2 ssa.Instruction) {
						if c2, ok := in2.(*ssa.Call); ok {
							if recv, m, class, ok := w.isNavCall(c2); ok && class == "move" && directionalMoves[m] {
								hk = cursorKey(recv)
								// the cursor is one of the helper's parameters: the caller's argument
								if p, isP := strip(recv).(*ssa.Parameter); isP {
									for i, q := range f.Params {
										if q == p && i < len(c.Call.Args) {
											hk = cursorKey(c.Call.Args[i])
										}
									}
								}
							}
						}
					})
					if hk != "" {
						moves = append(moves, mv{c, hk, f.Name()})
					}
				}
			}
		}
		if os.Getenv("XPDEBUG") == "unchecked" && len(moves) > 0 {
			for _, m := range moves {
				_, _, ok := falseEdgeOf(m.call)
				fmt.Printf("  %s: move %s key=%s tested=%v at %s\n", fnName(fn), m.name, m.key, ok, w.instrPos(m.call))
			}
		}
		for _, m := range moves {
			fb, fidx, ok := falseEdgeOf(m.call)
			if !ok {
				continue
			}
			// barriers: any move of the same cursor (its success edge, or the call
			// itself when its outcome is not tested)
			trueEdge := map[*ssa.BasicBlock]map[int]bool{}
			barrierInstr := map[ssa.Instruction]bool{}
			for _, o := range moves {
				if o.key != m.key {
					continue
				}
				if bb, i, ok := falseEdgeOf(o.call); ok {
					if trueEdge[bb] == nil {
						trueEdge[bb] = map[int]bool{}
					}
					trueEdge[bb][1-i] = true
				} else {
					barrierInstr[o.call] = true
				}
			}
			start := fb.Succs[fidx]
			seen := map[*ssa.BasicBlock]bool{start: true}
			work := []*ssa.BasicBlock{start}
			var stale ssa.Instruction
			for len(work) > 0 && stale == nil {
				b := work[len(work)-1]
				work = work[:len(work)-1]
				stopped := false
				for _, in := range b.Instrs {
					if barrierInstr[in] {
						stopped = true
						break
					}
					// the cursor variable is given a new navigator: what follows is about that one
					if st, ok := in.(*ssa.Store); ok && w.isNavType(st.Val.Type()) && cursorKeyOfAddr(st.Addr) == m.key {
						stopped = true
						break
					}
					switch x := in.(type) {
					case *ssa.Call:
						// the node test applied to the cursor: a call through a function value
						// (or of a predicate-typed function) with the cursor as its argument
						isMove := false
						for _, o := range moves {
							if o.call == x {
								isMove = true
							}
						}
						if !isMove && !x.Call.IsInvoke() && len(x.Call.Args) >= 1 && w.isPredicateFuncType(x.Call.Value.Type()) {
							if cursorKey(x.Call.Args[len(x.Call.Args)-1]) == m.key {
								stale = in
							}
						}
					case *ssa.Return:
						for _, rv := range x.Results {
							if w.isNavType(rv.Type()) && cursorKey(rv) == m.key {
								stale = in
							}
						}
					}
					if stale != nil {
						break
					}
				}
				if stopped || stale != nil {
					continue
				}
				for i, sc := range b.Succs {
					if trueEdge[b][i] || seen[sc] {
						continue
					}
					seen[sc] = true
					work = append(work, sc)
				}
			}
			key := fmt.Sprintf("%s:%s:stale", fnName(fn), m.name)
			if stale != nil {
				r.FuncsAnalysed[fnName(fn)] = true
				r.bad("N-UNCHECKED", key, w.instrPos(m.call), fmt.Sprintf("when %s fails the cursor has not moved, yet the node test / the result at %s uses it as the node moved to (a node without children is handed out as its own descendant)", m.name, w.instrPos(stale)))
			}
		}
	}
	if n == 0 {
		r.undec("N-UNCHECKED", "sites", "", "no cursor move with a boolean outcome found in run-time code")
	} else {
		r.ok("N-UNCHECKED", "census", "", fmt.Sprintf("%d cursor moves with a boolean outcome examined, %d with the outcome discarded", n, dropped))
	}
}

// decrementNearby: the block, or a block next to it, subtracts one from an integer.
func decrementNearby(b *ssa.BasicBlock) bool {
	blocks := append([]*ssa.BasicBlock{b}, b.Succs...)
	blocks = append(blocks, b.Preds...)
	for _, x := range blocks {
		for _, in := range x.Instrs {
			bo, ok := in.(*ssa.BinOp)
			if !ok {
				continue
			}
			if k, ok := constInt(bo.Y); ok && (bo.Op == token.SUB && k == 1 || bo.Op == token.ADD && k == -1) {
				return true
			}
		}
	}
	return false
}
