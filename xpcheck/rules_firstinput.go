package main

// B-STEPREF (C03): the builder's record of "the step this predicate filters"
// survives the building of the predicate's own parts.
//
// position() and last() count among the candidates of the step the predicate
// is applied to; the builder hands them that step from a scratch field that the
// node dispatcher sets when it builds a step. In `b[position() = last()]` two
// functions (and an operator) are built one after the other inside the same
// predicate: building a function, an operator or a constant must leave the
// field alone, or the second function counts among something else (all
// siblings, whatever their name). The dispatcher is followed by constant
// propagation for a node of each of those kinds, the per-kind builders
// answering with a tagged query; afterwards the field must still hold the step.

import (
	"fmt"
	"go/types"

	"golang.org/x/tools/go/ssa"
)

func ruleStepRef(w *World, r *Report) {
	r.rule("B-STEPREF", "the node dispatcher, followed by constant propagation for a function node and for an operator node (the per-kind builders answer with a tagged query and no error), leaves the builder's query-typed scratch field — the step the enclosing predicate filters, which position() and last() are built with — as it was: every further positional function of the same predicate is built with the same step")
	br, err := w.roles()
	if err != nil {
		r.bad("ANCHOR", "B-STEPREF", "", err.Error())
		return
	}
	bst := br.BuilderT.Underlying().(*types.Struct)
	firstIdx := -1
	for i := 0; i < bst.NumFields(); i++ {
		if w.isQueryType(bst.Field(i).Type()) {
			firstIdx = i
		}
	}
	if firstIdx < 0 {
		r.bad("ANCHOR", "B-STEPREF", w.pos(br.Dispatch.Pos()), "the builder has no query-typed scratch field")
		return
	}
	r.FuncsAnalysed[fnName(br.Dispatch)] = true
	var stepT *QType
	if tab, _, err := w.axisTable(); err == nil && len(tab) > 0 {
		stepT = tab[0].Type
	}
	if stepT == nil {
		r.bad("ANCHOR", "B-STEPREF", "", "no step query type found")
		return
	}
	for _, kind := range []struct {
		name string
		nt   *types.Named
	}{{"function", br.FuncNode}, {"operator", br.OpNode}} {
		key := "after-" + kind.name
		pos := w.pos(br.Dispatch.Pos())
		k, ok := w.nodeKindConst(kind.nt)
		if !ok {
			r.undec("B-STEPREF", key, pos, "the kind constant of "+kind.nt.Obj().Name()+" was not found")
			continue
		}
		st := w.initState()
		S := st.newObj(stepT.Named, nil)
		S.Extern = true
		sv := AVal{Kind: avPtr, Obj: S, Field: -1, Dyn: types.NewPointer(stepT.Named), Tag: "step"}
		node := st.newObj(kind.nt, nil)
		node.Extern = true
		nst := kind.nt.Underlying().(*types.Struct)
		for i := 0; i < nst.NumFields(); i++ {
			if nst.Field(i).Embedded() {
				node.Fields[i] = aInt(k)
			}
		}
		nv := AVal{Kind: avPtr, Obj: node, Field: -1, Dyn: types.NewPointer(kind.nt), Tag: "node"}
		hooks := w.builderHooks(br)
		base := hooks.Call
		hooks.Call = func(ai *AInterp, s2 *AState, site ssa.CallInstruction, callee *ssa.Function, args []AVal) (bool, AVal) {
			if callee != nil && (callee == br.FuncB || callee == br.OpB || callee == br.AxisB || callee == br.FilterB) {
				B := s2.newObj(stepT.Named, nil)
				B.Extern = true
				bv := AVal{Kind: avPtr, Obj: B, Field: -1, Dyn: types.NewPointer(stepT.Named), Tag: "built"}
				return true, AVal{Kind: avTuple, Tup: []AVal{bv, {Kind: avNil}}}
			}
			if callee == br.Dispatch {
				return false, AVal{} // the dispatcher itself is followed
			}
			return base(ai, s2, site, callee, args)
		}
		ai := w.newInterp(hooks)
		ai.MaxVisits = 4
		args := w.builderArgs(st, br, br.Dispatch, node)
		args[1] = nv
		bObj := args[0].Obj
		st.obj(bObj).Fields[firstIdx] = sv
		kept, replaced, n := 0, 0, 0
		var replacedBy string
		for _, o := range ai.Exec(br.Dispatch, args, nil, st) {
			if o.Cut || o.Panicked {
				continue
			}
			// only successful builds matter: (query, nil error)
			if o.Ret.Kind != avTuple || len(o.Ret.Tup) != 2 || o.Ret.Tup[1].Kind != avNil || o.Ret.Tup[0].Tag != "built" {
				continue
			}
			n++
			f := o.St.obj(bObj).Fields[firstIdx]
			if f.Kind == avPtr && f.Obj.ID == S.ID {
				kept++
			} else {
				replaced++
				replacedBy = f.String()
				if f.Tag == "built" {
					replacedBy = "the query just built for the " + kind.name
				}
			}
		}
		switch {
		case n == 0:
			r.undec("B-STEPREF", key, pos, "the dispatcher could not be followed to a successful build of a "+kind.name+" node")
		case replaced > 0:
			r.bad("B-STEPREF", key, pos, fmt.Sprintf("after a %s has been built inside a predicate the builder's record of the filtered step holds %s: a second positional function of the same predicate (b[position() = last()]) is built without the step's node test and counts among all siblings", kind.name, replacedBy))
		default:
			r.ok("B-STEPREF", key, pos, fmt.Sprintf("on %d successful builds the record of the filtered step is untouched", kept))
		}
	}
}
