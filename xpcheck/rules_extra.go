package main

// Additional code-shape rules added after the first complete pass:
// N-DEPTH (C01, C12), C03-MERGE (C03), C07-BOOL (C07), C08-FMT (C08),
// K-REPL (C16), dedupe bookkeeping for every identity-key user (C01, C11).

import (
	"fmt"
	"go/ast"
	"go/constant"
	"go/token"
	"go/types"
	"sort"
	"strconv"
	"strings"

	"golang.org/x/tools/go/ssa"
)

// ---------- N-DEPTH ----------

// depthCounter: an int state field of qt that is incremented next to a
// successful MoveToChild.
func (w *World) depthFuncs(qt *QType) []*ssa.Function {
	sel := qt.Methods[w.selectMethod()]
	if sel == nil {
		return nil
	}
	seen := map[*ssa.Function]bool{}
	var out []*ssa.Function
	var add func(f *ssa.Function)
	add = func(f *ssa.Function) {
		if f == nil || seen[f] {
			return
		}
		seen[f] = true
		out = append(out, f)
		for _, a := range f.AnonFuncs {
			add(a)
		}
		eachInstr(f, false, func(_ *ssa.Function, in ssa.Instruction) {
			if c, ok := in.(ssa.CallInstruction); ok {
				cc := c.Common()
				if callee := cc.StaticCallee(); callee != nil && w.inPkg(callee) && (w.isIteratorHelper(callee, f, cc) || f.Synthetic != "") {
					add(callee)
				}
			}
			// a method value installed as the iterator (w.next): the bound-method
			// thunk and, through it, the method
			if mc, ok := in.(*ssa.MakeClosure); ok {
				if cf, ok := mc.Fn.(*ssa.Function); ok {
					add(cf)
				}
			}
		})
	}
	add(sel)
	// the synthetic thunks themselves are not analysed
	var real []*ssa.Function
	for _, f := range out {
		if f.Synthetic == "" {
			real = append(real, f)
		}
	}
	return real
}

// qtFieldAddr: v addresses a field of query struct type named, whatever the
// pointer it goes through (the receiver, a captured receiver, a field of a
// walker object).
func qtFieldAddr(v ssa.Value, named *types.Named) (*types.Var, bool) {
	fa, ok := v.(*ssa.FieldAddr)
	if !ok || structOfAddr(fa) != named {
		return nil, false
	}
	return fieldOfAddr(fa), true
}

func qtFieldLoad(v ssa.Value, named *types.Named) (*types.Var, bool) {
	u, ok := strip(v).(*ssa.UnOp)
	if !ok || u.Op != token.MUL {
		return nil, false
	}
	return qtFieldAddr(u.X, named)
}

func isFieldStepT(v ssa.Value, f *types.Var, op token.Token, named *types.Named) bool {
	bo, ok := v.(*ssa.BinOp)
	if !ok || bo.Op != op {
		return false
	}
	k, ok := constInt(bo.Y)
	if !ok || k != 1 {
		return false
	}
	g, ok := qtFieldLoad(bo.X, named)
	return ok && g == f
}

func isFieldStep(v ssa.Value, f *types.Var, op token.Token) bool {
	bo, ok := v.(*ssa.BinOp)
	if !ok || bo.Op != op {
		return false
	}
	k, ok := constInt(bo.Y)
	if !ok || k != 1 {
		return false
	}
	g, ok := recvFieldLoad(bo.X)
	return ok && g == f
}

func ruleNDepth(w *World, r *Report) {
	r.rule("N-DEPTH", "in the iterators built for the descendant axes the depth counter tracks the cursor: every successful MoveToChild is paired with counter+1 (and only those), every MoveToParent with counter-1, and MoveToParent / the give-up return happen only under a test of the counter against zero — so the walk never leaves the subtree of the input node and visits it in pre-order")
	variants := w.axisVariants(nil)
	types_ := map[string]bool{}
	for _, ax := range []string{"descendant", "descendant-or-self"} {
		for tn := range variants[ax] {
			types_[tn] = true
		}
	}
	n := 0
	for _, tn := range sortedKeys(types_) {
		qt := w.census.ByName[tn]
		if qt == nil {
			continue
		}
		fns := w.depthFuncs(qt)
		// the counter: int state field stored with +1 somewhere in these functions
		var ctr *types.Var
		for _, f := range fns {
			eachInstr(f, false, func(_ *ssa.Function, in ssa.Instruction) {
				if st, ok := in.(*ssa.Store); ok {
					if fl, ok := qtFieldAddr(st.Addr, qt.Named); ok && isIntType(fl.Type()) && isFieldStepT(st.Val, fl, token.ADD, qt.Named) {
						// the position counter is also incremented: the depth counter is the one also decremented
						for _, g := range fns {
							eachInstr(g, false, func(_ *ssa.Function, in2 ssa.Instruction) {
								if st2, ok := in2.(*ssa.Store); ok {
									if fl2, ok := qtFieldAddr(st2.Addr, qt.Named); ok && fl2 == fl && isFieldStepT(st2.Val, fl, token.SUB, qt.Named) {
										ctr = fl
									}
								}
							})
						}
					}
				}
			})
		}
		key := tn
		if ctr == nil {
			r.bad("N-DEPTH", key+":counter", "", tn+" has no depth counter that is incremented and decremented: the walk cannot know when it is back at the input node")
			continue
		}
		n++
		var childCalls, parentCalls, nextCalls, incs, decs []ssa.Instruction
		for _, f := range fns {
			r.FuncsAnalysed[fnName(f)] = true
			eachInstr(f, false, func(_ *ssa.Function, in ssa.Instruction) {
				if c, ok := in.(ssa.CallInstruction); ok {
					if _, m, class, ok := w.isNavCall(c); ok && class == "move" && !w.isContextRegister(c.Common().Value) {
						switch m {
						case "MoveToChild":
							childCalls = append(childCalls, in)
						case "MoveToParent":
							parentCalls = append(parentCalls, in)
						case "MoveToNext":
							nextCalls = append(nextCalls, in)
						}
					}
				}
				if st, ok := in.(*ssa.Store); ok {
					if fl, ok := qtFieldAddr(st.Addr, qt.Named); ok && fl == ctr {
						if isFieldStepT(st.Val, ctr, token.ADD, qt.Named) {
							incs = append(incs, in)
						}
						if isFieldStepT(st.Val, ctr, token.SUB, qt.Named) {
							decs = append(decs, in)
						}
					}
				}
			})
		}
		// (1) increments <-> successful MoveToChild
		okInc := len(incs) == len(childCalls) && len(incs) > 0
		for _, inc := range incs {
			paired := false
			for _, cc := range childCalls {
				v, isV := cc.(ssa.Value)
				if !isV {
					continue
				}
				for _, u := range uses(v) {
					if ifi, ok := u.(*ssa.If); ok {
						t := ifi.Block().Succs[0]
						if t == inc.Block() || t.Dominates(inc.Block()) {
							paired = true
						}
					}
				}
			}
			if !paired {
				okInc = false
			}
		}
		pos := w.pos(fns[0].Pos())
		if okInc {
			r.ok("N-DEPTH", key+":descend", pos, fmt.Sprintf("%s+1 exactly on the success edge of each of the %d MoveToChild calls", ctr.Name(), len(childCalls)))
		} else {
			r.bad("N-DEPTH", key+":descend", pos, fmt.Sprintf("%s: %d MoveToChild calls but %d increments of %s on their success edges: the counter no longer equals the cursor's depth below the input node", tn, len(childCalls), len(incs), ctr.Name()))
		}
		// (2) decrements <-> MoveToParent, in the same loop body
		okDec := len(decs) == len(parentCalls) && len(decs) > 0
		for _, d := range decs {
			paired := false
			for _, pc := range parentCalls {
				if pc.Parent() == d.Parent() && (pc.Block() == d.Block() || pc.Block().Dominates(d.Block()) || d.Block().Dominates(pc.Block())) {
					paired = true
				}
			}
			if !paired {
				okDec = false
			}
		}
		if okDec {
			r.ok("N-DEPTH", key+":ascend", pos, fmt.Sprintf("%s-1 paired with each of the %d MoveToParent calls", ctr.Name(), len(parentCalls)))
		} else {
			r.bad("N-DEPTH", key+":ascend", pos, fmt.Sprintf("%s: %d MoveToParent calls but %d paired decrements of %s", tn, len(parentCalls), len(decs), ctr.Name()))
		}
		// (3) every MoveToParent is guarded by a zero test of the counter in its function
		okGuard := len(parentCalls) > 0
		for _, pc := range parentCalls {
			guarded := false
			for _, b := range pc.Parent().Blocks {
				ifi := blockIf(b)
				if ifi == nil {
					continue
				}
				bo, ok := ifi.Cond.(*ssa.BinOp)
				if !ok {
					continue
				}
				fl, ok := qtFieldLoad(bo.X, qt.Named)
				if !ok || fl != ctr {
					continue
				}
				if k, ok := constInt(bo.Y); !ok || k != 0 {
					continue
				}
				// the zero edge must not reach the MoveToParent without re-testing: it returns
				zero := b.Succs[0]
				if bo.Op == token.NEQ || bo.Op == token.GTR {
					zero = b.Succs[1]
				} else if bo.Op != token.EQL && bo.Op != token.LEQ {
					continue
				}
				_, zeroReturns := zero.Instrs[len(zero.Instrs)-1].(*ssa.Return)
				if b != pc.Block() && b.Dominates(pc.Block()) && zeroReturns {
					guarded = true
				}
			}
			if !guarded {
				okGuard = false
			}
		}
		// (4) a sideways move needs the counter above zero as well: MoveToNext is
		// strictly dominated by such a test in its own function, or every call of
		// its function is on the non-zero edge of one in the caller
		okSide := len(nextCalls) > 0
		zeroTest := func(fn *ssa.Function, at *ssa.BasicBlock) bool {
			for _, b := range fn.Blocks {
				ifi := blockIf(b)
				if ifi == nil {
					continue
				}
				bo, ok := ifi.Cond.(*ssa.BinOp)
				if !ok {
					continue
				}
				fl, ok := qtFieldLoad(bo.X, qt.Named)
				if !ok || fl != ctr {
					continue
				}
				if k, ok := constInt(bo.Y); !ok || k != 0 {
					continue
				}
				zero, nonzero := b.Succs[0], b.Succs[1]
				if bo.Op == token.NEQ || bo.Op == token.GTR {
					zero, nonzero = b.Succs[1], b.Succs[0]
				} else if bo.Op != token.EQL && bo.Op != token.LEQ {
					continue
				}
				// at is reachable only through the non-zero edge
				if b != at && b.Dominates(at) && !reachableFrom(zero, nil)[at] {
					return true
				}
				if len(nonzero.Preds) == 1 && (nonzero == at || nonzero.Dominates(at)) {
					return true
				}
			}
			return false
		}
		for _, nc := range nextCalls {
			fn := nc.Parent()
			if zeroTest(fn, nc.Block()) {
				continue
			}
			// all call sites of fn
			okSites := false
			if n := w.CG.Nodes[fn]; n != nil && len(n.In) > 0 && fn.Parent() == nil {
				okSites = true
				for _, ed := range n.In {
					if !zeroTest(ed.Caller.Func, ed.Site.Block()) {
						okSites = false
					}
				}
			}
			if !okSites {
				okSide = false
			}
		}
		if okSide {
			r.ok("N-DEPTH", key+":sideways", pos, "MoveToNext only happens with "+ctr.Name()+" above zero")
		} else {
			r.bad("N-DEPTH", key+":sideways", pos, fmt.Sprintf("%s can step to the next sibling while %s is zero, i.e. while the cursor is still on the input node: the walk leaves the subtree and yields nodes that are not descendants", tn, ctr.Name()))
		}
		if okGuard {
			r.ok("N-DEPTH", key+":floor", pos, "every MoveToParent is dominated by a test of "+ctr.Name()+" against 0 whose zero edge returns")
		} else {
			r.bad("N-DEPTH", key+":floor", pos, fmt.Sprintf("%s can move to the parent without first testing %s against 0: the walk can climb above its input node and yield nodes outside the subtree", tn, ctr.Name()))
		}
	}
	if n < 2 {
		r.bad("N-DEPTH", "types", "", fmt.Sprintf("%d descendant iterator types with a depth counter found", n))
	}
}

// ---------- dedupe bookkeeping (every user of the identity key) ----------

func ruleDedup(w *World, r *Report) {
	r.rule("B-DEDUP", "wherever a node is keyed by the identity function and looked up in a seen-set, the node is yielded/kept exactly on the not-found edge and its key is inserted there (ancestor de-duplication across input nodes, union)")
	hash := w.hashFn()
	if hash == nil {
		r.bad("ANCHOR", "B-DEDUP", "", "identity function not found")
		return
	}
	n := 0
	for _, fn := range w.AllFuncs {
		if !w.RunTime[fn] {
			continue
		}
		eachInstr(fn, false, func(_ *ssa.Function, in ssa.Instruction) {
			hc, ok := in.(*ssa.Call)
			if !ok || hc.Call.StaticCallee() != hash {
				return
			}
			n++
			r.FuncsAnalysed[fnName(fn)] = true
			key := fnName(fn) + ":seen-set"
			var lk *ssa.Lookup
			for _, u := range uses(hc) {
				if l, ok := u.(*ssa.Lookup); ok && l.CommaOk && l.Index == ssa.Value(hc) {
					lk = l
				}
			}
			if lk == nil {
				r.bad("B-DEDUP", key, w.instrPos(hc), "identity key computed but never looked up")
				return
			}
			var found, notFound *ssa.BasicBlock
			for _, u := range uses(lk) {
				if ex, ok := u.(*ssa.Extract); ok && ex.Index == 1 {
					for _, uu := range uses(ex) {
						if ifi, ok := uu.(*ssa.If); ok {
							found, notFound = ifi.Block().Succs[0], ifi.Block().Succs[1]
						}
					}
				}
			}
			if notFound == nil {
				r.bad("B-DEDUP", key, w.instrPos(lk), "outcome of the seen-set lookup not tested")
				return
			}
			// the bookkeeping written as a helper "add(n) bool": new key => recorded
			// and true, seen key => false; every caller keeps the node exactly when
			// the helper says true
			if res := fn.Signature.Results(); res.Len() == 1 {
				if bt, ok := res.At(0).Type().Underlying().(*types.Basic); ok && bt.Kind() == types.Bool {
					retConst := func(b *ssa.BasicBlock) (bool, bool) {
						for _, x := range b.Instrs {
							if ret, ok := x.(*ssa.Return); ok && len(ret.Results) == 1 {
								if k, ok := strip(ret.Results[0]).(*ssa.Const); ok && k.Value != nil {
									return k.Value.ExactString() == "true", true
								}
							}
						}
						return false, false
					}
					ins := false
					for _, x := range notFound.Instrs {
						if mu, ok := x.(*ssa.MapUpdate); ok && mu.Key == ssa.Value(hc) {
							ins = true
						}
					}
					nv, nok := retConst(notFound)
					fv, fok := retConst(found)
					callersOK, ncall := true, 0
					for _, g := range w.AllFuncs {
						eachInstr(g, false, func(_ *ssa.Function, in2 ssa.Instruction) {
							c2, ok := in2.(*ssa.Call)
							if !ok || c2.Call.StaticCallee() != fn {
								return
							}
							ncall++
							bb, fidx, ok := falseEdgeOf(c2)
							if !ok {
								callersOK = false
								return
							}
							tb := bb.Succs[1-fidx]
							keeps := false
							for _, x := range tb.Instrs {
								if ret, ok := x.(*ssa.Return); ok && len(ret.Results) == 1 && !isNilConst(strip(ret.Results[0])) {
									keeps = true
								}
								if c, ok := x.(*ssa.Call); ok {
									if b, ok := c.Call.Value.(*ssa.Builtin); ok && b.Name() == "append" {
										keeps = true
									}
								}
							}
							fbk := bb.Succs[fidx]
							for _, x := range fbk.Instrs {
								if ret, ok := x.(*ssa.Return); ok && len(ret.Results) == 1 && !isNilConst(strip(ret.Results[0])) && len(fbk.Preds) == 1 {
									keeps = false
								}
							}
							if !keeps {
								callersOK = false
							}
						})
					}
					if ins && nok && nv && fok && !fv && callersOK && ncall > 0 {
						r.ok("B-DEDUP", key, w.instrPos(lk), "helper: new key => recorded and reported true, seen key => false; every caller keeps the node exactly on true")
					} else {
						r.bad("B-DEDUP", key, w.instrPos(lk), fmt.Sprintf("de-duplication bookkeeping broken (helper records the key on the new-key edge=%v, reports true there=%v, reports false when seen=%v, callers keep the node exactly on true=%v): nodes are reported twice or dropped", ins, nok && nv, fok && !fv, callersOK && ncall > 0))
					}
					return
				}
			}
			ins, keep := false, false
			for _, x := range notFound.Instrs {
				if mu, ok := x.(*ssa.MapUpdate); ok && mu.Key == ssa.Value(hc) {
					ins = true
				}
				if _, ok := x.(*ssa.Return); ok {
					keep = true
				}
				if c, ok := x.(*ssa.Call); ok {
					if b, ok := c.Call.Value.(*ssa.Builtin); ok && b.Name() == "append" {
						keep = true
					}
				}
			}
			// the found edge must not keep the node
			dupKeep := false
			if found != notFound {
				for _, x := range found.Instrs {
					if ret, ok := x.(*ssa.Return); ok && len(ret.Results) == 1 && !isNilConst(strip(ret.Results[0])) && found != notFound && !found.Dominates(notFound) && len(found.Preds) == 1 {
						dupKeep = true
					}
				}
			}
			if ins && keep && !dupKeep {
				r.ok("B-DEDUP", key, w.instrPos(lk), "new key => node kept and key recorded; seen key => node skipped")
			} else {
				r.bad("B-DEDUP", key, w.instrPos(lk), fmt.Sprintf("de-duplication bookkeeping broken (key recorded on the new-key edge=%v, node kept there=%v, node also kept when seen=%v): nodes are reported twice or dropped", ins, keep, dupKeep))
			}
		})
	}
	users := map[string]bool{}
	for f := range r.FuncsAnalysed {
		if i := strings.Index(f, ")."); i > 0 {
			users[f[:i+1]] = true
		}
	}
	if n < 2 {
		r.bad("B-DEDUP", "sites", "", fmt.Sprintf("%d identity-key call sites found (the ancestor de-duplication and the union use it)", n))
	}
}

// groupBuilder: the function that unwraps a parenthesised group and the query
// type it wraps the content in: the one-input query type, outside the axis
// dispatch's types (skip), that the node dispatcher allocates itself — or that a
// builder helper called directly by the dispatcher allocates, when that helper
// allocates no other query type and calls the dispatcher back for the content.
func (w *World) groupBuilder(skip map[*QType]bool) (*ssa.Function, *QType) {
	br, _ := w.roles()
	if br == nil || br.Dispatch == nil {
		return nil, nil
	}
	allocs := func(fn *ssa.Function) (all map[*QType]bool, one *QType) {
		all = map[*QType]bool{}
		eachInstr(fn, false, func(_ *ssa.Function, in ssa.Instruction) {
			if a, ok := in.(*ssa.Alloc); ok {
				if n, ok := a.Type().(*types.Pointer).Elem().(*types.Named); ok {
					if qt := w.census.ByType[n]; qt != nil {
						all[qt] = true
						if skip[qt] {
							return
						}
						nq := 0
						for _, f := range qt.Fields {
							if f.IsQuery {
								nq++
							}
						}
						if nq == 1 {
							one = qt
						}
					}
				}
			}
		})
		return
	}
	if _, one := allocs(br.Dispatch); one != nil {
		return br.Dispatch, one
	}
	var host *ssa.Function
	var group *QType
	for _, h := range w.pkgCallees(br.Dispatch) {
		if h == br.Dispatch || h.Signature.Recv() == nil || h.Parent() != nil {
			continue
		}
		callsBack := false
		for _, c := range w.pkgCallees(h) {
			if c == br.Dispatch {
				callsBack = true
			}
		}
		all, one := allocs(h)
		if callsBack && one != nil && len(all) == 1 {
			if host != nil {
				return nil, nil // two candidates: not understood
			}
			host, group = h, one
		}
	}
	return host, group
}

// ---------- C03-MERGE ----------

func ruleMerge(w *World, r *Report) {
	r.rule("C03-MERGE", "the builder's rewrite that detaches a positional step from its parent path (so that positions restart per parent) treats all step types alike. The predicate builder is followed by constant propagation (builder_absint.go) for a positional predicate on a step of every type the axis dispatch can build, the step's input being some non-context path: the result must be the two-part query (former input of the step; filter over the step) and the step must now start from a fresh context query. For the parenthesised-path type the same run must leave the path untouched ((path)[n] counts over the whole sequence): the rewrite is guarded by the merge property, which that type does not report")
	tab, _, err := w.axisTable()
	if err != nil {
		r.bad("ANCHOR", "C03-MERGE", "", "axis dispatch not found: "+err.Error())
		return
	}
	seen := map[*QType]bool{}
	var steps []*QType
	for _, e := range tab {
		if !seen[e.Type] {
			seen[e.Type] = true
			steps = append(steps, e.Type)
		}
	}
	// the parenthesised-path type: the query type the node dispatcher itself
	// allocates (or a helper it hands the group node to)
	_, group := w.groupBuilder(seen)
	all := append([]*QType{}, steps...)
	if group != nil {
		all = append(all, group)
	}
	fbs, br2, err := w.filterBuilds(all)
	if err != nil {
		r.bad("ANCHOR", "C03-MERGE", "", err.Error())
		return
	}
	r.FuncsAnalysed[fnName(br2.FilterB)] = true
	pos := w.pos(br2.FilterB.Pos())
	var missing, odd []string
	nstep := 0
	var groupFB *filterBuild
	for i := range fbs {
		fb := &fbs[i]
		if fb.Step == group {
			groupFB = fb
			continue
		}
		nstep++
		switch {
		case fb.Rewritten && !fb.Plain && fb.Why == "":
		case fb.Plain && !fb.Rewritten:
			missing = append(missing, fb.Step.Name())
		default:
			odd = append(odd, fb.Step.Name()+" ("+fb.Why+")")
		}
	}
	sort.Strings(missing)
	sort.Strings(odd)
	if nstep < 8 {
		r.bad("C03-MERGE", "cases", pos, fmt.Sprintf("only %d step types could be followed through the predicate builder", nstep))
	} else if len(missing) == 0 {
		r.ok("C03-MERGE", "cases", pos, fmt.Sprintf("%d step types handled, including every type the axis dispatch builds", nstep))
	} else {
		r.bad("C03-MERGE", "cases", pos, fmt.Sprintf("the positional rewrite does not detach steps of type %v: for steps of that type positions run on across parents instead of restarting", missing))
	}
	if len(odd) == 0 {
		r.ok("C03-MERGE", "agreement", pos, "all step types are rewired the same way: parent = step.Input, step.Input = fresh context query, result = merge(parent, filter(step))")
	} else {
		r.bad("C03-MERGE", "agreement", pos, fmt.Sprintf("sibling step types are rewired differently: %v", odd))
	}
	switch {
	case groupFB == nil:
		r.bad("C03-MERGE", "guard", pos, "the parenthesised-path query type was not found")
	case groupFB.Plain && !groupFB.Rewritten:
		r.ok("C03-MERGE", "guard", pos, "a positional predicate on a parenthesised path ("+group.Name()+") is built as a plain filter over the whole path")
	default:
		r.bad("C03-MERGE", "guard", pos, "a positional predicate on a parenthesised path is rewritten per parent too: (path)[n] no longer counts over the whole sequence (the rewrite must be guarded by the merge property, which "+group.Name()+" must not report) "+groupFB.Why)
	}
	// the property the guard reads, evaluated on a parenthesised path whose own
	// steps do report it
	if groupFB != nil && group != nil {
		if groupFB.Plain && !groupFB.Rewritten {
			r.ok("C03-MERGE", "group-props", pos, group.Name()+" over a path of mergeable steps does not itself report the merge property")
		} else {
			r.bad("C03-MERGE", "group-props", pos, group.Name()+" reports the merge property (its own or its input's): (path)[n] would be rewritten into a per-parent filter")
		}
	}
}

// normaliseBody renders a case body with identifiers replaced by their kind.
func normaliseBody(w *World, cc *ast.CaseClause) string {
	var sb strings.Builder
	for _, st := range cc.Body {
		ast.Inspect(st, func(x ast.Node) bool {
			switch y := x.(type) {
			case *ast.IfStmt:
				sb.WriteString("IF ")
			case *ast.TypeAssertExpr:
				sb.WriteString("ASSERT")
				if tv, ok := w.Info.Types[y.Type]; ok {
					sb.WriteString("(" + typeName(tv.Type) + ")")
				}
			case *ast.UnaryExpr:
				if y.Op == token.NOT {
					sb.WriteString("-NOT ")
				}
			case *ast.AssignStmt:
				sb.WriteString(" ASSIGN[")
				for _, l := range y.Lhs {
					sb.WriteString(exprShape(w, l) + ",")
				}
				sb.WriteString("<-")
				for _, rr := range y.Rhs {
					sb.WriteString(exprShape(w, rr) + ",")
				}
				sb.WriteString("] ")
			}
			return true
		})
	}
	return sb.String()
}

func exprShape(w *World, e ast.Expr) string {
	switch x := e.(type) {
	case *ast.SelectorExpr:
		return "X." + x.Sel.Name
	case *ast.Ident:
		if x.Name == "_" || x.Name == "ok" {
			return x.Name
		}
		if tv, ok := w.Info.Types[e]; ok {
			return "var:" + typeName(tv.Type)
		}
		return "id"
	case *ast.TypeAssertExpr:
		return "assert(" + exprShape(w, x.X) + ")"
	}
	return fmt.Sprintf("%T", e)
}

// ---------- C07-BOOL ----------

func ruleBoolConv(w *World, r *Report) {
	r.rule("C07-BOOL", "the truth conversion follows XPath 1.0 boolean(): nil => false, a bool is itself, a number is true iff it is neither zero nor NaN, a string iff non-empty, a node-set iff Select yields a node")
	truth, _, _ := w.conversionFns()
	var fn *ssa.Function
	for _, f := range w.AllFuncs {
		if f.String() == truth {
			fn = f
		}
	}
	if fn == nil {
		r.bad("ANCHOR", "C07-BOOL", "", "truth conversion not found")
		return
	}
	r.FuncsAnalysed[fnName(fn)] = true
	sel := w.selectMethod()
	pos := w.pos(fn.Pos())
	// per asserted type: the returned expression
	res := map[string]string{}
	for _, b := range fn.Blocks {
		ret, ok := normalReturn(b)
		if !ok {
			continue
		}
		// which type-switch case is this block in?
		tkey := ""
		for _, blk := range fn.Blocks {
			for _, in := range blk.Instrs {
				if ta, ok := in.(*ssa.TypeAssert); ok && ta.CommaOk && ta.X == ssa.Value(fn.Params[1]) && w.underOkEdge(ta, b) {
					tkey = w.typeKey(ta.AssertedType)
				}
			}
		}
		v := retVal(ret, 0)
		desc := ""
		switch x := v.(type) {
		case *ssa.Const:
			desc = x.Value.String()
		case *ssa.Extract:
			desc = "itself"
		case *ssa.BinOp:
			desc = x.Op.String()
			if c, ok := x.Y.(*ssa.Const); ok {
				if c.Value == nil {
					desc += " nil"
				} else {
					desc += " " + c.Value.String()
				}
			}
			if c, ok := x.X.(*ssa.Call); ok && c.Call.IsInvoke() && c.Call.Method.Name() == sel {
				desc = "Select " + desc
			}
		case *ssa.Phi:
			// v != 0 && !IsNaN(v)
			desc = "phi"
			for _, e := range x.Edges {
				if u, ok := e.(*ssa.UnOp); ok && u.Op == token.NOT {
					if c, ok := u.X.(*ssa.Call); ok && c.Call.StaticCallee() != nil && c.Call.StaticCallee().String() == "math.IsNaN" {
						desc += " !IsNaN"
					}
				}
				if k, ok := e.(*ssa.Const); ok && k.Value != nil && k.Value.Kind() == constant.Bool && !constant.BoolVal(k.Value) {
					desc += " false"
				}
			}
			// the guarding comparison v != 0
			for _, p := range x.Block().Preds {
				if ifi := blockIf(p); ifi != nil {
					if bo, ok := ifi.Cond.(*ssa.BinOp); ok && bo.Op == token.NEQ {
						desc += " !=0"
					}
				}
			}
		case *ssa.Call:
			desc = "call " + x.Call.Value.Name()
		}
		if tkey != "" {
			res[tkey] = desc
		}
	}
	want := map[string]func(string) bool{
		"bool":    func(s string) bool { return s == "itself" },
		"float64": func(s string) bool { return strings.Contains(s, "!IsNaN") && strings.Contains(s, "!=0") },
		"string":  func(s string) bool { return s == `!= ""` },
		"query":   func(s string) bool { return s == "Select != nil" },
	}
	for _, k := range []string{"bool", "float64", "string", "query"} {
		got, ok := res[k]
		if !ok {
			r.bad("C07-BOOL", k, pos, "no case for "+k)
			continue
		}
		if want[k](got) {
			r.ok("C07-BOOL", k, pos, k+" => "+got)
		} else {
			r.bad("C07-BOOL", k, pos, fmt.Sprintf("boolean(%s) is computed as `%s`, XPath 1.0 says: bool itself, number != 0 and not NaN, string non-empty, node-set non-empty", k, got))
		}
	}
}

// ---------- C08-FMT ----------

func ruleNumFormat(w *World, r *Report) {
	r.rule("C08-FMT", "the number-to-string conversion never uses exponent notation: strconv.FormatFloat is called with the 'f' verb and the shortest precision (-1)")
	_, _, str := w.conversionFns()
	var fn *ssa.Function
	for _, f := range w.AllFuncs {
		if f.String() == str {
			fn = f
		}
	}
	if fn == nil {
		r.bad("ANCHOR", "C08-FMT", "", "string conversion not found")
		return
	}
	r.FuncsAnalysed[fnName(fn)] = true
	n := 0
	eachInstr(fn, false, func(_ *ssa.Function, in ssa.Instruction) {
		c, ok := in.(*ssa.Call)
		if !ok || c.Call.StaticCallee() == nil || c.Call.StaticCallee().Pkg == nil || c.Call.StaticCallee().Pkg.Pkg.Path() != "strconv" {
			return
		}
		// only conversions of a number: the formatted operand is a float64
		isFloatArg := false
		for _, a := range c.Call.Args {
			if bt, ok := a.Type().Underlying().(*types.Basic); ok && (bt.Kind() == types.Float64 || bt.Kind() == types.Float32) {
				isFloatArg = true
			}
		}
		if !isFloatArg {
			return
		}
		n++
		if c.Call.StaticCallee().Name() != "FormatFloat" {
			r.bad("C08-FMT", "verb", w.instrPos(c), "numbers are rendered with strconv."+c.Call.StaticCallee().Name())
			return
		}
		verb, _ := constInt(c.Call.Args[1])
		prec, _ := constInt(c.Call.Args[2])
		if verb == 'f' && prec == -1 {
			r.ok("C08-FMT", "verb", w.instrPos(c), "FormatFloat(v, 'f', -1, 64): plain decimal notation, shortest representation")
		} else {
			r.bad("C08-FMT", "verb", w.instrPos(c), fmt.Sprintf("string(number) uses FormatFloat verb %q precision %d: exponent notation or padded/rounded digits (XPath: plain decimal, shortest)", rune(verb), prec))
		}
	})
	if n == 0 {
		r.bad("C08-FMT", "verb", w.pos(fn.Pos()), "no strconv formatting of numbers found in the string conversion")
	}
}

// ---------- K-REPL ----------

func ruleRepl(w *World, r *Report) {
	r.rule("K-REPL", "replace(): the $n => ${n} rewriting loop runs n from NumSubexp() down to 1 (so that $10 is rewritten before $1), rewrites \"$n\" to \"${n}\" with the same n, and the rewritten string is the one passed to ReplaceAllString")
	for _, f := range w.funcBindings()["replace"] {
		cl := w.closureOf(f)
		if cl == nil {
			continue
		}
		r.FuncsAnalysed[fnName(cl)] = true
		pos := w.pos(cl.Pos())
		okInit, okDec, okCond, okFmt := false, false, false, false
		isNumSubexp := func(e ssa.Value) bool {
			c, ok := e.(*ssa.Call)
			return ok && c.Call.StaticCallee() != nil && c.Call.StaticCallee().String() == "(*regexp.Regexp).NumSubexp"
		}
		// the loop is looked for in the implementation and in the plain helpers it calls
		hosts := []*ssa.Function{cl}
		for _, h := range w.pkgCallees(cl) {
			if h.Parent() == nil && h != cl && len(h.Blocks) > 0 {
				hosts = append(hosts, h)
			}
		}
		for _, host := range hosts {
			for _, comp := range cfgSCCs(host) {
				hasRewrite := false
				for _, b := range comp {
					for _, in := range b.Instrs {
						if c, ok := in.(*ssa.Call); ok && c.Call.StaticCallee() != nil && c.Call.StaticCallee().String() == "strings.ReplaceAll" {
							hasRewrite = true
						}
					}
				}
				if !hasRewrite {
					continue
				}
				for _, b := range comp {
					for _, in := range b.Instrs {
						if phi, ok := in.(*ssa.Phi); ok && isIntType(phi.Type()) {
							for _, e := range phi.Edges {
								if isNumSubexp(e) {
									okInit = true
								}
								// the count handed to a helper: what the implementation passes
								if p, ok := e.(*ssa.Parameter); ok && host != cl {
									for i, hp := range host.Params {
										if hp != p {
											continue
										}
										n, all := 0, true
										eachInstr(cl, false, func(_ *ssa.Function, in2 ssa.Instruction) {
											if c2, ok := in2.(*ssa.Call); ok && c2.Call.StaticCallee() == host && i < len(c2.Call.Args) {
												n++
												if !isNumSubexp(c2.Call.Args[i]) {
													all = false
												}
											}
										})
										if n > 0 && all {
											okInit = true
										}
									}
								}
								if isStepOf(e, phi, token.SUB) {
									okDec = true
								}
							}
							for _, u := range uses(phi) {
								if bo, ok := u.(*ssa.BinOp); ok && bo.Op == token.GTR {
									if k, ok := constInt(bo.Y); ok && k == 0 {
										okCond = true
									}
								}
							}
						}
						// the replacement performed for group n: with n = 12 the searched
						// text must evaluate to "$12" and its replacement to "${12}",
						// however the two strings are put together
						if c, ok := in.(*ssa.Call); ok && c.Call.StaticCallee() != nil && c.Call.StaticCallee().String() == "strings.ReplaceAll" && len(c.Call.Args) == 3 {
							var loopPhi *ssa.Phi
							for _, lb := range comp {
								for _, li := range lb.Instrs {
									if ph, ok := li.(*ssa.Phi); ok && isIntType(ph.Type()) {
										loopPhi = ph
									}
								}
							}
							if loopPhi != nil {
								from, ok1 := evalStringWith(c.Call.Args[1], loopPhi, 12, 0)
								to, ok2 := evalStringWith(c.Call.Args[2], loopPhi, 12, 0)
								if ok1 && ok2 && from == "$12" && to == "${12}" {
									okFmt = true
								}
							}
						}
					}
				}
			}
		}
		if okInit && okDec && okCond && okFmt {
			r.ok("K-REPL", "loop", pos, "n runs from NumSubexp() down to 1; \"$n\" => \"${n}\"")
		} else {
			r.bad("K-REPL", "loop", pos, fmt.Sprintf("group-reference rewriting loop broken (starts at NumSubexp=%v, steps down=%v, stops above 0=%v, rewrites $n to ${n}=%v): $10 is read as $1 followed by 0, or references are left unrewritten", okInit, okDec, okCond, okFmt))
		}
		return
	}
	r.bad("ANCHOR", "K-REPL", "", "replace() implementation not found")
}

func isStepOf(v ssa.Value, phi *ssa.Phi, op token.Token) bool {
	bo, ok := v.(*ssa.BinOp)
	if !ok || bo.Op != op || bo.X != ssa.Value(phi) {
		return false
	}
	k, ok := constInt(bo.Y)
	return ok && k == 1
}

// checkMergeGuard: the per-parent rewrite is applied only to inputs whose
// Properties() carry the merge bit, and the parenthesised-path type does not
// carry it ((path)[n] counts over the whole sequence).
func (w *World) checkMergeGuard(r *Report, fd *ast.FuncDecl) {
	obj, _ := w.Info.Defs[fd.Name].(*types.Func)
	fn := w.Prog.FuncValue(obj)
	if fn == nil {
		return
	}
	// the two-query-field type constructed in this function that is not the filter itself
	var mergeAllocs []*ssa.Alloc
	eachInstr(fn, false, func(_ *ssa.Function, in ssa.Instruction) {
		a, ok := in.(*ssa.Alloc)
		if !ok {
			return
		}
		n, _ := a.Type().(*types.Pointer).Elem().(*types.Named)
		qt := w.census.ByType[n]
		if qt == nil {
			return
		}
		nq, hasState := 0, false
		for _, f := range qt.Fields {
			if f.IsQuery {
				nq++
			}
			if f.IsFunc && f.Role == RoleState {
				hasState = true
			}
		}
		if nq == 2 && hasState && len(qt.Fields) == 3 {
			mergeAllocs = append(mergeAllocs, a)
		}
	})
	if len(mergeAllocs) == 0 {
		r.bad("C03-MERGE", "guard", w.pos(fn.Pos()), "the per-parent merge step is never built")
		return
	}
	propsM := ""
	for i := 0; i < w.QueryIface.NumMethods(); i++ {
		m := w.QueryIface.Method(i)
		sig := m.Type().(*types.Signature)
		if sig.Params().Len() == 0 && sig.Results().Len() == 1 && !w.isQueryType(sig.Results().At(0).Type()) {
			if nm, ok := sig.Results().At(0).Type().(*types.Named); ok && strings.Contains(strings.ToLower(nm.Obj().Name()), "prop") {
				propsM = m.Name()
			}
		}
	}
	var bitField *types.Var
	for _, a := range mergeAllocs {
		guarded := false
		for _, b := range fn.Blocks {
			ifi := blockIf(b)
			if ifi == nil || !(b.Succs[0] == a.Block() || b.Succs[0].Dominates(a.Block())) || len(b.Succs[0].Preds) != 1 {
				continue
			}
			// condition depends on an invoke of Properties() masked with a field of a package-level struct
			var dep func(v ssa.Value, d int) bool
			dep = func(v ssa.Value, d int) bool {
				if d > 6 {
					return false
				}
				switch x := v.(type) {
				case *ssa.BinOp:
					if x.Op == token.AND {
						if ld, ok := x.Y.(*ssa.UnOp); ok {
							if fa, ok := ld.X.(*ssa.FieldAddr); ok {
								if c, ok := x.X.(*ssa.Call); ok && c.Call.IsInvoke() && c.Call.Method.Name() == propsM {
									bitField = fieldOfAddr(fa)
									return true
								}
							}
						}
					}
					return dep(x.X, d+1) || dep(x.Y, d+1)
				case *ssa.UnOp:
					return dep(x.X, d+1)
				case *ssa.Phi:
					for _, e := range x.Edges {
						if dep(e, d+1) {
							return true
						}
					}
				}
				return false
			}
			if dep(ifi.Cond, 0) {
				guarded = true
			}
		}
		if guarded {
			r.ok("C03-MERGE", "guard", w.instrPos(a), "the per-parent rewrite is applied only when the filter's input reports the merge property")
		} else {
			r.bad("C03-MERGE", "guard", w.instrPos(a), "the per-parent rewrite is applied without testing the merge property of the filter's input: (path)[n] is rewritten per parent too and no longer counts over the whole sequence")
		}
	}
	// the parenthesised-path type must not report that bit
	if bitField != nil && propsM != "" {
		for _, qt := range w.census.Types {
			nq, np := 0, 0
			for _, f := range qt.Fields {
				if f.IsQuery {
					nq++
				}
				if w.isPredicateFuncType(f.Var.Type()) {
					np++
				}
			}
			if _, pm := w.positionField(qt); !(nq == 1 && np == 0 && len(qt.Fields) == 2 && pm != nil) {
				continue
			}
			pf := qt.Methods[propsM]
			has := false
			if pf != nil {
				eachInstr(pf, false, func(_ *ssa.Function, in ssa.Instruction) {
					if fa, ok := in.(*ssa.FieldAddr); ok && fieldOfAddr(fa) == bitField {
						has = true
					}
					if c, ok := in.(*ssa.Call); ok && c.Call.IsInvoke() {
						has = true // delegates to its input: may carry the bit
					}
				})
			}
			if has {
				r.bad("C03-MERGE", "group-props", w.pos(pf.Pos()), qt.Name()+" reports the merge property: (path)[n] would be rewritten into a per-parent filter")
			} else {
				r.ok("C03-MERGE", "group-props", w.pos(pf.Pos()), qt.Name()+" does not report the merge property")
			}
		}
	}
}

// ---------- A-SMART ----------

func ruleASmart(w *World, r *Report) {
	r.rule("A-SMART", "the 'outermost matches only' mode of a descendant step (which skips the subtree of a node it already matched) is requested for a step's input only by the step that consumes it being itself a descendant step (or the // rewrite into one): the flag value handed to the input's builder never depends on the flags the axis builder was called with, and the mode bit is OR-ed in only under an axis test for descendant / descendant-or-self")
	fn := w.axisBuilderFn()
	if fn == nil || len(fn.Params) < 3 {
		r.bad("ANCHOR", "A-SMART", "", "axis builder not found")
		return
	}
	root := fn.Params[1]
	flagsParam := fn.Params[2]
	n := 0
	eachInstr(fn, false, func(_ *ssa.Function, in ssa.Instruction) {
		c, ok := in.(*ssa.Call)
		if !ok || c.Call.StaticCallee() == nil || !w.inPkg(c.Call.StaticCallee()) || len(c.Call.Args) < 4 {
			return
		}
		// builder calls: (b, node, flags, props)
		if !types.Identical(c.Call.Args[2].Type(), flagsParam.Type()) {
			return
		}
		n++
		key := fmt.Sprintf("input-flags%d", n)
		dependsOnParam := false
		var orBlocks []*ssa.BasicBlock
		seen := map[ssa.Value]bool{}
		var walk func(v ssa.Value, d int)
		walk = func(v ssa.Value, d int) {
			if v == nil || seen[v] || d > 12 {
				return
			}
			seen[v] = true
			if v == ssa.Value(flagsParam) {
				dependsOnParam = true
			}
			switch x := v.(type) {
			case *ssa.BinOp:
				if x.Op == token.OR {
					orBlocks = append(orBlocks, x.Block())
				}
				walk(x.X, d+1)
				walk(x.Y, d+1)
			case *ssa.Phi:
				for _, e := range x.Edges {
					walk(e, d+1)
				}
			case *ssa.UnOp:
				walk(x.X, d+1)
			}
		}
		walk(c.Call.Args[2], 0)
		if dependsOnParam {
			r.bad("A-SMART", key, w.instrPos(c), "the flags handed to the builder of a step's input depend on the flags this step itself was built with: the outermost-only descendant mode leaks through steps that are not descendant steps (descendant::a/b//c loses the b children of nested a elements)")
			return
		}
		okOr := true
		for _, ob := range orBlocks {
			labels := stringCasesOf(ob, root)
			good := len(labels) > 0
			for _, l := range labels {
				if l != "descendant" && l != "descendant-or-self" {
					good = false
				}
			}
			if !good {
				okOr = false
			}
		}
		if okOr {
			r.ok("A-SMART", key, w.instrPos(c), "input flags are independent of the caller's flags; mode bits are added only under a descendant axis test")
		} else {
			r.bad("A-SMART", key, w.instrPos(c), "a mode bit is OR-ed into the input's flags outside a descendant / descendant-or-self axis test")
		}
	})
	if n == 0 {
		r.bad("A-SMART", "sites", w.pos(fn.Pos()), "no builder call for a step input found")
	}
	// modes never cross parentheses: the node dispatcher's call to itself
	// (unwrapping a parenthesised group) passes flags that do not depend on
	// the flags it was called with
	g, gerr := w.grammar()
	ng := 0
	for _, d := range w.AllFuncs {
		if gerr != nil || d.Parent() != nil || w.depthGuard(d) == nil || g.isParserMethod(d) || len(d.Params) < 3 {
			continue
		}
		fp := d.Params[2]
		hosts := []*ssa.Function{d}
		if h, _ := w.groupBuilder(map[*QType]bool{}); h != nil && h != d {
			hosts = append(hosts, h)
		}
		for _, host := range hosts {
			host := host
			eachInstr(host, false, func(_ *ssa.Function, in ssa.Instruction) {
				c, ok := in.(*ssa.Call)
				if !ok || c.Call.StaticCallee() != d || len(c.Call.Args) < 3 {
					return
				}
				ng++
				dep := false
				seen := map[ssa.Value]bool{}
				var walk func(v ssa.Value, k int)
				walk = func(v ssa.Value, k int) {
					if v == nil || seen[v] || k > 12 {
						return
					}
					seen[v] = true
					if v == ssa.Value(fp) {
						dep = true
					}
					if p, ok := v.(*ssa.Parameter); ok && host != d && types.Identical(p.Type(), fp.Type()) {
						// a flags parameter of the helper: what the dispatcher hands it
						for i, hp := range host.Params {
							if hp != p {
								continue
							}
							eachInstr(d, false, func(_ *ssa.Function, in2 ssa.Instruction) {
								if c2, ok := in2.(*ssa.Call); ok && c2.Call.StaticCallee() == host && i < len(c2.Call.Args) {
									walk(c2.Call.Args[i], k+1)
								}
							})
						}
					}
					switch x := v.(type) {
					case *ssa.BinOp:
						walk(x.X, k+1)
						walk(x.Y, k+1)
					case *ssa.Phi:
						for _, e := range x.Edges {
							walk(e, k+1)
						}
					case *ssa.UnOp:
						walk(x.X, k+1)
					}
				}
				walk(c.Call.Args[2], 0)
				key := fmt.Sprintf("group-flags%d", ng)
				if dep {
					r.bad("A-SMART", key, w.instrPos(c), "the content of a parenthesised group is built with the flags of the expression around it: (//b)[n] is then built as a filtered step (per-parent // expansion) and [n] no longer counts in document order")
				} else {
					r.ok("A-SMART", key, w.instrPos(c), "a parenthesised group is built with fresh flags")
				}
			})
		}
	}
	if ng == 0 {
		r.bad("A-SMART", "group-sites", "", "no self-call of the node dispatcher (group unwrapping) found")
	}
}

// evalStringWith evaluates a string-valued SSA expression built from
// constants, concatenation, strconv.Itoa/FormatInt and fmt.Sprintf, the
// integer variable v standing for k.
func evalStringWith(x ssa.Value, v ssa.Value, k int64, depth int) (string, bool) {
	if depth > 8 {
		return "", false
	}
	intOf := func(y ssa.Value) (int64, bool) {
		for {
			switch z := y.(type) {
			case *ssa.Convert:
				y = z.X
				continue
			case *ssa.ChangeType:
				y = z.X
				continue
			case *ssa.MakeInterface:
				y = z.X
				continue
			}
			break
		}
		if y == v {
			return k, true
		}
		return constInt(y)
	}
	switch z := x.(type) {
	case *ssa.Const:
		return constString(z)
	case *ssa.BinOp:
		if z.Op == token.ADD {
			a, ok1 := evalStringWith(z.X, v, k, depth+1)
			b, ok2 := evalStringWith(z.Y, v, k, depth+1)
			return a + b, ok1 && ok2
		}
	case *ssa.Call:
		f := z.Call.StaticCallee()
		if f == nil {
			return "", false
		}
		switch f.String() {
		case "strconv.Itoa":
			if n, ok := intOf(z.Call.Args[0]); ok {
				return strconv.Itoa(int(n)), true
			}
		case "strconv.FormatInt":
			if n, ok := intOf(z.Call.Args[0]); ok {
				if b, ok := constInt(z.Call.Args[1]); ok {
					return strconv.FormatInt(n, int(b)), true
				}
			}
		case "fmt.Sprintf", "fmt.Sprint":
			var args []interface{}
			start := 0
			format := ""
			if f.Name() == "Sprintf" {
				s, ok := constString(z.Call.Args[0])
				if !ok {
					return "", false
				}
				format, start = s, 1
			}
			// variadic slice: stores into the backing array
			if start < len(z.Call.Args) {
				if sl, ok := z.Call.Args[start].(*ssa.Slice); ok {
					if a, ok := sl.X.(*ssa.Alloc); ok {
						vals := map[int64]ssa.Value{}
						for _, u := range uses(a) {
							if ia, ok := u.(*ssa.IndexAddr); ok {
								idx, _ := constInt(ia.Index)
								for _, uu := range uses(ia) {
									if st, ok := uu.(*ssa.Store); ok {
										vals[idx] = st.Val
									}
								}
							}
						}
						for i := int64(0); i < int64(len(vals)); i++ {
							if n, ok := intOf(vals[i]); ok {
								args = append(args, n)
							} else if s, ok := evalStringWith(vals[i], v, k, depth+1); ok {
								args = append(args, s)
							} else {
								return "", false
							}
						}
					}
				}
			}
			if f.Name() == "Sprintf" {
				return fmt.Sprintf(format, args...), true
			}
			return fmt.Sprint(args...), true
		}
	case *ssa.Phi:
		// a local assigned once before use
		var only string
		have := false
		for _, e := range z.Edges {
			s, ok := evalStringWith(e, v, k, depth+1)
			if !ok || have && s != only {
				return "", false
			}
			only, have = s, true
		}
		return only, have
	}
	return "", false
}
