package main

// A-DISPATCH, A-ELIDE, N-FRAME, X-TOTAL (C01, C15, C17).

import (
	"fmt"
	"go/constant"
	"go/token"
	"go/types"
	"sort"
	"strings"

	"golang.org/x/tools/go/ssa"
)

var xpathAxes = []string{"ancestor", "ancestor-or-self", "attribute", "child", "descendant", "descendant-or-self", "following", "following-sibling", "parent", "preceding", "preceding-sibling", "self"}

type axisBuild struct {
	Label string
	Alloc *ssa.Alloc
	Type  *QType
	// field -> stored value
	Fields map[string]ssa.Value
}

// axisBuilderFn: the SSA function containing the axis switch.
func (w *World) axisBuilderFn() *ssa.Function {
	si := w.axisSwitch()
	if si == nil {
		return nil
	}
	obj, _ := w.Info.Defs[si.Func.Name].(*types.Func)
	if obj == nil {
		return nil
	}
	return w.Prog.FuncValue(obj)
}

// stringCaseOf: the string constant c such that blk is dominated by the true
// edge of `X == c` where X is a load of a string field of parameter p.
func stringCasesOf(blk *ssa.BasicBlock, p ssa.Value) []string {
	var out []string
	fn := blk.Parent()
	for _, b := range fn.Blocks {
		ifi := blockIf(b)
		if ifi == nil {
			continue
		}
		bo, ok := ifi.Cond.(*ssa.BinOp)
		if !ok || bo.Op != token.EQL {
			continue
		}
		s, ok := constString(bo.Y)
		if !ok {
			continue
		}
		ld, ok := bo.X.(*ssa.UnOp)
		if !ok {
			continue
		}
		fa, ok := ld.X.(*ssa.FieldAddr)
		if !ok || fa.X != p {
			continue
		}
		t := b.Succs[0]
		if t == blk || t.Dominates(blk) {
			// the true successor may be shared by several labels (case "a", "b":)
			out = append(out, s)
		}
	}
	return out
}

func (w *World) axisBuilds(fn *ssa.Function) []*axisBuild {
	var out []*axisBuild
	root := fn.Params[1]
	for _, b := range fn.Blocks {
		for _, in := range b.Instrs {
			a, ok := in.(*ssa.Alloc)
			if !ok {
				continue
			}
			n, _ := a.Type().(*types.Pointer).Elem().(*types.Named)
			qt := w.census.ByType[n]
			if qt == nil {
				continue
			}
			ab := &axisBuild{Alloc: a, Type: qt, Fields: map[string]ssa.Value{}}
			for _, u := range uses(a) {
				if fa, ok := u.(*ssa.FieldAddr); ok {
					for _, uu := range uses(fa) {
						if st, ok := uu.(*ssa.Store); ok && st.Addr == ssa.Value(fa) {
							ab.Fields[fieldOfAddr(fa).Name()] = st.Val
						}
					}
				}
			}
			labels := stringCasesOf(b, root)
			if len(labels) == 0 {
				ab.Label = ""
				out = append(out, ab)
				continue
			}
			// innermost label: the one whose test block is dominated by the others
			ab.Label = labels[len(labels)-1]
			for _, l := range labels {
				_ = l
			}
			out = append(out, ab)
		}
	}
	return out
}

func ruleADispatch(w *World, r *Report) {
	r.rule("A-DISPATCH", "the builder's axis dispatch has a case for each of the twelve XPath 1.0 axes; every query built there takes as input the query built from the step's input (or the context query when there is none) and as node test the predicate built from the same step; X and X-or-self (X and X-sibling) build the same type differing exactly in one bool field that is true for the -or-self/-sibling variant; the eight base axes use pairwise different types")
	fn := w.axisBuilderFn()
	si := w.axisSwitch()
	if fn == nil || si == nil {
		r.bad("ANCHOR", "A-DISPATCH", "", "axis dispatch not found")
		return
	}
	r.FuncsAnalysed[fnName(fn)] = true
	labels := map[string]bool{}
	for _, c := range si.Cases {
		for _, l := range c.Labels {
			labels[l] = true
		}
	}
	for _, ax := range xpathAxes {
		if labels[ax] {
			r.ok("A-DISPATCH", "case:"+ax, w.pos(si.Stmt.Pos()), "has a case")
		} else {
			r.bad("A-DISPATCH", "case:"+ax, w.pos(si.Stmt.Pos()), fmt.Sprintf("the axis dispatch has no case for %q: a valid XPath 1.0 axis is rejected or mis-built", ax))
		}
	}
	root := fn.Params[1]
	// the predicate built from root
	var predCall *ssa.Call
	eachInstr(fn, false, func(_ *ssa.Function, in ssa.Instruction) {
		if c, ok := in.(*ssa.Call); ok && c.Call.StaticCallee() != nil && w.isPredicateFuncType(c.Type()) && len(c.Call.Args) == 1 && c.Call.Args[0] == ssa.Value(root) {
			predCall = c
		}
	})
	if predCall == nil {
		r.bad("A-DISPATCH", "predicate", w.pos(fn.Pos()), "no node-test predicate is built from the step being compiled")
		return
	}
	builds := w.axisBuilds(fn)
	byLabel := map[string][]*axisBuild{}
	for _, ab := range builds {
		if ab.Label == "" {
			continue
		}
		// builds outside the dispatch switch (the `//name` rewrite) are judged by A-ELIDE
		if p := ab.Alloc.Pos(); p < si.Stmt.Pos() || p > si.Stmt.End() {
			continue
		}
		// only step queries (those carrying a predicate field)
		hasPred := false
		for _, f := range ab.Type.Fields {
			if w.isPredicateFuncType(f.Var.Type()) {
				hasPred = true
			}
		}
		if !hasPred {
			continue
		}
		byLabel[ab.Label] = append(byLabel[ab.Label], ab)
	}
	for _, ax := range xpathAxes {
		bs := byLabel[ax]
		// the shortcut build of `//name` sits under the "child" test of the
		// pre-switch code; it is judged by A-ELIDE. Keep builds in the switch.
		if len(bs) == 0 {
			if labels[ax] {
				r.bad("A-DISPATCH", "build:"+ax, w.pos(si.Stmt.Pos()), fmt.Sprintf("the case for %q builds no step query", ax))
			}
			continue
		}
		for _, ab := range bs {
			key := fmt.Sprintf("build:%s:%s", ax, ab.Type.Name())
			pos := w.instrPos(ab.Alloc)
			// node test
			okPred := false
			for fname, v := range ab.Fields {
				if w.isPredicateFuncType(ab.Type.ByName[fname].Var.Type()) {
					if v == ssa.Value(predCall) {
						okPred = true
					}
				}
			}
			// input
			okIn := false
			inputDesc := ""
			for fname, v := range ab.Fields {
				if !ab.Type.ByName[fname].IsQuery {
					continue
				}
				inputDesc = w.describeInput(fn, v, root)
				if strings.HasPrefix(inputDesc, "ok:") && strings.Contains(inputDesc, "query built from this step's") {
					okIn = true
				}
			}
			switch {
			case !okPred:
				r.bad("A-DISPATCH", key, pos, fmt.Sprintf("the %s query for axis %q does not get the node test built from this step: the step selects by a different (or no) test", ab.Type.Name(), ax))
			case !okIn:
				r.bad("A-DISPATCH", key, pos, fmt.Sprintf("the %s query for axis %q is not fed by the step's own input (%s)", ab.Type.Name(), ax, inputDesc))
			default:
				r.ok("A-DISPATCH", key, pos, "input = "+strings.TrimPrefix(inputDesc, "ok:")+", node test = predicate of this step")
			}
		}
	}
	// flag agreement
	pairs := [][2]string{{"ancestor", "ancestor-or-self"}, {"descendant", "descendant-or-self"}, {"following", "following-sibling"}, {"preceding", "preceding-sibling"}}
	for _, p := range pairs {
		a, b := byLabel[p[0]], byLabel[p[1]]
		key := "flag:" + p[1]
		if len(a) == 0 || len(b) == 0 || len(a) != len(b) {
			r.bad("A-DISPATCH", key, w.pos(si.Stmt.Pos()), fmt.Sprintf("%s and %s do not build the same number of variants", p[0], p[1]))
			continue
		}
		sort.Slice(a, func(i, j int) bool { return a[i].Type.Name() < a[j].Type.Name() })
		sort.Slice(b, func(i, j int) bool { return b[i].Type.Name() < b[j].Type.Name() })
		for i := range a {
			if a[i].Type != b[i].Type {
				r.bad("A-DISPATCH", key, w.instrPos(b[i].Alloc), fmt.Sprintf("%s builds %s but %s builds %s", p[0], a[i].Type.Name(), p[1], b[i].Type.Name()))
				continue
			}
			var diffs []string
			okFlag := true
			for _, f := range a[i].Type.Fields {
				bt, isB := f.Var.Type().Underlying().(*types.Basic)
				if !isB || bt.Kind() != types.Bool {
					continue
				}
				va, vb := boolConst(a[i].Fields[f.Var.Name()]), boolConst(b[i].Fields[f.Var.Name()])
				if va != vb {
					diffs = append(diffs, f.Var.Name())
					if !(va == false && vb == true) {
						okFlag = false
					}
				}
			}
			if len(diffs) == 1 && okFlag {
				r.ok("A-DISPATCH", key+":"+a[i].Type.Name(), w.instrPos(b[i].Alloc), fmt.Sprintf("same type; %s is true exactly for %s", diffs[0], p[1]))
			} else {
				r.bad("A-DISPATCH", key+":"+a[i].Type.Name(), w.instrPos(b[i].Alloc), fmt.Sprintf("%s and %s must differ in exactly one bool field, false for the first and true for the second; differing fields: %v", p[0], p[1], diffs))
			}
		}
	}
	// base axes use different types
	base := []string{"ancestor", "attribute", "child", "descendant", "following", "parent", "preceding", "self"}
	seenT := map[string]string{}
	okBase := true
	for _, ax := range base {
		for _, ab := range byLabel[ax] {
			if prev, dup := seenT[ab.Type.Name()]; dup && prev != ax {
				okBase = false
				r.bad("A-DISPATCH", "distinct:"+ax, w.instrPos(ab.Alloc), fmt.Sprintf("axes %s and %s are both compiled to %s", prev, ax, ab.Type.Name()))
			}
			seenT[ab.Type.Name()] = ax
		}
	}
	if okBase {
		r.ok("A-DISPATCH", "distinct", w.pos(si.Stmt.Pos()), "the eight base axes are compiled to pairwise different iterator types")
	}
}

func boolConst(v ssa.Value) bool {
	c, ok := v.(*ssa.Const)
	if !ok || c.Value == nil || c.Value.Kind() != constant.Bool {
		return false
	}
	return constant.BoolVal(c.Value)
}

// describeInput: v is phi(&contextQuery{}, processNode(root.Input ...)) or
// one of those.
func (w *World) describeInput(fn *ssa.Function, v ssa.Value, root ssa.Value) string {
	var parts []string
	ok := true
	var walk func(v ssa.Value, d int)
	walk = func(v ssa.Value, d int) {
		v = strip(v)
		switch x := v.(type) {
		case *ssa.Phi:
			if d > 3 {
				ok = false
				return
			}
			for _, e := range x.Edges {
				walk(e, d+1)
			}
		case *ssa.MakeInterface:
			if a, isA := x.X.(*ssa.Alloc); isA {
				n, _ := a.Type().(*types.Pointer).Elem().(*types.Named)
				if qt := w.census.ByType[n]; qt != nil && len(qt.Fields) <= 1 {
					parts = append(parts, "context query")
					return
				}
			}
			ok = false
			parts = append(parts, x.String())
		case *ssa.Extract:
			c, isC := x.Tuple.(*ssa.Call)
			if isC && x.Index == 0 && len(c.Call.Args) >= 2 {
				// argument: load of a node-typed field of root
				if ld, isL := c.Call.Args[1].(*ssa.UnOp); isL {
					if fa, isF := ld.X.(*ssa.FieldAddr); isF && fa.X == root {
						parts = append(parts, "query built from this step's "+fieldOfAddr(fa).Name())
						return
					}
				}
			}
			ok = false
			parts = append(parts, "query built from something other than this step's input")
		default:
			ok = false
			parts = append(parts, fmt.Sprintf("%s", v))
		}
	}
	walk(v, 0)
	s := strings.Join(dedup(parts), " | ")
	if ok {
		return "ok:" + s
	}
	return s
}

// ---------- A-ELIDE ----------

// nodeTestFields: the fields of the step node that decide whether its test
// is the match-everything node(): those read by the predicate factory itself
// plus the field the closure compares with n.NodeType().
func (w *World) nodeTestFields() map[string]bool {
	out := map[string]bool{}
	for _, cl := range w.sharedClosures() {
		if !w.isPredicateFuncType(cl.Signature) || cl.Parent() == nil {
			continue
		}
		// factory reads
		eachInstr(cl.Parent(), false, func(_ *ssa.Function, in ssa.Instruction) {
			if fa, ok := in.(*ssa.FieldAddr); ok {
				if _, isStruct := fa.X.Type().Underlying().(*types.Pointer); isStruct {
					out[fieldOfAddr(fa).Name()] = true
				}
			}
		})
		// closure: field compared with NodeType()
		eachInstr(cl, false, func(_ *ssa.Function, in ssa.Instruction) {
			bo, ok := in.(*ssa.BinOp)
			if !ok || bo.Op != token.EQL {
				return
			}
			for _, side := range [][2]ssa.Value{{bo.X, bo.Y}, {bo.Y, bo.X}} {
				if c, ok := side[1].(*ssa.Call); ok && c.Call.IsInvoke() && w.isNavType(c.Call.Value.Type()) {
					if ld, ok := side[0].(*ssa.UnOp); ok {
						if fa, ok := ld.X.(*ssa.FieldAddr); ok {
							out[fieldOfAddr(fa).Name()] = true
						}
					}
				}
			}
		})
	}
	return out
}

func ruleAElide(w *World, r *Report) {
	r.rule("A-ELIDE", "a location step may be optimised away by the builder only if its node test is node(): on every success return of the axis builder on which another step node was neither compiled nor given a predicate, the dominating branch conditions read all the fields that decide its node test")
	fn := w.axisBuilderFn()
	if fn == nil {
		r.bad("ANCHOR", "A-ELIDE", "", "axis builder not found")
		return
	}
	need := w.nodeTestFields()
	if len(need) < 2 {
		r.bad("ANCHOR", "A-ELIDE", "", "node-test fields could not be derived from the predicate factory")
		return
	}
	root := fn.Params[1]
	n := 0
	eachInstr(fn, false, func(_ *ssa.Function, in ssa.Instruction) {
		ta, ok := in.(*ssa.TypeAssert)
		if !ok || !types.Identical(ta.AssertedType, root.Type()) {
			return
		}
		var v ssa.Value = ta
		if ta.CommaOk {
			for _, u := range uses(ta) {
				if ex, ok := u.(*ssa.Extract); ok && ex.Index == 0 {
					v = ex
				}
			}
		}
		n++
		// success returns dominated by the assertion
		for _, b := range fn.Blocks {
			ret, ok := normalReturn(b)
			if !ok || len(ret.Results) != 2 || !isNilConst(strip(retVal(ret, 1))) || isNilConst(strip(retVal(ret, 0))) {
				continue
			}
			if !ta.Block().Dominates(b) {
				continue
			}
			// is v itself compiled / given a predicate on the way?
			consumed := false
			for _, u := range uses(v) {
				switch x := u.(type) {
				case *ssa.MakeInterface, *ssa.ChangeInterface:
					for _, uu := range uses(x.(ssa.Value)) {
						if c, ok := uu.(ssa.CallInstruction); ok && c.Block().Dominates(b) {
							consumed = true
						}
					}
				case ssa.CallInstruction:
					if x.Block().Dominates(b) {
						consumed = true
					}
				}
			}
			key := "elided-step"
			if consumed {
				r.ok("A-ELIDE", key, w.instrPos(ret), "the other step is compiled on this path")
				continue
			}
			// fields of v read by dominating conditions
			read := map[string]bool{}
			for _, db := range fn.Blocks {
				ifi := blockIf(db)
				if ifi == nil || !db.Dominates(b) {
					continue
				}
				// the condition must really constrain this path: one successor dominates b
				if !(db.Succs[0].Dominates(b) || db.Succs[0] == b || db.Succs[1].Dominates(b) || db.Succs[1] == b) {
					continue
				}
				var walk func(x ssa.Value, d int)
				walk = func(x ssa.Value, d int) {
					if d > 6 {
						return
					}
					switch y := x.(type) {
					case *ssa.BinOp:
						walk(y.X, d+1)
						walk(y.Y, d+1)
					case *ssa.UnOp:
						if fa, ok := y.X.(*ssa.FieldAddr); ok && fa.X == v {
							read[fieldOfAddr(fa).Name()] = true
						}
						walk(y.X, d+1)
					}
				}
				walk(ifi.Cond, 0)
			}
			var missing []string
			for f := range need {
				if !read[f] {
					missing = append(missing, f)
				}
			}
			sort.Strings(missing)
			if len(missing) == 0 {
				r.ok("A-ELIDE", key, w.instrPos(ret), fmt.Sprintf("the step is dropped only after its node test (%v) was examined", sortedKeys(need)))
			} else {
				r.bad("A-ELIDE", key, w.instrPos(ret), fmt.Sprintf("the builder drops a whole location step (rewriting x/child::n over it) after looking only at %v; its node test (%v not examined) is ignored, so e.g. descendant-or-self::zz/b is compiled as descendant::b", sortedKeys(read), missing))
			}
		}
	})
	if n == 0 {
		r.note("A-ELIDE: the axis builder inspects no other step node (no step elision)")
		r.ok("A-ELIDE", "no-elision", w.pos(fn.Pos()), "no step elision in the axis builder")
	}
}

// ---------- X-TOTAL ----------

func ruleXTotal(w *World, r *Report) {
	r.rule("X-TOTAL", "the builder never returns a nil query together with a nil error: in every builder function, on every return whose error result is the nil constant, the query result cannot be nil (a fresh query, or the result of a builder call whose error was tested); the node-type dispatch has a case for every parse-tree node type")
	// builder methods: methods of the type that has the depth-guard function among build-time code returning (query, error)
	var fns []*ssa.Function
	for _, fn := range w.AllFuncs {
		if fn.Parent() != nil || !w.BuildTime[fn] {
			continue
		}
		res := fn.Signature.Results()
		if res.Len() == 2 && w.isQueryType(res.At(0).Type()) && isErrorType(res.At(1).Type()) && fn.Signature.Recv() != nil {
			fns = append(fns, fn)
		}
	}
	if len(fns) < 4 {
		r.bad("ANCHOR", "X-TOTAL", "", fmt.Sprintf("only %d builder functions found", len(fns)))
		return
	}
	for _, fn := range fns {
		r.FuncsAnalysed[fnName(fn)] = true
		perRet := w.xTotalPerReturn(fn)
		for _, pr := range perRet {
			key := fn.Name() + ":return"
			if len(pr.nils) == 0 {
				r.ok("X-TOTAL", key, w.instrPos(pr.ret), "query result is non-nil whenever the error is nil")
			} else {
				r.bad("X-TOTAL", key, w.instrPos(pr.ret), fmt.Sprintf("%s can return a nil query with a nil error: %s — the expression compiles and the nil query is dereferenced at run time", fn.Name(), strings.Join(dedup(pr.nils), "; ")))
			}
		}
	}
}

type xtRet struct {
	ret  *ssa.Return
	nils []string
}

func (w *World) xTotalPerReturn(fn *ssa.Function) []xtRet {
	var out []xtRet
	for _, b := range fn.Blocks {
		ret, ok := normalReturn(b)
		if !ok || len(ret.Results) != 2 {
			continue
		}
		var nils []string
		judged := 0
		for _, pr := range w.resultPairs(fn, ret) {
			errNil, _ := w.mayBeNilError(fn, pr.e, pr.blk)
			if !errNil {
				continue
			}
			judged++
			if qe, ok := strip(pr.q).(*ssa.Extract); ok {
				if ee, ok := strip(pr.e).(*ssa.Extract); ok && qe.Tuple == ee.Tuple && qe.Index == 0 {
					continue
				}
			}
			nils = append(nils, w.nilSources(fn, pr.q, pr.blk, map[ssa.Value]bool{}, 0)...)
		}
		if judged == 0 {
			continue
		}
		out = append(out, xtRet{ret, nils})
	}
	return out
}

func (w *World) xTotalNils(fn *ssa.Function) []string {
	var all []string
	for _, pr := range w.xTotalPerReturn(fn) {
		all = append(all, pr.nils...)
	}
	return all
}

type resPair struct {
	q, e ssa.Value
	blk  *ssa.BasicBlock
}

// resultPairs: the (query, error) value pairs a return can yield; named
// results are resolved to their reaching assignments, paired by block.
func (w *World) resultPairs(fn *ssa.Function, ret *ssa.Return) []resPair {
	q, e := retVal(ret, 0), retVal(ret, 1)
	// both results are phis of the same block: pair them edge by edge
	if qp, ok := q.(*ssa.Phi); ok {
		if ep, ok := e.(*ssa.Phi); ok && ep.Block() == qp.Block() {
			var out []resPair
			for i := range qp.Edges {
				pred := qp.Block().Preds[i]
				if !w.stringFeasible(pred, qp.Block(), fn) || w.excludedByDomain(pred, qp.Block(), fn) || w.enumExhausted(pred, qp.Block()) {
					continue
				}
				out = append(out, resPair{qp.Edges[i], ep.Edges[i], pred})
			}
			return out
		}
	}
	ql, qok := q.(*ssa.UnOp)
	el, eok := e.(*ssa.UnOp)
	if !qok || !eok {
		return []resPair{{q, e, ret.Block()}}
	}
	qa, ea := cellOf(ql.X), cellOf(el.X)
	if qa == nil || ea == nil || qa.Parent() != fn || ea.Parent() != fn {
		return []resPair{{q, e, ret.Block()}}
	}
	qs, es := reachingAt(fn, qa, ql), reachingAt(fn, ea, el)
	nilQ := ssa.NewConst(nil, qa.Type().(*types.Pointer).Elem())
	nilE := ssa.NewConst(nil, ea.Type().(*types.Pointer).Elem())
	var out []resPair
	for _, sq := range qs {
		paired := false
		for _, se := range es {
			if se.Block() == sq.Block() {
				out = append(out, resPair{sq.Val, se.Val, sq.Block()})
				paired = true
			}
		}
		if !paired {
			// the error in force is whatever was assigned before; the query was assigned later in sq's block
			okAny := false
			for _, se := range es {
				if se.Block().Dominates(sq.Block()) {
					out = append(out, resPair{sq.Val, se.Val, sq.Block()})
					okAny = true
				}
			}
			if !okAny {
				out = append(out, resPair{sq.Val, nilE, sq.Block()})
			}
		}
	}
	if zeroReaches(fn, qa, ql) {
		if zeroReaches(fn, ea, el) {
			out = append(out, resPair{nilQ, nilE, ret.Block()})
		}
		for _, se := range es {
			// error assigned on a path where the query was not: only matters when that error can be nil
			_ = se
		}
	}
	return out
}

// mayBeNilError: can the error result be nil on this return?
func (w *World) mayBeNilError(fn *ssa.Function, e ssa.Value, blk *ssa.BasicBlock) (bool, string) {
	e = strip(e)
	if isNilConst(e) {
		return true, "error is the nil constant"
	}
	if w.nonNilByConstruction(e, blk) {
		return false, ""
	}
	return true, "error value may be nil"
}

// nilSources: ways q can be nil at blk although the error is nil.
func (w *World) nilSources(fn *ssa.Function, q ssa.Value, blk *ssa.BasicBlock, seen map[ssa.Value]bool, depth int) []string {
	q = strip(q)
	if seen[q] || depth > 12 {
		return nil
	}
	seen[q] = true
	switch x := q.(type) {
	case *ssa.Const:
		if x.Value == nil {
			return []string{"the nil constant"}
		}
		return nil
	case *ssa.MakeInterface, *ssa.Alloc:
		return nil
	case *ssa.Phi:
		var out []string
		for i, e := range x.Edges {
			pred := x.Block().Preds[i]
			if len(fn.Params) > 1 && !w.stringFeasible(pred, x.Block(), fn) {
				continue // the edge contradicts the enclosing case labels
			}
			if w.excludedByDomain(pred, x.Block(), fn) {
				continue // every operator the parser can produce has been ruled out on this edge (A-OPS)
			}
			if w.enumExhausted(pred, x.Block()) {
				continue // every declared constant of the switched enum type has been ruled out
			}
			for _, s := range w.nilSources(fn, e, pred, seen, depth+1) {
				out = append(out, fmt.Sprintf("%s (path through %s)", s, w.blockLabel(pred, fn)))
			}
		}
		return out
	case *ssa.Extract:
		// result of a builder call: non-nil if its error was tested nil on the way here
		if c, ok := x.Tuple.(*ssa.Call); ok && x.Index == 0 {
			for _, u := range uses(c) {
				if ex, ok := u.(*ssa.Extract); ok && ex.Index == 1 {
					if w.underNilTest(ex, blk) || w.testedNilBefore(ex, x, blk) {
						return nil // callee's own obligation
					}
				}
			}
			return []string{fmt.Sprintf("result of %s used without testing its error", c.Call.Value.Name())}
		}
	case *ssa.UnOp:
		if x.Op == token.MUL {
			vals, ok := w.cellReaching(x)
			if ok {
				var out []string
				if a := cellOf(x.X); a != nil && a.Parent() == fn && zeroReaches(fn, a, x) {
					out = append(out, fmt.Sprintf("%s is still nil on a path on which no case assigns it", a.Comment))
				}
				if len(vals) == 0 && len(out) == 0 {
					return []string{"variable never assigned on this path"}
				}
				for _, v := range vals {
					out = append(out, w.nilSources(fn, v, blk, seen, depth+1)...)
				}
				return out
			}
		}
	case *ssa.Call:
		if w.isCloneCall(x) {
			return nil
		}
	}
	if w.underNonNilTest(q, blk) {
		return nil
	}
	return []string{fmt.Sprintf("value %s of unknown nil-ness", q)}
}

// testedNilBefore: the error extract was tested against nil on a block that
// dominates blk via its nil edge, even if blk is not strictly dominated
// (join after the test).
func (w *World) testedNilBefore(errv ssa.Value, _ ssa.Value, blk *ssa.BasicBlock) bool {
	for _, u := range uses(errv) {
		bo, ok := u.(*ssa.BinOp)
		if !ok {
			continue
		}
		for _, uu := range uses(bo) {
			ifi, ok := uu.(*ssa.If)
			if !ok {
				continue
			}
			// non-nil edge leaves the function with a return
			nn := ifi.Block().Succs[0]
			if bo.Op == token.EQL {
				nn = ifi.Block().Succs[1]
			}
			if _, isRet := nn.Instrs[len(nn.Instrs)-1].(*ssa.Return); isRet && (ifi.Block() == blk || ifi.Block().Dominates(blk)) {
				return true
			}
		}
	}
	return false
}

func (w *World) blockLabel(b *ssa.BasicBlock, fn *ssa.Function) string {
	if len(fn.Params) > 1 {
		if ls := stringCasesOf(b, fn.Params[1]); len(ls) > 0 {
			return fmt.Sprintf("case %q", ls[len(ls)-1])
		}
	}
	for _, in := range b.Instrs {
		if in.Pos().IsValid() {
			return w.pos(in.Pos())
		}
	}
	return fmt.Sprintf("block %d", b.Index)
}


// strTest: the If of p tests `load(X.f) == "c"`; returns a key for X.f and c.
func strTestOf(p *ssa.BasicBlock) (key string, c string, ok bool) {
	ifi := blockIf(p)
	if ifi == nil {
		return "", "", false
	}
	bo, isB := ifi.Cond.(*ssa.BinOp)
	if !isB || bo.Op != token.EQL {
		return "", "", false
	}
	s, isS := constString(bo.Y)
	if !isS {
		return "", "", false
	}
	ld, isL := bo.X.(*ssa.UnOp)
	if !isL {
		return "", "", false
	}
	fa, isF := ld.X.(*ssa.FieldAddr)
	if !isF {
		return "", "", false
	}
	return fmt.Sprintf("%s.%s", fa.X.Name(), fieldOfAddr(fa).Name()), s, true
}

// possibleStrings: the set of constants the tested string field may equal on
// entry to b (known=false: unconstrained).
func possibleStrings(b *ssa.BasicBlock, key string, depth int, onPath map[*ssa.BasicBlock]bool) (set map[string]bool, known bool) {
	if depth > 200 || len(b.Preds) == 0 || onPath[b] {
		return nil, false
	}
	onPath[b] = true
	defer delete(onPath, b)
	out := map[string]bool{}
	for _, p := range b.Preds {
		k, c, isTest := strTestOf(p)
		if isTest && k == key && p.Succs[0] != p.Succs[1] {
			if p.Succs[0] == b {
				out[c] = true
				continue
			}
			up, kn := possibleStrings(p, key, depth+1, onPath)
			if !kn {
				return nil, false
			}
			for s := range up {
				if s != c {
					out[s] = true
				}
			}
			continue
		}
		up, kn := possibleStrings(p, key, depth+1, onPath)
		if !kn {
			return nil, false
		}
		for s := range up {
			out[s] = true
		}
	}
	return out, true
}

// stringFeasible: is the edge pred->blk consistent with the string tests that
// dominate it? (false only when the possible set is known and empty)
func (w *World) stringFeasible(pred, blk *ssa.BasicBlock, fn *ssa.Function) bool {
	// which field is being switched on around here: take the test of pred or of its chain
	key := ""
	for p, d := pred, 0; p != nil && d < 200; d++ {
		if k, _, ok := strTestOf(p); ok {
			key = k
			break
		}
		if len(p.Preds) != 1 {
			break
		}
		p = p.Preds[0]
	}
	if key == "" {
		return true
	}
	k, c, isTest := strTestOf(pred)
	var set map[string]bool
	var known bool
	if isTest && k == key && pred.Succs[0] != pred.Succs[1] {
		if pred.Succs[0] == blk {
			return true
		}
		up, kn := possibleStrings(pred, key, 0, map[*ssa.BasicBlock]bool{})
		if !kn {
			return true
		}
		set, known = map[string]bool{}, true
		for s := range up {
			if s != c {
				set[s] = true
			}
		}
	} else {
		set, known = possibleStrings(pred, key, 0, map[*ssa.BasicBlock]bool{})
	}
	return !known || len(set) > 0
}


// excludedByDomain: the edge pred->blk is the fall-through of a chain of
// `op == "c"` tests on the operator string of an operator node, and the chain
// excludes every operator string the parser can produce.
func (w *World) excludedByDomain(pred, blk *ssa.BasicBlock, fn *ssa.Function) bool {
	od := w.operatorSwitch()
	if od == nil {
		return false
	}
	obj, _ := w.Info.Defs[od.Switch.Func.Name].(*types.Func)
	if obj == nil || w.Prog.FuncValue(obj) != fn {
		return false
	}
	g, err := w.grammar()
	if err != nil {
		return false
	}
	prod := w.producedOperators(g)
	excluded := map[string]bool{}
	key := ""
	b, to := pred, blk
	for d := 0; d < 64; d++ {
		k, c, ok := strTestOf(b)
		if !ok || b.Succs[1] != to || (key != "" && k != key) {
			break
		}
		key = k
		excluded[c] = true
		if len(b.Preds) != 1 {
			break
		}
		to, b = b, b.Preds[0]
	}
	if key == "" {
		return false
	}
	for op := range prod {
		if !excluded[op] {
			return false
		}
	}
	return true
}


// enumExhausted: the edge pred->blk is the fall-through of a chain of
// `v == K` tests on one value v of a package-defined integer type, and the
// chain excludes every declared constant of that type.
func (w *World) enumExhausted(pred, blk *ssa.BasicBlock) bool {
	excluded := map[int64]bool{}
	var val ssa.Value
	var typ *types.Named
	b, to := pred, blk
	for d := 0; d < 64; d++ {
		ifi := blockIf(b)
		if ifi == nil {
			break
		}
		bo, ok := ifi.Cond.(*ssa.BinOp)
		if !ok || bo.Op != token.EQL || b.Succs[1] != to {
			break
		}
		k, ok := constInt(bo.Y)
		if !ok {
			break
		}
		n, ok := bo.X.Type().(*types.Named)
		if !ok || n.Obj().Pkg() != w.Types {
			break
		}
		if val != nil && bo.X != val {
			break
		}
		val, typ = bo.X, n
		excluded[k] = true
		if len(b.Preds) != 1 {
			break
		}
		to, b = b, b.Preds[0]
	}
	if typ == nil {
		return false
	}
	scope := w.Types.Scope()
	n := 0
	for _, name := range scope.Names() {
		if c, ok := scope.Lookup(name).(*types.Const); ok && types.Identical(c.Type(), typ) {
			v, _ := constant.Int64Val(c.Val())
			n++
			if !excluded[v] {
				return false
			}
		}
	}
	return n > 0
}
