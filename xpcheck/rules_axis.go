package main

// A-DISPATCH, A-ELIDE, N-FRAME, X-TOTAL (C01, C15, C17).

import (
	"fmt"
	"go/constant"
	"go/token"
	"go/types"
	"sort"
	"strings"

	"golang.org/x/tools/go/ssa"
)

var xpathAxes = []string{"ancestor", "ancestor-or-self", "attribute", "child", "descendant", "descendant-or-self", "following", "following-sibling", "parent", "preceding", "preceding-sibling", "self"}

type axisBuild struct {
	Label string
	Alloc *ssa.Alloc
	Type  *QType
	// field -> stored value
	Fields map[string]ssa.Value
}

// axisBuilderFn: the SSA function containing the axis switch.
func (w *World) axisBuilderFn() *ssa.Function {
	br, err := w.roles()
	if err != nil {
		return nil
	}
	return br.AxisB
}

// stringCaseOf: the string constant c such that blk is dominated by the true
// edge of `X == c` where X is a load of a string field of parameter p.
func stringCasesOf(blk *ssa.BasicBlock, p ssa.Value) []string {
	var out []string
	fn := blk.Parent()
	for _, b := range fn.Blocks {
		ifi := blockIf(b)
		if ifi == nil {
			continue
		}
		bo, ok := ifi.Cond.(*ssa.BinOp)
		if !ok || bo.Op != token.EQL {
			continue
		}
		s, ok := constString(bo.Y)
		if !ok {
			continue
		}
		ld, ok := bo.X.(*ssa.UnOp)
		if !ok {
			continue
		}
		fa, ok := ld.X.(*ssa.FieldAddr)
		if !ok || fa.X != p {
			continue
		}
		t := b.Succs[0]
		if t == blk || t.Dominates(blk) {
			// the true successor may be shared by several labels (case "a", "b":)
			out = append(out, s)
		}
	}
	return out
}

func (w *World) axisBuilds(fn *ssa.Function) []*axisBuild {
	var out []*axisBuild
	root := fn.Params[1]
	for _, b := range fn.Blocks {
		for _, in := range b.Instrs {
			a, ok := in.(*ssa.Alloc)
			if !ok {
				continue
			}
			n, _ := a.Type().(*types.Pointer).Elem().(*types.Named)
			qt := w.census.ByType[n]
			if qt == nil {
				continue
			}
			ab := &axisBuild{Alloc: a, Type: qt, Fields: map[string]ssa.Value{}}
			for _, u := range uses(a) {
				if fa, ok := u.(*ssa.FieldAddr); ok {
					for _, uu := range uses(fa) {
						if st, ok := uu.(*ssa.Store); ok && st.Addr == ssa.Value(fa) {
							ab.Fields[fieldOfAddr(fa).Name()] = st.Val
						}
					}
				}
			}
			labels := stringCasesOf(b, root)
			if len(labels) == 0 {
				ab.Label = ""
				out = append(out, ab)
				continue
			}
			// innermost label: the one whose test block is dominated by the others
			ab.Label = labels[len(labels)-1]
			for _, l := range labels {
				_ = l
			}
			out = append(out, ab)
		}
	}
	return out
}

func ruleADispatch(w *World, r *Report) {
	r.rule("A-DISPATCH", "the axis builder, followed by constant propagation with each axis name (builder_absint.go), builds a query for each of the XPath 1.0 axes; every query built takes as input the query built from the step's input (or the context query when there is none) and as node test the predicate built from the same step; X and X-or-self (X and X-sibling) build the same type differing exactly in one bool field that is true for the -or-self/-sibling variant; the eight base axes use pairwise different types")
	tab, br, err := w.axisTable()
	if err != nil {
		r.bad("ANCHOR", "A-DISPATCH", "", "axis dispatch not found: "+err.Error())
		return
	}
	fn := br.AxisB
	r.FuncsAnalysed[fnName(fn)] = true
	pos := w.pos(fn.Pos())
	labels := map[string]bool{}
	for _, l := range br.Axes {
		labels[l] = true
	}
	for _, ax := range xpathAxes {
		if labels[ax] {
			r.ok("A-DISPATCH", "case:"+ax, pos, "has a case")
		} else {
			r.bad("A-DISPATCH", "case:"+ax, pos, fmt.Sprintf("the axis dispatch has no case for %q: a valid XPath 1.0 axis is rejected or mis-built", ax))
		}
	}
	byLabel := map[string][]axisEntry{}
	for _, e := range tab {
		hasPred := false
		for _, f := range e.Type.Fields {
			if w.isPredicateFuncType(f.Var.Type()) {
				hasPred = true
			}
		}
		if !hasPred {
			continue
		}
		if isFoldType(tab, e.Label, e.Type) {
			continue // the `//name` rewrite: judged by A-ELIDE
		}
		byLabel[e.Label] = append(byLabel[e.Label], e)
	}
	for _, ax := range xpathAxes {
		es := byLabel[ax]
		if len(es) == 0 {
			if labels[ax] && ax != "namespace" {
				r.bad("A-DISPATCH", "build:"+ax, pos, fmt.Sprintf("the case for %q builds no step query", ax))
			}
			continue
		}
		perType := map[string][]axisEntry{}
		for _, e := range es {
			perType[e.Type.Name()] = append(perType[e.Type.Name()], e)
		}
		for _, tn := range sortedKeysOf(perType) {
			key := fmt.Sprintf("build:%s:%s", ax, tn)
			bad := ""
			for _, e := range perType[tn] {
				switch {
				case !e.PredOK:
					bad = fmt.Sprintf("the %s query for axis %q does not get the node test built from this step: the step selects by a different (or no) test", tn, ax)
				case e.HasIn && e.Input != "input":
					bad = fmt.Sprintf("the %s query for axis %q is not fed by the step's own input (it gets %s)", tn, ax, e.Input)
				case !e.HasIn && e.Input != "context":
					bad = fmt.Sprintf("the %s query for axis %q of a step without input is not fed by the context query (it gets %s)", tn, ax, e.Input)
				}
			}
			if bad != "" {
				r.bad("A-DISPATCH", key, pos, bad)
			} else {
				r.ok("A-DISPATCH", key, pos, "input = query built from this step's input (context query when there is none), node test = predicate of this step")
			}
		}
	}
	// flag agreement
	pairs := [][2]string{{"ancestor", "ancestor-or-self"}, {"descendant", "descendant-or-self"}, {"following", "following-sibling"}, {"preceding", "preceding-sibling"}}
	flagsOf := func(es []axisEntry) map[string]map[string]bool {
		out := map[string]map[string]bool{}
		for _, e := range es {
			out[e.Type.Name()] = e.Flags
		}
		return out
	}
	for _, p := range pairs {
		a, b := flagsOf(byLabel[p[0]]), flagsOf(byLabel[p[1]])
		key := "flag:" + p[1]
		if len(a) == 0 || len(b) == 0 || len(a) != len(b) {
			r.bad("A-DISPATCH", key, pos, fmt.Sprintf("%s and %s do not build the same number of variants", p[0], p[1]))
			continue
		}
		for _, tn := range sortedKeysOf(a) {
			fb, same := b[tn]
			if !same {
				r.bad("A-DISPATCH", key, pos, fmt.Sprintf("%s builds %s but %s does not", p[0], tn, p[1]))
				continue
			}
			var diffs []string
			okFlag := true
			for f, va := range a[tn] {
				if vb := fb[f]; va != vb {
					diffs = append(diffs, f)
					if !(va == false && vb == true) {
						okFlag = false
					}
				}
			}
			for f, vb := range fb {
				if _, ok := a[tn][f]; !ok && vb {
					diffs = append(diffs, f)
				}
			}
			sort.Strings(diffs)
			if len(diffs) == 1 && okFlag {
				r.ok("A-DISPATCH", key+":"+tn, pos, fmt.Sprintf("same type; %s is true exactly for %s", diffs[0], p[1]))
			} else {
				r.bad("A-DISPATCH", key+":"+tn, pos, fmt.Sprintf("%s and %s must differ in exactly one bool field, false for the first and true for the second; differing fields: %v", p[0], p[1], diffs))
			}
		}
	}
	// base axes use different types
	base := []string{"ancestor", "attribute", "child", "descendant", "following", "parent", "preceding", "self"}
	seenT := map[string]string{}
	okBase := true
	for _, ax := range base {
		for _, e := range byLabel[ax] {
			if prev, dup := seenT[e.Type.Name()]; dup && prev != ax {
				okBase = false
				r.bad("A-DISPATCH", "distinct:"+ax, pos, fmt.Sprintf("axes %s and %s are both compiled to %s", prev, ax, e.Type.Name()))
			}
			seenT[e.Type.Name()] = ax
		}
	}
	if okBase {
		r.ok("A-DISPATCH", "distinct", pos, "the eight base axes are compiled to pairwise different iterator types")
	}
}

func sortedKeysOf[V any](m map[string]V) []string {
	var out []string
	for k := range m {
		out = append(out, k)
	}
	sort.Strings(out)
	return out
}

func boolConst(v ssa.Value) bool {
	c, ok := v.(*ssa.Const)
	if !ok || c.Value == nil || c.Value.Kind() != constant.Bool {
		return false
	}
	return constant.BoolVal(c.Value)
}

// describeInput: v is phi(&contextQuery{}, processNode(root.Input ...)) or
// one of those.
func (w *World) describeInput(fn *ssa.Function, v ssa.Value, root ssa.Value) string {
	var parts []string
	ok := true
	var walk func(v ssa.Value, d int)
	walk = func(v ssa.Value, d int) {
		v = strip(v)
		switch x := v.(type) {
		case *ssa.Phi:
			if d > 3 {
				ok = false
				return
			}
			for _, e := range x.Edges {
				walk(e, d+1)
			}
		case *ssa.MakeInterface:
			if a, isA := x.X.(*ssa.Alloc); isA {
				n, _ := a.Type().(*types.Pointer).Elem().(*types.Named)
				if qt := w.census.ByType[n]; qt != nil && len(qt.Fields) <= 1 {
					parts = append(parts, "context query")
					return
				}
			}
			ok = false
			parts = append(parts, x.String())
		case *ssa.Extract:
			c, isC := x.Tuple.(*ssa.Call)
			if isC && x.Index == 0 && len(c.Call.Args) >= 2 {
				// argument: load of a node-typed field of root
				if ld, isL := c.Call.Args[1].(*ssa.UnOp); isL {
					if fa, isF := ld.X.(*ssa.FieldAddr); isF && fa.X == root {
						parts = append(parts, "query built from this step's "+fieldOfAddr(fa).Name())
						return
					}
				}
			}
			ok = false
			parts = append(parts, "query built from something other than this step's input")
		default:
			ok = false
			parts = append(parts, fmt.Sprintf("%s", v))
		}
	}
	walk(v, 0)
	s := strings.Join(dedup(parts), " | ")
	if ok {
		return "ok:" + s
	}
	return s
}

// ---------- A-ELIDE ----------

// nodeTestFields: the fields of the step node that decide whether its test
// is the match-everything node(): those read by the predicate factory itself
// plus the field the closure compares with n.NodeType().
func (w *World) nodeTestFields() map[string]bool {
	out := map[string]bool{}
	for _, ntp := range w.nodeTestPredicates() {
		cl := ntp.Fn
		// factory reads
		eachInstr(ntp.Factory, false, func(_ *ssa.Function, in ssa.Instruction) {
			if fa, ok := in.(*ssa.FieldAddr); ok {
				// fields of the step node the factory was given
				if len(ntp.Factory.Params) > 0 && types.Identical(fa.X.Type(), ntp.Factory.Params[0].Type()) {
					out[fieldOfAddr(fa).Name()] = true
				}
			}
		})
		// closure: field compared with NodeType()
		eachInstr(cl, false, func(_ *ssa.Function, in ssa.Instruction) {
			bo, ok := in.(*ssa.BinOp)
			if !ok || bo.Op != token.EQL {
				return
			}
			for _, side := range [][2]ssa.Value{{bo.X, bo.Y}, {bo.Y, bo.X}} {
				if c, ok := side[1].(*ssa.Call); ok && c.Call.IsInvoke() && w.isNavType(c.Call.Value.Type()) {
					if ld, ok := side[0].(*ssa.UnOp); ok {
						if fa, ok := ld.X.(*ssa.FieldAddr); ok {
							if len(ntp.Factory.Params) == 0 || types.Identical(fa.X.Type(), ntp.Factory.Params[0].Type()) {
								out[fieldOfAddr(fa).Name()] = true
							}
						}
					}
				}
			}
		})
	}
	return out
}

func ruleAElide(w *World, r *Report) {
	r.rule("A-ELIDE", "a location step may be optimised away by the builder only if its node test is node(): on every success return of the axis builder on which another step node was neither compiled nor given a predicate, the dominating branch conditions read all the fields that decide its node test")
	fn := w.axisBuilderFn()
	if fn == nil {
		r.bad("ANCHOR", "A-ELIDE", "", "axis builder not found")
		return
	}
	need := w.nodeTestFields()
	if len(need) < 2 {
		r.bad("ANCHOR", "A-ELIDE", "", "node-test fields could not be derived from the predicate factory")
		return
	}
	root := fn.Params[1]
	n := 0
	eachInstr(fn, false, func(_ *ssa.Function, in ssa.Instruction) {
		ta, ok := in.(*ssa.TypeAssert)
		if !ok || !types.Identical(ta.AssertedType, root.Type()) {
			return
		}
		var v ssa.Value = ta
		if ta.CommaOk {
			for _, u := range uses(ta) {
				if ex, ok := u.(*ssa.Extract); ok && ex.Index == 0 {
					v = ex
				}
			}
		}
		n++
		// success returns dominated by the assertion
		for _, b := range fn.Blocks {
			ret, ok := normalReturn(b)
			if !ok || len(ret.Results) != 2 || !isNilConst(strip(retVal(ret, 1))) || isNilConst(strip(retVal(ret, 0))) {
				continue
			}
			if !ta.Block().Dominates(b) {
				continue
			}
			// is v itself compiled / given a predicate on the way?
			consumed := false
			for _, u := range uses(v) {
				switch x := u.(type) {
				case *ssa.MakeInterface, *ssa.ChangeInterface:
					for _, uu := range uses(x.(ssa.Value)) {
						if c, ok := uu.(ssa.CallInstruction); ok && c.Block().Dominates(b) {
							consumed = true
						}
					}
				case ssa.CallInstruction:
					if x.Block().Dominates(b) {
						consumed = true
					}
				}
			}
			key := "elided-step"
			if consumed {
				r.ok("A-ELIDE", key, w.instrPos(ret), "the other step is compiled on this path")
				continue
			}
			// fields of v read by dominating conditions
			read := map[string]bool{}
			for _, db := range fn.Blocks {
				ifi := blockIf(db)
				if ifi == nil || !db.Dominates(b) {
					continue
				}
				// the condition must really constrain this path: one successor dominates b
				if !(db.Succs[0].Dominates(b) || db.Succs[0] == b || db.Succs[1].Dominates(b) || db.Succs[1] == b) {
					continue
				}
				var walk func(x ssa.Value, d int)
				walk = func(x ssa.Value, d int) {
					if d > 6 {
						return
					}
					switch y := x.(type) {
					case *ssa.BinOp:
						walk(y.X, d+1)
						walk(y.Y, d+1)
					case *ssa.UnOp:
						if fa, ok := y.X.(*ssa.FieldAddr); ok && fa.X == v {
							read[fieldOfAddr(fa).Name()] = true
						}
						walk(y.X, d+1)
					}
				}
				walk(ifi.Cond, 0)
			}
			var missing []string
			for f := range need {
				if !read[f] {
					missing = append(missing, f)
				}
			}
			sort.Strings(missing)
			if len(missing) == 0 {
				r.ok("A-ELIDE", key, w.instrPos(ret), fmt.Sprintf("the step is dropped only after its node test (%v) was examined", sortedKeys(need)))
			} else {
				r.bad("A-ELIDE", key, w.instrPos(ret), fmt.Sprintf("the builder drops a whole location step (rewriting x/child::n over it) after looking only at %v; its node test (%v not examined) is ignored, so e.g. descendant-or-self::zz/b is compiled as descendant::b", sortedKeys(read), missing))
			}
		}
	})
	if n == 0 {
		r.note("A-ELIDE: the axis builder inspects no other step node (no step elision)")
		r.ok("A-ELIDE", "no-elision", w.pos(fn.Pos()), "no step elision in the axis builder")
	}
}

// ---------- X-TOTAL ----------

func ruleXTotal(w *World, r *Report) {
	r.rule("X-TOTAL", "the builder never returns a nil query together with a nil error: in every builder function, on every return whose error result is the nil constant, the query result cannot be nil (a fresh query, or the result of a builder call whose error was tested); the node-type dispatch has a case for every parse-tree node type")
	// builder methods: methods of the type that has the depth-guard function among build-time code returning (query, error)
	var fns []*ssa.Function
	for _, fn := range w.AllFuncs {
		if fn.Parent() != nil || !w.BuildTime[fn] {
			continue
		}
		res := fn.Signature.Results()
		if res.Len() == 2 && w.isQueryType(res.At(0).Type()) && isErrorType(res.At(1).Type()) && fn.Signature.Recv() != nil {
			fns = append(fns, fn)
		}
	}
	if len(fns) < 4 {
		r.bad("ANCHOR", "X-TOTAL", "", fmt.Sprintf("only %d builder functions found", len(fns)))
		return
	}
	br, _ := w.roles()
	for _, fn := range fns {
		r.FuncsAnalysed[fnName(fn)] = true
		if br != nil && (fn == br.FuncB || fn == br.OpB || fn == br.AxisB) {
			w.xTotalByBuilds(r, fn, br)
			continue
		}
		perRet := w.xTotalPerReturn(fn)
		for _, pr := range perRet {
			key := fn.Name() + ":return"
			if len(pr.nils) == 0 {
				r.ok("X-TOTAL", key, w.instrPos(pr.ret), "query result is non-nil whenever the error is nil")
			} else {
				r.bad("X-TOTAL", key, w.instrPos(pr.ret), fmt.Sprintf("%s can return a nil query with a nil error: %s — the expression compiles and the nil query is dereferenced at run time", fn.Name(), strings.Join(dedup(pr.nils), "; ")))
			}
		}
	}
}

type xtRet struct {
	ret  *ssa.Return
	nils []string
}

func (w *World) xTotalPerReturn(fn *ssa.Function) []xtRet {
	var out []xtRet
	for _, b := range fn.Blocks {
		ret, ok := normalReturn(b)
		if !ok || len(ret.Results) != 2 {
			continue
		}
		var nils []string
		judged := 0
		for _, pr := range w.resultPairs(fn, ret) {
			errNil, _ := w.mayBeNilError(fn, pr.e, pr.blk)
			if !errNil {
				continue
			}
			judged++
			if qe, ok := strip(pr.q).(*ssa.Extract); ok {
				if ee, ok := strip(pr.e).(*ssa.Extract); ok && qe.Tuple == ee.Tuple && qe.Index == 0 {
					continue
				}
			}
			nils = append(nils, w.nilSources(fn, pr.q, pr.blk, map[ssa.Value]bool{}, 0)...)
		}
		if judged == 0 {
			continue
		}
		out = append(out, xtRet{ret, nils})
	}
	return out
}

func (w *World) xTotalNils(fn *ssa.Function) []string {
	var all []string
	for _, pr := range w.xTotalPerReturn(fn) {
		all = append(all, pr.nils...)
	}
	return all
}

type resPair struct {
	q, e ssa.Value
	blk  *ssa.BasicBlock
}

// resultPairs: the (query, error) value pairs a return can yield; named
// results are resolved to their reaching assignments, paired by block.
func (w *World) resultPairs(fn *ssa.Function, ret *ssa.Return) []resPair {
	q, e := retVal(ret, 0), retVal(ret, 1)
	// both results are phis of the same block: pair them edge by edge
	if qp, ok := q.(*ssa.Phi); ok {
		if ep, ok := e.(*ssa.Phi); ok && ep.Block() == qp.Block() {
			var out []resPair
			for i := range qp.Edges {
				pred := qp.Block().Preds[i]
				if !w.stringFeasible(pred, qp.Block(), fn) || w.excludedByDomain(pred, qp.Block(), fn) || w.enumExhausted(pred, qp.Block()) {
					continue
				}
				out = append(out, resPair{qp.Edges[i], ep.Edges[i], pred})
			}
			return out
		}
	}
	ql, qok := q.(*ssa.UnOp)
	el, eok := e.(*ssa.UnOp)
	if !qok || !eok {
		return []resPair{{q, e, ret.Block()}}
	}
	qa, ea := cellOf(ql.X), cellOf(el.X)
	if qa == nil || ea == nil || qa.Parent() != fn || ea.Parent() != fn {
		return []resPair{{q, e, ret.Block()}}
	}
	qs, es := reachingAt(fn, qa, ql), reachingAt(fn, ea, el)
	nilQ := ssa.NewConst(nil, qa.Type().(*types.Pointer).Elem())
	nilE := ssa.NewConst(nil, ea.Type().(*types.Pointer).Elem())
	var out []resPair
	for _, sq := range qs {
		paired := false
		for _, se := range es {
			if se.Block() == sq.Block() {
				out = append(out, resPair{sq.Val, se.Val, sq.Block()})
				paired = true
			}
		}
		if !paired {
			// the error in force is whatever was assigned before; the query was assigned later in sq's block
			okAny := false
			for _, se := range es {
				if se.Block().Dominates(sq.Block()) {
					out = append(out, resPair{sq.Val, se.Val, sq.Block()})
					okAny = true
				}
			}
			if !okAny {
				out = append(out, resPair{sq.Val, nilE, sq.Block()})
			}
		}
	}
	if zeroReaches(fn, qa, ql) {
		if zeroReaches(fn, ea, el) {
			out = append(out, resPair{nilQ, nilE, ret.Block()})
		}
		for _, se := range es {
			// error assigned on a path where the query was not: only matters when that error can be nil
			_ = se
		}
	}
	return out
}

// mayBeNilError: can the error result be nil on this return?
func (w *World) mayBeNilError(fn *ssa.Function, e ssa.Value, blk *ssa.BasicBlock) (bool, string) {
	e = strip(e)
	if isNilConst(e) {
		return true, "error is the nil constant"
	}
	if w.nonNilByConstruction(e, blk) {
		return false, ""
	}
	return true, "error value may be nil"
}

// nilSources: ways q can be nil at blk although the error is nil.
func (w *World) nilSources(fn *ssa.Function, q ssa.Value, blk *ssa.BasicBlock, seen map[ssa.Value]bool, depth int) []string {
	q = strip(q)
	if seen[q] || depth > 12 {
		return nil
	}
	seen[q] = true
	switch x := q.(type) {
	case *ssa.Const:
		if x.Value == nil {
			return []string{"the nil constant"}
		}
		return nil
	case *ssa.MakeInterface, *ssa.Alloc:
		return nil
	case *ssa.Phi:
		var out []string
		for i, e := range x.Edges {
			pred := x.Block().Preds[i]
			if len(fn.Params) > 1 && !w.stringFeasible(pred, x.Block(), fn) {
				continue // the edge contradicts the enclosing case labels
			}
			if w.excludedByDomain(pred, x.Block(), fn) {
				continue // every operator the parser can produce has been ruled out on this edge (A-OPS)
			}
			if w.enumExhausted(pred, x.Block()) {
				continue // every declared constant of the switched enum type has been ruled out
			}
			for _, s := range w.nilSources(fn, e, pred, seen, depth+1) {
				out = append(out, fmt.Sprintf("%s (path through %s)", s, w.blockLabel(pred, fn)))
			}
		}
		return out
	case *ssa.Extract:
		// result of a builder call: non-nil if its error was tested nil on the way here
		if c, ok := x.Tuple.(*ssa.Call); ok && x.Index == 0 {
			for _, u := range uses(c) {
				if ex, ok := u.(*ssa.Extract); ok && ex.Index == 1 {
					if w.underNilTest(ex, blk) || w.testedNilBefore(ex, x, blk) {
						return nil // callee's own obligation
					}
				}
			}
			return []string{fmt.Sprintf("result of %s used without testing its error", c.Call.Value.Name())}
		}
	case *ssa.UnOp:
		if x.Op == token.MUL {
			vals, ok := w.cellReaching(x)
			if ok {
				var out []string
				if a := cellOf(x.X); a != nil && a.Parent() == fn && zeroReaches(fn, a, x) {
					out = append(out, fmt.Sprintf("%s is still nil on a path on which no case assigns it", a.Comment))
				}
				if len(vals) == 0 && len(out) == 0 {
					return []string{"variable never assigned on this path"}
				}
				for _, v := range vals {
					out = append(out, w.nilSources(fn, v, blk, seen, depth+1)...)
				}
				return out
			}
		}
	case *ssa.Call:
		if w.isCloneCall(x) {
			return nil
		}
	}
	if w.underNonNilTest(q, blk) {
		return nil
	}
	return []string{fmt.Sprintf("value %s of unknown nil-ness", q)}
}

// testedNilBefore: the error extract was tested against nil on a block that
// dominates blk via its nil edge, even if blk is not strictly dominated
// (join after the test).
func (w *World) testedNilBefore(errv ssa.Value, _ ssa.Value, blk *ssa.BasicBlock) bool {
	for _, u := range uses(errv) {
		bo, ok := u.(*ssa.BinOp)
		if !ok {
			continue
		}
		for _, uu := range uses(bo) {
			ifi, ok := uu.(*ssa.If)
			if !ok {
				continue
			}
			// non-nil edge leaves the function with a return
			nn := ifi.Block().Succs[0]
			if bo.Op == token.EQL {
				nn = ifi.Block().Succs[1]
			}
			if _, isRet := nn.Instrs[len(nn.Instrs)-1].(*ssa.Return); isRet && (ifi.Block() == blk || ifi.Block().Dominates(blk)) {
				return true
			}
		}
	}
	return false
}

func (w *World) blockLabel(b *ssa.BasicBlock, fn *ssa.Function) string {
	if len(fn.Params) > 1 {
		if ls := stringCasesOf(b, fn.Params[1]); len(ls) > 0 {
			return fmt.Sprintf("case %q", ls[len(ls)-1])
		}
	}
	for _, in := range b.Instrs {
		if in.Pos().IsValid() {
			return w.pos(in.Pos())
		}
	}
	return fmt.Sprintf("block %d", b.Index)
}

// strTest: the If of p tests `load(X.f) == "c"`; returns a key for X.f and c.
func strTestOf(p *ssa.BasicBlock) (key string, c string, ok bool) {
	ifi := blockIf(p)
	if ifi == nil {
		return "", "", false
	}
	bo, isB := ifi.Cond.(*ssa.BinOp)
	if !isB || bo.Op != token.EQL {
		return "", "", false
	}
	s, isS := constString(bo.Y)
	if !isS {
		return "", "", false
	}
	ld, isL := bo.X.(*ssa.UnOp)
	if !isL {
		return "", "", false
	}
	fa, isF := ld.X.(*ssa.FieldAddr)
	if !isF {
		return "", "", false
	}
	return fmt.Sprintf("%s.%s", fa.X.Name(), fieldOfAddr(fa).Name()), s, true
}

// possibleStrings: the set of constants the tested string field may equal on
// entry to b (known=false: unconstrained).
func possibleStrings(b *ssa.BasicBlock, key string, depth int, onPath map[*ssa.BasicBlock]bool) (set map[string]bool, known bool) {
	if depth > 200 || len(b.Preds) == 0 || onPath[b] {
		return nil, false
	}
	onPath[b] = true
	defer delete(onPath, b)
	out := map[string]bool{}
	for _, p := range b.Preds {
		k, c, isTest := strTestOf(p)
		if isTest && k == key && p.Succs[0] != p.Succs[1] {
			if p.Succs[0] == b {
				out[c] = true
				continue
			}
			up, kn := possibleStrings(p, key, depth+1, onPath)
			if !kn {
				return nil, false
			}
			for s := range up {
				if s != c {
					out[s] = true
				}
			}
			continue
		}
		up, kn := possibleStrings(p, key, depth+1, onPath)
		if !kn {
			return nil, false
		}
		for s := range up {
			out[s] = true
		}
	}
	return out, true
}

// stringFeasible: is the edge pred->blk consistent with the string tests that
// dominate it? (false only when the possible set is known and empty)
func (w *World) stringFeasible(pred, blk *ssa.BasicBlock, fn *ssa.Function) bool {
	// which field is being switched on around here: take the test of pred or of its chain
	key := ""
	for p, d := pred, 0; p != nil && d < 200; d++ {
		if k, _, ok := strTestOf(p); ok {
			key = k
			break
		}
		if len(p.Preds) != 1 {
			break
		}
		p = p.Preds[0]
	}
	if key == "" {
		return true
	}
	k, c, isTest := strTestOf(pred)
	var set map[string]bool
	var known bool
	if isTest && k == key && pred.Succs[0] != pred.Succs[1] {
		if pred.Succs[0] == blk {
			return true
		}
		up, kn := possibleStrings(pred, key, 0, map[*ssa.BasicBlock]bool{})
		if !kn {
			return true
		}
		set, known = map[string]bool{}, true
		for s := range up {
			if s != c {
				set[s] = true
			}
		}
	} else {
		set, known = possibleStrings(pred, key, 0, map[*ssa.BasicBlock]bool{})
	}
	return !known || len(set) > 0
}

// excludedByDomain: the edge pred->blk is the fall-through of a chain of
// `op == "c"` tests on the operator string of an operator node, and the chain
// excludes every operator string the parser can produce.
func (w *World) excludedByDomain(pred, blk *ssa.BasicBlock, fn *ssa.Function) bool {
	od := w.operatorSwitch()
	if od == nil {
		return false
	}
	if od.Builder != fn {
		return false
	}
	g, err := w.grammar()
	if err != nil {
		return false
	}
	prod := w.producedOperators(g)
	excluded := map[string]bool{}
	key := ""
	b, to := pred, blk
	for d := 0; d < 64; d++ {
		k, c, ok := strTestOf(b)
		if !ok || b.Succs[1] != to || (key != "" && k != key) {
			break
		}
		key = k
		excluded[c] = true
		if len(b.Preds) != 1 {
			break
		}
		to, b = b, b.Preds[0]
	}
	if key == "" {
		return false
	}
	for op := range prod {
		if !excluded[op] {
			return false
		}
	}
	return true
}

// enumExhausted: the edge pred->blk is the fall-through of a chain of
// `v == K` tests on one value v of a package-defined integer type, and the
// chain excludes every declared constant of that type.
func (w *World) enumExhausted(pred, blk *ssa.BasicBlock) bool {
	excluded := map[int64]bool{}
	var val ssa.Value
	var typ *types.Named
	b, to := pred, blk
	for d := 0; d < 64; d++ {
		ifi := blockIf(b)
		if ifi == nil {
			break
		}
		bo, ok := ifi.Cond.(*ssa.BinOp)
		if !ok || bo.Op != token.EQL || b.Succs[1] != to {
			break
		}
		k, ok := constInt(bo.Y)
		if !ok {
			break
		}
		n, ok := bo.X.Type().(*types.Named)
		if !ok || n.Obj().Pkg() != w.Types {
			break
		}
		if val != nil && bo.X != val {
			break
		}
		val, typ = bo.X, n
		excluded[k] = true
		if len(b.Preds) != 1 {
			break
		}
		to, b = b, b.Preds[0]
	}
	if typ == nil {
		return false
	}
	scope := w.Types.Scope()
	n := 0
	for _, name := range scope.Names() {
		if c, ok := scope.Lookup(name).(*types.Const); ok && types.Identical(c.Type(), typ) {
			v, _ := constant.Int64Val(c.Val())
			n++
			if !excluded[v] {
				return false
			}
		}
	}
	return n > 0
}

// xTotalByBuilds: for the builder methods that dispatch on a name (function,
// operator, axis) the outcomes are enumerated by constant propagation over
// every name the method compares with plus one it compares with nothing
// (builder_absint.go): none may be a nil query with a nil error. For the
// operator builder only the operators the parser can produce count.
func (w *World) xTotalByBuilds(r *Report, fn *ssa.Function, br *builderRoles) {
	key := fn.Name() + ":return"
	pos := w.pos(fn.Pos())
	var nilnil, unknown []string
	total := 0
	switch fn {
	case br.FuncB:
		fb, _, err := w.functionBuilds()
		if err != nil {
			r.undec("X-TOTAL", key, pos, err.Error())
			return
		}
		for k, outs := range fb {
			for _, o := range outs {
				total++
				if o.NilNil {
					nilnil = append(nilnil, fmt.Sprintf("%s() with %d argument(s)", k.Name, k.N))
				}
				if o.Unknown {
					unknown = append(unknown, fmt.Sprintf("%s/%d", k.Name, k.N))
				}
			}
		}
	case br.OpB:
		ob, _, err := w.operatorBuilds()
		if err != nil {
			r.undec("X-TOTAL", key, pos, err.Error())
			return
		}
		prod := map[string]bool{}
		if g, err := w.grammar(); err == nil {
			prod = w.producedOperators(g)
		}
		for op, outs := range ob {
			if !prod[op] {
				continue
			}
			for _, o := range outs {
				total++
				if o.NilNil {
					nilnil = append(nilnil, "operator "+op)
				}
				if o.Unknown {
					unknown = append(unknown, op)
				}
			}
		}
	case br.AxisB:
		ab, _, err := w.axisBuildsAI()
		if err != nil {
			r.undec("X-TOTAL", key, pos, err.Error())
			return
		}
		for ax, outs := range ab {
			for _, o := range outs {
				total++
				if o.NilNil {
					nilnil = append(nilnil, "axis "+ax)
				}
				if o.Unknown {
					unknown = append(unknown, ax)
				}
			}
		}
	}
	sort.Strings(nilnil)
	sort.Strings(unknown)
	switch {
	case len(nilnil) > 0:
		r.bad("X-TOTAL", key, pos, fmt.Sprintf("%s can return a nil query with a nil error: for %s — the expression compiles and the nil query is dereferenced at run time", fn.Name(), strings.Join(dedup(nilnil), "; ")))
	case len(unknown) > 0:
		r.undec("X-TOTAL", key, pos, fmt.Sprintf("%s could not be followed to a result for %v", fn.Name(), dedup(unknown)))
	case total == 0:
		r.undec("X-TOTAL", key, pos, "no outcome enumerated")
	default:
		r.ok("X-TOTAL", key, pos, fmt.Sprintf("%d outcomes enumerated over every name compared with (and one unknown name): a nil error always comes with a query", total))
	}
}

// nodeTestPred: a node-test predicate the builder creates and every clone
// shares: a closure of predicate type made in build-time code, or a method of
// predicate type whose bound method value is made there (the predicate written
// as a small type with a match method).
type nodeTestPred struct {
	Fn      *ssa.Function // the closure, or the method
	Factory *ssa.Function // the build-time function that makes it
	Method  bool
}

func (w *World) nodeTestPredicates() []nodeTestPred {
	var out []nodeTestPred
	for _, cl := range w.sharedClosures() {
		if w.isPredicateFuncType(cl.Signature) && cl.Parent() != nil {
			out = append(out, nodeTestPred{Fn: cl, Factory: cl.Parent()})
		}
	}
	for _, fn := range w.AllFuncs {
		if w.RunTime[fn] && !w.BuildTime[fn] {
			continue
		}
		eachInstr(fn, false, func(_ *ssa.Function, in ssa.Instruction) {
			mc, ok := in.(*ssa.MakeClosure)
			if !ok {
				return
			}
			bf, ok := mc.Fn.(*ssa.Function)
			if !ok || !strings.HasPrefix(bf.Synthetic, "bound method wrapper") || !w.isPredicateFuncType(bf.Signature) {
				return
			}
			obj, ok := bf.Object().(*types.Func)
			if !ok {
				return
			}
			if m := w.Prog.FuncValue(obj); m != nil && w.inPkg(m) {
				out = append(out, nodeTestPred{Fn: m, Factory: fn, Method: true})
			}
		})
	}
	return out
}
