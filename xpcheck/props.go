package main

func init() {
	// C04 purity
	register("C04", "S-ENTRY", ruleSEntry)
	register("C04", "S-CLONE", ruleSClone)
	register("C04", "S-SHARED", ruleSShared)
	register("C04", "S-WRITES", ruleSWritesRT)
	register("C04", "S-GLOBAL", ruleSGlobal)
	register("C04", "S-POOL", ruleSPool)

	register("C06", "T-RECOVER", ruleTRecover)
	register("C06", "T-SHAPE", ruleTShape)
	register("C06", "T-DEPTH", ruleTDepth)
	register("C06", "T-LOOP", ruleTLoop)

	// C05 = the C04 non-interference argument + build-time write census + cache lockset
	register("C05", "S-ENTRY", ruleSEntry)
	register("C05", "S-CLONE", ruleSClone)
	register("C05", "S-SHARED", ruleSShared)
	register("C05", "S-WRITES", ruleSWritesRT)
	register("C05", "S-WRITES-BT", ruleSWritesBT)
	register("C05", "S-GLOBAL", ruleSGlobal)
	register("C05", "S-POOL", ruleSPool)
	register("C05", "K-LOCK", ruleKLock)

	register("C16", "K-LOCK", ruleKLock)
	register("C16", "K-REST", ruleKRest)
	register("C16", "K-PRE", ruleKPre)
	register("C16", "S-GLOBAL", ruleSGlobal)

	register("C10", "G-TOKENS", ruleGTokens)
	register("C10", "G-LEVELS", ruleGLevels)
	register("C10", "G-ABBREV", ruleGAbbrev)

	register("C01", "A-DISPATCH", ruleADispatch)
	register("C01", "A-ELIDE", ruleAElide)
	register("C01", "X-TOTAL", ruleXTotal)
	register("C01", "N-OWN", ruleNOwn)
	register("C01", "G-ABBREV", ruleGAbbrev)
	register("C01", "N-FRAME", ruleNFrame)
	register("C01", "B-NAMETEST", ruleBNameTest)

	register("C15", "X-CENSUS", ruleXCensus)
	register("C15", "X-TOTAL", ruleXTotal)
	register("C15", "A-CELLS", ruleACells)
	register("C15", "X-BOUNDS", ruleXBounds)
	register("C15", "X-RESULT", ruleXResult)

	register("C13", "N-OWN", ruleNOwn)
	register("C13", "N-RESTORE", ruleNRestore)
	register("C13", "N-PEER", ruleNPeer)
	register("C13", "N-ITER", ruleNIter)

	register("C07", "A-OPS", ruleAOps)
	register("C07", "A-CELLS", ruleACells)
	register("C07", "N-RESTORE", ruleNRestore)
	register("C07", "N-PEER", ruleNPeer)
	register("C07", "C07-SC", ruleShortCircuit)

	register("C17", "G-PAIR", ruleGPair)
	register("C17", "G-EXPECT", ruleGExpect)
	register("C17", "T-RECOVER", ruleTRecover)

	register("C02", "S-RESET", ruleSReset)
	register("C02", "S-PROP", ruleSProp)
}

func thorough(w *World, r *Report, prop, verif string, extra map[string]interface{}) {}
