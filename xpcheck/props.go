package main

func init() {
	// C04 purity
	register("C04", "S-ENTRY", ruleSEntry)
	register("C04", "S-CLONE", ruleSClone)
	register("C04", "S-SHARED", ruleSShared)
	register("C04", "S-WRITES", ruleSWritesRT)
	register("C04", "S-GLOBAL", ruleSGlobal)
	register("C04", "S-POOL", ruleSPool)

	register("C06", "T-RECOVER", ruleTRecover)
	register("C06", "T-SHAPE", ruleTShape)
	register("C06", "T-DEPTH", ruleTDepth)
	register("C06", "T-LOOP", ruleTLoop)

	// C05 = the C04 non-interference argument + build-time write census + cache lockset
	register("C05", "S-ENTRY", ruleSEntry)
	register("C05", "S-CLONE", ruleSClone)
	register("C05", "S-SHARED", ruleSShared)
	register("C05", "S-WRITES", ruleSWritesRT)
	register("C05", "S-WRITES-BT", ruleSWritesBT)
	register("C05", "S-GLOBAL", ruleSGlobal)
	register("C05", "S-POOL", ruleSPool)
	register("C05", "K-LOCK", ruleKLock)

	register("C16", "K-LOCK", ruleKLock)
	register("C16", "K-REST", ruleKRest)
	register("C16", "K-PRE", ruleKPre)
	register("C16", "S-GLOBAL", ruleSGlobal)
	register("C16", "B-PRIM", ruleBPrim)

	register("C10", "G-TOKENS", ruleGTokens)
	register("C10", "G-LEVELS", ruleGLevels)
	register("C10", "G-ABBREV", ruleGAbbrev)

	register("C01", "A-DISPATCH", ruleADispatch)
	register("C01", "A-ELIDE", ruleAElide)
	register("C01", "X-TOTAL", ruleXTotal)
	register("C01", "N-OWN", ruleNOwn)
	register("C01", "G-ABBREV", ruleGAbbrev)
	register("C01", "N-FRAME", ruleNFrame)
	register("C01", "B-NAMETEST", ruleBNameTest)

	register("C15", "X-CENSUS", ruleXCensus)
	register("C15", "X-TOTAL", ruleXTotal)
	register("C15", "A-CELLS", ruleACells)
	register("C15", "X-BOUNDS", ruleXBounds)
	register("C15", "X-RESULT", ruleXResult)

	register("C09", "B-PRIM", ruleBPrim)
	register("C09", "B-ARGS", ruleBArgs)
	register("C09", "X-BOUNDS", ruleXBounds)
	register("C09", "X-CENSUS", ruleXCensus)
	register("C09", "N-RESTORE", ruleNRestore)

	register("C08", "A-OPS", ruleAOps)
	register("C08", "B-PRIM", ruleBPrim)
	register("C08", "G-LEVELS", ruleGLevels)
	register("C08", "N-RESTORE", ruleNRestore)
	register("C08", "X-CENSUS", ruleXCensus)

	register("C14", "B-NAMETEST", ruleBNameTest)
	register("C14", "G-EXPECT", ruleGExpect)
	register("C14", "B-PRIM", ruleBPrim)
	register("C14", "B-ARGS", ruleBArgs)

	register("C03", "N-POS", ruleNPos)
	register("C03", "S-RESET", ruleSReset)
	register("C03", "A-DISPATCH", ruleADispatch)
	register("C03", "N-OWN", ruleNOwn)

	register("C12", "N-FRAME", ruleNFrame)
	register("C12", "N-ITER", ruleNIter)
	register("C12", "S-ENTRY", ruleSEntry)
	register("C12", "N-OWN", ruleNOwn)
	register("C12", "C12-REV", ruleRev)
	register("C12", "B-PRIM", ruleBPrim)

	register("C11", "B-HASH", ruleBHash)
	register("C11", "N-OWN", ruleNOwn)
	register("C11", "N-RESTORE", ruleNRestore)
	register("C11", "S-RESET", ruleSReset)
	register("C11", "S-PROP", ruleSProp)
	register("C11", "G-ABBREV", ruleGAbbrev)

	register("C13", "N-OWN", ruleNOwn)
	register("C13", "N-RESTORE", ruleNRestore)
	register("C13", "N-PEER", ruleNPeer)
	register("C13", "N-ITER", ruleNIter)

	register("C07", "A-OPS", ruleAOps)
	register("C07", "A-CELLS", ruleACells)
	register("C07", "N-RESTORE", ruleNRestore)
	register("C07", "N-PEER", ruleNPeer)
	register("C07", "C07-SC", ruleShortCircuit)

	register("C17", "G-PAIR", ruleGPair)
	register("C17", "G-EXPECT", ruleGExpect)
	register("C17", "T-RECOVER", ruleTRecover)

	register("C02", "S-RESET", ruleSReset)
	register("C02", "S-PROP", ruleSProp)
}

func thorough(w *World, r *Report, prop, verif string, extra map[string]interface{}) {}
