package main

func init() {
	// C04 purity
	register("C04", "S-ENTRY", ruleSEntry)
	register("C04", "S-CLONE", ruleSClone)
	register("C04", "S-SHARED", ruleSShared)
	register("C04", "S-WRITES", ruleSWritesRT)
	register("C04", "S-GLOBAL", ruleSGlobal)
	register("C04", "S-POOL", ruleSPool)
}

func thorough(w *World, r *Report, prop, verif string, extra map[string]interface{}) {}
