package main

import (
	"encoding/json"
	"fmt"
	"os"
	"os/exec"
	"path/filepath"
)

func init() {
	// C04 purity
	register("C04", "S-ENTRY", ruleSEntry)
	register("C04", "S-CLONE", ruleSClone)
	register("C04", "S-SHARED", ruleSShared)
	register("C04", "S-WRITES", ruleSWritesRT)
	register("C04", "S-GLOBAL", ruleSGlobal)
	register("C04", "S-POOL", ruleSPool)

	register("C06", "T-RECOVER", ruleTRecover)
	register("C06", "T-SHAPE", ruleTShape)
	register("C06", "T-DEPTH", ruleTDepth)
	register("C06", "T-LOOP", ruleTLoop)
	register("C06", "T-WORK", ruleTWork)
	register("C06", "T-ERRFLOW", ruleErrFlow)
	register("C06", "T-STRING", ruleTString)
	register("C06", "X-TOTAL", ruleXTotal) // "a usable expression": no nil query behind a nil error
	register("C06", "K-PRE", ruleKPre)     // a constant pattern that does not compile is an error of Compile...
	register("C06", "K-REST", ruleKRest)   // ...every time (failed loads are not remembered)

	// C05 = the C04 non-interference argument + build-time write census + cache lockset
	register("C05", "S-ENTRY", ruleSEntry)
	register("C05", "S-CLONE", ruleSClone)
	register("C05", "S-SHARED", ruleSShared)
	register("C05", "S-WRITES", ruleSWritesRT)
	register("C05", "S-WRITES-BT", ruleSWritesBT)
	register("C05", "S-GLOBAL", ruleSGlobal)
	register("C05", "S-POOL", ruleSPool)
	register("C05", "K-LOCK", ruleKLock)
	register("C05", "S-CALLER", ruleSCaller)
	register("C05", "K-SHARED", ruleKShared)
	register("C16", "K-SHARED", ruleKShared)
	register("C04", "K-SHARED", ruleKShared)

	register("C16", "K-LOCK", ruleKLock)
	register("C16", "K-REST", ruleKRest)
	register("C16", "K-PRE", ruleKPre)
	register("C16", "S-GLOBAL", ruleSGlobal)
	register("C16", "B-PRIM", ruleBPrim)
	register("C16", "K-REPL", ruleRepl)
	register("C16", "S-SHARED", ruleSShared)
	register("C16", "S-WRITES", ruleSWritesRT)

	register("C10", "G-TOKENS", ruleGTokens)
	register("C10", "G-LEVELS", ruleGLevels)
	register("C10", "G-ABBREV", ruleGAbbrev)

	register("C01", "A-DISPATCH", ruleADispatch)
	register("C01", "A-ELIDE", ruleAElide)
	register("C01", "X-TOTAL", ruleXTotal)
	register("C01", "N-OWN", ruleNOwn)
	register("C01", "G-ABBREV", ruleGAbbrev)
	register("C01", "N-FRAME", ruleNFrame)
	register("C01", "B-NAMETEST", ruleBNameTest)
	register("C01", "N-DEPTH", ruleNDepth)
	register("C01", "A-SMART", ruleASmart)
	register("C01", "S-CLONE", ruleSClone)
	register("C01", "S-ENTRY", ruleSEntry)
	register("C01", "B-DEDUP", ruleDedup)
	register("C01", "B-HASH", ruleBHash)
	register("C01", "N-REJECT", ruleNReject)
	register("C01", "N-NODROP", ruleNoDrop)

	register("C15", "X-CENSUS", ruleXCensus)
	register("C15", "X-TOTAL", ruleXTotal)
	register("C15", "A-CELLS", ruleACells)
	register("C15", "X-BOUNDS", ruleXBounds)
	register("C15", "X-RESULT", ruleXResult)
	register("C15", "K-REST", ruleKRest)

	register("C09", "B-PRIM", ruleBPrim)
	register("C09", "B-ARGS", ruleBArgs)
	register("C09", "X-BOUNDS", ruleXBounds)
	register("C09", "X-CENSUS", ruleXCensus)
	register("C09", "N-RESTORE", ruleNRestore)
	register("C09", "S-SHARED", ruleSShared)
	register("C09", "S-WRITES", ruleSWritesRT)
	register("C09", "S-POOL", ruleSPool)
	register("C09", "C09-ROUND", ruleSubstrRound)
	register("C09", "C08-FIRST", ruleConvFirst)

	register("C08", "A-OPS", ruleAOps)
	register("C08", "B-PRIM", ruleBPrim)
	register("C08", "G-LEVELS", ruleGLevels)
	register("C08", "N-RESTORE", ruleNRestore)
	register("C08", "X-CENSUS", ruleXCensus)
	register("C08", "C08-FMT", ruleNumFormat)
	register("C08", "C08-FIRST", ruleConvFirst)
	register("C08", "C08-LIT", ruleNumLiteral)
	register("C08", "S-SHARED", ruleSShared)
	register("C08", "S-WRITES", ruleSWritesRT)
	register("C08", "X-RESULT", ruleXResult) // a number-valued function yields a float64 on every path (an int is not a number to asNumber)
	register("C09", "X-RESULT", ruleXResult)

	register("C14", "B-NAMETEST", ruleBNameTest)
	register("C14", "G-EXPECT", ruleGExpect)
	register("C14", "C14-NSMAP", ruleNSMap)
	register("C14", "B-PRIM", ruleBPrim)
	register("C14", "B-ARGS", ruleBArgs)
	register("C14", "S-SHARED", ruleSShared)
	register("C14", "S-WRITES", ruleSWritesRT)
	register("C14", "S-POOL", ruleSPool)

	register("C03", "N-POS", ruleNPos)
	register("C03", "G-PREDS", ruleGPreds)
	register("C01", "G-PATH", ruleGPath)
	register("C01", "N-CLIMB", ruleNClimb)
	register("C01", "N-ATTR", ruleNAttr)
	register("C01", "N-UNCHECKED", ruleNUnchecked)
	register("C12", "N-UNCHECKED", ruleNUnchecked)
	register("C02", "N-CLIMB", ruleNClimb) // path-existence predicates over the following/preceding axes
	register("C07", "S-RESET", ruleSReset) // a node-set operand is re-armed for every candidate the comparison is evaluated for
	register("C07", "S-PROP", ruleSProp)
	register("C01", "A-FOLD", ruleAFold)
	register("C10", "A-FOLD", ruleAFold)
	register("C12", "A-FOLD", ruleAFold)
	register("C12", "C12-SELF", ruleEvalSelf)
	register("C02", "N-DEPTH", ruleNDepth) // [.//x] predicates: the subtree walk stays inside the candidate
	register("C12", "B-HASH", ruleBHash)   // a union consumed through MoveNext: both operands evaluated from the start node
	register("C12", "S-CLONE", ruleSClone) // every Select/Evaluate starts from a private, complete copy of the tree
	register("C11", "S-CLONE", ruleSClone)
	register("C13", "S-CLONE", ruleSClone)
	register("C03", "S-CLONE", ruleSClone)
	register("C15", "C12-EVAL", ruleExprEvaluate) // the exported Evaluate hands out documented result types only
	register("C13", "A-FOLD", ruleAFold)
	register("C13", "C03-LAST", ruleSiblingCounters) // position()/last() leave the context where it was
	register("C10", "G-PATH", ruleGPath)
	register("C10", "C08-LIT", ruleNumLiteral) // token rules: a number literal is the characters of its token
	register("C17", "G-PATH", ruleGPath)
	register("C03", "B-STEPREF", ruleStepRef) // position() and last() of one predicate are built with the same step
	register("C11", "N-BUFFER", ruleNBuffer)  // the union buffers copies of its operands' nodes
	register("C03", "N-BUFFER", ruleNBuffer)  // last() and the per-parent merge buffer copies
	register("C12", "N-BUFFER", ruleNBuffer)  // reverse() buffers copies
	register("C17", "G-LEVELS", ruleGLevels)  // a cut after a binary operator: whether a token is an operator depends on the token alone, so the operand that must follow is demanded
	register("C13", "S-SHARED", ruleSShared)  // not(not(P)) keeps P's truth value for every candidate: the argument's state does not leak from one evaluation to the next
	register("C03", "A-SMART", ruleASmart)
	register("C03", "S-RESET", ruleSReset)
	register("C03", "A-DISPATCH", ruleADispatch)
	register("C03", "N-OWN", ruleNOwn)
	register("C03", "C03-MERGE", ruleMerge)

	register("C12", "N-FRAME", ruleNFrame)
	register("C12", "N-ITER", ruleNIter)
	register("C12", "S-ENTRY", ruleSEntry)
	register("C12", "N-OWN", ruleNOwn)
	register("C12", "C12-REV", ruleRev)
	register("C12", "C12-EVAL", ruleExprEvaluate)
	register("C12", "N-REJECT", ruleNReject)
	register("C12", "B-PRIM", ruleBPrim)
	register("C12", "N-DEPTH", ruleNDepth)
	register("C12", "S-SHARED", ruleSShared)
	register("C12", "S-WRITES", ruleSWritesRT)

	register("C11", "B-HASH", ruleBHash)
	register("C11", "N-OWN", ruleNOwn)
	register("C11", "N-RESTORE", ruleNRestore)
	register("C11", "S-RESET", ruleSReset)
	register("C11", "S-PROP", ruleSProp)
	register("C11", "G-ABBREV", ruleGAbbrev)
	register("C11", "B-DEDUP", ruleDedup)

	register("C13", "N-OWN", ruleNOwn)
	register("C13", "N-RESTORE", ruleNRestore)
	register("C13", "N-PEER", ruleNPeer)
	register("C13", "N-ITER", ruleNIter)
	register("C13", "S-RESET", ruleSReset)
	register("C13", "B-HASH", ruleBHash)
	register("C13", "C03-MERGE", ruleMerge)
	register("C13", "N-NODROP", ruleNoDrop)
	register("C13", "B-DEDUP", ruleDedup)

	register("C07", "G-LEVELS", ruleGLevels) // or < and < equality < relational: how an unparenthesised mix of them groups
	register("C07", "A-OPS", ruleAOps)
	register("C07", "A-CELLS", ruleACells)
	register("C07", "N-RESTORE", ruleNRestore)
	register("C07", "N-PEER", ruleNPeer)
	register("C07", "C07-SC", ruleShortCircuit)
	register("C07", "B-PRIM", ruleBPrim)
	register("C07", "C07-BOOL", ruleBoolConv)
	register("C07", "S-SHARED", ruleSShared)
	register("C07", "S-WRITES", ruleSWritesRT)

	register("C17", "G-PAIR", ruleGPair)
	register("C17", "T-ERRFLOW", ruleErrFlow)
	register("C17", "B-ARITY", ruleBArityMin)
	register("C17", "G-EXPECT", ruleGExpect)
	register("C17", "T-RECOVER", ruleTRecover)
	register("C17", "B-ARGS", ruleBArgs)
	register("C17", "X-TOTAL", ruleXTotal)

	register("C02", "G-PREDS", ruleGPreds)
	register("C02", "A-CELLS", ruleACells)
	register("C02", "A-OPS", ruleAOps)
	register("C02", "C07-BOOL", ruleBoolConv)
	register("C02", "G-LEVELS", ruleGLevels)
	register("C02", "S-RESET", ruleSReset)
	register("C02", "S-PROP", ruleSProp)
	register("C02", "S-SHARED", ruleSShared)
	register("C02", "S-CLONE", ruleSClone)
	register("C02", "C02-TRUTH", ruleTruth)
	register("C02", "X-RESULT", ruleXResult)
	register("C02", "N-RESTORE", ruleNRestore)
}

// thorough: (i) the rules again on the alternative file set (GOARCH=386), which
// must give the same verdicts; (ii) the self-test corpus: every semantic
// mutant of /verif/mutants that targets this property is applied to a scratch
// copy of the repository (outside /repo and /verif, removed afterwards) and
// analysed statically: it must be flagged; every behaviour-preserving refactor
// must stay silent. A missed mutant lowers the reported coverage of the
// checker; it is not a violation of the property in the repository.
func thorough(w *World, r *Report, prop, verif string, extra map[string]interface{}) {
	// (i)
	os.Setenv("GOARCH", "386")
	w2, err := loadWorld(w.Repo, "")
	os.Unsetenv("GOARCH")
	if err != nil {
		r.bad("THOROUGH", "alt-fileset", "", "GOARCH=386 load failed: "+err.Error())
	} else {
		w2.curProp = prop
		r2 := newReport(prop, "thorough", w2)
		if _, err := w2.Census(); err == nil {
			for _, f := range propRules[prop] {
				f(w2, r2)
			}
		}
		v1, v2 := map[string]bool{}, map[string]bool{}
		for _, o := range r.Obls {
			if o.Status == Violated || o.Status == Undecided {
				v1[o.Key] = true
			}
		}
		for _, o := range r2.Obls {
			if o.Status == Violated || o.Status == Undecided {
				v2[o.Key] = true
			}
		}
		same := len(v1) == len(v2)
		for k := range v1 {
			if !v2[k] {
				same = false
			}
		}
		if same && len(r2.Obls) == len(r.Obls) {
			r.ok("THOROUGH", "alt-fileset", "", fmt.Sprintf("GOARCH=386 file set %v: %d obligations, identical verdicts", w2.Files, len(r2.Obls)))
		} else {
			r.bad("THOROUGH", "alt-fileset", "", fmt.Sprintf("the rules give different verdicts on the GOARCH=386 file set (%d vs %d obligations)", len(r2.Obls), len(r.Obls)))
			for k := range v2 {
				if !v1[k] {
					r.bad("THOROUGH", "alt-fileset:"+k, "", "violated only on the GOARCH=386 file set")
				}
			}
		}
		extra["alt_fileset"] = map[string]interface{}{"GOARCH": "386", "files": w2.Files, "obligations": len(r2.Obls)}
	}
	// (ii)
	cmd := exec.Command("python3", filepath.Join(verif, "tools", "mutants.py"), "json", prop)
	cmd.Env = append(os.Environ(), "VERIF_REPO="+w.Repo)
	out, err := cmd.Output()
	if err != nil {
		extra["selftest_error"] = err.Error()
		r.note("self-test corpus could not be run: %v", err)
		return
	}
	var res []map[string]interface{}
	if err := json.Unmarshal(out, &res); err != nil {
		extra["selftest_error"] = err.Error()
		return
	}
	total, flagged, refactors, silent, na := 0, 0, 0, 0, 0
	var missed, alarms []string
	perRule := map[string]int{}
	for _, m := range res {
		st, _ := m["status"].(string)
		kind, _ := m["kind"].(string)
		id, _ := m["id"].(string)
		if st == "not-applicable" {
			na++
			continue
		}
		if kind == "refactor" {
			refactors++
			if st == "ok" {
				silent++
			} else {
				alarms = append(alarms, id)
			}
			continue
		}
		total++
		if st == "ok" || st == "ok-other-rule" {
			flagged++
			if rs, ok := m["rules_hit"].([]interface{}); ok {
				for _, x := range rs {
					perRule[fmt.Sprint(x)]++
				}
			}
		} else {
			missed = append(missed, id)
		}
	}
	extra["selftest"] = map[string]interface{}{
		"mutants": total, "mutants_flagged": flagged, "mutants_missed": missed,
		"refactors": refactors, "refactors_silent": silent, "refactor_false_alarms": alarms,
		"not_applicable_on_this_tree": na, "positive_controls_per_rule": perRule,
		"explanation": "semantic mutants / behaviour-preserving refactors from /verif/mutants applied to scratch copies of the working tree and analysed statically (no code of the copies is run)",
	}
	if len(alarms) > 0 {
		r.note("self-test: behaviour-preserving refactors %v were flagged (false-alarm risk of the checker)", alarms)
	}
	if len(missed) > 0 {
		r.note("self-test: mutants %v were not flagged (reduced coverage of the checker)", missed)
	}
	fmt.Printf("xpcheck self-test property=%s mutants=%d flagged=%d refactors=%d silent=%d not_applicable=%d\n", prop, total, flagged, refactors, silent, na)
}
