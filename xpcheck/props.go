package main

func init() {
	// C04 purity
	register("C04", "S-ENTRY", ruleSEntry)
	register("C04", "S-CLONE", ruleSClone)
	register("C04", "S-SHARED", ruleSShared)
	register("C04", "S-WRITES", ruleSWritesRT)
	register("C04", "S-GLOBAL", ruleSGlobal)
	register("C04", "S-POOL", ruleSPool)

	register("C06", "T-RECOVER", ruleTRecover)
	register("C06", "T-SHAPE", ruleTShape)
	register("C06", "T-DEPTH", ruleTDepth)
	register("C06", "T-LOOP", ruleTLoop)

	register("C02", "S-RESET", ruleSReset)
	register("C02", "S-PROP", ruleSProp)
}

func thorough(w *World, r *Report, prop, verif string, extra map[string]interface{}) {}
