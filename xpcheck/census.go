package main

// Census: query types, their fields and roles (state / config / dead),
// computed from SSA stores and loads split by phase.

import (
	"fmt"
	"go/types"
	"sort"

	"golang.org/x/tools/go/ssa"
)

type FieldRole int

const (
	RoleDead FieldRole = iota
	RoleConfig
	RoleState
)

func (r FieldRole) String() string { return [...]string{"dead", "config", "state"}[r] }

type QField struct {
	Var        *types.Var
	Index      int
	Role       FieldRole
	RTStores   []ssa.Instruction // mutation stores in run-time code
	RTLoads    int               // loads in run-time code
	BTMutation []ssa.Instruction // mutation stores in build-time-only code
	IsQuery    bool              // field type is the query interface
	IsFunc     bool
}

type QType struct {
	Named   *types.Named
	Struct  *types.Struct
	Fields  []*QField
	ByName  map[string]*QField
	Ptr     bool // pointer receiver implements query
	Methods map[string]*ssa.Function
}

func (q *QType) Name() string { return q.Named.Obj().Name() }

func (q *QType) StateFields() []*QField {
	var out []*QField
	for _, f := range q.Fields {
		if f.Role == RoleState {
			out = append(out, f)
		}
	}
	return out
}

type Census struct {
	Types  []*QType
	ByName map[string]*QType
	ByType map[*types.Named]*QType
}

func (w *World) Census() (*Census, error) {
	if w.census != nil {
		return w.census, nil
	}
	c := &Census{ByName: map[string]*QType{}, ByType: map[*types.Named]*QType{}}
	scope := w.Types.Scope()
	for _, n := range scope.Names() {
		tn, ok := scope.Lookup(n).(*types.TypeName)
		if !ok {
			continue
		}
		named, ok := tn.Type().(*types.Named)
		if !ok {
			continue
		}
		if _, isIface := named.Underlying().(*types.Interface); isIface {
			continue
		}
		ptr := types.Implements(types.NewPointer(named), w.QueryIface)
		val := types.Implements(named, w.QueryIface)
		if !ptr && !val {
			continue
		}
		st, ok := named.Underlying().(*types.Struct)
		if !ok {
			continue
		}
		qt := &QType{Named: named, Struct: st, ByName: map[string]*QField{}, Ptr: !val, Methods: map[string]*ssa.Function{}}
		for i := 0; i < st.NumFields(); i++ {
			fv := st.Field(i)
			qf := &QField{Var: fv, Index: i, IsQuery: w.isQueryType(fv.Type())}
			if _, ok := fv.Type().Underlying().(*types.Signature); ok {
				qf.IsFunc = true
			}
			qt.Fields = append(qt.Fields, qf)
			qt.ByName[fv.Name()] = qf
		}
		for _, t := range []types.Type{types.NewPointer(named), named} {
			ms := w.Prog.MethodSets.MethodSet(t)
			for i := 0; i < ms.Len(); i++ {
				if obj, ok := ms.At(i).Obj().(*types.Func); ok {
					if f := w.Prog.FuncValue(obj); f != nil {
						qt.Methods[obj.Name()] = f
					}
				}
			}
		}
		c.Types = append(c.Types, qt)
		c.ByName[qt.Name()] = qt
		c.ByType[named] = qt
	}
	if len(c.Types) == 0 {
		return nil, fmt.Errorf("anchor: no struct type implements the query interface")
	}
	sort.Slice(c.Types, func(i, j int) bool { return c.Types[i].Name() < c.Types[j].Name() })

	// classify stores and loads
	for _, fn := range w.AllFuncs {
		rt := w.RunTime[fn]
		for _, b := range fn.Blocks {
			for _, in := range b.Instrs {
				switch x := in.(type) {
				case *ssa.Store:
					fa, ok := x.Addr.(*ssa.FieldAddr)
					if !ok {
						continue
					}
					qt := c.ByType[structOfAddr(fa)]
					if qt == nil {
						continue
					}
					qf := qt.Fields[fa.Field]
					if isFreshAlloc(fa.X) {
						continue // composite literal initialisation
					}
					if rt {
						qf.RTStores = append(qf.RTStores, in)
					} else {
						qf.BTMutation = append(qf.BTMutation, in)
					}
				case *ssa.FieldAddr:
					qt := c.ByType[structOfAddr(x)]
					if qt == nil || !rt {
						continue
					}
					// a FieldAddr that is loaded (or whose address escapes)
					for _, u := range uses(x) {
						switch y := u.(type) {
						case *ssa.Store:
							if y.Addr == x {
								continue
							}
							qt.Fields[x.Field].RTLoads++
						case *ssa.DebugRef:
						case *ssa.UnOp:
							if !isCopyThrough(y, fieldOfAddr(x).Name()) {
								qt.Fields[x.Field].RTLoads++
							}
						default:
							qt.Fields[x.Field].RTLoads++
						}
					}
				case *ssa.Field:
					if n, ok := x.X.Type().(*types.Named); ok {
						if qt := c.ByType[n]; qt != nil && rt {
							qt.Fields[x.Field].RTLoads++
						}
					}
				}
			}
		}
	}
	for _, qt := range c.Types {
		for _, f := range qt.Fields {
			switch {
			case len(f.RTStores) > 0:
				f.Role = RoleState
			case f.RTLoads > 0:
				f.Role = RoleConfig
			default:
				f.Role = RoleDead
			}
		}
	}
	w.census = c
	return c, nil
}

// isFreshAlloc: v is an object allocated in the same function (composite
// literal or new) and this use is its initialisation.
func isFreshAlloc(v ssa.Value) bool {
	_, ok := v.(*ssa.Alloc)
	return ok
}

func (c *Census) table() []string {
	var out []string
	for _, qt := range c.Types {
		s := qt.Name() + ":"
		for _, f := range qt.Fields {
			s += fmt.Sprintf(" %s=%s", f.Var.Name(), f.Role)
		}
		out = append(out, s)
	}
	return out
}

// isCopyThrough: the loaded value is only stored into the same-named field of
// a freshly allocated struct (what a Clone method does); such a load does not
// make the field "read at run time".
func isCopyThrough(load *ssa.UnOp, field string) bool {
	us := uses(load)
	if len(us) == 0 {
		return true
	}
	for _, u := range us {
		switch y := u.(type) {
		case *ssa.DebugRef:
		case *ssa.Store:
			fa, ok := y.Addr.(*ssa.FieldAddr)
			if !ok || y.Val != load || !isFreshAlloc(fa.X) || fieldOfAddr(fa).Name() != field {
				return false
			}
		default:
			return false
		}
	}
	return true
}
