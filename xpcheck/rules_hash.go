package main

// B-HASH (C11): the node-identity key is uniquely decodable; the union loop.

import (
	"fmt"
	"go/token"
	"go/types"
	"strings"

	"golang.org/x/tools/go/ssa"
)

type keyWrite struct {
	in    ssa.Instruction
	kind  string // "byte", "int", "str", "concat", "len"
	b     byte
	src   string // navigator method the string comes from
	parts []string
}

// hashFn: the package function NodeNavigator -> uint64.
func (w *World) hashFn() *ssa.Function {
	for _, fn := range w.AllFuncs {
		if fn.Parent() != nil || fn.Signature.Recv() != nil {
			continue
		}
		sig := fn.Signature
		if sig.Params().Len() == 1 && w.isNavType(sig.Params().At(0).Type()) && sig.Results().Len() == 1 {
			if b, ok := sig.Results().At(0).Type().(*types.Basic); ok && b.Kind() == types.Uint64 {
				return fn
			}
		}
	}
	return nil
}

func (w *World) classifyWrite(in ssa.Instruction) *keyWrite {
	c, ok := in.(*ssa.Call)
	if !ok {
		return nil
	}
	// the key assembled in a byte slice: append(key, 'c'), append(key, s...),
	// strconv.AppendInt(key, n, 10)
	if b, isB := c.Call.Value.(*ssa.Builtin); isB && b.Name() == "append" && len(c.Call.Args) == 2 {
		if sl, ok := c.Call.Args[0].Type().Underlying().(*types.Slice); !ok || !isByteType(sl.Elem()) {
			return nil
		}
		kw := &keyWrite{in: in}
		arg := strip(c.Call.Args[1])
		if bt, ok := arg.Type().Underlying().(*types.Basic); ok && bt.Info()&types.IsString != 0 {
			return w.classifyStr(kw, arg)
		}
		// a literal element list: new [n]byte, stores, slice
		if slc, ok := arg.(*ssa.Slice); ok {
			if a, ok := slc.X.(*ssa.Alloc); ok {
				var bytes []int64
				constOnly := true
				for _, u := range uses(a) {
					if ia, ok := u.(*ssa.IndexAddr); ok {
						for _, uu := range uses(ia) {
							if st, ok := uu.(*ssa.Store); ok {
								if k, ok := constInt(st.Val); ok {
									bytes = append(bytes, k)
								} else {
									constOnly = false
								}
							}
						}
					}
				}
				if constOnly && len(bytes) == 1 {
					kw.kind, kw.b = "byte", byte(bytes[0])
					return kw
				}
				if constOnly {
					kw.kind = "conststr"
					return kw
				}
				kw.kind = "varbyte"
				return kw
			}
		}
		return nil
	}
	if f := c.Call.StaticCallee(); f != nil && f.Pkg != nil && f.Pkg.Pkg.Path() == "strconv" && strings.HasPrefix(f.Name(), "Append") && len(c.Call.Args) >= 2 {
		kw := &keyWrite{in: in, kind: "int"}
		if l := lenOperand(stripConv(c.Call.Args[1])); l != nil {
			if c2, ok := strip(l).(*ssa.Call); ok && c2.Call.IsInvoke() {
				kw.kind, kw.src = "len", c2.Call.Method.Name()
			} else if a, ok := l.(*ssa.Alloc); ok {
				kw.kind, kw.src = "len", w.navSourceOfCell(a)
			} else if ld, ok := strip(l).(*ssa.UnOp); ok {
				if a := cellOf(ld.X); a != nil {
					kw.kind, kw.src = "len", w.navSourceOfCell(a)
				}
			}
		}
		return kw
	}
	f := c.Call.StaticCallee()
	if f == nil || f.Signature.Recv() == nil || len(c.Call.Args) != 2 {
		return nil
	}
	name := f.Name()
	if name != "WriteString" && name != "WriteByte" && name != "WriteRune" && name != "Write" {
		return nil
	}
	arg := c.Call.Args[1]
	kw := &keyWrite{in: in}
	if name == "WriteByte" || name == "WriteRune" {
		if k, ok := constInt(arg); ok {
			kw.kind, kw.b = "byte", byte(k)
			return kw
		}
		kw.kind = "varbyte"
		return kw
	}
	return w.classifyStr(kw, arg)
}

func (w *World) classifyStr(kw *keyWrite, arg ssa.Value) *keyWrite {
	arg = strip(arg)
	switch x := arg.(type) {
	case *ssa.Const:
		if s, ok := constString(x); ok && len(s) == 1 {
			kw.kind, kw.b = "byte", s[0]
			return kw
		}
		kw.kind = "conststr"
		return kw
	case *ssa.Call:
		if f := x.Call.StaticCallee(); f != nil && f.Pkg != nil && f.Pkg.Pkg.Path() == "strconv" {
			// Itoa / FormatInt of len(nav string) or of a counter
			kw.kind = "int"
			if len(x.Call.Args) > 0 {
				if l := lenOperand(stripConv(x.Call.Args[0])); l != nil {
					if c2, ok := strip(l).(*ssa.Call); ok && c2.Call.IsInvoke() {
						kw.kind, kw.src = "len", c2.Call.Method.Name()
					} else if a, ok := l.(*ssa.Alloc); ok {
						kw.kind, kw.src = "len", w.navSourceOfCell(a)
					}
				}
			}
			return kw
		}
		if x.Call.IsInvoke() && w.isNavType(x.Call.Value.Type()) {
			kw.kind, kw.src = "str", x.Call.Method.Name()
			return kw
		}
	case *ssa.BinOp:
		if x.Op == token.ADD {
			kw.kind = "concat"
			var collect func(v ssa.Value)
			collect = func(v ssa.Value) {
				v = strip(v)
				if b, ok := v.(*ssa.BinOp); ok && b.Op == token.ADD {
					collect(b.X)
					collect(b.Y)
					return
				}
				sub := w.classifyStr(&keyWrite{}, v)
				kw.parts = append(kw.parts, sub.kind+":"+sub.src+string(sub.b))
			}
			collect(x)
			return kw
		}
	case *ssa.UnOp:
		if a := cellOf(x.X); a != nil {
			kw.kind, kw.src = "str", w.navSourceOfCell(a)
			if kw.src == "" {
				kw.kind = "unknown"
			}
			return kw
		}
	case *ssa.Phi:
		kw.kind, kw.src = "str", "?"
		// a local assigned from a navigator method on some paths and "" on others
		for _, e := range x.Edges {
			if c, ok := strip(e).(*ssa.Call); ok && c.Call.IsInvoke() && w.isNavType(c.Call.Value.Type()) {
				kw.src = c.Call.Method.Name()
			}
		}
		return kw
	}
	kw.kind = "unknown"
	return kw
}

func (w *World) navSourceOfCell(a *ssa.Alloc) string {
	for _, st := range cellStores(a) {
		if c, ok := strip(st.Val).(*ssa.Call); ok && c.Call.IsInvoke() && w.isNavType(c.Call.Value.Type()) {
			return c.Call.Method.Name()
		}
	}
	return ""
}

// nextWrites: the key writes that can directly follow instruction `from`.
func nextWrites(from ssa.Instruction, isWrite func(ssa.Instruction) bool) (next []ssa.Instruction, canEnd bool) {
	seen := map[*ssa.BasicBlock]bool{}
	var scan func(b *ssa.BasicBlock, i int)
	scan = func(b *ssa.BasicBlock, i int) {
		for _, in := range b.Instrs[i:] {
			if isWrite(in) {
				next = append(next, in)
				return
			}
			if _, ok := in.(*ssa.Return); ok {
				canEnd = true
				return
			}
		}
		for _, s := range b.Succs {
			if !seen[s] {
				seen[s] = true
				scan(s, 0)
			}
		}
	}
	scan(from.Block(), instrIndex(from)+1)
	return
}

func inNameAlphabet(b byte) bool {
	return b == '-' || b == '.' || b == '_' || b == ':' || b >= '0' && b <= '9' || b >= 'a' && b <= 'z' || b >= 'A' && b <= 'Z' || b >= 0x80
}

func ruleBHash(w *World, r *Report) {
	r.rule("B-HASH", "the byte string hashed as node identity is uniquely decodable: every variable-length field (a name, a value, a decimal number) is the last field written, or is preceded by its decimal length and a non-digit, or is always followed by a constant byte outside its alphabet (names: XML NameChar incl. '-', '.', digits; values: any byte; numbers: digits); two variable fields are never concatenated. The union keeps a node iff its key was not seen, inserts the key when it keeps the node, and drains both operands")
	fn := w.hashFn()
	if fn == nil {
		r.bad("ANCHOR", "B-HASH", "", "node identity function not found")
		return
	}
	r.FuncsAnalysed[fnName(fn)] = true
	w.checkHashPath(r, fn)
	writes := map[ssa.Instruction]*keyWrite{}
	var order []*keyWrite
	eachInstr(fn, false, func(_ *ssa.Function, in ssa.Instruction) {
		if kw := w.classifyWrite(in); kw != nil {
			writes[in] = kw
			order = append(order, kw)
		}
	})
	if len(order) < 3 {
		r.bad("B-HASH", "writes", w.pos(fn.Pos()), "key construction not recognised")
		return
	}
	isW := func(in ssa.Instruction) bool { return writes[in] != nil }
	// previous writes relation (for length prefixes)
	prev := map[ssa.Instruction][]ssa.Instruction{}
	for _, kw := range order {
		nx, _ := nextWrites(kw.in, isW)
		for _, n := range nx {
			prev[n] = append(prev[n], kw.in)
		}
	}
	lengthPrefixed := func(kw *keyWrite) bool {
		// every predecessor chain: <len of same source> <non-digit byte> <this>
		ps := prev[kw.in]
		if len(ps) == 0 {
			return false
		}
		for _, p := range ps {
			pw := writes[p]
			if pw.kind != "byte" || pw.b >= '0' && pw.b <= '9' {
				return false
			}
			pps := prev[p]
			if len(pps) == 0 {
				return false
			}
			for _, pp := range pps {
				if ppw := writes[pp]; ppw.kind != "len" || ppw.src != kw.src {
					return false
				}
			}
		}
		return true
	}
	for i, kw := range order {
		key := fmt.Sprintf("field%d:%s%s", i+1, kw.kind, kw.src)
		pos := w.instrPos(kw.in)
		switch kw.kind {
		case "byte", "conststr":
			continue
		case "concat":
			r.bad("B-HASH", key, pos, fmt.Sprintf("two variable-length fields (%v) are concatenated into the key without a separator: prefix \"a\"+name \"bc\" and prefix \"ab\"+name \"c\" give the same key", kw.parts))
			continue
		case "unknown", "varbyte":
			r.undec("B-HASH", key, pos, "key component not understood")
			continue
		}
		nx, canEnd := nextWrites(kw.in, isW)
		if len(nx) == 0 {
			r.ok("B-HASH", key, pos, "last field of the key")
			continue
		}
		if (kw.kind == "str") && lengthPrefixed(kw) {
			r.ok("B-HASH", key, pos, "length-prefixed")
			continue
		}
		okAll := true
		why := ""
		for _, n := range nx {
			nw := writes[n]
			if nw.kind != "byte" {
				okAll = false
				why = "followed directly by another variable field"
				continue
			}
			switch kw.kind {
			case "int", "len":
				if nw.b >= '0' && nw.b <= '9' {
					okAll, why = false, "a number followed by a digit"
				}
			case "str":
				if kw.src == "Value" {
					okAll, why = false, fmt.Sprintf("a node value (any bytes) is followed by the separator %q, which can occur in the value itself", nw.b)
				} else if inNameAlphabet(nw.b) {
					okAll, why = false, fmt.Sprintf("a name is followed by the separator %q, which is a legal name character: element a-1 with child a and element a with an extra path component render the same key", nw.b)
				}
			}
		}
		_ = canEnd
		if okAll {
			r.ok("B-HASH", key, pos, "always followed by a byte outside its alphabet")
		} else {
			r.bad("B-HASH", key, pos, "the identity key is not uniquely decodable: "+why+" — two different nodes can get the same key and are merged by union / ancestor de-duplication")
		}
	}
	// own-node clause: what identifies the node (type, names, value) is read
	// from the cursor before the cursor is moved towards the root
	var moves, reads []ssa.CallInstruction
	eachInstr(fn, false, func(_ *ssa.Function, in ssa.Instruction) {
		ci, ok := in.(ssa.CallInstruction)
		if !ok {
			return
		}
		if _, _, class, ok := w.isNavCall(ci); ok {
			switch class {
			case "move":
				moves = append(moves, ci)
			case "read":
				reads = append(reads, ci)
			}
		}
	})
	have := map[string]bool{}
	for _, rd := range reads {
		_, m, _, _ := w.isNavCall(rd)
		have[m] = true
		late := false
		for _, mv := range moves {
			if instrReaches(mv, rd) {
				late = true
			}
		}
		key := "own:" + m
		if late {
			r.bad("B-HASH", key, w.instrPos(rd), fmt.Sprintf("%s() is read after the cursor may have been moved (towards the root): the key carries an ancestor's %s instead of the node's own, so distinct nodes get one key", m, m))
		} else {
			r.ok("B-HASH", key, w.instrPos(rd), "read before any cursor movement")
		}
	}
	for _, m := range []string{"NodeType", "LocalName"} {
		if !have[m] {
			r.bad("B-HASH", "own:"+m, w.pos(fn.Pos()), "the identity key does not read "+m+"(): an attribute/text node and an element at the same index path get one key")
		}
	}
	w.checkUnionLoop(r, fn)
}

// sameRecvFamily: fn and the methods on the same receiver it calls (transitively).
func (w *World) sameRecvFamily(fn *ssa.Function) []*ssa.Function {
	seen := map[*ssa.Function]bool{}
	var out []*ssa.Function
	var add func(f *ssa.Function)
	add = func(f *ssa.Function) {
		if f == nil || seen[f] {
			return
		}
		seen[f] = true
		out = append(out, f)
		eachInstr(f, false, func(_ *ssa.Function, in ssa.Instruction) {
			if ci, ok := in.(ssa.CallInstruction); ok {
				cc := ci.Common()
				if c := cc.StaticCallee(); c != nil && w.inPkg(c) && c.Signature.Recv() != nil && len(cc.Args) > 0 && isRecv(cc.Args[0]) {
					add(c)
				}
			}
		})
	}
	add(fn)
	return out
}

func (w *World) checkUnionLoop(r *Report, hash *ssa.Function) {
	sel := w.selectMethod()
	// the binary-operator type whose Select (or a helper method of it) calls the identity function
	for _, qt := range w.peerTypes() {
		top := qt.Methods[sel]
		if top == nil {
			continue
		}
		fam := w.sameRecvFamily(top)
		// and the closures made in them, and the plain functions they call (the two
		// drain loops written once, as a local closure or a helper function)
		{
			seenF := map[*ssa.Function]bool{}
			for _, f := range fam {
				seenF[f] = true
			}
			for i := 0; i < len(fam) && len(fam) < 32; i++ {
				eachInstr(fam[i], false, func(_ *ssa.Function, in ssa.Instruction) {
					var cand *ssa.Function
					switch x := in.(type) {
					case *ssa.MakeClosure:
						cand, _ = x.Fn.(*ssa.Function)
						if cand != nil && cand.Parent() == nil {
							cand = nil // a method value, not a closure of this function
						}
					case ssa.CallInstruction:
						if c := x.Common().StaticCallee(); c != nil && w.inPkg(c) && c.Signature.Recv() == nil && c.Parent() == nil && c != hash {
							cand = c
						}
					}
					if cand != nil && !seenF[cand] && len(cand.Blocks) > 0 {
						seenF[cand] = true
						fam = append(fam, cand)
					}
				})
			}
		}
		type site struct {
			fn *ssa.Function
			hc *ssa.Call
		}
		var sites []site
		for _, f := range fam {
			eachInstr(f, false, func(_ *ssa.Function, in ssa.Instruction) {
				if c, ok := in.(*ssa.Call); ok && c.Call.StaticCallee() == hash {
					sites = append(sites, site{f, c})
				}
			})
		}
		if len(sites) == 0 {
			continue
		}
		keyedFields := map[string]bool{}
		for i, s := range sites {
			fn, hc := s.fn, s.hc
			r.FuncsAnalysed[fnName(fn)] = true
			key := fmt.Sprintf("union:operand%d", i+1)
			// keyed node = copy of the Select result of an operand
			arg := resolveNav(w, hc.Call.Args[0])
			cp, ok := arg.(*ssa.Call)
			var selCall *ssa.Call
			var selPhi *ssa.Phi
			if ok && cp.Call.IsInvoke() && w.navMethodClass(cp.Call.Method.Name()) == "copy" {
				src := resolveNav(w, cp.Call.Value)
				selCall, _ = src.(*ssa.Call)
				// `for node := q.Select(t); node != nil; node = q.Select(t)`: the same pull, twice
				if ph, isPhi := src.(*ssa.Phi); isPhi {
					all := len(ph.Edges) > 0
					var first *ssa.Call
					for _, e := range ph.Edges {
						c, isC := resolveNav(w, e).(*ssa.Call)
						if !isC || !c.Call.IsInvoke() || c.Call.Method.Name() != sel || (first != nil && !sameValue(first.Call.Value, c.Call.Value) && first.Call.Value != c.Call.Value) {
							all = false
							break
						}
						if first == nil {
							first = c
						}
					}
					if all {
						selCall, selPhi = first, ph
					}
				}
			}
			if selCall == nil || !selCall.Call.IsInvoke() || selCall.Call.Method.Name() != sel {
				r.bad("B-HASH", key, w.instrPos(hc), "the key is not computed from a copy of the node the operand just produced")
				continue
			}
			// which operand(s): a field of the receiver, or a parameter bound at the call sites of this helper
			if f, ok := recvFieldLoad(selCall.Call.Value); ok {
				keyedFields[f.Name()] = true
			} else if p, ok := resolve(selCall.Call.Value).(*ssa.Parameter); ok && p.Parent() == fn {
				idx := -1
				for pi, pp := range fn.Params {
					if pp == p {
						idx = pi
					}
				}
				for _, g := range fam {
					eachInstr(g, false, func(_ *ssa.Function, in ssa.Instruction) {
						if ci, ok := in.(ssa.CallInstruction); ok && ci.Common().StaticCallee() == fn && idx >= 0 && idx < len(ci.Common().Args) {
							if f, ok := recvFieldLoad(ci.Common().Args[idx]); ok {
								keyedFields[f.Name()] = true
							}
						}
					})
				}
			}
			// lookup m[code] comma-ok; append + insertion on the not-found edge
			var lk *ssa.Lookup
			for _, u := range uses(hc) {
				if l, ok := u.(*ssa.Lookup); ok && l.CommaOk && l.Index == ssa.Value(hc) {
					lk = l
				}
			}
			if lk == nil {
				r.bad("B-HASH", key, w.instrPos(hc), "the key is not looked up in the seen-set")
				continue
			}
			var notFound *ssa.BasicBlock
			for _, u := range uses(lk) {
				if ex, ok := u.(*ssa.Extract); ok && ex.Index == 1 {
					for _, uu := range uses(ex) {
						if ifi, ok := uu.(*ssa.If); ok {
							notFound = ifi.Block().Succs[1]
						}
					}
				}
			}
			if notFound == nil {
				r.bad("B-HASH", key, w.instrPos(lk), "the outcome of the seen-set lookup is not tested")
				continue
			}
			ins, app := false, false
			for _, in := range notFound.Instrs {
				if mu, ok := in.(*ssa.MapUpdate); ok && (mu.Map == lk.X || sameValue(mu.Map, lk.X)) && mu.Key == ssa.Value(hc) {
					ins = true
				}
				if c, ok := in.(*ssa.Call); ok {
					if b, ok := c.Call.Value.(*ssa.Builtin); ok && b.Name() == "append" {
						app = true
					}
				}
			}
			// no append outside the not-found block within this loop body
			stray := false
			for _, comp := range cfgSCCs(fn) {
				inLoop := false
				for _, b := range comp {
					if b == hc.Block() {
						inLoop = true
					}
				}
				if !inLoop {
					continue
				}
				for _, b := range comp {
					if b == notFound {
						continue
					}
					for _, in := range b.Instrs {
						if c, ok := in.(*ssa.Call); ok {
							if bi, ok := c.Call.Value.(*ssa.Builtin); ok && bi.Name() == "append" {
								stray = true
							}
						}
					}
				}
			}
			// the loop is left only when the operand is exhausted
			drained := false
			for _, u := range uses(selCall) {
				if bo, ok := u.(*ssa.BinOp); ok && isNilConst(bo.Y) {
					drained = true
				}
			}
			if selPhi != nil {
				for _, u := range uses(selPhi) {
					if bo, ok := u.(*ssa.BinOp); ok && isNilConst(bo.Y) {
						drained = true
					}
				}
			}
			if ins && app && !stray && drained {
				r.ok("B-HASH", key, w.instrPos(hc), "node kept iff its key is new; key inserted with it; operand drained to nil")
			} else {
				r.bad("B-HASH", key, w.instrPos(hc), fmt.Sprintf("union bookkeeping broken: key inserted=%v node appended on the new-key edge=%v appended elsewhere=%v operand drained=%v — nodes are duplicated or lost", ins, app, stray, drained))
			}
		}
		// both operands of the binary operator are keyed
		var missing []string
		for _, f := range qt.Fields {
			if f.IsQuery && !keyedFields[f.Var.Name()] {
				missing = append(missing, f.Var.Name())
			}
		}
		if len(missing) > 0 {
			r.bad("B-HASH", "union:operands", w.pos(top.Pos()), fmt.Sprintf("the nodes of operand %v are not keyed: only one side of the union is de-duplicated", missing))
		} else {
			r.ok("B-HASH", "union:operands", w.pos(top.Pos()), "the nodes of both operands are keyed")
		}
		return
	}
	r.bad("B-HASH", "union", "", "no binary-operator query keys its operands' nodes")
}

var _ = strings.Join

func isByteType(t types.Type) bool {
	b, ok := t.Underlying().(*types.Basic)
	return ok && (b.Kind() == types.Uint8 || b.Kind() == types.Byte)
}
