package main

// Rules added after the second seeded round (findings of the sub-agents on
// the unchanged tree):
//
//   G-PREDS  every predicate consumer is repeated: when a parser function has
//            consumed one '[...]', it cannot return while the current token
//            may still be '[' (C02, C03: "one or more predicates").
//   G-EOF    the parse entry point only returns when the token left over
//            after the top-level expression is end-of-input: no part of the
//            expression text is silently ignored (C02, C03, C17).
//   T-WORK   the work of the builder is bounded by the input: either the
//            parse tree is a tree (no parser function embeds one node value
//            in two places), or every builder depth guard also carries a
//            monotone work budget (C06).

import (
	"fmt"
	"go/token"
	"go/types"
	"sort"

	"golang.org/x/tools/go/ssa"
)

// eofTok: the token constant the scanner's nextItem stores when it reports
// that nothing was consumed (returns false without calling the primitive).
func (g *Grammar) eofTok() (int64, bool) {
	if g.NextItem == nil {
		return 0, false
	}
	var found []int64
	for _, b := range g.NextItem.Blocks {
		ret, ok := b.Instrs[len(b.Instrs)-1].(*ssa.Return)
		if !ok || len(ret.Results) != 1 {
			continue
		}
		c, ok := ret.Results[0].(*ssa.Const)
		if !ok || c.Value == nil || c.Value.String() != "false" {
			continue
		}
		for _, in := range b.Instrs {
			st, ok := in.(*ssa.Store)
			if !ok {
				continue
			}
			fa, ok := st.Addr.(*ssa.FieldAddr)
			if !ok || fieldOfAddr(fa) != g.TokField {
				continue
			}
			if k, ok := constInt(st.Val); ok {
				found = append(found, k)
			}
		}
	}
	if len(found) != 1 {
		return 0, false
	}
	return found[0], true
}

func (g *Grammar) isParserMethod(fn *ssa.Function) bool {
	return fn.Signature.Recv() != nil && typeName(fn.Signature.Recv().Type()) == g.ParserT.Obj().Name()
}

// consumesInput: the call may advance the scanner.
func (w *World) consumesInput(g *Grammar, in ssa.Instruction) bool {
	c, ok := in.(ssa.CallInstruction)
	if !ok {
		return false
	}
	f := c.Common().StaticCallee()
	if f == nil {
		return c.Common().IsInvoke() || !isBuiltinCall(c)
	}
	if !w.inPkg(f) {
		return false
	}
	return w.reachesFn(f, g.NextItem, 6)
}

func isBuiltinCall(c ssa.CallInstruction) bool {
	_, ok := c.Common().Value.(*ssa.Builtin)
	return ok
}

// returnWithout: starting after instruction i of block b, is there a path to
// a Return on which, at the Return, the fact established by `edgeOK` (about
// the current token) does not hold? The fact is established by crossing an
// edge for which edgeOK is true and is destroyed by any call that may consume
// input. Returns the offending Return.
func (w *World) returnWithout(g *Grammar, b *ssa.BasicBlock, i int, edgeOK func(p, s *ssa.BasicBlock) bool) ssa.Instruction {
	type st struct {
		b     *ssa.BasicBlock
		known bool
	}
	seen := map[st]bool{}
	var found ssa.Instruction
	var dfs func(b *ssa.BasicBlock, i int, known bool)
	dfs = func(b *ssa.BasicBlock, i int, known bool) {
		if found != nil {
			return
		}
		for _, in := range b.Instrs[i:] {
			if w.consumesInput(g, in) {
				known = false
			}
			if _, ok := in.(*ssa.Return); ok {
				if !known {
					found = in
				}
				return
			}
		}
		for _, s := range b.Succs {
			k := known || edgeOK(b, s)
			if !seen[st{s, k}] {
				seen[st{s, k}] = true
				dfs(s, 0, k)
			}
		}
	}
	dfs(b, i, false)
	return found
}

func ruleGPreds(w *World, r *Report) {
	r.rule("G-PREDS", "a parser function that has consumed a predicate '[...]' cannot return while the current token may still be '[': on every path from the predicate consumer to a return, the last thing learnt about the token (after the last consuming call) is a no-match edge of a test for '[' or a match of another token. Otherwise a second predicate is left unparsed")
	g, err := w.grammar()
	if err != nil {
		r.bad("ANCHOR", "G-PREDS", "", err.Error())
		return
	}
	cc := w.checkingConsumers(g)
	lb := g.tokOfText("[")
	if len(cc) == 0 || lb == -999 {
		r.bad("ANCHOR", "G-PREDS", "", "checking consumer or '[' token not found")
		return
	}
	// predicate consumers: parser methods whose first consuming call is the
	// checking consumer for '['
	pred := map[*ssa.Function]bool{}
	for _, fn := range w.AllFuncs {
		if !g.isParserMethod(fn) || cc[fn] || len(fn.Blocks) == 0 {
			continue
		}
		for _, in := range fn.Blocks[0].Instrs {
			if !w.consumesInput(g, in) {
				continue
			}
			c := in.(ssa.CallInstruction)
			if f := c.Common().StaticCallee(); f != nil && cc[f] {
				if k, ok := constInt(c.Common().Args[len(c.Common().Args)-1]); ok && k == lb {
					pred[fn] = true
				}
			}
			break
		}
	}
	if len(pred) == 0 {
		r.bad("ANCHOR", "G-PREDS", "", "no predicate consumer (a parser method starting with the check for '[') found")
		return
	}
	notLB := func(p, s *ssa.BasicBlock) bool {
		if ex, ok := g.edgeNeg(p, s); ok && !ex.IsName && ex.Tok == lb {
			return true
		}
		if f := g.edgeFacts(p, s); f != nil && !factsHaveTok(f, lb) {
			return true
		}
		return false
	}
	n := 0
	for _, fn := range w.AllFuncs {
		if !w.BuildTime[fn] && !g.isParserMethod(fn) {
			continue
		}
		for _, b := range fn.Blocks {
			for i, in := range b.Instrs {
				c, ok := in.(ssa.CallInstruction)
				if !ok {
					continue
				}
				f := c.Common().StaticCallee()
				if f == nil || !pred[f] {
					continue
				}
				n++
				r.FuncsAnalysed[fnName(fn)] = true
				key := fmt.Sprintf("%s:%s", fn.Name(), f.Name())
				if bad := w.returnWithout(g, b, i+1, notLB); bad != nil {
					r.bad("G-PREDS", key, w.instrPos(in), fmt.Sprintf("after one predicate %s can return (at %s) while the next token may be another '[': a second predicate is never parsed (and, without an end-of-input check, silently dropped)", fn.Name(), w.instrPos(bad)))
				} else {
					r.ok("G-PREDS", key, w.instrPos(in), "every return after a predicate is behind a no-match test for '['")
				}
			}
		}
	}
	if n == 0 {
		r.bad("G-PREDS", "sites", "", "no call of the predicate consumer found")
	}
}

func ruleGEOF(w *World, r *Report) {
	r.rule("G-EOF", "the function that creates the parser and parses the top-level expression returns only behind a test that the current token is end-of-input (the token the scanner stores when it consumes nothing); otherwise whatever follows a complete expression is silently ignored")
	g, err := w.grammar()
	if err != nil {
		r.bad("ANCHOR", "G-EOF", "", err.Error())
		return
	}
	eof, ok := g.eofTok()
	if !ok {
		r.bad("ANCHOR", "G-EOF", "", "end-of-input token not identified in the scanner")
		return
	}
	isEOF := func(p, s *ssa.BasicBlock) bool {
		return factsOnlyTok(g.edgeFacts(p, s), eof)
	}
	n := 0
	for _, fn := range w.AllFuncs {
		if g.isParserMethod(fn) || fn.Signature.Recv() != nil || fn.Parent() != nil {
			continue
		}
		// creates a parser value
		creates := false
		eachInstr(fn, false, func(_ *ssa.Function, in ssa.Instruction) {
			if a, ok := in.(*ssa.Alloc); ok {
				if p, ok := a.Type().(*types.Pointer); ok && types.Identical(p.Elem(), g.ParserT) {
					creates = true
				}
			}
		})
		if !creates {
			continue
		}
		// last parser-method call that returns a node
		for _, b := range fn.Blocks {
			for i, in := range b.Instrs {
				c, ok := in.(*ssa.Call)
				if !ok {
					continue
				}
				f := c.Call.StaticCallee()
				if f == nil || !g.isParserMethod(f) || !types.Identical(c.Type(), g.NodeT) {
					continue
				}
				n++
				r.FuncsAnalysed[fnName(fn)] = true
				key := fmt.Sprintf("%s:%s", fn.Name(), f.Name())
				if bad := w.returnWithout(g, b, i+1, isEOF); bad != nil {
					r.bad("G-EOF", key, w.instrPos(in), fmt.Sprintf("%s returns the tree (at %s) without testing that the token after the expression is %s: trailing tokens (an unparsed predicate, a stray bracket) are ignored", fn.Name(), w.instrPos(bad), g.tokName(eof)))
				} else {
					r.ok("G-EOF", key, w.instrPos(in), fmt.Sprintf("every return is behind a match of %s", g.tokName(eof)))
				}
			}
		}
	}
	if n == 0 {
		r.bad("G-EOF", "sites", "", "parse entry point (creates a parser, calls a parser method returning a node) not found")
	}
}

// ---------- T-WORK ----------

type embedKey struct {
	fn *ssa.Function
	i  int
}

// derivedFrom: v and the values that are v in another form (interface
// conversions, phis merging it).
func derivedFrom(v ssa.Value) map[ssa.Value]bool {
	out := map[ssa.Value]bool{v: true}
	work := []ssa.Value{v}
	for len(work) > 0 {
		x := work[len(work)-1]
		work = work[:len(work)-1]
		for _, u := range uses(x) {
			switch y := u.(type) {
			case *ssa.MakeInterface:
				if !out[y] {
					out[y] = true
					work = append(work, y)
				}
			case *ssa.ChangeInterface:
				if !out[y] {
					out[y] = true
					work = append(work, y)
				}
			}
		}
	}
	return out
}

// embedSites: the instructions of fn that put value v (directly) into a tree
// node: a store into a struct field / slice element, an append, or a call
// passing it at a parameter position known to embed.
func (w *World) embedSites(v ssa.Value, embeds map[embedKey]bool) []ssa.Instruction {
	var out []ssa.Instruction
	for d := range derivedFrom(v) {
		for _, u := range uses(d) {
			switch x := u.(type) {
			case *ssa.Store:
				if x.Val != d {
					continue
				}
				switch x.Addr.(type) {
				case *ssa.FieldAddr, *ssa.IndexAddr:
					out = append(out, x)
				}
			case ssa.CallInstruction:
				f := x.Common().StaticCallee()
				if f == nil {
					continue
				}
				args := x.Common().Args
				for ai, a := range args {
					if a == d && embeds[embedKey{f, ai}] {
						out = append(out, x)
					}
				}
			}
		}
	}
	return out
}

func (w *World) nodeTyped(g *Grammar, t types.Type) bool {
	return types.Identical(t, g.NodeT)
}

func ruleTWork(w *World, r *Report) {
	r.rule("T-WORK", "the builder's work is bounded by the input: (a) parser functions are searched for a node value that is embedded in the tree at two places reachable on one path (or at one place inside a loop while defined outside it) — each such site makes the parse tree a DAG whose unfolding, which the builder walks, can be exponential in the input length; (b) if any such site exists, every depth guard outside the parser must also carry a monotone work budget: a receiver counter that is incremented, compared with a constant <= 2^20, never decremented or reset anywhere, and whose excess edge returns/panics before any package call")
	g, err := w.grammar()
	if err != nil {
		r.bad("ANCHOR", "T-WORK", "", err.Error())
		return
	}
	// functions of the parse phase: parser methods and the package functions they call
	var fns []*ssa.Function
	seen := map[*ssa.Function]bool{}
	var add func(f *ssa.Function)
	add = func(f *ssa.Function) {
		if seen[f] || !w.inPkg(f) || len(f.Blocks) == 0 {
			return
		}
		seen[f] = true
		fns = append(fns, f)
		for _, c := range w.pkgCallees(f) {
			add(c)
		}
	}
	for _, fn := range w.AllFuncs {
		if g.isParserMethod(fn) {
			add(fn)
		}
	}
	sort.Slice(fns, func(i, j int) bool { return fnName(fns[i]) < fnName(fns[j]) })
	if len(fns) < 10 {
		r.bad("ANCHOR", "T-WORK", "", fmt.Sprintf("only %d parse-phase functions found", len(fns)))
		return
	}
	// fixpoint: which node-typed parameters end up embedded
	embeds := map[embedKey]bool{}
	for changed := true; changed; {
		changed = false
		for _, fn := range fns {
			for pi, p := range fn.Params {
				if !w.nodeTyped(g, p.Type()) || embeds[embedKey{fn, pi}] {
					continue
				}
				// through phis too: a phi carrying the parameter is the parameter on some path
				vals := []ssa.Value{p}
				vs := map[ssa.Value]bool{p: true}
				for k := 0; k < len(vals); k++ {
					for _, u := range uses(vals[k]) {
						if ph, ok := u.(*ssa.Phi); ok && !vs[ph] {
							vs[ph] = true
							vals = append(vals, ph)
						}
					}
				}
				for _, v := range vals {
					if len(w.embedSites(v, embeds)) > 0 {
						embeds[embedKey{fn, pi}] = true
						changed = true
						break
					}
				}
			}
		}
	}
	// fan-out sites
	type fan struct {
		fn   *ssa.Function
		v    ssa.Value
		a, b ssa.Instruction
	}
	var fans []fan
	nvals := 0
	for _, fn := range fns {
		r.FuncsAnalysed[fnName(fn)] = true
		var vals []ssa.Value
		for _, p := range fn.Params {
			vals = append(vals, p)
		}
		for _, b := range fn.Blocks {
			for _, in := range b.Instrs {
				if v, ok := in.(ssa.Value); ok {
					vals = append(vals, v)
				}
			}
		}
		sccs := cfgSCCs(fn)
		for _, v := range vals {
			if !w.nodeTyped(g, v.Type()) {
				continue
			}
			if _, isConst := v.(*ssa.Const); isConst {
				continue
			}
			if _, isIface := v.(*ssa.MakeInterface); isIface {
				continue // counted with the value it wraps
			}
			if _, isIface := v.(*ssa.ChangeInterface); isIface {
				continue
			}
			nvals++
			sites := w.embedSites(v, embeds)
			sort.Slice(sites, func(i, j int) bool { return sites[i].Pos() < sites[j].Pos() })
			var defBlock *ssa.BasicBlock
			if in, ok := v.(ssa.Instruction); ok {
				defBlock = in.Block()
			}
			done := false
			for _, s := range sites {
				// inside a loop the value is not defined in
				for _, comp := range sccs {
					in, defIn := false, false
					for _, cb := range comp {
						if cb == s.Block() {
							in = true
						}
						if cb == defBlock {
							defIn = true
						}
					}
					if in && !defIn && !done {
						fans = append(fans, fan{fn, v, s, s})
						done = true
					}
				}
			}
			for i := 0; i < len(sites) && !done; i++ {
				for j := 0; j < len(sites) && !done; j++ {
					if i == j {
						continue
					}
					if instrReaches(sites[i], sites[j]) {
						fans = append(fans, fan{fn, v, sites[i], sites[j]})
						done = true
					}
				}
			}
		}
	}
	if nvals < 20 {
		r.bad("T-WORK", "values", "", fmt.Sprintf("only %d node-typed values examined in the parser", nvals))
		return
	}
	// budgets
	recs := w.recoverers()
	var roots []*ssa.Function
	for _, f := range recs {
		if w.BuildTime[f] {
			roots = append(roots, f)
		}
	}
	reach := w.pkgReach(roots, nil)
	var builderGuards []*ssa.Function
	for f := range reach {
		if w.depthGuard(f) != nil && !g.isParserMethod(f) {
			builderGuards = append(builderGuards, f)
		}
	}
	sort.Slice(builderGuards, func(i, j int) bool { return fnName(builderGuards[i]) < fnName(builderGuards[j]) })
	budgetOK := len(builderGuards) > 0
	var budgetWhy string
	for _, f := range builderGuards {
		bi := w.workBudget(f)
		key := "budget:" + fnName(f)
		if bi == nil {
			budgetOK = false
			budgetWhy = fmt.Sprintf("%s has a depth guard but no monotone work budget", fnName(f))
			if len(fans) > 0 {
				// reported through the fan-out obligations below
			}
			continue
		}
		if bi.Limit > 1<<20 {
			budgetOK = false
			budgetWhy = fmt.Sprintf("work budget of %s is %d (> 2^20)", fnName(f), bi.Limit)
			r.bad("T-WORK", key, w.pos(f.Pos()), budgetWhy+": too large to bound Compile's time and memory")
			continue
		}
		r.ok("T-WORK", key, w.pos(f.Pos()), fmt.Sprintf("monotone work counter %s, limit %d, checked before any package call", bi.Field, bi.Limit))
	}
	if len(builderGuards) == 0 {
		budgetWhy = "no depth guard found on the builder side"
	}
	if len(fans) == 0 {
		r.ok("T-WORK", "tree", "", fmt.Sprintf("%d node-typed values in %d parse-phase functions: none is embedded twice on a path; the parse tree is a tree with at most one node per token", nvals, len(fns)))
		return
	}
	for _, f := range fans {
		key := fmt.Sprintf("fanout:%s:%s", f.fn.Name(), f.v.Name())
		where := fmt.Sprintf("%s and %s", w.instrPos(f.a), w.instrPos(f.b))
		if f.a == f.b {
			where = fmt.Sprintf("%s (inside a loop, the value is defined outside it)", w.instrPos(f.a))
		}
		if budgetOK {
			r.ok("T-WORK", key, w.instrPos(f.a), fmt.Sprintf("%s embeds the same node value at %s: the tree the builder walks can be exponentially larger than the text, but every builder guard carries a work budget", f.fn.Name(), where))
		} else {
			r.bad("T-WORK", key, w.instrPos(f.a), fmt.Sprintf("%s embeds the same node value at %s: chaining the construct k times makes the builder do 2^k work (Compile of a ~250-byte expression does not return and exhausts memory), and %s", f.fn.Name(), where, budgetWhy))
		}
	}
}

// instrReaches: can b execute after a in one invocation?
func instrReaches(a, b ssa.Instruction) bool {
	if a.Block() == b.Block() {
		ia, ib := -1, -1
		for i, in := range a.Block().Instrs {
			if in == a {
				ia = i
			}
			if in == b {
				ib = i
			}
		}
		if ia < ib {
			return true
		}
	}
	seen := map[*ssa.BasicBlock]bool{}
	work := append([]*ssa.BasicBlock{}, a.Block().Succs...)
	for len(work) > 0 {
		x := work[len(work)-1]
		work = work[:len(work)-1]
		if seen[x] {
			continue
		}
		seen[x] = true
		if x == b.Block() {
			return true
		}
		work = append(work, x.Succs...)
	}
	return false
}

// workBudget recognises, in a function that has a depth guard, a second
// counter test: some block increments a receiver int field f by a constant
// and branches on f > K; the excess side leaves without a package call, every
// package call of the function is behind the other side, and no instruction
// of the package stores anything else to f (never decremented, never reset).
func (w *World) workBudget(fn *ssa.Function) *guardInfo {
	if g := w.workBudgetIn(fn, fn, nil); g != nil {
		return g
	}
	// the budget kept by a leaf helper called first thing on the receiver,
	// which panics or reports the excess to a caller that obeys
	if len(fn.Blocks) == 0 {
		return nil
	}
	for _, in := range fn.Blocks[0].Instrs {
		ci, ok := in.(ssa.CallInstruction)
		if !ok {
			continue
		}
		if ci.Common().IsInvoke() {
			return nil
		}
		c := ci.Common().StaticCallee()
		if c == nil || !w.inPkg(c) {
			continue
		}
		if len(ci.Common().Args) == 0 || !isRecv(ci.Common().Args[0]) || !w.isLeaf(c) || len(c.Blocks) == 0 {
			return nil
		}
		return w.workBudgetIn(c, fn, ci)
	}
	return nil
}

// workBudgetIn looks for the budget test in fn; when fn is a helper of
// caller (site != nil), the excess side must panic or return a set value that
// the caller obeys.
func (w *World) workBudgetIn(fn, caller *ssa.Function, site ssa.CallInstruction) *guardInfo {
	for _, b := range fn.Blocks {
		ifi := blockIf(b)
		if ifi == nil {
			continue
		}
		cmp, neg := decodeCond(ifi.Cond)
		if cmp == nil {
			continue
		}
		fld, ok := recvFieldLoad(cmp.X)
		if !ok {
			continue
		}
		limit, ok := constInt(cmp.Y)
		if !ok {
			continue
		}
		var gt bool
		switch cmp.Op {
		case token.GTR, token.GEQ:
			gt = !neg
		case token.LSS, token.LEQ:
			gt = neg
		default:
			continue
		}
		exc, okS := b.Succs[1], b.Succs[0]
		if gt {
			exc, okS = b.Succs[0], b.Succs[1]
		}
		var incr *ssa.Store
		clean := true
		for _, in := range b.Instrs {
			if st, ok := in.(*ssa.Store); ok {
				if f, ok := recvFieldAddr(st.Addr); ok && f == fld {
					if bo, ok := st.Val.(*ssa.BinOp); ok && bo.Op == token.ADD {
						if f2, ok := recvFieldLoad(bo.X); ok && f2 == fld {
							if c, ok := constInt(bo.Y); ok && c >= 1 {
								incr = st
							}
						}
					}
				}
			}
			if ci, ok := in.(ssa.CallInstruction); ok {
				if c := ci.Common().StaticCallee(); (c != nil && w.inPkg(c)) || ci.Common().IsInvoke() {
					clean = false
				}
			}
		}
		if incr == nil || !clean {
			continue
		}
		// monotone: no other store to the field anywhere
		other := false
		for _, f := range w.AllFuncs {
			eachInstr(f, false, func(_ *ssa.Function, in ssa.Instruction) {
				st, ok := in.(*ssa.Store)
				if !ok || st == incr {
					return
				}
				if fa, ok := st.Addr.(*ssa.FieldAddr); ok && fieldOfAddr(fa) == fld {
					other = true
				}
			})
		}
		if other {
			continue
		}
		// excess side: no package calls before leaving
		bad := false
		for blk := range reachableFrom(exc, nil) {
			if blk == okS || okS.Dominates(blk) {
				continue
			}
			for _, in := range blk.Instrs {
				if ci, ok := in.(ssa.CallInstruction); ok {
					if c := ci.Common().StaticCallee(); (c != nil && w.inPkg(c)) || ci.Common().IsInvoke() {
						bad = true
					}
				}
			}
		}
		// every package call behind the ok side
		for _, blk := range fn.Blocks {
			for _, in := range blk.Instrs {
				if ci, ok := in.(ssa.CallInstruction); ok {
					c := ci.Common().StaticCallee()
					if (c != nil && w.inPkg(c)) || ci.Common().IsInvoke() {
						if !(blk == okS || okS.Dominates(blk)) || len(okS.Preds) != 1 {
							bad = true
						}
					}
				}
			}
		}
		if bad {
			continue
		}
		if site != nil {
			panics := true
			for blk := range reachableFrom(exc, nil) {
				if blk == okS || okS.Dominates(blk) {
					continue
				}
				if _, isRet := blk.Instrs[len(blk.Instrs)-1].(*ssa.Return); isRet {
					panics = false
				}
			}
			if !panics && !(fn.Signature.Results().Len() == 1 && sideReturnsSet(exc) && w.callerObeys(caller, site)) {
				continue
			}
		}
		// a depth guard's own counter is decremented, so it never gets here; a
		// counter that is the depth counter without its decrement is reported by T-DEPTH
		if dg := w.depthGuard(caller); dg != nil && dg.Field == fld.Name() {
			continue
		}
		return &guardInfo{Field: fld.Name(), Limit: limit}
	}
	return nil
}

// ---------- S-CALLER ----------

// ruleSCaller: memory the caller hands to the exported API through a map,
// slice or pointer parameter stays the caller's: the package never writes it.
// (Concurrent Compile calls may share one namespace table; a write to it is a
// data race between them and changes the table the caller keeps using.)
func ruleSCaller(w *World, r *Report) {
	r.rule("S-CALLER", "map-, slice- and pointer-typed parameters of exported functions (other than receivers) are followed through calls, struct fields they are stored in, closures and phis; no MapUpdate, Store through, delete() or clear() is applied to a value so derived")
	tainted := map[ssa.Value]string{}
	taintedField := map[*types.Var]string{}
	var work []ssa.Value
	mark := func(v ssa.Value, src string) {
		if _, ok := tainted[v]; ok {
			return
		}
		tainted[v] = src
		work = append(work, v)
	}
	isRef := func(t types.Type) bool {
		switch t.Underlying().(type) {
		case *types.Map, *types.Slice, *types.Pointer:
			return true
		}
		return false
	}
	nparams := 0
	for _, fn := range w.AllFuncs {
		if fn.Parent() != nil || fn.Object() == nil || !fn.Object().Exported() {
			continue
		}
		if recv := fn.Signature.Recv(); recv != nil {
			if n, ok := derefNamed(recv.Type()); !ok || !n.Obj().Exported() {
				continue
			}
		}
		for i, p := range fn.Params {
			if fn.Signature.Recv() != nil && i == 0 {
				continue
			}
			if isRef(p.Type()) {
				nparams++
				mark(p, fmt.Sprintf("parameter %s of %s", p.Name(), fnName(fn)))
				r.FuncsAnalysed[fnName(fn)] = true
			}
		}
	}
	if nparams == 0 {
		r.bad("S-CALLER", "params", "", "no reference-typed parameter found on the exported API (CompileWithNS takes a map)")
		return
	}
	// loads of tainted fields, discovered lazily
	fieldLoads := func(f *types.Var, src string) {
		for _, fn := range w.AllFuncs {
			eachInstr(fn, false, func(_ *ssa.Function, in ssa.Instruction) {
				if u, ok := in.(*ssa.UnOp); ok && u.Op == token.MUL {
					if fa, ok := u.X.(*ssa.FieldAddr); ok && fieldOfAddr(fa) == f {
						mark(u, src)
					}
				}
				if fv, ok := in.(*ssa.Field); ok {
					if st, ok := fv.X.Type().Underlying().(*types.Struct); ok && st.Field(fv.Field) == f {
						mark(fv, src)
					}
				}
			})
		}
	}
	type write struct {
		in  ssa.Instruction
		src string
	}
	var writes []write
	for len(work) > 0 {
		v := work[len(work)-1]
		work = work[:len(work)-1]
		src := tainted[v]
		for _, u := range uses(v) {
			switch x := u.(type) {
			case *ssa.Phi:
				mark(x, src)
			case *ssa.ChangeType:
				mark(x, src)
			case *ssa.MakeInterface:
				mark(x, src)
			case *ssa.Slice:
				mark(x, src)
			case *ssa.MapUpdate:
				if x.Map == v {
					writes = append(writes, write{x, src})
				}
			case *ssa.IndexAddr:
				if x.X == v {
					mark(x, src)
				}
			case *ssa.FieldAddr:
				if x.X == v {
					mark(x, src)
				}
			case *ssa.Store:
				if x.Addr == v {
					writes = append(writes, write{x, src})
				} else if x.Val == v {
					switch a := x.Addr.(type) {
					case *ssa.FieldAddr:
						f := fieldOfAddr(a)
						if _, ok := taintedField[f]; !ok {
							taintedField[f] = src
							fieldLoads(f, src)
						}
					case *ssa.Alloc:
						// variable cell: its loads carry the value
						for _, lu := range uses(a) {
							if ld, ok := lu.(*ssa.UnOp); ok && ld.Op == token.MUL {
								mark(ld, src)
							}
						}
					}
				}
			case *ssa.MakeClosure:
				if cf, ok := x.Fn.(*ssa.Function); ok {
					for bi, b := range x.Bindings {
						if b == v && bi < len(cf.FreeVars) {
							mark(cf.FreeVars[bi], src)
						}
					}
				}
			case ssa.CallInstruction:
				com := x.Common()
				if bi, ok := com.Value.(*ssa.Builtin); ok {
					if (bi.Name() == "delete" || bi.Name() == "clear") && len(com.Args) > 0 && com.Args[0] == v {
						writes = append(writes, write{x, src})
					}
					if bi.Name() == "append" && len(com.Args) > 0 && com.Args[0] == v {
						writes = append(writes, write{x, src}) // may write into the caller's backing array
					}
					continue
				}
				var callees []*ssa.Function
				if f := com.StaticCallee(); f != nil {
					callees = []*ssa.Function{f}
				} else if n := w.CG.Nodes[x.Parent()]; n != nil {
					for _, e := range n.Out {
						if e.Site == x {
							callees = append(callees, e.Callee.Func)
						}
					}
				}
				for _, f := range callees {
					if !w.inPkg(f) || len(f.Params) == 0 {
						continue
					}
					args := com.Args
					off := 0
					if com.IsInvoke() {
						off = 1
					}
					for ai, a := range args {
						if a == v && ai+off < len(f.Params) {
							mark(f.Params[ai+off], src)
						}
					}
				}
			}
		}
	}
	if len(writes) == 0 {
		r.ok("S-CALLER", "caller-memory", "", fmt.Sprintf("%d reference-typed API parameters, %d derived values, %d fields holding them: never written", nparams, len(tainted), len(taintedField)))
		return
	}
	sort.Slice(writes, func(i, j int) bool { return writes[i].in.Pos() < writes[j].in.Pos() })
	for _, wr := range writes {
		r.bad("S-CALLER", "write:"+fnName(wr.in.Parent()), w.instrPos(wr.in), fmt.Sprintf("%s writes memory that belongs to the caller (%s): concurrent calls sharing it race, and the caller's value changes behind its back", fnName(wr.in.Parent()), wr.src))
	}
}

func derefNamed(t types.Type) (*types.Named, bool) {
	if p, ok := t.(*types.Pointer); ok {
		t = p.Elem()
	}
	n, ok := t.(*types.Named)
	return n, ok
}

// ---------- T-STRING ----------

// nodeArgOfExternalCall: the call hands a parse-tree node (as an interface
// value) to code outside the package (fmt): returns the node-typed operands.
func (w *World) nodeOperands(g *Grammar, ci ssa.CallInstruction) []ssa.Value {
	var out []ssa.Value
	isNodeish := func(t types.Type) bool {
		if types.Identical(t, g.NodeT) {
			return true
		}
		if p, ok := t.(*types.Pointer); ok {
			if n, ok := p.Elem().(*types.Named); ok && n.Obj().Pkg() == w.Types {
				return types.Implements(t, g.NodeT.Underlying().(*types.Interface))
			}
		}
		return false
	}
	com := ci.Common()
	if com.IsInvoke() {
		if com.Method.Name() == "String" && isNodeish(com.Value.Type()) {
			out = append(out, com.Value)
		}
		return out
	}
	f := com.StaticCallee()
	if f != nil && w.inPkg(f) {
		// direct call of a node's String method
		if f.Name() == "String" && f.Signature.Recv() != nil && isNodeish(f.Signature.Recv().Type()) && len(com.Args) > 0 {
			out = append(out, com.Args[0])
		}
		return out
	}
	// external callee: look into interface conversions and variadic slices
	var look func(v ssa.Value, d int)
	look = func(v ssa.Value, d int) {
		if d > 4 {
			return
		}
		switch x := v.(type) {
		case *ssa.MakeInterface:
			if isNodeish(x.X.Type()) {
				out = append(out, x.X)
			}
		case *ssa.ChangeInterface:
			if isNodeish(x.X.Type()) {
				out = append(out, x.X)
			}
		case *ssa.Slice:
			look(x.X, d+1)
		case *ssa.Alloc:
			for _, u := range uses(x) {
				if ia, ok := u.(*ssa.IndexAddr); ok {
					for _, uu := range uses(ia) {
						if st, ok := uu.(*ssa.Store); ok {
							look(st.Val, d+1)
						}
					}
				}
			}
		}
	}
	for _, a := range com.Args {
		look(a, 0)
	}
	return out
}

func ruleTString(w *World, r *Report) {
	r.rule("T-STRING", "rendering a parse tree recurses once per level (String methods format their children) and no depth guard covers it, while a flat operator chain 1+1+...+1 is as deep as it is long: compile-time code therefore never formats or calls String() on a node whose concrete type can be one of the recursively rendering node types. The possible types of a node-typed value are its static type, or the types whose kind constant it was tested equal to on a dominating edge")
	g, err := w.grammar()
	if err != nil {
		r.bad("ANCHOR", "T-STRING", "", err.Error())
		return
	}
	iface := g.NodeT.Underlying().(*types.Interface)
	// concrete node types and their String methods
	var nodeTypes []*types.Named
	for _, name := range w.Types.Scope().Names() {
		tn, ok := w.Types.Scope().Lookup(name).(*types.TypeName)
		if !ok {
			continue
		}
		nm, ok := tn.Type().(*types.Named)
		if !ok {
			continue
		}
		if _, isStruct := nm.Underlying().(*types.Struct); !isStruct {
			continue
		}
		if types.Implements(types.NewPointer(nm), iface) {
			nodeTypes = append(nodeTypes, nm)
		}
	}
	if len(nodeTypes) < 5 {
		r.bad("ANCHOR", "T-STRING", "", fmt.Sprintf("only %d parse-tree node types found", len(nodeTypes)))
		return
	}
	rec := map[*types.Named]bool{}
	for _, nm := range nodeTypes {
		sf := w.methodOf(nm, "String")
		if sf == nil {
			continue
		}
		for f := range w.pkgReach([]*ssa.Function{sf}, nil) {
			eachInstr(f, false, func(_ *ssa.Function, in ssa.Instruction) {
				if ci, ok := in.(ssa.CallInstruction); ok && len(w.nodeOperands(g, ci)) > 0 {
					rec[nm] = true
				}
			})
		}
	}
	// kind constant -> concrete types (the constant stored in the literal's kind field)
	kindOf := map[int64][]*types.Named{}
	kindFn := ""
	for i := 0; i < iface.NumMethods(); i++ {
		m := iface.Method(i)
		sig := m.Type().(*types.Signature)
		if sig.Params().Len() == 0 && sig.Results().Len() == 1 {
			if b, ok := sig.Results().At(0).Type().Underlying().(*types.Basic); ok && b.Info()&types.IsInteger != 0 {
				kindFn = m.Name()
			}
		}
	}
	for _, fn := range w.AllFuncs {
		eachInstr(fn, false, func(_ *ssa.Function, in ssa.Instruction) {
			st, ok := in.(*ssa.Store)
			if !ok {
				return
			}
			k, ok := constInt(st.Val)
			if !ok {
				return
			}
			fa, ok := st.Addr.(*ssa.FieldAddr)
			if !ok {
				return
			}
			if a, ok := fa.X.(*ssa.Alloc); ok {
				if nm, ok := derefNamed(a.Type()); ok && types.Implements(types.NewPointer(nm), iface) {
					if b, ok := fieldOfAddr(fa).Type().Underlying().(*types.Basic); ok && b.Info()&types.IsInteger != 0 && fieldOfAddr(fa).Embedded() {
						kindOf[k] = append(kindOf[k], nm)
					}
				}
			}
		})
	}
	possible := func(v ssa.Value, at *ssa.BasicBlock) ([]*types.Named, string) {
		if nm, ok := derefNamed(v.Type()); ok && !types.Identical(v.Type(), g.NodeT) {
			return []*types.Named{nm}, "static type"
		}
		// dominating kind test
		if kindFn != "" {
			for _, u := range uses(v) {
				c, ok := u.(*ssa.Call)
				if !ok || !c.Call.IsInvoke() || c.Call.Method.Name() != kindFn || c.Call.Value != v {
					continue
				}
				for _, uu := range uses(c) {
					bo, ok := uu.(*ssa.BinOp)
					if !ok || bo.Op != token.EQL {
						continue
					}
					k, ok := constInt(bo.Y)
					if !ok {
						continue
					}
					for _, u3 := range uses(bo) {
						if ifi, ok := u3.(*ssa.If); ok {
							s := ifi.Block().Succs[0]
							if len(s.Preds) == 1 && (s == at || s.Dominates(at)) && len(kindOf[k]) > 0 {
								return kindOf[k], "kind test"
							}
						}
					}
				}
			}
		}
		return nodeTypes, "any node type"
	}
	n := 0
	for _, fn := range w.AllFuncs {
		isEntry := fn.Object() != nil && fn.Object().Exported() && fn.Signature.Recv() == nil
		if !w.BuildTime[fn] && !isEntry {
			continue
		}
		// the String methods themselves are judged at their callers
		if fn.Name() == "String" && fn.Signature.Recv() != nil {
			if nm, ok := derefNamed(fn.Signature.Recv().Type()); ok && types.Implements(types.NewPointer(nm), iface) {
				continue
			}
		}
		for _, b := range fn.Blocks {
			for _, in := range b.Instrs {
				ci, ok := in.(ssa.CallInstruction)
				if !ok {
					continue
				}
				for _, v := range w.nodeOperands(g, ci) {
					n++
					r.FuncsAnalysed[fnName(fn)] = true
					key := fmt.Sprintf("%s:render", fnName(fn))
					ts, how := possible(v, b)
					var bad []string
					for _, t := range ts {
						if rec[t] {
							bad = append(bad, t.Obj().Name())
						}
					}
					sort.Strings(bad)
					if len(bad) > 0 {
						r.bad("T-STRING", key, w.instrPos(in), fmt.Sprintf("%s renders a parse-tree node that can be %v (%s): String() recurses once per tree level with no depth guard, and a flat chain of operators or predicates is as deep as it is long — a long expression overflows the stack (fatal, not recoverable) or takes quadratic time", fnName(fn), bad, how))
					} else {
						var names []string
						for _, t := range ts {
							names = append(names, t.Obj().Name())
						}
						r.ok("T-STRING", key, w.instrPos(in), fmt.Sprintf("only %v (%s), rendered without recursion", names, how))
					}
				}
			}
		}
	}
	var recNames []string
	for t := range rec {
		recNames = append(recNames, t.Obj().Name())
	}
	sort.Strings(recNames)
	if len(recNames) == 0 {
		r.bad("T-STRING", "recursive-types", "", "no recursively rendering node type found (operator, filter, group and function nodes format their children)")
	} else {
		r.ok("T-STRING", "recursive-types", "", fmt.Sprintf("recursively rendering node types: %v; %d compile-time rendering sites examined", recNames, n))
	}
}
