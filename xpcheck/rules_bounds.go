package main

// X-BOUNDS (C09, C15): index and slice expressions of run-time code.

import (
	"fmt"
	"go/constant"
	"go/token"
	"go/types"
	"math"
	"strings"

	"golang.org/x/tools/go/ssa"
)

// ---- abstract value: lo <= v <= hi where hi is a constant or len(L)+k ----

const inf = int64(math.MaxInt64 / 4)

type bnd struct {
	lo    int64     // -inf .. ; lower bound (constant)
	hiK   int64     // upper bound constant part
	hiLen ssa.Value // nil: hi = hiK ; else hi = len(hiLen)+hiK
	loLen ssa.Value // nil: lo = lo ; else lo = len(loLen)+lo
	top   bool
	extra []ub // further upper bounds that hold simultaneously
}

type ub struct {
	L ssa.Value
	k int64
}

func top() bnd           { return bnd{lo: -inf, hiK: inf, top: true} }
func constB(k int64) bnd { return bnd{lo: k, hiK: k} }
func (b bnd) String() string {
	lo := fmt.Sprint(b.lo)
	if b.lo <= -inf {
		lo = "-inf"
	}
	if b.loLen != nil {
		lo = fmt.Sprintf("len(%s)%+d", b.loLen.Name(), b.lo)
	}
	hi := fmt.Sprint(b.hiK)
	if b.hiK >= inf {
		hi = "+inf"
	}
	if b.hiLen != nil {
		hi = fmt.Sprintf("len(%s)%+d", b.hiLen.Name(), b.hiK)
	}
	return "[" + lo + ", " + hi + "]"
}

type boundsEngine struct {
	w    *World
	memo map[ssa.Value]bnd
	busy map[ssa.Value]bool
	// the block of the index/slice expression being judged: NaN-ness is a
	// property of a value, so any ordered comparison that is true on the way
	// to the use proves its operands non-NaN for every fact about them
	useBlock     *ssa.BasicBlock
	nanBusy      map[ssa.Value]bool
	assumeNotNaN map[ssa.Value]int
}

// lenOperand: v == len(x) (builtin) => x (strings/slices: resolved so that two
// loads of the same immutable local compare equal).
func lenOperand(v ssa.Value) ssa.Value {
	c, ok := v.(*ssa.Call)
	if !ok {
		return nil
	}
	b, ok := c.Call.Value.(*ssa.Builtin)
	if !ok || b.Name() != "len" || len(c.Call.Args) != 1 {
		return nil
	}
	return canonLen(c.Call.Args[0])
}

// canonLen canonicalises the operand of len: loads of a variable that is
// assigned once (or whose assignments all happen before) are identified by
// the variable.
func canonLen(v ssa.Value) ssa.Value {
	v = strip(v)
	if ld, ok := v.(*ssa.UnOp); ok && ld.Op == token.MUL {
		if a := cellOf(ld.X); a != nil {
			return a
		}
	}
	return v
}

func sameLen(a, b ssa.Value) bool {
	return a != nil && b != nil && canonLen(a) == canonLen(b)
}

func (e *boundsEngine) eval(v ssa.Value, at *ssa.BasicBlock, depth int) bnd {
	if depth > 24 {
		return top()
	}
	if e.busy[v] {
		return top()
	}
	e.busy[v] = true
	defer delete(e.busy, v)
	r := e.eval1(v, at, depth)
	// a byte (or uint16) is within its type's range whatever it was computed from
	if bt, ok := v.Type().Underlying().(*types.Basic); ok && r.loLen == nil && r.hiLen == nil {
		var max int64 = -1
		switch bt.Kind() {
		case types.Uint8:
			max = 255
		case types.Uint16:
			max = 65535
		}
		if max >= 0 {
			if r.lo < 0 {
				r.lo = 0
			}
			if r.hiK > max {
				r.hiK = max
			}
		}
	}
	// refine by dominating comparisons
	r = e.refine(v, r, at)
	return r
}

func (e *boundsEngine) eval1(v ssa.Value, at *ssa.BasicBlock, depth int) bnd {
	if isRangeIndex(v) {
		return bnd{lo: 0, hiK: inf}
	}
	switch x := v.(type) {
	case *ssa.Const:
		if x.Value == nil {
			return top()
		}
		switch x.Value.Kind() {
		case constant.Int:
			if k, ok := constant.Int64Val(x.Value); ok {
				return constB(k)
			}
		case constant.Float:
			f, _ := constant.Float64Val(x.Value)
			if f == math.Trunc(f) && math.Abs(f) < 1e15 {
				return constB(int64(f))
			}
		}
		return top()
	case *ssa.Call:
		if l := lenOperand(x); l != nil {
			return bnd{lo: 0, loLen: l, hiLen: l, hiK: 0}
		}
		if f := x.Call.StaticCallee(); f != nil && f.Pkg != nil {
			switch f.String() {
			case "math.Round", "math.Floor", "math.Ceil", "math.Trunc":
				// integral value within the argument's integer hull
				return e.eval(x.Call.Args[0], at, depth+1)
			case "math.Abs":
				a := e.eval(x.Call.Args[0], at, depth+1)
				if a.lo >= 0 && a.loLen == nil {
					return a
				}
				return bnd{lo: 0, hiK: inf}
			case "strings.Index":
				// -1 <= i <= len(s)-len(sub) <= len(s)
				return bnd{lo: -1, hiLen: canonLen(x.Call.Args[0]), hiK: 0}
			}
		}
		return top()
	case *ssa.Parameter:
		// a helper's parameter that, at every call site, is strings.Index of two
		// other arguments of the same call: -1 (or 0, when every site has
		// established that) <= i <= len(s)
		if ps, _, nonneg, ok := e.indexSummary(x); ok {
			lo := int64(-1)
			if nonneg {
				lo = 0
			}
			return bnd{lo: lo, hiLen: canonLen(ps), hiK: 0}
		}
		return top()
	case *ssa.Convert:
		return e.eval(x.X, at, depth+1)
	case *ssa.ChangeType:
		return e.eval(x.X, at, depth+1)
	case *ssa.BinOp:
		if x.Op == token.ADD {
			// the same through a helper's parameters: i + len(w) <= len(s)
			for _, pr := range [][2]ssa.Value{{x.X, x.Y}, {x.Y, x.X}} {
				if p, ok := stripConv(pr[0]).(*ssa.Parameter); ok {
					if ps, pw, nonneg, ok := e.indexSummary(p); ok && nonneg {
						if l := lenOperand(stripConv(pr[1])); l != nil && sameLen(l, pw) {
							return bnd{lo: 0, loLen: l, hiLen: canonLen(ps), hiK: 0}
						}
					}
				}
			}
			// strings.Index(s, w) + len(w) <= len(s) when the index is >= 0
			for _, pr := range [][2]ssa.Value{{x.X, x.Y}, {x.Y, x.X}} {
				if c, ok := stripConv(pr[0]).(*ssa.Call); ok && c.Call.StaticCallee() != nil && c.Call.StaticCallee().String() == "strings.Index" {
					if l := lenOperand(stripConv(pr[1])); l != nil && sameLen(l, c.Call.Args[1]) {
						ib := e.eval(pr[0], at, depth+1)
						if ib.lo >= 0 {
							return bnd{lo: 0, loLen: l, hiLen: canonLen(c.Call.Args[0]), hiK: 0}
						}
					}
				}
			}
		}
		if x.Op == token.QUO && isIntType(x.Type()) {
			// a / c, c >= 1 (truncating): the quotient lies between min(a,0) and max(a,0)
			if c, ok := constInt(x.Y); ok && c >= 1 {
				a := e.eval(x.X, at, depth+1)
				r := bnd{lo: -inf, hiK: inf}
				if a.loLen == nil && a.lo > -inf {
					if a.lo >= 0 || a.lo > -c {
						r.lo = 0
					} else {
						r.lo = a.lo / c
					}
				} else if a.loLen != nil && a.lo > -c {
					r.lo = 0 // len(s)+k with k > -c: at least -c+1, truncates to >= 0
				}
				if a.hiK < inf {
					if a.hiLen == nil {
						if a.hiK >= 0 {
							r.hiK = a.hiK / c
						} else {
							r.hiK = 0
						}
					} else {
						// <= max(len+k, 0) <= len + max(k,0)
						r.hiLen = a.hiLen
						if a.hiK > 0 {
							r.hiK = a.hiK
						} else {
							r.hiK = 0
						}
					}
				}
				return r
			}
		}
		a, b := e.eval(x.X, at, depth+1), e.eval(x.Y, at, depth+1)
		switch x.Op {
		case token.ADD:
			return addB(a, b)
		case token.SUB:
			r := addB(a, negB(b))
			// (len(L)+k1) - v with v <= len(L)+k2  is  >= k1-k2 (the lengths cancel)
			if a.loLen != nil && b.hiLen != nil && b.hiK < inf && sameLen(a.loLen, b.hiLen) {
				if c := a.lo - b.hiK; r.loLen == nil && c > r.lo {
					r.lo = c
				}
			}
			for _, x := range b.extra {
				if a.loLen != nil && sameLen(a.loLen, x.L) {
					if c := a.lo - x.k; r.loLen == nil && c > r.lo {
						r.lo = c
					}
				}
			}
			return r
		}
		return top()
	case *ssa.Phi:
		// a loop counter held in a register: i = phi(init, i+k): monotone from init
		if isIntType(x.Type()) {
			var inits []int
			up, down, other := 0, 0, 0
			for i, ed := range x.Edges {
				if bo, ok := ed.(*ssa.BinOp); ok && bo.X == ssa.Value(x) && (bo.Op == token.ADD || bo.Op == token.SUB) {
					if k, ok := constInt(bo.Y); ok && k >= 0 {
						if bo.Op == token.ADD {
							up++
						} else {
							down++
						}
						continue
					}
					other++
					continue
				}
				if ed == ssa.Value(x) {
					continue
				}
				inits = append(inits, i)
			}
			if other == 0 && (up > 0) != (down > 0) && len(inits) > 0 {
				var r bnd
				for n, i := range inits {
					b := e.evalOnEdge(x.Edges[i], x.Block().Preds[i], x.Block(), depth+1)
					if n == 0 {
						r = b
					} else {
						r = joinB(r, b)
					}
				}
				if up > 0 {
					r.hiK, r.hiLen = inf, nil
				} else {
					r.lo, r.loLen = -inf, nil
				}
				return r
			}
		}
		var r bnd
		first := true
		// if the merged value is proven non-NaN at the use, then on whichever
		// edge was taken the incoming value was non-NaN
		phiOK := isFloat64(x.Type()) && e.notNaN(x, e.useBlock, 0)
		for i, ed := range x.Edges {
			pred := x.Block().Preds[i]
			if phiOK {
				if e.assumeNotNaN == nil {
					e.assumeNotNaN = map[ssa.Value]int{}
				}
				e.assumeNotNaN[stripConv(ed)]++
			}
			b := e.evalOnEdge(ed, pred, x.Block(), depth+1)
			if phiOK {
				e.assumeNotNaN[stripConv(ed)]--
			}
			if first {
				r, first = b, false
			} else {
				r = joinB(r, b)
			}
		}
		return r
	case *ssa.UnOp:
		if x.Op == token.MUL {
			if a := cellOf(x.X); a != nil && !cellEscapes(a) {
				// a store in the same function that dominates the load with no store in between
				if st := nearestStore(a, x); st != nil {
					return e.eval(st.Val, st.Block(), depth+1)
				}
				return e.cellRange(a, x, at, depth)
			}
		}
		if x.Op == token.SUB {
			return negB(e.eval(x.X, at, depth+1))
		}
		return top()
	case *ssa.Extract:
		// range index: 0 <= i < len
		if nx, ok := x.Tuple.(*ssa.Next); ok && x.Index == 1 {
			if rg, ok := nx.Iter.(*ssa.Range); ok {
				return bnd{lo: 0, hiLen: canonLen(rg.X), hiK: -1}
			}
		}
		return top()
	}
	return top()
}

func (e *boundsEngine) evalOnEdge(v ssa.Value, pred, blk *ssa.BasicBlock, depth int) bnd {
	r := e.eval(v, pred, depth)
	// the edge's own condition
	if ifi := blockIf(pred); ifi != nil && pred.Succs[0] != pred.Succs[1] {
		if bo, ok := ifi.Cond.(*ssa.BinOp); ok {
			r = e.applyCmp(v, r, bo, pred.Succs[0] == blk, pred, depth)
		}
	}
	return r
}

// cellRange: a local variable cell: join of the stored values; a counter
// whose every store is cell+-1 is monotone from its other stores.
func (e *boundsEngine) cellRange(a *ssa.Alloc, ld *ssa.UnOp, at *ssa.BasicBlock, depth int) bnd {
	sts := cellStores(a)
	if len(sts) == 0 {
		return constB(0)
	}
	var base []bnd
	incs, decs := 0, 0
	for _, st := range sts {
		if bo, ok := st.Val.(*ssa.BinOp); ok {
			if l, ok := bo.X.(*ssa.UnOp); ok && l.Op == token.MUL && cellOf(l.X) == a {
				if k, ok := constInt(bo.Y); ok && k == 1 {
					if bo.Op == token.ADD {
						incs++
						continue
					}
					if bo.Op == token.SUB {
						decs++
						continue
					}
				}
			}
		}
		base = append(base, e.eval(st.Val, st.Block(), depth+1))
	}
	if len(base) == 0 {
		base = append(base, constB(0)) // zero-initialised, only ever incremented/decremented
	}
	r := base[0]
	for _, b := range base[1:] {
		r = joinB(r, b)
	}
	if incs > 0 {
		r.hiK, r.hiLen = inf, nil // grows
	}
	if decs > 0 {
		r.lo, r.loLen = -inf, nil // shrinks
	}
	return r
}

func addB(a, b bnd) bnd {
	r := bnd{}
	// lower
	switch {
	case a.lo <= -inf || b.lo <= -inf:
		r.lo = -inf
	case a.loLen != nil && b.loLen != nil:
		r.lo = -inf
		if a.lo+b.lo >= 0 {
			r.lo = 0 // len+len >= 0
		}
	case a.loLen != nil:
		r.lo, r.loLen = a.lo+b.lo, a.loLen
	case b.loLen != nil:
		r.lo, r.loLen = a.lo+b.lo, b.loLen
	default:
		r.lo = a.lo + b.lo
	}
	// upper
	switch {
	case a.hiK >= inf || b.hiK >= inf:
		r.hiK = inf
	case a.hiLen != nil && b.hiLen != nil:
		r.hiK = inf
	case a.hiLen != nil:
		r.hiK, r.hiLen = a.hiK+b.hiK, a.hiLen
	case b.hiLen != nil:
		r.hiK, r.hiLen = a.hiK+b.hiK, b.hiLen
	default:
		r.hiK = a.hiK + b.hiK
	}
	return r
}

func negB(a bnd) bnd {
	r := bnd{lo: -inf, hiK: inf}
	if a.hiLen == nil && a.hiK < inf {
		r.lo = -a.hiK
	}
	if a.loLen == nil && a.lo > -inf {
		r.hiK = -a.lo
	}
	// -(len+k): upper bound -k (len>=0)
	if a.loLen != nil {
		r.hiK = -a.lo
	}
	return r
}

func joinB(a, b bnd) bnd {
	r := bnd{}
	// lower: min
	switch {
	case a.loLen == nil && b.loLen == nil:
		r.lo = min64(a.lo, b.lo)
	case sameLen(a.loLen, b.loLen):
		r.lo, r.loLen = min64(a.lo, b.lo), a.loLen
	default:
		// len+k >= k
		la, lb := a.lo, b.lo
		r.lo = min64(la, lb)
	}
	switch {
	case a.hiLen == nil && b.hiLen == nil:
		r.hiK = max64(a.hiK, b.hiK)
	case sameLen(a.hiLen, b.hiLen):
		r.hiK, r.hiLen = max64(a.hiK, b.hiK), a.hiLen
	case a.hiLen != nil && b.hiLen == nil && b.hiK <= a.hiK && a.hiK >= 0:
		// const c <= k <= len+k
		r.hiK, r.hiLen = a.hiK, a.hiLen
	case b.hiLen != nil && a.hiLen == nil && a.hiK <= b.hiK && b.hiK >= 0:
		r.hiK, r.hiLen = b.hiK, b.hiLen
	default:
		r.hiK = inf
	}
	return r
}

func min64(a, b int64) int64 {
	if a < b {
		return a
	}
	return b
}
func max64(a, b int64) int64 {
	if a > b {
		return a
	}
	return b
}

// refine v's bound using comparisons that dominate block at.
func (e *boundsEngine) refine(v ssa.Value, r bnd, at *ssa.BasicBlock) bnd {
	if at == nil {
		return r
	}
	fn := at.Parent()
	for _, b := range fn.Blocks {
		ifi := blockIf(b)
		if ifi == nil || b.Succs[0] == b.Succs[1] {
			continue
		}
		bo, ok := ifi.Cond.(*ssa.BinOp)
		if !ok {
			continue
		}
		for si, succ := range b.Succs {
			if !(len(succ.Preds) == 1 && (succ == at || succ.Dominates(at))) {
				// `if cond { return }` shape: the other edge never reaches at
				other := b.Succs[1-si]
				if !(b.Dominates(at) && b != at && !reachableFrom(other, nil)[at] && (succ == at || reachableFrom(succ, nil)[at])) {
					continue
				}
			}
			r = e.applyCmp(v, r, bo, si == 0, b, 0)
		}
	}
	return r
}

// nearestStore: the store to cell a, in the function of ld, that every path to
// ld passes last (same block earlier, or a dominating block with no other
// store on the way).
func nearestStore(a *ssa.Alloc, ld *ssa.UnOp) *ssa.Store {
	fn := ld.Parent()
	var cands []*ssa.Store
	for _, b := range fn.Blocks {
		for _, in := range b.Instrs {
			if st, ok := in.(*ssa.Store); ok && cellOf(st.Addr) == a {
				cands = append(cands, st)
			}
		}
	}
	var best *ssa.Store
	for _, st := range cands {
		if !instrDominates(st, ld) {
			continue
		}
		if storesBetween(st, ld, func(in ssa.Instruction) bool {
			s2, ok := in.(*ssa.Store)
			return ok && s2 != st && cellOf(s2.Addr) == a
		}) {
			continue
		}
		best = st
	}
	// inside a loop another store of the function may also reach ld along a back edge
	if best != nil {
		for _, st := range cands {
			if st == best {
				continue
			}
			// st reaches ld without passing best?
			if reachesAvoiding(st, ld, best) {
				return nil
			}
		}
	}
	return best
}

// reachesAvoiding: can execution go from `from` to `to` without executing `avoid`?
func reachesAvoiding(from, to, avoid ssa.Instruction) bool {
	type pt struct {
		b *ssa.BasicBlock
		i int
	}
	seen := map[*ssa.BasicBlock]bool{}
	var dfs func(b *ssa.BasicBlock, i int) bool
	dfs = func(b *ssa.BasicBlock, i int) bool {
		for _, in := range b.Instrs[i:] {
			if in == avoid {
				return false
			}
			if in == to {
				return true
			}
		}
		for _, s := range b.Succs {
			if !seen[s] {
				seen[s] = true
				if dfs(s, 0) {
					return true
				}
			}
		}
		return false
	}
	return dfs(from.Block(), instrIndex(from)+1)
}

// same numeric value modulo float/int conversions and repeated loads of a
// variable with identical reaching stores (approximated: same cell).
func sameNum(a, b ssa.Value) bool {
	a, b = stripConv(a), stripConv(b)
	if a == b {
		return true
	}
	// no CSE in go/ssa: structurally equal arithmetic
	if ba, ok := a.(*ssa.BinOp); ok {
		if bb, ok := b.(*ssa.BinOp); ok && ba.Op == bb.Op && (ba.Op == token.ADD || ba.Op == token.SUB) {
			return sameNum(ba.X, bb.X) && sameNum(ba.Y, bb.Y)
		}
	}
	if ca, ok := a.(*ssa.Const); ok {
		if cb, ok := b.(*ssa.Const); ok && ca.Value != nil && cb.Value != nil {
			return constant.Compare(ca.Value, token.EQL, cb.Value)
		}
	}
	la, ok1 := a.(*ssa.UnOp)
	lb, ok2 := b.(*ssa.UnOp)
	if ok1 && ok2 && la.Op == token.MUL && lb.Op == token.MUL {
		ca, cb := cellOf(la.X), cellOf(lb.X)
		if ca != nil && ca == cb {
			// no store to the cell between the two loads in straight-line dominance
			if la.Block() == lb.Block() || la.Block().Dominates(lb.Block()) || lb.Block().Dominates(la.Block()) {
				first, second := ssa.Instruction(la), ssa.Instruction(lb)
				if !instrDominates(first, second) {
					first, second = second, first
				}
				return !storesBetween(first, second, func(in ssa.Instruction) bool {
					st, ok := in.(*ssa.Store)
					return ok && cellOf(st.Addr) == ca
				})
			}
		}
	}
	return false
}

func stripConv(v ssa.Value) ssa.Value {
	for {
		switch x := v.(type) {
		case *ssa.Convert:
			v = x.X
		case *ssa.ChangeType:
			v = x.X
		default:
			return v
		}
	}
}

// applyCmp: the comparison bo has outcome `truth`; tighten r if it constrains v.
func (e *boundsEngine) applyCmp(v ssa.Value, r bnd, bo *ssa.BinOp, truth bool, at *ssa.BasicBlock, depth int) bnd {
	op := bo.Op
	x, y := bo.X, bo.Y
	if !truth {
		// `!(x < y)` is `x >= y` only when neither side is NaN
		if isFloat64(bo.X.Type()) && !(e.notNaN(bo.X, e.useBlock, 0) && e.notNaN(bo.Y, e.useBlock, 0)) {
			return r
		}
		op = negateOp(op)
	}
	var other, self ssa.Value
	switch {
	case sameNum(x, v):
		other, self = y, x
	case sameNum(y, v):
		other, self = x, y
		op = flipOp(op)
	default:
		return r
	}
	if depth > 6 {
		return r
	}
	ob := e.evalNoRefine(other, depth+1)
	// strictness gains one only between integer-valued operands; judged on
	// the operand that was compared, not on a float->int conversion of it
	// (0 < f does not make int(f) >= 1)
	integ := e.integral(self, 0) && e.integral(other, 0)
	switch op {
	case token.NEQ:
		if integ && ob.loLen == nil && ob.hiLen == nil && ob.lo == ob.hiK {
			if r.loLen == nil && r.lo == ob.lo {
				r.lo++
			}
			if r.hiLen == nil && r.hiK == ob.lo {
				r.hiK--
			}
		}
	case token.LSS, token.LEQ:
		k := int64(0)
		if op == token.LSS && integ {
			k = -1
		}
		// v <= other.hi + k
		if ob.hiK < inf {
			cand := bnd{hiK: ob.hiK + k, hiLen: ob.hiLen}
			r = tightenHi(r, cand)
		}
	case token.GTR, token.GEQ:
		k := int64(0)
		if op == token.GTR && integ {
			k = 1
		}
		if ob.lo > -inf {
			cand := bnd{lo: ob.lo + k, loLen: ob.loLen}
			r = tightenLo(r, cand)
		}
	case token.EQL:
		if ob.hiK < inf {
			r = tightenHi(r, bnd{hiK: ob.hiK, hiLen: ob.hiLen})
		}
		if ob.lo > -inf {
			r = tightenLo(r, bnd{lo: ob.lo, loLen: ob.loLen})
		}
	}
	return r
}

func (e *boundsEngine) evalNoRefine(v ssa.Value, depth int) bnd {
	if e.busy[v] {
		return top()
	}
	e.busy[v] = true
	defer delete(e.busy, v)
	return e.eval1(v, nil, depth)
}

// integral: v is an integer-valued number (ints; floats produced by
// math.Round/Floor/Ceil/Trunc, integral constants, sums/differences of those,
// conversions of ints, len).
func (e *boundsEngine) integral(v ssa.Value, depth int) bool {
	if depth > 12 {
		return false
	}
	if isIntType(v.Type()) {
		return true
	}
	switch x := v.(type) {
	case *ssa.Const:
		if x.Value != nil && x.Value.Kind() == constant.Float {
			f, _ := constant.Float64Val(x.Value)
			return f == math.Trunc(f)
		}
		return x.Value != nil && x.Value.Kind() == constant.Int
	case *ssa.Convert:
		return e.integral(x.X, depth+1)
	case *ssa.Call:
		if f := x.Call.StaticCallee(); f != nil {
			switch f.String() {
			case "math.Round", "math.Floor", "math.Ceil", "math.Trunc":
				return true
			case "math.Abs":
				return e.integral(x.Call.Args[0], depth+1)
			}
			// a package function all of whose normal returns are integer-valued
			if len(f.Blocks) > 0 && f.Signature.Results().Len() == 1 && depth < 6 {
				n := 0
				for _, b := range f.Blocks {
					ret, ok := normalReturn(b)
					if !ok {
						continue
					}
					n++
					if !e.integral(retVal(ret, 0), depth+3) {
						return false
					}
				}
				return n > 0
			}
		}
	case *ssa.BinOp:
		if x.Op == token.ADD || x.Op == token.SUB {
			return e.integral(x.X, depth+1) && e.integral(x.Y, depth+1)
		}
	case *ssa.Phi:
		for _, ed := range x.Edges {
			if !e.integral(ed, depth+1) {
				return false
			}
		}
		return true
	case *ssa.UnOp:
		if x.Op == token.MUL {
			if a := cellOf(x.X); a != nil {
				if st := nearestStore(a, x); st != nil {
					return e.integral(st.Val, depth+1)
				}
			}
		}
	}
	return false
}

func flipOp(op token.Token) token.Token {
	switch op {
	case token.LSS:
		return token.GTR
	case token.GTR:
		return token.LSS
	case token.LEQ:
		return token.GEQ
	case token.GEQ:
		return token.LEQ
	}
	return op
}

func tightenHi(r, c bnd) bnd {
	switch {
	case r.hiLen == nil && c.hiLen == nil:
		if c.hiK < r.hiK {
			r.hiK = c.hiK
		}
	case r.hiLen == nil && c.hiLen != nil:
		if r.hiK >= inf {
			r.hiK, r.hiLen = c.hiK, c.hiLen
		}
		// a constant bound is kept (both hold; we keep one)
	case r.hiLen != nil && c.hiLen != nil && sameLen(r.hiLen, c.hiLen):
		if c.hiK < r.hiK {
			r.hiK = c.hiK
		}
	case r.hiLen != nil && c.hiLen == nil:
		// keep the symbolic one unless it is infinite
	case r.hiLen != nil && c.hiLen != nil && !sameLen(r.hiLen, c.hiLen):
		r.extra = append(append([]ub{}, r.extra...), ub{c.hiLen, c.hiK})
	}
	return r
}

func tightenLo(r, c bnd) bnd {
	switch {
	case r.loLen == nil && c.loLen == nil:
		if c.lo > r.lo {
			r.lo = c.lo
		}
	case r.loLen == nil && c.loLen != nil:
		// len+k >= k
		if c.lo > r.lo {
			r.lo = c.lo
		}
	case r.loLen != nil && c.loLen != nil && sameLen(r.loLen, c.loLen):
		if c.lo > r.lo {
			r.lo = c.lo
		}
	}
	return r
}

// inRange: 0 <= b and b <= len(L)+slack
func (b bnd) geZero() bool { return b.lo >= 0 }
func (b bnd) leLen(L ssa.Value, slack int64) bool {
	if b.hiLen != nil && sameLen(b.hiLen, L) && b.hiK <= slack {
		return true
	}
	for _, u := range b.extra {
		if sameLen(u.L, L) && u.k <= slack {
			return true
		}
	}
	return false
}

func ruleXBounds(w *World, r *Report) {
	r.rule("X-BOUNDS", "every index and slice expression of run-time code is in range: constant indices of fixed arrays, range indices, and for the remaining sites a two-bound abstract interpretation (lower bound constant, upper bound constant or len(x)+k; +,- with constants, len, math.Round/Floor/Abs, int/float conversion, strings.Index, phi joins, refinement by dominating comparisons, monotone closure counters under their guards) proves 0 <= lo <= hi <= len; floats are assumed finite (the property's 'finite arguments')")
	e := &boundsEngine{w: w, memo: map[ssa.Value]bnd{}, busy: map[ssa.Value]bool{}}
	n := 0
	for _, s := range w.riskSites() {
		if s.class != "index" && s.class != "slice" {
			continue
		}
		key := fmt.Sprintf("%s:%s", fnName(s.fn), s.class)
		pos := w.instrPos(s.in)
		switch x := s.in.(type) {
		case *ssa.IndexAddr:
			ok, why := e.indexOK(x.X, x.Index, x.Block())
			n++
			if ok {
				r.ok("X-BOUNDS", key, pos, why)
			} else {
				r.bad("X-BOUNDS", key, pos, "index not proven in range: "+why)
			}
		case *ssa.Index:
			ok, why := e.indexOK(x.X, x.Index, x.Block())
			n++
			if ok {
				r.ok("X-BOUNDS", key, pos, why)
			} else {
				r.bad("X-BOUNDS", key, pos, "index not proven in range: "+why)
			}
		case *ssa.Slice:
			ok, why := e.sliceOK(x)
			n++
			if ok {
				r.ok("X-BOUNDS", key, pos, why)
			} else {
				r.bad("X-BOUNDS", key, pos, "slice bounds not proven: "+why)
			}
		}
	}
	if n == 0 {
		r.bad("X-BOUNDS", "sites", "", "no index/slice sites found")
	}
}

func arrayLen(t types.Type) (int64, bool) {
	if p, ok := t.Underlying().(*types.Pointer); ok {
		t = p.Elem()
	}
	if a, ok := t.Underlying().(*types.Array); ok {
		return a.Len(), true
	}
	return 0, false
}

func (e *boundsEngine) indexOK(base, idx ssa.Value, at *ssa.BasicBlock) (bool, string) {
	e.useBlock = at
	if n, ok := arrayLen(base.Type()); ok {
		if k, ok := constInt(idx); ok && k >= 0 && k < n {
			return true, "constant index of a fixed-size array"
		}
	}
	// range loop index
	if isRangeIndex(idx) {
		return true, "range index"
	}
	b := e.eval(idx, at, 0)
	if n, ok := arrayLen(base.Type()); ok && b.geZero() && b.hiLen == nil && b.hiK < n {
		return true, fmt.Sprintf("index in %s of a fixed array of %d", b, n)
	}
	L := canonLen(base)
	if b.geZero() && b.leLen(L, -1) {
		return true, "0 <= index <= len-1: " + b.String()
	}
	// s[0] under `s != ""`
	if k, ok := constInt(idx); ok && k == 0 && isStringType(base.Type()) && stringNonEmptyAt(base, at) {
		return true, "first byte of a string tested non-empty"
	}
	// table indexed by a function with a finite range
	if c, ok := idx.(*ssa.Call); ok && c.Call.StaticCallee() != nil {
		if okT, why := e.w.indexFnInTable(c.Call.StaticCallee(), base); okT {
			return true, why
		}
	}
	// a counter and a list kept in two fields of one helper object
	if ok, why := e.fieldCursorIndexOK(base, idx, at); ok {
		return true, why
	}
	return false, fmt.Sprintf("index in %s, need [0, len(%s)-1]", b, L.Name())
}

func isRangeIndex(v ssa.Value) bool {
	phi, ok := v.(*ssa.Phi)
	if !ok {
		// go/ssa rangeindex: t = phi; t+1
		if bo, ok := v.(*ssa.BinOp); ok && bo.Op == token.ADD {
			if p, ok := bo.X.(*ssa.Phi); ok && strings.HasPrefix(p.Block().Comment, "rangeindex") {
				return true
			}
		}
		return false
	}
	return strings.HasPrefix(phi.Block().Comment, "rangeindex")
}

// indexFnInTable: idx = f(x) where every return of f is one of the row/column
// indices of the comparison table, and base is (a row of) that table.
func (w *World) indexFnInTable(f *ssa.Function, base ssa.Value) (bool, string) {
	fn, idx, nvals := w.typeIndexer()
	if fn != f {
		return false, ""
	}
	tab := w.comparisonTable()
	if tab == nil {
		return false, ""
	}
	max := int64(-1)
	for _, v := range idx {
		if v > max {
			max = v
		}
	}
	_ = nvals
	side := int64(len(tab.Cells))
	for _, row := range tab.Cells {
		if int64(len(row)) != side {
			return false, "table not square"
		}
	}
	// every return of f is a field of the result-type struct
	for _, b := range f.Blocks {
		if ret, ok := normalReturn(b); ok {
			// or an entry of a read-only package table of codes
			if mx, ok := w.roTableMaxInt(ret.Results[0]); ok {
				if mx > max {
					max = mx
				}
				continue
			}
			ld, ok := ret.Results[0].(*ssa.UnOp)
			if !ok {
				return false, "index function returns a computed value"
			}
			if _, ok := ld.X.(*ssa.FieldAddr); !ok {
				return false, "index function returns a computed value"
			}
		}
	}
	if max >= 0 && max < side {
		return true, fmt.Sprintf("index is one of the %d operand-type codes (max %d) of a %dx%d table", len(idx), max, side, side)
	}
	return false, fmt.Sprintf("operand-type code %d exceeds the table side %d", max, side)
}

func (e *boundsEngine) sliceOK(s *ssa.Slice) (bool, string) {
	if _, ok := arrayLen(s.X.Type()); ok && s.Low == nil && s.High == nil {
		return true, "whole fixed-size array"
	}
	// a fixed-size array sliced with constant bounds (make([]T, n, c) compiles
	// to new [c]T sliced to [:n])
	if n, ok := arrayLen(s.X.Type()); ok {
		lo, hi := int64(0), n
		okc := true
		if s.Low != nil {
			if k, ok := constInt(s.Low); ok {
				lo = k
			} else {
				okc = false
			}
		}
		if s.High != nil {
			if k, ok := constInt(s.High); ok {
				hi = k
			} else {
				okc = false
			}
		}
		if okc && 0 <= lo && lo <= hi && hi <= n {
			return true, fmt.Sprintf("constant bounds %d:%d of a fixed-size array of %d", lo, hi, n)
		}
	}
	L := canonLen(s.X)
	at := s.Block()
	e.useBlock = at
	lo := constB(0)
	if s.Low != nil {
		lo = e.eval(s.Low, at, 0)
	}
	var hi bnd
	if s.High != nil {
		hi = e.eval(s.High, at, 0)
	} else {
		hi = bnd{lo: 0, loLen: L, hiLen: L}
	}
	var probs []string
	if !lo.geZero() {
		probs = append(probs, "low bound may be negative: "+lo.String())
	}
	if s.High != nil && !hi.leLen(L, 0) {
		probs = append(probs, "high bound may exceed the length: "+hi.String())
	}
	if s.High != nil && !hi.geZero() {
		probs = append(probs, "high bound may be negative: "+hi.String())
	}
	if s.High == nil && !lo.leLen(L, 0) {
		probs = append(probs, "low bound may exceed the length: "+lo.String())
	}
	// lo <= hi
	if s.Low != nil && s.High != nil {
		if !e.leq(s.Low, s.High, lo, hi, at) {
			probs = append(probs, fmt.Sprintf("low %s may exceed high %s", lo, hi))
		}
	}
	if len(probs) == 0 {
		return true, fmt.Sprintf("0 <= %s <= %s <= len", lo, hi)
	}
	return false, strings.Join(probs, "; ")
}

// leq: low <= high
func (e *boundsEngine) leq(lowV, highV ssa.Value, lo, hi bnd, at *ssa.BasicBlock) bool {
	if lo.hiLen == nil && hi.loLen == nil && lo.hiK < inf && hi.lo > -inf && lo.hiK <= hi.lo {
		return true
	}
	// high = low + k with k >= 0, possibly through conversions: high - low
	if d, ok := e.difference(highV, lowV, at); ok && d >= 0 {
		return true
	}
	// low == i, high == i + len(x) or high bounded below by low's upper bound symbolically
	if lo.hiLen != nil && hi.loLen != nil && sameLen(lo.hiLen, hi.loLen) && lo.hiK <= hi.lo {
		return true
	}
	return false
}

// difference: hi - lo as a constant lower bound, when hi = lo + e with e >= c.
func (e *boundsEngine) difference(hi, lo ssa.Value, at *ssa.BasicBlock) (int64, bool) {
	hi, lo = stripConv(hi), stripConv(lo)
	// hi = X + Y - 1, lo = Y - 1 (floats): compare syntactically
	terms := func(v ssa.Value) (map[ssa.Value]int64, int64) {
		m := map[ssa.Value]int64{}
		var k int64
		var walk func(v ssa.Value, sign int64, d int)
		walk = func(v ssa.Value, sign int64, d int) {
			v = stripConv(v)
			if d > 8 {
				m[v] += sign
				return
			}
			if c, ok := v.(*ssa.Const); ok && c.Value != nil {
				if c.Value.Kind() == constant.Int {
					kk, _ := constant.Int64Val(c.Value)
					k += sign * kk
					return
				}
				if c.Value.Kind() == constant.Float {
					f, _ := constant.Float64Val(c.Value)
					if f == math.Trunc(f) {
						k += sign * int64(f)
						return
					}
				}
			}
			if bo, ok := v.(*ssa.BinOp); ok && (bo.Op == token.ADD || bo.Op == token.SUB) {
				walk(bo.X, sign, d+1)
				if bo.Op == token.ADD {
					walk(bo.Y, sign, d+1)
				} else {
					walk(bo.Y, -sign, d+1)
				}
				return
			}
			if ld, ok := v.(*ssa.UnOp); ok && ld.Op == token.MUL {
				if a := cellOf(ld.X); a != nil {
					m[a] += sign
					return
				}
			}
			m[v] += sign
		}
		walk(v, 1, 0)
		return m, k
	}
	mh, kh := terms(hi)
	ml, kl := terms(lo)
	for t, c := range ml {
		mh[t] -= c
	}
	d := kh - kl
	// remainder of the shape A - B with a dominating comparison B < A / B <= A
	var pos, neg []ssa.Value
	for t, c := range mh {
		if c == 1 {
			pos = append(pos, t)
		} else if c == -1 {
			neg = append(neg, t)
		} else if c != 0 {
			pos, neg = nil, nil
			break
		}
	}
	if len(pos) == 1 && len(neg) == 1 {
		if g, ok := e.orderedBy(neg[0], pos[0], at); ok {
			return d + g, true
		}
	}
	for t, c := range mh {
		if c == 0 {
			continue
		}
		if c < 0 {
			return 0, false
		}
		// remaining positive term: need its lower bound
		var tv ssa.Value = t
		if a, ok := t.(*ssa.Alloc); ok {
			// variable: bound from its stores & dominating comparisons via a synthetic load is not available; use stores
			b := e.cellRange(a, nil, at, 1)
			b = e.refineCell(a, b, at)
			if b.lo <= -inf || b.loLen != nil && b.lo < 0 {
				return 0, false
			}
			d += c * b.lo
			continue
		}
		b := e.eval(tv, at, 1)
		if b.lo <= -inf {
			return 0, false
		}
		d += c * b.lo
	}
	return d, true
}

// refineCell: tighten a variable's range by comparisons on loads of it that dominate at.
func (e *boundsEngine) refineCell(a *ssa.Alloc, r bnd, at *ssa.BasicBlock) bnd {
	fn := at.Parent()
	for _, b := range fn.Blocks {
		for _, in := range b.Instrs {
			ld, ok := in.(*ssa.UnOp)
			if !ok || ld.Op != token.MUL || cellOf(ld.X) != a {
				continue
			}
			if b == at || b.Dominates(at) {
				// any dominating load gives access to refinements if no store intervenes until at
				last := at.Instrs[len(at.Instrs)-1]
				if !storesBetween(ld, last, func(x ssa.Instruction) bool {
					st, ok := x.(*ssa.Store)
					return ok && cellOf(st.Addr) == a
				}) {
					r2 := e.refine(ld, r, at)
					r = r2
				}
			}
		}
	}
	return r
}

// orderedBy: a dominating comparison establishes small < big (gap 1 for
// integral values) or small <= big (gap 0) at block at.
func (e *boundsEngine) orderedBy(small, big ssa.Value, at *ssa.BasicBlock) (int64, bool) {
	fn := at.Parent()
	match := func(v, t ssa.Value) bool {
		v = stripConv(v)
		if a, ok := t.(*ssa.Alloc); ok {
			if ld, ok := v.(*ssa.UnOp); ok && ld.Op == token.MUL && cellOf(ld.X) == a {
				return true
			}
			return false
		}
		return v == t
	}
	for _, b := range fn.Blocks {
		ifi := blockIf(b)
		if ifi == nil || b.Succs[0] == b.Succs[1] {
			continue
		}
		cond := ifi.Cond
		negated := false
		for {
			if u, ok := cond.(*ssa.UnOp); ok && u.Op == token.NOT {
				cond = u.X
				negated = !negated
				continue
			}
			break
		}
		bo, ok := cond.(*ssa.BinOp)
		if !ok {
			continue
		}
		for si, succ := range b.Succs {
			holds := si == 0
			if negated {
				holds = !holds
			}
			dominated := len(succ.Preds) == 1 && (succ == at || succ.Dominates(at))
			if !dominated {
				other := b.Succs[1-si]
				if !(b.Dominates(at) && b != at && !reachableFrom(other, nil)[at] && (succ == at || reachableFrom(succ, nil)[at])) {
					continue
				}
			}
			op := bo.Op
			// for floats the negation of < is >= only without NaN (assumed finite)
			if !holds {
				op = negateOp(op)
			}
			x, y := bo.X, bo.Y
			if match(x, big) && match(y, small) {
				x, y = y, x
				op = flipOp(op)
			} else if !(match(x, small) && match(y, big)) {
				continue
			}
			integ := e.integral(bo.X, 0) && e.integral(bo.Y, 0)
			switch op {
			case token.LSS:
				if integ {
					return 1, true
				}
				return 0, true
			case token.LEQ:
				return 0, true
			}
		}
	}
	return 0, false
}

// notNaN: the float value v cannot be NaN when block use executes: it is an
// integer conversion / constant / len; or the result of rounding a non-NaN;
// or a sum/difference of non-NaNs (finite inputs assumed only for len-derived
// terms); or an operand of an ordered comparison (<, <=, >, >=, ==) whose true
// edge dominates use; or tested by math.IsNaN with the false edge dominating.
func (e *boundsEngine) notNaN(v ssa.Value, use *ssa.BasicBlock, depth int) bool {
	if depth > 10 {
		return false
	}
	if e.nanBusy == nil {
		e.nanBusy = map[ssa.Value]bool{}
	}
	if e.nanBusy[v] {
		return false
	}
	e.nanBusy[v] = true
	defer delete(e.nanBusy, v)
	if !isFloat64(v.Type()) {
		return true
	}
	for k, n := range e.assumeNotNaN {
		if n > 0 && sameNum(k, v) {
			return true
		}
	}
	switch x := v.(type) {
	case *ssa.Const:
		if x.Value != nil && x.Value.Kind() == constant.Float {
			f, _ := constant.Float64Val(x.Value)
			return f == f
		}
		return true
	case *ssa.Convert:
		if isIntType(x.X.Type()) {
			return true
		}
		return e.notNaN(x.X, use, depth+1)
	case *ssa.BinOp:
		if x.Op == token.ADD || x.Op == token.SUB {
			// inf-inf is NaN; finite inputs are the property's assumption, NaN inputs are not
			if e.notNaN(x.X, use, depth+1) && e.notNaN(x.Y, use, depth+1) {
				return true
			}
		}
	case *ssa.Call:
		if f := x.Call.StaticCallee(); f != nil {
			switch f.String() {
			case "math.Round", "math.Floor", "math.Ceil", "math.Trunc", "math.Abs":
				if e.notNaN(x.Call.Args[0], use, depth+1) {
					return true
				}
			}
		}
	case *ssa.Phi:
		all := true
		for _, ed := range x.Edges {
			if !e.notNaN(ed, use, depth+1) {
				all = false
			}
		}
		if all {
			return true
		}
	case *ssa.UnOp:
		if x.Op == token.MUL {
			if a := cellOf(x.X); a != nil {
				if st := nearestStore(a, x); st != nil && e.notNaN(st.Val, use, depth+1) {
					return true
				}
			}
		}
	}
	if use == nil {
		return false
	}
	// a true ordered comparison, or a failed IsNaN test, on the way to the use
	fn := use.Parent()
	for _, b := range fn.Blocks {
		ifi := blockIf(b)
		if ifi == nil || b.Succs[0] == b.Succs[1] {
			continue
		}
		cond := ifi.Cond
		neg := false
		for {
			if u, ok := cond.(*ssa.UnOp); ok && u.Op == token.NOT {
				cond, neg = u.X, !neg
				continue
			}
			break
		}
		switch c := cond.(type) {
		case *ssa.BinOp:
			switch c.Op {
			case token.LSS, token.LEQ, token.GTR, token.GEQ, token.EQL:
			default:
				continue
			}
			if !sameNum(c.X, v) && !sameNum(c.Y, v) {
				continue
			}
			t := b.Succs[0]
			if neg {
				t = b.Succs[1]
			}
			if len(t.Preds) == 1 && (t == use || t.Dominates(use)) {
				return true
			}
		case *ssa.Call:
			if f := c.Call.StaticCallee(); f != nil && f.String() == "math.IsNaN" && sameNum(c.Call.Args[0], v) {
				// not-NaN edge
				nn := b.Succs[1]
				if neg {
					nn = b.Succs[0]
				}
				other := b.Succs[0]
				if neg {
					other = b.Succs[1]
				}
				if len(nn.Preds) == 1 && (nn == use || nn.Dominates(use)) {
					return true
				}
				if b.Dominates(use) && !reachableFrom(other, nil)[use] {
					return true
				}
			}
		case *ssa.Phi:
			// `IsNaN(x) || x > n` lowered to a phi of conditions: handled through the edges below
			for i, ed := range c.Edges {
				_ = i
				if call, ok := ed.(*ssa.Call); ok && call.Call.StaticCallee() != nil && call.Call.StaticCallee().String() == "math.IsNaN" && sameNum(call.Call.Args[0], v) {
					// the phi is true when IsNaN is true; the false edge of the whole condition implies !IsNaN
					f := b.Succs[1]
					if neg {
						f = b.Succs[0]
					}
					other := b.Succs[0]
					if neg {
						other = b.Succs[1]
					}
					if (len(f.Preds) == 1 && (f == use || f.Dominates(use))) || (b.Dominates(use) && !reachableFrom(other, nil)[use]) {
						return true
					}
				}
			}
		}
	}
	return false
}

// indexSummary: p is a parameter of a package function that is only called
// statically, and at every call site the argument for p is the result of
// strings.Index(s, w) where s and w are themselves passed to the same call as
// the arguments of two other parameters (returned as ps, pw). nonneg: at every
// site the argument is known to be >= 0 (the "not found" case was dealt with
// by the caller).
func (e *boundsEngine) indexSummary(p *ssa.Parameter) (ps, pw *ssa.Parameter, nonneg, ok bool) {
	h := p.Parent()
	if h == nil || h.Parent() != nil || !e.w.inPkg(h) {
		return nil, nil, false, false
	}
	if ob := h.Object(); ob != nil && ob.Exported() {
		return nil, nil, false, false
	}
	idx := -1
	for i, q := range h.Params {
		if q == p {
			idx = i
		}
	}
	n := e.w.CG.Nodes[h]
	if idx < 0 || n == nil || len(n.In) == 0 {
		return nil, nil, false, false
	}
	// every caller the call graph (VTA: also through function values) knows of
	nonneg = true
	for _, ed := range n.In {
		site, isCall := ed.Site.(*ssa.Call)
		if !isCall || site.Call.IsInvoke() || idx >= len(site.Call.Args) {
			return nil, nil, false, false
		}
		c, isIdx := stripConv(site.Call.Args[idx]).(*ssa.Call)
		if !isIdx || c.Call.StaticCallee() == nil || c.Call.StaticCallee().String() != "strings.Index" {
			return nil, nil, false, false
		}
		var js, jw = -1, -1
		for j, a := range site.Call.Args {
			if j == idx {
				continue
			}
			if sameLen(a, c.Call.Args[0]) && js < 0 {
				js = j
			} else if sameLen(a, c.Call.Args[1]) && jw < 0 {
				jw = j
			}
		}
		if js < 0 || jw < 0 {
			return nil, nil, false, false
		}
		if ps == nil {
			ps, pw = h.Params[js], h.Params[jw]
		} else if ps != h.Params[js] || pw != h.Params[jw] {
			return nil, nil, false, false
		}
		if b := e.eval(site.Call.Args[idx], site.Block(), 1); b.lo < 0 {
			nonneg = false
		}
	}
	return ps, pw, nonneg, ps != nil
}

// stringNonEmptyAt: blk is dominated by the edge on which the string s is not "".
func stringNonEmptyAt(s ssa.Value, blk *ssa.BasicBlock) bool {
	for _, b := range blk.Parent().Blocks {
		ifi := blockIf(b)
		if ifi == nil {
			continue
		}
		cmp, neg := decodeCond(ifi.Cond)
		if cmp == nil || cmp.Op != token.EQL && cmp.Op != token.NEQ {
			continue
		}
		var other ssa.Value
		if c, ok := constString(cmp.Y); ok && c == "" {
			other = cmp.X
		} else if c, ok := constString(cmp.X); ok && c == "" {
			other = cmp.Y
		} else {
			continue
		}
		if !sameValue(other, s) {
			continue
		}
		ne := cmp.Op == token.NEQ
		if neg {
			ne = !ne
		}
		succ := b.Succs[1]
		if ne {
			succ = b.Succs[0]
		}
		if len(succ.Preds) == 1 && (succ == blk || succ.Dominates(blk)) {
			return true
		}
	}
	return false
}

// roTableMaxInt: v is read out of a package-level map nothing writes after
// initialisation and all of whose values are non-negative integer constants;
// returns the largest of them.
func (w *World) roTableMaxInt(v ssa.Value) (int64, bool) {
	if ex, ok := v.(*ssa.Extract); ok && ex.Index == 0 {
		v = ex.Tuple
	}
	lk, ok := v.(*ssa.Lookup)
	if !ok {
		return 0, false
	}
	ld, ok := lk.X.(*ssa.UnOp)
	if !ok || ld.Op != token.MUL {
		return 0, false
	}
	g, ok := ld.X.(*ssa.Global)
	if !ok || !w.readOnlyGlobal(g) {
		return 0, false
	}
	st := w.initState()
	gobj, ok := st.globals[g]
	if !ok {
		return 0, false
	}
	mv := st.obj(gobj).Fields[0]
	if mv.Kind != avPtr {
		return 0, false
	}
	mo := st.obj(mv.Obj)
	if !mo.IsMap || mo.Opaque || len(mo.Map) == 0 {
		return 0, false
	}
	max := int64(0) // the zero value of a missing key
	for _, e := range mo.Map {
		k, ok := e.Int()
		if !ok || k < 0 {
			return 0, false
		}
		if k > max {
			max = k
		}
	}
	return max, true
}
