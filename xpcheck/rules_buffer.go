package main

// N-BUFFER (C11, C03, C12): a navigator that is kept in a list is a copy.
//
// A query's Select hands out its own cursor and goes on moving it at the next
// call; a consumer that buffers results (union, the per-parent merge, last(),
// reverse()) therefore has to buffer copies. Every navigator appended to a
// slice of navigators, stored into an element of one, or put into a map, in
// run-time code, must be owned in the sense of N-OWN: a Copy() result (through
// locals, phis, owned fields, helper results all of whose returns are owned).
// How the producer's Properties() describe it does not matter: no property of
// the query interface promises a fresh navigator per result.

import (
	"fmt"
	"go/types"

	"golang.org/x/tools/go/ssa"
)

func ruleNBuffer(w *World, r *Report) {
	r.rule("N-BUFFER", "every navigator that run-time code appends to a slice of navigators, stores into an element of one or puts into a map is owned (a Copy() result, possibly through locals, phis and helpers whose every return is owned): a producer's own cursor, which the producer moves on at its next call, is never buffered")
	n := 0
	for _, fn := range w.AllFuncs {
		if !w.RunTime[fn] {
			continue
		}
		for _, b := range fn.Blocks {
			for _, in := range b.Instrs {
				var vals []ssa.Value
				what := ""
				switch x := in.(type) {
				case *ssa.Call:
					bi, ok := x.Call.Value.(*ssa.Builtin)
					if !ok || bi.Name() != "append" || len(x.Call.Args) != 2 {
						continue
					}
					sl, ok := x.Call.Args[0].Type().Underlying().(*types.Slice)
					if !ok || !w.isNavType(sl.Elem()) {
						continue
					}
					// append(list, v...) — the variadic part is a slice built from the values
					vals = w.variadicElems(x.Call.Args[1])
					what = "appended to a list"
				case *ssa.Store:
					ia, ok := x.Addr.(*ssa.IndexAddr)
					if !ok || !w.isNavType(x.Val.Type()) {
						continue
					}
					if _, isVar := variadicBacking(ia); isVar {
						continue // the backing array of an append's variadic argument: judged there
					}
					vals = []ssa.Value{x.Val}
					what = "stored into a list element"
				case *ssa.MapUpdate:
					if !w.isNavType(x.Value.Type()) {
						continue
					}
					vals = []ssa.Value{x.Value}
					what = "put into a map"
				default:
					continue
				}
				for _, v := range vals {
					n++
					r.FuncsAnalysed[fnName(fn)] = true
					key := fmt.Sprintf("%s:buffered", fnName(fn))
					if v == nil {
						r.undec("N-BUFFER", key, w.instrPos(in), "the values appended could not be identified")
						continue
					}
					if ok, why := w.owned(v); ok {
						r.ok("N-BUFFER", key, w.instrPos(in), "a copy is "+what)
					} else {
						r.bad("N-BUFFER", key, w.instrPos(in), fmt.Sprintf("a navigator %s is not a copy: %s — the producer moves that cursor on at its next call, so the buffered entries end up on one node (a union loses or repeats nodes)", what, why))
					}
				}
			}
		}
	}
	if n == 0 {
		r.bad("N-BUFFER", "sites", "", "no buffering of navigators found (union, merge, last() buffer their operands' nodes)")
	}
}

// variadicBacking: ia addresses an element of the temporary array go/ssa builds
// for the variadic argument of a call.
func variadicBacking(ia *ssa.IndexAddr) (*ssa.Alloc, bool) {
	a, ok := ia.X.(*ssa.Alloc)
	if !ok || a.Comment != "varargs" {
		return nil, false
	}
	return a, true
}

// variadicElems: the values of `append(s, a, b)`'s variadic argument (a slice
// of the "varargs" array whose elements are stored just before), or the slice
// itself when another slice is appended (`append(s, t...)`): then nil.
func (w *World) variadicElems(v ssa.Value) []ssa.Value {
	sl, ok := v.(*ssa.Slice)
	if !ok {
		return []ssa.Value{nil}
	}
	a, ok := sl.X.(*ssa.Alloc)
	if !ok || a.Comment != "varargs" {
		return []ssa.Value{nil}
	}
	var out []ssa.Value
	for _, u := range uses(a) {
		ia, ok := u.(*ssa.IndexAddr)
		if !ok {
			continue
		}
		for _, uu := range uses(ia) {
			if st, ok := uu.(*ssa.Store); ok && st.Addr == ssa.Value(ia) {
				out = append(out, st.Val)
			}
		}
	}
	if len(out) == 0 {
		return []ssa.Value{nil}
	}
	return out
}
