package main

// Group X — run-time panic census (C15, C09).

import (
	"fmt"
	"go/token"
	"go/types"
	"sort"
	"strings"

	"golang.org/x/tools/go/ssa"
)

type riskSite struct {
	fn    *ssa.Function
	in    ssa.Instruction
	class string
	val   ssa.Value // the value whose nil-ness / range matters
}

// runtimeScope: run-time functions of the package that belong to the
// evaluator (AST String() methods, reachable only through fmt's reflection
// over-approximation, are excluded by requiring a non-fmt caller chain).
func (w *World) evalScope() []*ssa.Function {
	var roots []*ssa.Function
	for _, n := range []string{"(*Expr).Select", "(*Expr).Evaluate", "(*NodeIterator).MoveNext", "(*NodeIterator).Current"} {
		if f := w.Fn(n); f != nil {
			roots = append(roots, f)
		}
	}
	reach := w.pkgReach(roots, nil)
	// closures created by build-time factories and invoked through fields
	for _, cl := range w.sharedClosures() {
		for f := range w.pkgReach([]*ssa.Function{cl}, nil) {
			reach[f] = true
		}
	}
	changed := true
	for changed {
		changed = false
		for _, f := range w.AllFuncs {
			if p := f.Parent(); p != nil && reach[p] && !reach[f] {
				reach[f] = true
				changed = true
			}
		}
	}
	var out []*ssa.Function
	for f := range reach {
		if len(f.Blocks) > 0 {
			out = append(out, f)
		}
	}
	sort.Slice(out, func(i, j int) bool { return fnName(out[i]) < fnName(out[j]) })
	return out
}

func (w *World) riskSites() []riskSite {
	var out []riskSite
	for _, fn := range w.evalScope() {
		if w.irrelevantFn(fn) {
			continue
		}
		if sc := w.faultScope(); sc != nil && !sc[fn] {
			continue
		}
		for _, b := range fn.Blocks {
			for _, in := range b.Instrs {
				switch x := in.(type) {
				case *ssa.Panic:
					out = append(out, riskSite{fn, in, "panic", x.X})
				case *ssa.TypeAssert:
					if !x.CommaOk {
						out = append(out, riskSite{fn, in, "assert", x.X})
					}
				case *ssa.IndexAddr:
					out = append(out, riskSite{fn, in, "index", x.Index})
				case *ssa.Index:
					out = append(out, riskSite{fn, in, "index", x.Index})
				case *ssa.Slice:
					out = append(out, riskSite{fn, in, "slice", x.X})
				case *ssa.BinOp:
					if (x.Op == token.QUO || x.Op == token.REM) && isIntType(x.Type()) {
						out = append(out, riskSite{fn, in, "intdiv", x.Y})
					}
				case *ssa.MapUpdate:
					out = append(out, riskSite{fn, in, "mapwrite", x.Map})
				case ssa.CallInstruction:
					cc := x.Common()
					if cc.IsInvoke() {
						switch {
						case w.isQueryType(cc.Value.Type()):
							out = append(out, riskSite{fn, in, "qnil", cc.Value})
						case w.isNavType(cc.Value.Type()):
							out = append(out, riskSite{fn, in, "navnil", cc.Value})
						default:
							out = append(out, riskSite{fn, in, "ifacenil", cc.Value})
						}
					} else if cc.StaticCallee() == nil {
						if _, isB := cc.Value.(*ssa.Builtin); !isB {
							out = append(out, riskSite{fn, in, "funcnil", cc.Value})
						}
					}
				case *ssa.Convert:
					// float -> int conversions cannot fault in Go
				}
			}
		}
	}
	return out
}

var _ = strings.Join
var _ = fmt.Sprintf
var _ = types.Typ

func ruleXCensus(w *World, r *Report) {
	r.rule("X-CENSUS", "every instruction of run-time code that can raise a Go run-time error or an explicit panic is an obligation discharged by the rule of its class: X-DELIB (explicit panics carry an error built by errors.New/fmt.Errorf in the same function), X-ASSERT (type assertions without comma-ok are justified by the table-cell typing, the pool/cache contracts or a dominating type test), X-DIV (integer division only by non-zero), X-NIL (receivers of interface method calls, called func values and written maps are non-nil by the non-nil analysis: fresh values, Copy/Clone results, configuration fields non-nil in every literal, state fields assigned or tested on every path, dominating nil tests, parameters non-nil at every call site); a site no rule discharges is undecided and counts as a violation")
	e := w.newNilEngine()
	sites := w.riskSites()
	for _, f := range w.evalScope() {
		r.FuncsAnalysed[fnName(f)] = true
	}
	cells := w.tableCellFuncs()
	counts := map[string]int{}
	for _, s := range sites {
		counts[s.class]++
		key := fmt.Sprintf("%s:%s", fnName(s.fn), siteDesc(s))
		pos := w.instrPos(s.in)
		switch s.class {
		case "panic":
			if w.deliberatePanic(s.in.(*ssa.Panic)) {
				r.ok("X-DELIB", key, pos, "typed complaint built in place")
			} else {
				r.bad("X-DELIB", key, pos, fmt.Sprintf("%s re-panics a foreign value (%s) instead of a deliberate, typed complaint: evaluation aborts with an error the package did not author", fnName(s.fn), s.val))
			}
		case "assert":
			ok, why := w.assertJustified(s.in.(*ssa.TypeAssert), cells, e)
			if ok {
				r.ok("X-ASSERT", key, pos, why)
			} else {
				r.bad("X-ASSERT", key, pos, "type assertion without comma-ok can fail at run time: "+why)
			}
		case "intdiv":
			if ok, why := w.nonZeroDivisor(s.in.(*ssa.BinOp)); ok {
				r.ok("X-DIV", key, pos, why)
			} else {
				r.bad("X-DIV", key, pos, "integer division/remainder whose divisor can be zero: "+why)
			}
		case "index", "slice":
			// decided by X-BOUNDS
		case "qnil", "navnil", "ifacenil", "funcnil", "mapwrite":
			if ok, why := e.nonNil(s.val, s.in, 0); ok {
				r.ok("X-NIL", key, pos, why)
			} else {
				what := map[string]string{"qnil": "query", "navnil": "navigator", "ifacenil": "interface value", "funcnil": "function value", "mapwrite": "map"}[s.class]
				r.bad("X-NIL", key, pos, fmt.Sprintf("%s uses a %s that may be nil: %s", fnName(s.fn), what, why))
			}
		}
	}
	var as []string
	for a := range e.assume {
		as = append(as, a)
	}
	sort.Strings(as)
	for _, a := range as {
		r.assume(a)
	}
	r.note("X-CENSUS site classes: %v in %d functions", counts, len(w.evalScope()))
}

func siteDesc(s riskSite) string {
	switch x := s.in.(type) {
	case *ssa.Panic:
		return "panic"
	case *ssa.TypeAssert:
		return "assert(" + typeName(x.AssertedType) + ")"
	case *ssa.BinOp:
		return "int" + x.Op.String()
	case *ssa.MapUpdate:
		return "mapwrite"
	case ssa.CallInstruction:
		cc := x.Common()
		if cc.IsInvoke() {
			return valDesc(cc.Value) + "." + cc.Method.Name()
		}
		return "call " + valDesc(cc.Value)
	}
	return s.class
}

func valDesc(v ssa.Value) string {
	v = strip(v)
	switch x := v.(type) {
	case *ssa.UnOp:
		if fa, ok := x.X.(*ssa.FieldAddr); ok {
			return fieldOfAddr(fa).Name()
		}
		if a := cellOf(x.X); a != nil {
			return a.Comment
		}
	case *ssa.Parameter:
		return x.Name()
	case *ssa.Call:
		if x.Call.IsInvoke() {
			return valDesc(x.Call.Value) + "." + x.Call.Method.Name() + "()"
		}
		if f := x.Call.StaticCallee(); f != nil {
			return f.Name() + "()"
		}
	case *ssa.Phi:
		return x.Comment
	case *ssa.Extract:
		return valDesc(x.Tuple)
	case *ssa.TypeAssert:
		return valDesc(x.X)
	}
	return "value"
}

func (w *World) deliberatePanic(p *ssa.Panic) bool {
	v := strip(p.X)
	if mi, ok := v.(*ssa.MakeInterface); ok {
		v = strip(mi.X)
	}
	c, ok := v.(*ssa.Call)
	if !ok {
		return false
	}
	f := c.Call.StaticCallee()
	if f == nil || f.Pkg == nil {
		return false
	}
	p2 := f.Pkg.Pkg.Path()
	return p2 == "errors" && f.Name() == "New" || p2 == "fmt" && f.Name() == "Errorf"
}

func (w *World) tableCellFuncs() map[*ssa.Function]bool {
	out := map[*ssa.Function]bool{}
	if tab := w.comparisonTable(); tab != nil {
		for _, row := range tab.Cells {
			for _, c := range row {
				if c != nil {
					out[w.Prog.FuncValue(c)] = true
				}
			}
		}
	}
	return out
}

func (w *World) assertJustified(ta *ssa.TypeAssert, cells map[*ssa.Function]bool, e *nilEngine) (bool, string) {
	fn := ta.Parent()
	// an assertion to the value's own interface type only fails for nil
	if types.Identical(ta.X.Type(), ta.AssertedType) {
		if ok, why := e.nonNil(ta.X, ta, 0); ok {
			return true, "nil check of a value that is non-nil: " + why
		}
	}
	// (a) table cells: operand parameters (A-CELLS(1))
	if cells[fn] {
		for i, p := range fn.Params {
			if i >= 2 && ta.X == ssa.Value(p) {
				return true, "operand of a comparison-table cell: its dynamic type is the cell's row/column type (A-CELLS)"
			}
		}
	}
	// (d) dominated by a successful comma-ok assertion / type-switch case of the same value to the same type
	for _, u := range uses(ta.X) {
		t2, ok := u.(*ssa.TypeAssert)
		if !ok || !t2.CommaOk || !types.Identical(t2.AssertedType, ta.AssertedType) {
			continue
		}
		if w.underOkEdge(t2, ta.Block()) {
			return true, "dominated by a successful type test of the same value"
		}
	}
	// (b) pool: Get().(T) where New returns a T and Put only receives what Get returned
	if c, ok := ta.X.(*ssa.Call); ok {
		if f := c.Call.StaticCallee(); f != nil && f.Pkg != nil && f.Pkg.Pkg.Path() == "sync" && f.Name() == "Get" {
			if g, ok := c.Call.Args[0].(*ssa.Global); ok {
				if w.poolYields(g, ta.AssertedType) {
					return true, "the pool's New returns a value implementing the asserted interface and Put only receives values taken from Get (S-POOL)"
				}
				return false, "the pool may hold values of another type"
			}
		}
	}
	// (c) cache: value loaded by the installed loader
	if ex, ok := ta.X.(*ssa.Extract); ok {
		if c, ok := ex.Tuple.(*ssa.Call); ok {
			ct, _ := w.cacheType()
			if ct != nil && c.Call.StaticCallee() == w.cacheGet(ct) {
				if w.loaderYields(ta.AssertedType) {
					return true, "the cache only stores what its loader returned; the package's loader returns this type (a client-replaced RegexpCache is the client's contract)"
				}
				return false, "the cache loader does not return the asserted type"
			}
		}
	}
	// key.(string) inside the loader: every get call passes a string
	if p, ok := ta.X.(*ssa.Parameter); ok && isLoaderShaped(p.Parent()) {
		if w.loaderKeyIs(p, ta.AssertedType) {
			return true, "the loader's key: every cache lookup in the package passes a value of this type"
		}
	}
	return false, fmt.Sprintf("%s.(%s) in %s is not covered by a typing argument", valDesc(ta.X), typeName(ta.AssertedType), fnName(fn))
}

func (w *World) poolYields(g *ssa.Global, t types.Type) bool {
	// init: pool.New = fn; fn returns a type implementing t
	okNew := false
	for _, fn := range w.AllFuncs {
		if fn.Parent() != nil || !strings.HasPrefix(fn.Name(), "init") {
			continue
		}
		eachInstr(fn, false, func(_ *ssa.Function, in ssa.Instruction) {
			st, ok := in.(*ssa.Store)
			if !ok {
				return
			}
			fa, ok := st.Addr.(*ssa.FieldAddr)
			if !ok || fieldOfAddr(fa).Name() != "New" {
				return
			}
			var nf *ssa.Function
			switch v := strip(st.Val).(type) {
			case *ssa.Function:
				nf = v
			case *ssa.MakeClosure:
				nf, _ = v.Fn.(*ssa.Function)
			}
			if nf == nil {
				return
			}
			all := true
			for _, b := range nf.Blocks {
				if ret, ok := normalReturn(b); ok {
					v := strip(retVal(ret, 0))
					var ct types.Type
					if c, ok := v.(*ssa.Call); ok {
						ct = c.Type()
					}
					if mi, ok := v.(*ssa.MakeInterface); ok {
						ct = mi.X.Type()
						if c, ok := mi.X.(*ssa.Call); ok && c.Call.StaticCallee() != nil {
							ct = c.Type()
						}
					}
					it, _ := t.Underlying().(*types.Interface)
					if ct == nil || it == nil || !(types.Implements(ct, it) || types.Identical(ct, t)) {
						all = false
					}
				}
			}
			okNew = all
		})
	}
	return okNew
}

func (w *World) loaderYields(t types.Type) bool {
	found := false
	for _, fn := range w.AllFuncs {
		if !isLoaderShaped(fn) {
			continue
		}
		eachInstr(fn, false, func(_ *ssa.Function, in ssa.Instruction) {
			if c, ok := in.(*ssa.Call); ok {
				if f := c.Call.StaticCallee(); f != nil && f.Pkg != nil && f.Pkg.Pkg.Path() == "regexp" {
					if tup, ok := c.Type().(*types.Tuple); ok && tup.Len() == 2 && types.Identical(tup.At(0).Type(), t) {
						found = true
					}
				}
			}
		})
	}
	return found
}

func (w *World) loaderKeyIs(p *ssa.Parameter, t types.Type) bool {
	ct, _ := w.cacheType()
	if ct == nil {
		return false
	}
	get := w.cacheGet(ct)
	n := w.CG.Nodes[get]
	if n == nil {
		return false
	}
	ok := len(n.In) > 0
	for _, ed := range n.In {
		if !w.inPkg(ed.Caller.Func) {
			continue
		}
		a := strip(ed.Site.Common().Args[1])
		mi, isMI := a.(*ssa.MakeInterface)
		if !isMI || !types.Identical(mi.X.Type(), t) {
			ok = false
		}
	}
	return ok
}

func (w *World) nonZeroDivisor(bo *ssa.BinOp) (bool, string) {
	if k, ok := constInt(bo.Y); ok {
		if k != 0 {
			return true, "constant non-zero divisor"
		}
		return false, "constant zero"
	}
	// dominated by `y != 0`
	for _, b := range bo.Parent().Blocks {
		ifi := blockIf(b)
		if ifi == nil {
			continue
		}
		c, ok := ifi.Cond.(*ssa.BinOp)
		if !ok || c.X != bo.Y {
			continue
		}
		if k, ok := constInt(c.Y); ok && k == 0 {
			succ := b.Succs[0]
			if c.Op == token.EQL {
				succ = b.Succs[1]
			} else if c.Op != token.NEQ {
				continue
			}
			if succ == bo.Block() || succ.Dominates(bo.Block()) {
				return true, "dominated by a non-zero test"
			}
		}
	}
	return false, fmt.Sprintf("divisor %s is not tested", bo.Y.Name())
}

// ---------- X-RESULT ----------

// resultTypes collects the dynamic types a value of type interface{} can
// hold, following phis, calls into package functions and stored constants.
func (w *World) resultTypes(v ssa.Value, seen map[ssa.Value]bool, out map[string]string, where string, depth int) {
	if v == nil || seen[v] || depth > 16 {
		return
	}
	seen[v] = true
	v = strip(v)
	switch x := v.(type) {
	case *ssa.MakeInterface:
		out[w.typeKey(x.X.Type())] = where
		if _, isPtr := x.X.Type().(*types.Pointer); isPtr {
			if types.Implements(x.X.Type(), w.QueryIface) {
				delete(out, w.typeKey(x.X.Type()))
				out["query"] = where
			}
		} else if n, ok := x.X.Type().(*types.Named); ok && types.Implements(n, w.QueryIface) {
			delete(out, w.typeKey(x.X.Type()))
			out["query"] = where
		}
	case *ssa.Const:
		if x.Value == nil {
			out["nil"] = where
		}
	case *ssa.Phi:
		for _, e := range x.Edges {
			w.resultTypes(e, seen, out, where, depth+1)
		}
	case *ssa.Call:
		if x.Call.IsInvoke() {
			// Evaluate on a sub-query: covered by that query's own obligation
			return
		}
		if f := x.Call.StaticCallee(); f != nil && w.inPkg(f) {
			for _, b := range f.Blocks {
				if ret, ok := normalReturn(b); ok && len(ret.Results) >= 1 {
					w.resultTypes(retVal(ret, 0), seen, out, w.instrPos(ret), depth+1)
				}
			}
			return
		}
		if x.Call.StaticCallee() == nil {
			// dynamic call of a func-typed field (Func, Do): the stored functions are obligations of their own
			return
		}
		out["result of "+x.Call.String()] = where
	case *ssa.UnOp:
		if x.Op != token.MUL {
			break
		}
		if fa, ok := x.X.(*ssa.FieldAddr); ok {
			// a stored constant (constantQuery.Val): every store into that field
			st := structOfAddr(fa)
			fld := fieldOfAddr(fa)
			for _, fn := range w.AllFuncs {
				eachInstr(fn, false, func(_ *ssa.Function, in ssa.Instruction) {
					s, ok := in.(*ssa.Store)
					if !ok {
						return
					}
					f2, ok := s.Addr.(*ssa.FieldAddr)
					if ok && structOfAddr(f2) == st && fieldOfAddr(f2) == fld {
						w.resultTypes(s.Val, seen, out, w.instrPos(s), depth+1)
					}
				})
			}
			return
		}
		if a := cellOf(x.X); a != nil {
			for _, st := range cellStores(a) {
				w.resultTypes(st.Val, seen, out, w.instrPos(st), depth+1)
			}
			return
		}
		out["load "+x.X.Name()] = where
	case *ssa.Parameter:
		// a parameter of type interface{}: all call sites
		fn := x.Parent()
		idx := -1
		for i, p := range fn.Params {
			if p == x {
				idx = i
			}
		}
		if n := w.CG.Nodes[fn]; n != nil && len(n.In) > 0 {
			for _, e := range n.In {
				args := e.Site.Common().Args
				if idx < len(args) {
					w.resultTypes(args[idx], seen, out, w.instrPos(e.Site), depth+1)
				}
			}
			return
		}
		out["parameter "+x.Name()] = where
	default:
		if types.Implements(v.Type(), w.QueryIface) {
			out["query"] = where
			return
		}
		out[fmt.Sprintf("%T %s", v, v.Name())] = where
	}
}

func isEmptyIface(t types.Type) bool {
	it, ok := t.Underlying().(*types.Interface)
	return ok && it.Empty()
}

func ruleXResult(w *World, r *Report) {
	r.rule("X-RESULT", "every value that an Evaluate method, an XPath function closure or an operator function can return has a documented dynamic type: bool, float64, string, a query (node-set) or nil; these are exactly the types handled by the type dispatch of the comparison table, the truth/string/number conversions and the predicate filter, so their failing default branches are unreachable")
	allowed := map[string]bool{"bool": true, "float64": true, "string": true, "query": true, "nil": true}
	ev := w.evaluateMethod()
	var fns []*ssa.Function
	for _, qt := range w.census.Types {
		if f := qt.Methods[ev]; f != nil {
			fns = append(fns, f)
		}
	}
	for _, f := range w.AllFuncs {
		if !w.RunTime[f] {
			continue
		}
		sig := f.Signature
		if sig.Results().Len() == 1 && isEmptyIface(sig.Results().At(0).Type()) && sig.Params().Len() >= 2 {
			// func(query, iterator) interface{} and func(iterator, interface{}, interface{}) interface{}
			isFn := false
			for i := 0; i < sig.Params().Len(); i++ {
				if it, ok := sig.Params().At(i).Type().Underlying().(*types.Interface); ok && it.NumMethods() == 1 && it.Method(0).Name() == "Current" {
					isFn = true
				}
			}
			if isFn && f.Signature.Recv() == nil {
				fns = append(fns, f)
			}
		}
	}
	seenFn := map[*ssa.Function]bool{}
	for _, f := range fns {
		if seenFn[f] {
			continue
		}
		seenFn[f] = true
		if w.irrelevantFn(f) {
			continue // implements only XPath functions the property does not talk about
		}
		r.FuncsAnalysed[fnName(f)] = true
		out := map[string]string{}
		for _, b := range f.Blocks {
			if ret, ok := normalReturn(b); ok && len(ret.Results) == 1 {
				w.resultTypes(retVal(ret, 0), map[ssa.Value]bool{}, out, w.instrPos(ret), 0)
			}
		}
		var bad []string
		for k, where := range out {
			if !allowed[k] {
				bad = append(bad, fmt.Sprintf("%s (at %s)", k, where))
			}
		}
		sort.Strings(bad)
		if len(bad) == 0 {
			var ks []string
			for k := range out {
				ks = append(ks, k)
			}
			sort.Strings(ks)
			r.ok("X-RESULT", fnName(f), w.pos(f.Pos()), "can return "+strings.Join(ks, ", "))
		} else {
			r.bad("X-RESULT", fnName(f), w.pos(f.Pos()), fmt.Sprintf("%s can return a value of undocumented type %s: comparisons, arithmetic and string() on it hit the failing default branch of the type dispatch (\"unknown value type\")", fnName(f), strings.Join(bad, "; ")))
		}
	}
	// the consumers cover the universe
	w.checkTypeDispatch(r)
}

// checkTypeDispatch: the truth / string / number conversions and the filter's
// predicate dispatch have a branch for each member of the universe.
func (w *World) checkTypeDispatch(r *Report) {
	for _, fn := range w.AllFuncs {
		if fn.Parent() != nil || fn.Signature.Recv() != nil || !w.RunTime[fn] {
			continue
		}
		sig := fn.Signature
		if sig.Params().Len() != 2 || sig.Results().Len() != 1 || !isEmptyIface(sig.Params().At(1).Type()) {
			continue
		}
		if _, ok := sig.Results().At(0).Type().(*types.Basic); !ok {
			continue
		}
		// asBool / asString / asNumber: type switch on parameter 1
		got := map[string]bool{}
		eachInstr(fn, false, func(_ *ssa.Function, in ssa.Instruction) {
			if ta, ok := in.(*ssa.TypeAssert); ok && ta.X == ssa.Value(fn.Params[1]) {
				got[w.typeKey(ta.AssertedType)] = true
			}
			if bo, ok := in.(*ssa.BinOp); ok && bo.Op == token.EQL && bo.X == ssa.Value(fn.Params[1]) && isNilConst(bo.Y) {
				got["nil"] = true
			}
		})
		r.FuncsAnalysed[fnName(fn)] = true
		var missing []string
		for _, k := range []string{"bool", "float64", "string", "query"} {
			if !got[k] {
				missing = append(missing, k)
			}
		}
		panics := hasPanic(fn) != nil
		if len(missing) == 0 {
			r.ok("X-RESULT", "dispatch:"+fn.Name(), w.pos(fn.Pos()), "handles bool, float64, string and node-set")
		} else if !panics {
			r.ok("X-RESULT", "dispatch:"+fn.Name(), w.pos(fn.Pos()), fmt.Sprintf("no case for %v, but unhandled types fall through to a value, not a panic", missing))
		} else {
			r.bad("X-RESULT", "dispatch:"+fn.Name(), w.pos(fn.Pos()), fmt.Sprintf("%s has no case for %v and panics on unhandled types", fn.Name(), missing))
		}
	}
}

// isLoaderShaped: a function (closure or named) with the cache loader's
// signature key -> (value, error), without receiver.
func isLoaderShaped(fn *ssa.Function) bool {
	if fn == nil || fn.Signature.Recv() != nil {
		return false
	}
	sig := fn.Signature
	return sig.Params().Len() == 1 && sig.Results().Len() == 2 && isEmptyIface(sig.Params().At(0).Type()) && isEmptyIface(sig.Results().At(0).Type()) && isErrorType(sig.Results().At(1).Type())
}
