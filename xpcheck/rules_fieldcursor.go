package main

// X-BOUNDS, field cursors: `c.list[c.pos]` in a method of a small helper type
// (an iterator closure turned into a struct with a method).
//
// A captured counter is a variable cell whose stores the bounds engine
// enumerates; a counter kept in a field of a heap object needs the same
// argument made for the type: every store to the counter field in the package
// is an initialisation (a non-negative constant, or len(x) of the very slice
// the same literal puts into the list field), an increment reached only under
// `counter < len(list)`, or a decrement reached only under `counter > 0`; the
// list field is only set when the object is built. Hence 0 <= counter <=
// len(list) whenever a method starts, and the index is judged from the guard
// that dominates it in the method (with the decrement just before it, if any,
// taken into account).

import (
	"go/token"
	"go/types"

	"golang.org/x/tools/go/ssa"
)

type fieldRef struct {
	base  ssa.Value
	field int
	T     *types.Named
}

func fieldLoadRef(v ssa.Value) (fieldRef, *ssa.UnOp, bool) {
	ld, ok := strip(v).(*ssa.UnOp)
	if !ok || ld.Op != token.MUL {
		return fieldRef{}, nil, false
	}
	fa, ok := ld.X.(*ssa.FieldAddr)
	if !ok {
		return fieldRef{}, nil, false
	}
	T := structOfAddr(fa)
	if T == nil {
		return fieldRef{}, nil, false
	}
	return fieldRef{fa.X, fa.Field, T}, ld, true
}

func (e *boundsEngine) fieldCursorIndexOK(base, idx ssa.Value, at *ssa.BasicBlock) (bool, string) {
	w := e.w
	lref, _, ok := fieldLoadRef(base)
	if !ok || lref.T.Obj().Pkg() != w.Types {
		return false, ""
	}
	iref, ild, ok := fieldLoadRef(idx)
	if !ok || iref.base != lref.base || iref.T != lref.T || iref.field == lref.field {
		return false, ""
	}
	fn := at.Parent()
	isFieldAddr := func(a ssa.Value, ref fieldRef, sameBase bool) bool {
		fa, ok := a.(*ssa.FieldAddr)
		return ok && fa.Field == ref.field && structOfAddr(fa) == ref.T && (!sameBase || fa.X == ref.base)
	}
	// the value at the site: the field as loaded, or what the store just before it put there
	delta := int64(0)
	cur := ild
	if ild.Block() == at || true {
		blk := ild.Block()
		for i := instrIndex(ild) - 1; i >= 0; i-- {
			in := blk.Instrs[i]
			if st, ok := in.(*ssa.Store); ok && isFieldAddr(st.Addr, iref, false) {
				if !isFieldAddr(st.Addr, iref, true) {
					return false, ""
				}
				bo, ok := st.Val.(*ssa.BinOp)
				if !ok || bo.Op != token.ADD && bo.Op != token.SUB {
					return false, ""
				}
				k, okk := constInt(bo.Y)
				r2, l2, okr := fieldLoadRef(bo.X)
				if !okk || k != 1 || !okr || r2 != iref {
					return false, ""
				}
				cur = l2
				delta = 1
				if bo.Op == token.SUB {
					delta = -1
				}
				break
			}
			if c, ok := in.(ssa.CallInstruction); ok {
				if _, isB := c.Common().Value.(*ssa.Builtin); !isB {
					return false, ""
				}
			}
		}
	}
	// no call and no store to the two fields between the method's entry and cur
	// other than in blocks cur's block does not depend on: keep it simple — the
	// blocks dominating cur's block, and cur's block up to cur, hold no call and
	// no such store
	for _, b := range fn.Blocks {
		if !(b == cur.Block() || b.Dominates(cur.Block())) {
			continue
		}
		for _, in := range b.Instrs {
			if b == cur.Block() && instrIndex(in) >= instrIndex(cur) {
				break
			}
			if c, ok := in.(ssa.CallInstruction); ok {
				if _, isB := c.Common().Value.(*ssa.Builtin); !isB {
					return false, ""
				}
			}
			if st, ok := in.(*ssa.Store); ok && (isFieldAddr(st.Addr, iref, false) || isFieldAddr(st.Addr, lref, false)) {
				return false, ""
			}
		}
	}
	// guards dominating cur's block on loads of the same field
	guardAt := func(blk *ssa.BasicBlock, ref fieldRef, want string) bool {
		for _, p := range blk.Parent().Blocks {
			ifi := blockIf(p)
			if ifi == nil {
				continue
			}
			bo, ok := ifi.Cond.(*ssa.BinOp)
			if !ok {
				continue
			}
			r1, _, ok1 := fieldLoadRef(bo.X)
			if !ok1 || r1 != ref {
				continue
			}
			for side := 0; side < 2; side++ {
				s := p.Succs[side]
				if len(s.Preds) != 1 || !(s == blk || s.Dominates(blk)) {
					continue
				}
				truth := side == 0
				// relation known on this edge: X op Y is truth
				op := bo.Op
				if !truth {
					switch op {
					case token.LSS:
						op = token.GEQ
					case token.GEQ:
						op = token.LSS
					case token.GTR:
						op = token.LEQ
					case token.LEQ:
						op = token.GTR
					default:
						continue
					}
				}
				switch want {
				case "ltlen":
					if op == token.LSS {
						if l := lenOperand(bo.Y); l != nil {
							if r2, _, ok2 := fieldLoadRef(l); ok2 && r2 == lref {
								return true
							}
						}
					}
				case "gt0":
					if k, ok := constInt(bo.Y); ok && (op == token.GTR && k == 0 || op == token.GEQ && k == 1) {
						return true
					}
				}
			}
		}
		return false
	}
	// the type's invariant
	incs, decs := 0, 0
	okStores := true
	for _, f := range w.AllFuncs {
		eachInstr(f, true, func(_ *ssa.Function, in ssa.Instruction) {
			st, ok := in.(*ssa.Store)
			if !ok {
				return
			}
			fa, ok := st.Addr.(*ssa.FieldAddr)
			if !ok || structOfAddr(fa) != iref.T {
				return
			}
			if _, fresh := fa.X.(*ssa.Alloc); fa.Field == lref.field {
				if !fresh {
					okStores = false // the list is replaced in a live object
				}
				return
			}
			if fa.Field != iref.field {
				return
			}
			if k, ok := constInt(st.Val); ok && k >= 0 {
				if _, fresh := fa.X.(*ssa.Alloc); fresh || k == 0 {
					return
				}
			}
			// len(x) where the same fresh object's list field receives x
			if a, fresh := fa.X.(*ssa.Alloc); fresh {
				if l := lenOperand(st.Val); l != nil {
					same := false
					for _, u := range uses(a) {
						if fa2, ok := u.(*ssa.FieldAddr); ok && fa2.Field == lref.field {
							for _, uu := range uses(fa2) {
								if s2, ok := uu.(*ssa.Store); ok && s2.Addr == ssa.Value(fa2) && canonLen(s2.Val) == l {
									same = true
								}
							}
						}
					}
					if same {
						return
					}
				}
				okStores = false
				return
			}
			bo, ok := st.Val.(*ssa.BinOp)
			if !ok {
				okStores = false
				return
			}
			k, okk := constInt(bo.Y)
			r2, _, okr := fieldLoadRef(bo.X)
			if !okk || k != 1 || !okr || r2.T != iref.T || r2.field != iref.field || r2.base != fa.X {
				okStores = false
				return
			}
			ref := fieldRef{fa.X, iref.field, iref.T}
			lr := lref
			lr.base = fa.X
			save := lref
			lref = lr
			switch bo.Op {
			case token.ADD:
				incs++
				if !guardAt(st.Block(), ref, "ltlen") {
					okStores = false
				}
			case token.SUB:
				decs++
				if !guardAt(st.Block(), ref, "gt0") {
					okStores = false
				}
			default:
				okStores = false
			}
			lref = save
		})
	}
	if !okStores {
		return false, ""
	}
	// 0 <= field <= len(list) at method entry; now the site
	lowOK, highOK := false, false
	switch delta {
	case 0:
		lowOK = true
		highOK = guardAt(cur.Block(), iref, "ltlen")
	case -1:
		lowOK = guardAt(cur.Block(), iref, "gt0")
		highOK = true
	}
	if lowOK && highOK {
		return true, "cursor field of " + iref.T.Obj().Name() + ": every store keeps 0 <= " + iref.T.Underlying().(*types.Struct).Field(iref.field).Name() + " <= len(" + iref.T.Underlying().(*types.Struct).Field(lref.field).Name() + "), and the guard before the index excludes the end"
	}
	return false, ""
}
