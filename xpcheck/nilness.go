package main

// A repository-specific non-nil analysis used by the X rules (C15): decides,
// for a value used at an instruction, whether it can be nil there. It follows
// cells (reaching stores), phis, dominating nil tests, struct fields (literal
// census for configuration fields, a small flow analysis for state fields),
// function results (all returns non-nil) and parameters (all call sites).
// Anything it cannot decide is reported as such (fail closed).

import (
	"fmt"
	"go/token"
	"go/types"
	"strings"

	"golang.org/x/tools/go/ssa"
)

type nilEngine struct {
	w         *World
	retMemo   map[*ssa.Function]int // 0 unknown, 1 in progress, 2 nonnil, 3 maybe nil
	fieldMemo map[string]int
	paramMemo map[*ssa.Parameter]int
	assume    map[string]bool
	edge      *[2]*ssa.BasicBlock // when judging a phi operand: the CFG edge it arrives on
	xtotal    map[*ssa.Function]int
	elemVisit map[ssa.Value]bool
}

func (w *World) newNilEngine() *nilEngine {
	return &nilEngine{w: w, retMemo: map[*ssa.Function]int{}, fieldMemo: map[string]int{}, paramMemo: map[*ssa.Parameter]int{}, assume: map[string]bool{}, xtotal: map[*ssa.Function]int{}}
}

func canBeNilType(t types.Type) bool {
	switch t.Underlying().(type) {
	case *types.Pointer, *types.Interface, *types.Map, *types.Slice, *types.Signature, *types.Chan:
		return true
	}
	return false
}

// nonNil: can v be nil when `at` executes? Returns (true, reason) when it is
// proven non-nil.
func (e *nilEngine) nonNil(v ssa.Value, at ssa.Instruction, depth int) (bool, string) {
	w := e.w
	if depth > 20 {
		return false, "derivation too deep"
	}
	v = strip(v)
	if !canBeNilType(v.Type()) {
		return true, "not a nilable type"
	}
	// a dominating test on this very value (or on a load of the same variable)
	if at != nil && e.testedNonNil(v, at) {
		return true, "tested against nil on every path to the use"
	}
	switch x := v.(type) {
	case *ssa.Const:
		if x.Value == nil {
			return false, "the nil constant"
		}
		return true, "constant"
	case *ssa.Alloc, *ssa.MakeClosure, *ssa.MakeMap, *ssa.MakeSlice, *ssa.MakeChan, *ssa.Function:
		return true, "freshly constructed"
	case *ssa.MakeInterface:
		// an interface holding a nil pointer is not nil itself, but calling a
		// method through it dereferences the pointer all the same
		if _, isPtr := x.X.Type().Underlying().(*types.Pointer); isPtr {
			if ok, why := e.nonNil(x.X, at, depth+1); !ok {
				return false, "interface wrapped around a pointer that may be nil (the interface itself compares non-nil): " + why
			}
		}
		return true, "interface holding a concrete value"
	case *ssa.Slice:
		return e.nonNil(x.X, at, depth+1)
	case *ssa.FieldAddr, *ssa.IndexAddr:
		return true, "address"
	case *ssa.Field:
		// a field of a struct value of a package type: whatever is ever stored in
		// that field of any value of the type (struct values are copied whole)
		if n, ok := x.X.Type().(*types.Named); ok && n.Obj().Pkg() == w.Types {
			vals, zero := w.structFieldOrigins(n, x.Field)
			if zero {
				return false, "some value of " + n.Obj().Name() + " is built without this field"
			}
			if len(vals) == 0 {
				return false, "no assignment to the field found"
			}
			for _, ov := range vals {
				if ok, why := e.nonNil(ov, nil, depth+1); !ok {
					return false, "field of " + n.Obj().Name() + " receives a possibly nil value: " + why
				}
			}
			return true, "every value of " + n.Obj().Name() + " is built with a non-nil value in this field"
		}
	case *ssa.TypeAssert:
		if !x.CommaOk {
			return true, "result of a successful type assertion"
		}
	case *ssa.Extract:
		if ta, ok := x.Tuple.(*ssa.TypeAssert); ok && x.Index == 0 {
			if at != nil && w.underOkEdge(ta, at.Block()) {
				return true, "bound by a successful comma-ok assertion"
			}
			return false, "comma-ok assertion result used outside its ok branch"
		}
		if lk, ok := x.Tuple.(*ssa.Lookup); ok && lk.CommaOk && x.Index == 0 {
			// an entry of a package-level table nothing writes after initialisation,
			// used on the found edge: non-nil when every entry of the table is
			if at != nil && w.lookupFoundEdge(lk, at.Block()) {
				if ok, why := w.roTableValuesNonNil(lk.X); ok {
					return true, why
				}
			}
			return false, "map entry of unknown nil-ness (or used outside the found branch)"
		}
		if c, ok := x.Tuple.(*ssa.Call); ok && x.Index == 0 {
			// (value, ok) results of a package function: non-nil on the ok edge when
			// the function returns ok == true only together with a non-nil value
			if f := c.Call.StaticCallee(); f != nil && w.inPkg(f) && len(f.Blocks) > 0 && f.Signature.Results().Len() == 2 {
				if bt, isB := f.Signature.Results().At(1).Type().Underlying().(*types.Basic); isB && bt.Kind() == types.Bool {
					var okEx *ssa.Extract
					for _, u := range uses(c) {
						if ex, isE := u.(*ssa.Extract); isE && ex.Index == 1 {
							okEx = ex
						}
					}
					onOK := okEx != nil && at != nil && trueEdgeDominates(okEx, at.Block())
					if onOK {
						paired := true
						for _, b := range f.Blocks {
							ret, isR := normalReturn(b)
							if !isR || len(ret.Results) != 2 {
								continue
							}
							if k, isC := strip(ret.Results[1]).(*ssa.Const); isC && k.Value != nil && k.Value.ExactString() == "false" {
								continue
							}
							// ok is literally "the value is not nil"
							if bo, isB := strip(ret.Results[1]).(*ssa.BinOp); isB && bo.Op == token.NEQ {
								if (isNilConst(strip(bo.Y)) && sameValue(bo.X, ret.Results[0])) || (isNilConst(strip(bo.X)) && sameValue(bo.Y, ret.Results[0])) {
									continue
								}
							}
							if okv, _ := e.nonNil(retVal(ret, 0), ret, depth+1); !okv {
								paired = false
							}
						}
						if paired {
							return true, "result of " + f.Name() + " on its ok edge (ok is true only together with a non-nil value)"
						}
					}
				}
			}
		}
		if c, ok := x.Tuple.(*ssa.Call); ok {
			// (value, error) results: non-nil value when the error was tested nil and the callee pairs them
			var errEx *ssa.Extract
			for _, u := range uses(c) {
				if ex, ok := u.(*ssa.Extract); ok && isErrorType(ex.Type()) {
					errEx = ex
				}
			}
			if errEx != nil && at != nil && (w.underNilTest(errEx, at.Block()) || w.testedNilBefore(errEx, x, at.Block()) || e.nilOnEdge(errEx)) {
				if f := c.Call.StaticCallee(); f != nil && w.inPkg(f) && e.xTotalHolds(f) {
					return true, "result of " + f.Name() + " with nil error (X-TOTAL)"
				}
				if f := c.Call.StaticCallee(); f != nil {
					if f.Pkg != nil && f.Pkg.Pkg != w.Types {
						return true, "result of " + f.Name() + " with nil error (standard library contract)"
					}
					if e.pairedResult(f, x.Index) {
						return true, "result of " + f.Name() + " with nil error"
					}
				}
			}
			if lk, ok := x.Tuple.(*ssa.Lookup); ok {
				_ = lk
			}
		}
		if _, ok := x.Tuple.(*ssa.Next); ok {
			return true, "range element"
		}
	case *ssa.Phi:
		for i, ed := range x.Edges {
			pred := x.Block().Preds[i]
			fn := x.Parent()
			if !w.stringFeasible(pred, x.Block(), fn) || w.excludedByDomain(pred, x.Block(), fn) || w.enumExhausted(pred, x.Block()) {
				continue
			}
			last := pred.Instrs[len(pred.Instrs)-1]
			saved := e.edge
			e.edge = &[2]*ssa.BasicBlock{pred, x.Block()}
			ok, why := e.nonNil(ed, last, depth+1)
			e.edge = saved
			if !ok {
				return false, fmt.Sprintf("incoming value %s: %s", ed.Name(), why)
			}
		}
		return true, "all incoming values non-nil"
	case *ssa.Call:
		return e.callNonNil(x, at, depth)
	case *ssa.UnOp:
		if x.Op == token.MUL {
			return e.loadNonNil(x, at, depth)
		}
	case *ssa.Parameter:
		return e.paramNonNil(x, depth)
	case *ssa.FreeVar:
		return true, "captured variable cell"
	case *ssa.Lookup:
		return false, "map lookup result"
	case *ssa.Index:
		return false, "element value"
	}
	return false, fmt.Sprintf("value %s (%T) of unknown nil-ness", v.Name(), v)
}

// testedNonNil: at is dominated by the non-nil edge of a test of v (or of a
// load of the same cell with the same reaching stores).
func (e *nilEngine) testedNonNil(v ssa.Value, at ssa.Instruction) bool {
	w := e.w
	blk := at.Block()
	fn := blk.Parent()
	// on the phi edge being judged
	if e.edge != nil {
		p, b := e.edge[0], e.edge[1]
		if ifi := blockIf(p); ifi != nil && p.Succs[0] != p.Succs[1] {
			if cmp, neg := decodeCond(ifi.Cond); cmp != nil && (cmp.Op == token.EQL || cmp.Op == token.NEQ) {
				var other ssa.Value
				if isNilConst(cmp.Y) {
					other = cmp.X
				} else if isNilConst(cmp.X) {
					other = cmp.Y
				}
				if other != nil && e.sameAt(other, v) {
					ne := cmp.Op == token.NEQ
					if neg {
						ne = !ne
					}
					nn := p.Succs[1]
					if ne {
						nn = p.Succs[0]
					}
					if nn == b {
						return true
					}
				}
			}
		}
	}
	// a successful comma-ok type assertion of the same value implies non-nil
	for _, b := range fn.Blocks {
		for _, in := range b.Instrs {
			ta, ok := in.(*ssa.TypeAssert)
			if !ok || !ta.CommaOk || !e.sameAt(ta.X, v) {
				continue
			}
			if w.underOkEdge(ta, blk) {
				return true
			}
		}
	}
	for _, b := range fn.Blocks {
		ifi := blockIf(b)
		if ifi == nil {
			continue
		}
		cmp, neg := decodeCond(ifi.Cond)
		if cmp == nil || cmp.Op != token.EQL && cmp.Op != token.NEQ {
			continue
		}
		var other ssa.Value
		if isNilConst(cmp.Y) {
			other = cmp.X
		} else if isNilConst(cmp.X) {
			other = cmp.Y
		} else {
			continue
		}
		if !e.sameAt(other, v) {
			continue
		}
		ne := cmp.Op == token.NEQ
		if neg {
			ne = !ne
		}
		succ := b.Succs[1]
		if ne {
			succ = b.Succs[0]
		}
		other2 := b.Succs[0]
		if ne {
			other2 = b.Succs[1]
		}
		if len(succ.Preds) == 1 && (succ == blk || succ.Dominates(blk)) {
			return true
		}
		// `if v == nil { return/break }` followed by the use: the nil edge never reaches the use
		if b.Dominates(blk) && !reachableFrom(other2, func(from, to *ssa.BasicBlock) bool { return false })[blk] {
			return true
		}
		// loop form: `for v := f(); v != nil; v = f()` handled by the first case
		_ = w
	}
	return false
}

// sameAt: a and b denote the same value: identical, or loads of the same
// variable cell / the same receiver field seeing the same stores.
func (e *nilEngine) sameAt(a, b ssa.Value) bool {
	a, b = strip(a), strip(b)
	if a == b {
		return true
	}
	la, ok1 := a.(*ssa.UnOp)
	lb, ok2 := b.(*ssa.UnOp)
	if !ok1 || !ok2 || la.Op != token.MUL || lb.Op != token.MUL {
		return false
	}
	ca, cb := cellOf(la.X), cellOf(lb.X)
	if ca != nil && ca == cb {
		if la.Parent() != lb.Parent() {
			return false
		}
		if ca.Parent() != la.Parent() {
			// loads of a captured variable inside a closure: same if the closure does not store to it in between
			return !storesBetween(la, lb, func(in ssa.Instruction) bool {
				st, ok := in.(*ssa.Store)
				return ok && cellOf(st.Addr) == ca
			})
		}
		ra, rb := reachingAt(la.Parent(), ca, la), reachingAt(lb.Parent(), cb, lb)
		if len(ra) != len(rb) {
			return false
		}
		for i := range ra {
			if ra[i] != rb[i] {
				return false
			}
		}
		return true
	}
	// same receiver field with no store to it in between
	fa, okA := la.X.(*ssa.FieldAddr)
	fb, okB := lb.X.(*ssa.FieldAddr)
	if okA && okB && fieldOfAddr(fa) == fieldOfAddr(fb) && e.sameBase(fa.X, fb.X) {
		return !storesBetween(la, lb, func(in ssa.Instruction) bool {
			st, ok := in.(*ssa.Store)
			if !ok {
				return false
			}
			f2, ok := st.Addr.(*ssa.FieldAddr)
			return ok && fieldOfAddr(f2) == fieldOfAddr(fa)
		})
	}
	return false
}

func (e *nilEngine) sameBase(a, b ssa.Value) bool {
	ra, rb := resolve(a), resolve(b)
	return ra == rb
}

// storesBetween: some instruction satisfying pred can execute between a and b
// (a dominates b).
func storesBetween(a, b ssa.Instruction, pred func(ssa.Instruction) bool) bool {
	if a.Block() == b.Block() {
		ia, ib := instrIndex(a), instrIndex(b)
		if ia > ib {
			ia, ib = ib, ia
		}
		for _, in := range a.Block().Instrs[ia:ib] {
			if pred(in) {
				return true
			}
		}
		return false
	}
	// blocks on some path from a to b
	fromA := reachableFrom(a.Block(), nil)
	for _, blk := range a.Block().Parent().Blocks {
		if !fromA[blk] && blk != a.Block() {
			continue
		}
		if !reachableFrom(blk, nil)[b.Block()] && blk != b.Block() {
			continue
		}
		for _, in := range blk.Instrs {
			if blk == a.Block() && instrIndex(in) <= instrIndex(a) {
				continue
			}
			if blk == b.Block() && instrIndex(in) >= instrIndex(b) {
				continue
			}
			if pred(in) {
				return true
			}
		}
	}
	return false
}

func (e *nilEngine) callNonNil(c *ssa.Call, at ssa.Instruction, depth int) (bool, string) {
	w := e.w
	cc := c.Call
	if cc.IsInvoke() {
		m := cc.Method.Name()
		if w.isNavType(cc.Value.Type()) && w.navMethodClass(m) == "copy" {
			e.assume["NodeNavigator.Copy returns a non-nil navigator"] = true
			return true, "Copy() of a navigator"
		}
		if w.isContextRegister(c) {
			e.assume["an iterator always has a current node (Expr.Select(nil) is API misuse)"] = true
			return true, "t.Current()"
		}
		if w.isQueryType(cc.Value.Type()) && m == w.cloneMethod() {
			return true, "Clone() (S-CLONE: every Clone returns a fresh literal or its non-nil receiver)"
		}
		return false, fmt.Sprintf("result of %s(), which may be nil", m)
	}
	if f := cc.StaticCallee(); f != nil {
		if f.Pkg == nil || f.Pkg.Pkg != w.Types && !w.inPkg(f) {
			return e.stdlibNonNil(f)
		}
		ok, why := e.returnsNonNil(f, c, depth)
		if !ok && at != nil {
			if ok2, why2 := e.stickyErrorGuard(f, c, at, depth); ok2 {
				return true, why2
			}
		}
		return ok, why
	}
	if _, ok := cc.Value.(*ssa.Builtin); ok {
		return true, "builtin result"
	}
	// dynamic call through a func value: every possible callee
	n := w.CG.Nodes[c.Parent()]
	found := false
	if n != nil {
		for _, ed := range n.Out {
			if ed.Site == c {
				found = true
				if ok, why := e.returnsNonNil(ed.Callee.Func, c, depth); !ok {
					return false, fmt.Sprintf("callee %s: %s", fnName(ed.Callee.Func), why)
				}
			}
		}
	}
	if found {
		return true, "every function that can be called here returns non-nil"
	}
	return false, "result of an unresolved dynamic call"
}

func (e *nilEngine) stdlibNonNil(f *ssa.Function) (bool, string) {
	name := f.String()
	for _, ok := range []string{"errors.New", "fmt.Errorf", "strings.NewReplacer", "(*sync.Pool).Get", "hash/fnv.New64a", "reflect.ValueOf", "(*regexp.Regexp)"} {
		if strings.HasPrefix(name, ok) {
			return true, "result of " + name
		}
	}
	return false, "result of " + name
}

// returnsNonNil: every normal return of f yields a non-nil first result; a
// return of one of f's own parameters is judged at the call site.
func (e *nilEngine) returnsNonNil(f *ssa.Function, site *ssa.Call, depth int) (bool, string) {
	if len(f.Blocks) == 0 {
		return false, "no body"
	}
	switch e.retMemo[f] {
	case 1:
		return true, "recursive"
	case 2:
		return true, "all returns of " + f.Name() + " are non-nil"
	}
	e.retMemo[f] = 1
	res := true
	why := ""
	dependsOnArg := false
	for _, b := range f.Blocks {
		ret, ok := normalReturn(b)
		if !ok || len(ret.Results) == 0 {
			continue
		}
		v := strip(retVal(ret, 0))
		if p, isP := resolve(v).(*ssa.Parameter); isP && p.Parent() == f && site != nil {
			for i, q := range f.Params {
				if q == p && i < len(site.Call.Args) {
					dependsOnArg = true
					if ok, w2 := e.nonNil(site.Call.Args[i], site, depth+1); !ok {
						res, why = false, "returns its argument, which "+w2
					}
				}
			}
			continue
		}
		if ok, w2 := e.nonNil(v, ret, depth+1); !ok {
			res, why = false, fmt.Sprintf("%s can return %s", f.Name(), w2)
		}
	}
	if dependsOnArg {
		e.retMemo[f] = 0
	} else if res {
		e.retMemo[f] = 2
	} else {
		e.retMemo[f] = 0
	}
	if res {
		return true, "all returns of " + f.Name() + " are non-nil"
	}
	return false, why
}

// pairedResult: every return of f has a non-nil error or a non-nil idx-th result.
func (e *nilEngine) pairedResult(f *ssa.Function, idx int) bool {
	for _, b := range f.Blocks {
		ret, ok := normalReturn(b)
		if !ok {
			continue
		}
		errV := retVal(ret, len(ret.Results)-1)
		if e.w.nonNilByConstruction(errV, b) {
			continue
		}
		if ok, _ := e.nonNil(retVal(ret, idx), ret, 1); !ok {
			return false
		}
	}
	return true
}

func (e *nilEngine) loadNonNil(ld *ssa.UnOp, at ssa.Instruction, depth int) (bool, string) {
	w := e.w
	switch a := ld.X.(type) {
	case *ssa.FieldAddr:
		return e.fieldNonNil(a, ld, at, depth)
	case *ssa.Global:
		// initialised non-nil and never reassigned inside the package
		e.assume["exported package variables are not set to nil by clients"] = true
		return true, "package-level variable " + a.Name() + " (S-GLOBAL: never reassigned)"
	case *ssa.IndexAddr:
		if ok, why := e.elemsNonNil(a.X, at, depth+1); ok {
			return true, why
		} else {
			return false, "element loaded from a slice/array: " + why
		}
	}
	if c := cellOf(ld.X); c != nil && !cellEscapes(c) {
		home := c.Parent()
		if ld.Parent() == home {
			if zeroReaches(home, c, ld) && len(cellStores(c)) > 0 {
				return false, "variable " + c.Comment + " may still be nil here"
			}
		}
		if ld.Parent() != home {
			// captured variable used inside a closure: flow analysis within the closure
			if e.cellFlowNonNil(c, ld, depth) {
				return true, "captured variable " + c.Comment + " is assigned non-nil or tested on every path to this use inside the closure"
			}
		}
		vals, ok := w.cellReaching(ld)
		if !ok {
			return false, "untracked variable"
		}
		if len(vals) == 0 {
			return false, "variable " + c.Comment + " is never assigned"
		}
		// each reaching store is judged where it happens
		for _, st := range cellStores(c) {
			isReaching := false
			for _, v := range vals {
				if v == st.Val {
					isReaching = true
				}
			}
			if !isReaching {
				continue
			}
			if ok, why := e.nonNil(st.Val, st, depth+1); !ok {
				return false, fmt.Sprintf("variable %s may hold %s (assigned at %s)", c.Comment, why, w.instrPos(st))
			}
		}
		return true, "every assignment reaching this use is non-nil"
	}
	return false, "load through " + ld.X.Name()
}

// fieldNonNil: load of X.f.
func (e *nilEngine) fieldNonNil(fa *ssa.FieldAddr, ld *ssa.UnOp, at ssa.Instruction, depth int) (bool, string) {
	w := e.w
	st := structOfAddr(fa)
	fld := fieldOfAddr(fa)
	if st == nil {
		return false, "field of an anonymous struct"
	}
	key := st.Obj().Name() + "." + fld.Name()
	// state fields (written by run-time code): flow analysis in the using function
	writtenAtRunTime := false
	for _, fn := range w.AllFuncs {
		if !w.RunTime[fn] {
			continue
		}
		eachInstr(fn, false, func(_ *ssa.Function, in ssa.Instruction) {
			if s, ok := in.(*ssa.Store); ok {
				if f2, ok := s.Addr.(*ssa.FieldAddr); ok && structOfAddr(f2) == st && fieldOfAddr(f2) == fld && !isFreshAlloc(f2.X) {
					writtenAtRunTime = true
				}
			}
		})
	}
	if writtenAtRunTime {
		if it, _, ni, err := w.iterStruct(); err == nil && st == it && fa.Field == ni {
			e.assume["the navigator handed to Expr.Select/Evaluate is non-nil (passing nil is API misuse)"] = true
			return true, "the iterator's node: the caller's navigator or a Copy() of a reported node"
		}
		if e.allStoresNonNil(st, fld, depth) {
			return true, "field " + key + " only ever receives non-nil values"
		}
		if ok, why := e.stateFieldNonNil(fa, ld, at, depth); ok {
			return true, why
		}
		// relational invariant established by S-RESET: the field is (re)initialised in Select
		// under the zero test of a guard field, and every other use happens while the guard is non-zero
		if qt := w.census.ByType[st]; qt != nil {
			sel := qt.Methods[w.selectMethod()]
			ev := qt.Methods[w.evaluateMethod()]
			if sel != nil && ev != nil {
				if ok, how := w.guardReset(qt, sel, fld.Name(), w.mustResetFields(ev, 0)); ok {
					if ok2, _ := e.initStoresNonNil(sel, fld, depth); ok2 {
						return true, "state field " + fld.Name() + " is " + how + "; the re-initialising store is non-nil, and the guard is zero in every clone"
					}
				}
			}
		}
		return false, "state field " + fld.Name() + " may be nil here"
	}
	switch e.fieldMemo[key] {
	case 1, 2:
		return true, "configuration field " + key + " is non-nil in every literal"
	case 3:
		return false, "configuration field " + key + " is nil in some literal"
	}
	e.fieldMemo[key] = 1
	// literal census + build-time mutation stores
	n := 0
	for _, fn := range w.AllFuncs {
		for _, b := range fn.Blocks {
			for _, in := range b.Instrs {
				a, ok := in.(*ssa.Alloc)
				if !ok {
					continue
				}
				pt, ok := a.Type().(*types.Pointer)
				if !ok || pt.Elem() != types.Type(st) {
					continue
				}
				if isLocalValueStruct(a) {
					continue
				}
				n++
				var stored ssa.Value
				var storeIn ssa.Instruction
				for _, u := range uses(a) {
					if f2, ok := u.(*ssa.FieldAddr); ok && fieldOfAddr(f2) == fld {
						for _, uu := range uses(f2) {
							if s, ok := uu.(*ssa.Store); ok && s.Addr == ssa.Value(f2) {
								stored, storeIn = s.Val, s
							}
						}
					}
				}
				if stored == nil {
					e.fieldMemo[key] = 3
					return false, fmt.Sprintf("field %s is left nil by the literal at %s", key, w.instrPos(a))
				}
				if ok, why := e.nonNil(stored, storeIn, depth+1); !ok {
					e.fieldMemo[key] = 3
					return false, fmt.Sprintf("field %s receives a possibly nil value at %s: %s", key, w.instrPos(storeIn), why)
				}
			}
		}
	}
	// mutation stores outside literals (build time)
	for _, fn := range w.AllFuncs {
		for _, b := range fn.Blocks {
			for _, in := range b.Instrs {
				s, ok := in.(*ssa.Store)
				if !ok {
					continue
				}
				f2, ok := s.Addr.(*ssa.FieldAddr)
				if !ok || structOfAddr(f2) != st || fieldOfAddr(f2) != fld || isFreshAlloc(f2.X) {
					continue
				}
				if ok, why := e.nonNil(s.Val, s, depth+1); !ok {
					e.fieldMemo[key] = 3
					return false, fmt.Sprintf("field %s is assigned a possibly nil value at %s: %s", key, w.instrPos(s), why)
				}
			}
		}
	}
	if n == 0 {
		e.fieldMemo[key] = 3
		return false, "no literal of " + st.Obj().Name() + " found"
	}
	e.fieldMemo[key] = 2
	return true, "configuration field " + key + " is non-nil in every literal"
}

// isLocalValueStruct: an Alloc used as a by-value temporary (not a heap literal
// whose address escapes) is still a literal for our purposes.
func isLocalValueStruct(a *ssa.Alloc) bool { return false }

// stateFieldNonNil: flow analysis inside the using function: the field is
// known non-nil after a store of a non-nil value or on the non-nil edge of a
// test, until a store of a possibly nil value or a call of another method on
// the same object.
func (e *nilEngine) stateFieldNonNil(fa *ssa.FieldAddr, ld *ssa.UnOp, at ssa.Instruction, depth int) (bool, string) {
	fn := ld.Parent()
	fld := fieldOfAddr(fa)
	isFieldAddr := func(v ssa.Value) bool {
		f2, ok := v.(*ssa.FieldAddr)
		return ok && fieldOfAddr(f2) == fld && e.sameBase(f2.X, fa.X)
	}
	n := len(fn.Blocks)
	in := make([]bool, n)
	out := make([]bool, n)
	for i := range out {
		out[i] = true
		in[i] = true
	}
	in[0] = false
	var target ssa.Instruction = ld
	resultAt := false
	transfer := func(b *ssa.BasicBlock, s bool, record bool) bool {
		for _, ins := range b.Instrs {
			if record && ins == target {
				resultAt = s
			}
			switch x := ins.(type) {
			case *ssa.Store:
				if isFieldAddr(x.Addr) {
					ok, _ := e.nonNil(x.Val, x, depth+1)
					s = ok
				}
			case ssa.CallInstruction:
				cc := x.Common()
				if callee := cc.StaticCallee(); callee != nil && e.w.inPkg(callee) && callee.Signature.Recv() != nil && len(cc.Args) > 0 && e.sameBase(cc.Args[0], fa.X) {
					// a method of the same object may reset the field
					if writesField(callee, fld) {
						s = false
					}
				}
			}
		}
		return s
	}
	edgeRefine := func(p, b *ssa.BasicBlock, s bool) bool {
		ifi := blockIf(p)
		if ifi == nil || p.Succs[0] == p.Succs[1] {
			return s
		}
		cmp, neg := decodeCond(ifi.Cond)
		if cmp == nil || cmp.Op != token.EQL && cmp.Op != token.NEQ {
			return s
		}
		var other ssa.Value
		if isNilConst(cmp.Y) {
			other = cmp.X
		} else if isNilConst(cmp.X) {
			other = cmp.Y
		} else {
			return s
		}
		l2, ok := other.(*ssa.UnOp)
		if !ok || !isFieldAddr(l2.X) {
			return s
		}
		ne := cmp.Op == token.NEQ
		if neg {
			ne = !ne
		}
		nonNilSucc := p.Succs[1]
		if ne {
			nonNilSucc = p.Succs[0]
		}
		if b == nonNilSucc {
			return true
		}
		return false
	}
	changed := true
	for iter := 0; changed && iter < 50; iter++ {
		changed = false
		for i, b := range fn.Blocks {
			s := true
			if i == 0 {
				s = false
			} else {
				if len(b.Preds) == 0 {
					continue
				}
				for _, p := range b.Preds {
					s = s && edgeRefine(p, b, out[p.Index])
				}
			}
			in[i] = s
			o := transfer(b, s, false)
			if o != out[i] {
				out[i] = o
				changed = true
			}
		}
	}
	transfer(ld.Block(), in[ld.Block().Index], true)
	if resultAt {
		return true, "state field " + fld.Name() + " was assigned a non-nil value or tested non-nil on every path to this use"
	}
	return false, "state field " + fld.Name() + " may be nil here"
}

func writesField(fn *ssa.Function, fld *types.Var) bool {
	found := false
	eachInstr(fn, true, func(_ *ssa.Function, in ssa.Instruction) {
		if s, ok := in.(*ssa.Store); ok {
			if f2, ok := s.Addr.(*ssa.FieldAddr); ok && fieldOfAddr(f2) == fld {
				found = true
			}
		}
	})
	return found
}

func (e *nilEngine) paramNonNil(p *ssa.Parameter, depth int) (bool, string) {
	w := e.w
	fn := p.Parent()
	if p == recvOf(fn) && fn.Parent() == nil {
		e.assume["methods are invoked on non-nil receivers (exported ones by the caller's contract)"] = true
		return true, "receiver"
	}
	if it, ok := p.Type().Underlying().(*types.Interface); ok && it.NumMethods() == 1 && it.Method(0).Name() == "Current" {
		return true, "the evaluation's iterator (constructed non-nil at both entry points)"
	}
	switch e.paramMemo[p] {
	case 1, 2:
		return true, "parameter " + p.Name() + " is non-nil at every call site"
	case 3:
		return false, "parameter " + p.Name() + " may be nil at a call site"
	}
	e.paramMemo[p] = 1
	idx := -1
	for i, q := range fn.Params {
		if q == p {
			idx = i
		}
	}
	n := w.CG.Nodes[fn]
	if n == nil || len(n.In) == 0 {
		e.paramMemo[p] = 3
		return false, "parameter " + p.Name() + " of " + fnName(fn) + " with unknown callers"
	}
	if fn.Object() != nil && fn.Object().Exported() && fn.Signature.Recv() == nil {
		e.assume["clients pass non-nil values to the exported constructors (NewLoadingCache)"] = true
	}
	for _, ed := range n.In {
		if !w.inPkg(ed.Caller.Func) {
			continue
		}
		args := ed.Site.Common().Args
		off := 0
		if ed.Site.Common().IsInvoke() {
			off = -1 // receiver is not in Args for invoke
		}
		i := idx + off
		if i < 0 || i >= len(args) {
			e.paramMemo[p] = 3
			return false, "cannot match argument at " + w.instrPos(ed.Site)
		}
		if ok, why := e.nonNil(args[i], ed.Site, depth+1); !ok {
			e.paramMemo[p] = 3
			return false, fmt.Sprintf("parameter %s of %s may be nil: at %s it receives %s", p.Name(), fnName(fn), w.instrPos(ed.Site), why)
		}
	}
	e.paramMemo[p] = 2
	return true, "parameter " + p.Name() + " is non-nil at every call site"
}

// nilOnEdge: the current phi edge is the nil outcome of a test of v.
func (e *nilEngine) nilOnEdge(v ssa.Value) bool {
	if e.edge == nil {
		return false
	}
	p, b := e.edge[0], e.edge[1]
	ifi := blockIf(p)
	if ifi == nil {
		// the edge leaves an unconditional block: look at what dominates it
		return e.w.underNilTest(v, p)
	}
	cmp, neg := decodeCond(ifi.Cond)
	if cmp == nil {
		return false
	}
	var other ssa.Value
	if isNilConst(cmp.Y) {
		other = cmp.X
	} else if isNilConst(cmp.X) {
		other = cmp.Y
	} else {
		return false
	}
	if !sameValue(other, v) {
		return e.w.underNilTest(v, p)
	}
	eq := cmp.Op == token.EQL
	if neg {
		eq = !eq
	}
	if eq {
		return p.Succs[0] == b
	}
	return p.Succs[1] == b
}

// xTotalHolds: builder function f never returns (nil, nil) (rule X-TOTAL).
func (e *nilEngine) xTotalHolds(f *ssa.Function) bool {
	switch e.xtotal[f] {
	case 1:
		return true
	case 2:
		return false
	}
	res := f.Signature.Results()
	if res.Len() != 2 || !isErrorType(res.At(1).Type()) {
		e.xtotal[f] = 2
		return false
	}
	e.xtotal[f] = 1
	ok := len(e.w.xTotalNils(f)) == 0
	if !ok {
		e.xtotal[f] = 2
	}
	return ok
}

// allStoresNonNil: every literal sets the field non-nil and every later store is non-nil.
func (e *nilEngine) allStoresNonNil(st *types.Named, fld *types.Var, depth int) bool {
	w := e.w
	key := "all:" + st.Obj().Name() + "." + fld.Name()
	switch e.fieldMemo[key] {
	case 1, 2:
		return true
	case 3:
		return false
	}
	e.fieldMemo[key] = 1
	for _, fn := range w.AllFuncs {
		for _, b := range fn.Blocks {
			for _, in := range b.Instrs {
				switch x := in.(type) {
				case *ssa.Alloc:
					pt, ok := x.Type().(*types.Pointer)
					if !ok || pt.Elem() != types.Type(st) {
						continue
					}
					set := false
					for _, u := range uses(x) {
						if f2, ok := u.(*ssa.FieldAddr); ok && fieldOfAddr(f2) == fld {
							for _, uu := range uses(f2) {
								if s, ok := uu.(*ssa.Store); ok && s.Addr == ssa.Value(f2) {
									set = true
								}
							}
						}
					}
					if !set {
						e.fieldMemo[key] = 3
						return false
					}
				case *ssa.Store:
					f2, ok := x.Addr.(*ssa.FieldAddr)
					if !ok || structOfAddr(f2) != st || fieldOfAddr(f2) != fld {
						continue
					}
					if ok, _ := e.nonNil(x.Val, x, depth+1); !ok {
						e.fieldMemo[key] = 3
						return false
					}
				}
			}
		}
	}
	e.fieldMemo[key] = 2
	return true
}

// initStoresNonNil: the stores into recv.fld made by fn are all non-nil.
func (e *nilEngine) initStoresNonNil(fn *ssa.Function, fld *types.Var, depth int) (bool, string) {
	ok := true
	n := 0
	eachInstr(fn, false, func(_ *ssa.Function, in ssa.Instruction) {
		st, isS := in.(*ssa.Store)
		if !isS {
			return
		}
		if f, isF := recvFieldAddr(st.Addr); isF && f == fld {
			n++
			if o, _ := e.nonNil(st.Val, st, depth+1); !o {
				ok = false
			}
		}
	})
	return ok && n > 0, ""
}

// elemsNonNil: every element of the slice/array value v is non-nil.
func (e *nilEngine) elemsNonNil(v ssa.Value, at ssa.Instruction, depth int) (bool, string) {
	w := e.w
	if depth > 16 {
		return false, "too deep"
	}
	v = strip(v)
	switch x := v.(type) {
	case *ssa.Const:
		return true, "nil/empty slice"
	case *ssa.UnOp:
		if x.Op != token.MUL {
			break
		}
		// the comparison table: A-CELLS(2)
		if ia, ok := x.X.(*ssa.IndexAddr); ok {
			return e.elemsNonNil(ia.X, at, depth+1)
		}
		if g, ok := x.X.(*ssa.Global); ok {
			if tab := w.comparisonTable(); tab != nil && tab.Var.Name() == g.Name() {
				for _, row := range tab.Cells {
					for _, c := range row {
						if c == nil {
							return false, "the comparison table has a nil cell (A-CELLS)"
						}
					}
				}
				return true, "cell of the comparison table, which has no nil cell (A-CELLS)"
			}
			return false, "elements of package variable " + g.Name()
		}
		if c := cellOf(x.X); c != nil && !cellEscapes(c) {
			for _, st := range cellStores(c) {
				if ok, why := e.elemsNonNil(st.Val, st, depth+1); !ok {
					return false, why
				}
			}
			return true, "every slice assigned to " + c.Comment + " has non-nil elements"
		}
	case *ssa.Phi:
		if e.elemVisit == nil {
			e.elemVisit = map[ssa.Value]bool{}
		}
		if e.elemVisit[x] {
			return true, "cycle"
		}
		e.elemVisit[x] = true
		defer delete(e.elemVisit, x)
		for _, ed := range x.Edges {
			if ok, why := e.elemsNonNil(ed, at, depth+1); !ok {
				return false, why
			}
		}
		return true, "all incoming slices have non-nil elements"
	case *ssa.Slice:
		return e.elemsNonNil(x.X, at, depth+1)
	case *ssa.ChangeType:
		return e.elemsNonNil(x.X, at, depth+1)
	case *ssa.MakeSlice:
		// make(T, 0, n): no element is accessible until it has been appended
		if k, ok := constInt(x.Len); ok && k == 0 {
			return true, "make with length 0: every element is one that was appended"
		}
		return false, "make with a non-zero length leaves zero-valued (nil) elements"
	case *ssa.Alloc:
		// array literal: every store into an element
		for _, u := range uses(x) {
			if ia, ok := u.(*ssa.IndexAddr); ok {
				for _, uu := range uses(ia) {
					if st, ok := uu.(*ssa.Store); ok && st.Addr == ssa.Value(ia) {
						if ok, why := e.nonNil(st.Val, st, depth+1); !ok {
							return false, why
						}
					}
				}
			}
		}
		return true, "array literal with non-nil elements"
	case *ssa.Call:
		if b, ok := x.Call.Value.(*ssa.Builtin); ok && b.Name() == "append" {
			for _, a := range x.Call.Args {
				if ok, why := e.elemsNonNil(a, x, depth+1); !ok {
					return false, why
				}
			}
			return true, "append of non-nil elements"
		}
	case *ssa.Parameter:
		fn := x.Parent()
		idx := -1
		for i, q := range fn.Params {
			if q == x {
				idx = i
			}
		}
		n := w.CG.Nodes[fn]
		if n == nil || len(n.In) == 0 {
			return false, "slice parameter with unknown callers"
		}
		for _, ed := range n.In {
			args := ed.Site.Common().Args
			if idx >= len(args) {
				return false, "argument mismatch"
			}
			// the call made by a bound-method wrapper (a method value x.m): what the
			// method value was made of
			if fv, isFV := strip(args[idx]).(*ssa.FreeVar); isFV && strings.HasPrefix(fv.Parent().Synthetic, "bound method wrapper") {
				found := false
				for _, f2 := range w.AllFuncs {
					var bad string
					eachInstr(f2, false, func(_ *ssa.Function, in ssa.Instruction) {
						mc, ok := in.(*ssa.MakeClosure)
						if !ok || mc.Fn != ssa.Value(fv.Parent()) || len(mc.Bindings) == 0 {
							return
						}
						found = true
						if ok, why := e.elemsNonNil(mc.Bindings[0], in, depth+1); !ok {
							bad = why
						}
					})
					if bad != "" {
						return false, bad
					}
				}
				if !found {
					return false, "method value of unknown origin"
				}
				continue
			}
			if ok, why := e.elemsNonNil(args[idx], ed.Site, depth+1); !ok {
				return false, why
			}
		}
		return true, "non-nil elements at every call site"
	}
	return false, fmt.Sprintf("elements of %s", v.Name())
}

// cellFlowNonNil: inside closure fn, the captured cell c is non-nil at ld on
// every path from the closure's entry (after a non-nil store or the non-nil
// edge of a test).
func (e *nilEngine) cellFlowNonNil(c *ssa.Alloc, ld *ssa.UnOp, depth int) bool {
	fn := ld.Parent()
	isLoc := func(v ssa.Value) bool { return cellOf(v) == c }
	n := len(fn.Blocks)
	in := make([]bool, n)
	out := make([]bool, n)
	for i := range out {
		out[i], in[i] = true, true
	}
	in[0] = false
	transfer := func(b *ssa.BasicBlock, s bool, target ssa.Instruction) (bool, bool) {
		at := false
		for _, ins := range b.Instrs {
			if ins == target {
				at = s
			}
			if st, ok := ins.(*ssa.Store); ok && isLoc(st.Addr) {
				o, _ := e.nonNil(st.Val, st, depth+1)
				s = o
			}
		}
		return s, at
	}
	refine := func(p, b *ssa.BasicBlock, s bool) bool {
		ifi := blockIf(p)
		if ifi == nil || p.Succs[0] == p.Succs[1] {
			return s
		}
		cmp, neg := decodeCond(ifi.Cond)
		if cmp == nil || cmp.Op != token.EQL && cmp.Op != token.NEQ {
			return s
		}
		var other ssa.Value
		if isNilConst(cmp.Y) {
			other = cmp.X
		} else if isNilConst(cmp.X) {
			other = cmp.Y
		} else {
			return s
		}
		l2, ok := other.(*ssa.UnOp)
		if !ok || !isLoc(l2.X) {
			return s
		}
		ne := cmp.Op == token.NEQ
		if neg {
			ne = !ne
		}
		nn := p.Succs[1]
		if ne {
			nn = p.Succs[0]
		}
		return b == nn
	}
	changed := true
	for iter := 0; changed && iter < 50; iter++ {
		changed = false
		for i, b := range fn.Blocks {
			s := true
			if i == 0 {
				s = false
			} else {
				if len(b.Preds) == 0 {
					continue
				}
				for _, p := range b.Preds {
					s = s && refine(p, b, out[p.Index])
				}
			}
			in[i] = s
			o, _ := transfer(b, s, nil)
			if o != out[i] {
				out[i] = o
				changed = true
			}
		}
	}
	_, at := transfer(ld.Block(), in[ld.Block().Index], ld)
	return at
}

// lookupFoundEdge: blk is dominated by the edge on which the comma-ok lookup found its key.
func (w *World) lookupFoundEdge(lk *ssa.Lookup, blk *ssa.BasicBlock) bool {
	for _, u := range uses(lk) {
		ex, ok := u.(*ssa.Extract)
		if !ok || ex.Index != 1 {
			continue
		}
		for _, uu := range uses(ex) {
			neg := false
			var cur ssa.Value = ex
			for {
				if un, ok := uu.(*ssa.UnOp); ok && un.Op == token.NOT {
					neg = !neg
					cur = un
					us := uses(un)
					if len(us) != 1 {
						break
					}
					uu = us[0]
					continue
				}
				break
			}
			ifi, ok := uu.(*ssa.If)
			if !ok || ifi.Cond != cur {
				continue
			}
			t := ifi.Block().Succs[0]
			if neg {
				t = ifi.Block().Succs[1]
			}
			if len(t.Preds) == 1 && (t == blk || t.Dominates(blk)) {
				return true
			}
		}
	}
	return false
}

// roTableValuesNonNil: m is a load of a package-level map that nothing writes
// after initialisation and whose initial entries are all function values (or
// other non-nil values).
func (w *World) roTableValuesNonNil(m ssa.Value) (bool, string) {
	ld, ok := m.(*ssa.UnOp)
	if !ok || ld.Op != token.MUL {
		return false, ""
	}
	g, ok := ld.X.(*ssa.Global)
	if !ok || !w.readOnlyGlobal(g) {
		return false, ""
	}
	st := w.initState()
	gobj, ok := st.globals[g]
	if !ok {
		return false, ""
	}
	mv := st.obj(gobj).Fields[0]
	if mv.Kind != avPtr {
		return false, ""
	}
	mo := st.obj(mv.Obj)
	if !mo.IsMap || mo.Opaque || len(mo.Map) == 0 {
		return false, ""
	}
	for _, v := range mo.Map {
		if v.Kind != avFunc && v.Kind != avPtr {
			return false, ""
		}
	}
	return true, fmt.Sprintf("entry of the package-level table %s (never written after initialisation; all %d entries non-nil), used on the found edge", g.Name(), len(mo.Map))
}

// structFieldOrigins: everything the package ever stores into field idx of a
// value of the (package-level, struct) type T, and whether some value of T can
// have the field at its zero value (an allocation of T that never sets it).
func (w *World) structFieldOrigins(T *types.Named, idx int) (vals []ssa.Value, zeroPossible bool) {
	if _, ok := T.Underlying().(*types.Struct); !ok {
		return nil, true
	}
	for _, fn := range w.AllFuncs {
		for _, b := range fn.Blocks {
			for _, in := range b.Instrs {
				switch x := in.(type) {
				case *ssa.Store:
					if fa, ok := x.Addr.(*ssa.FieldAddr); ok && fa.Field == idx && structOfAddr(fa) == T {
						vals = append(vals, x.Val)
					}
				case *ssa.Alloc:
					pt, ok := x.Type().(*types.Pointer)
					if !ok || pt.Elem() != types.Type(T) {
						continue
					}
					// a struct variable: either it receives a whole value (copied from
					// elsewhere) or each field it sets; if neither for this field, zero
					set := false
					for _, u := range uses(x) {
						switch y := u.(type) {
						case *ssa.FieldAddr:
							if y.Field == idx {
								for _, uu := range uses(y) {
									if st, ok := uu.(*ssa.Store); ok && st.Addr == ssa.Value(y) {
										set = true
									}
								}
							}
						case *ssa.Store:
							if y.Addr == ssa.Value(x) {
								set = true // a whole value assigned
							}
						}
					}
					if !set {
						zeroPossible = true
					}
				}
			}
		}
	}
	return vals, zeroPossible
}

// trueEdgeDominates: blk is dominated by the edge on which the boolean v is
// true (through any number of negations of v in the branch condition).
func trueEdgeDominates(v ssa.Value, blk *ssa.BasicBlock) bool {
	for _, uu := range uses(v) {
		neg := false
		cur := v
		for {
			if un, ok := uu.(*ssa.UnOp); ok && un.Op == token.NOT {
				neg = !neg
				cur = un
				us := uses(un)
				if len(us) != 1 {
					break
				}
				uu = us[0]
				continue
			}
			break
		}
		ifi, ok := uu.(*ssa.If)
		if !ok || ifi.Cond != cur {
			continue
		}
		t := ifi.Block().Succs[0]
		if neg {
			t = ifi.Block().Succs[1]
		}
		if len(t.Preds) == 1 && (t == blk || t.Dominates(blk)) {
			return true
		}
	}
	return false
}

// stickyErrorGuard: the result of a method that records its failure in an error
// field of its receiver instead of returning it (the arguments of a call built
// one after the other, the first error kept). The result is non-nil at `at`
// when
//   - the field is sticky: every assignment to it in the package stores a value
//     that is non-nil by construction, so it never goes back to nil;
//   - every return of the method that can yield nil happens with the field
//     non-nil (under a test of it, or after such an assignment);
//   - between the call and `at` the caller has tested that very field of that
//     very receiver and `at` is on the nil side.
func (e *nilEngine) stickyErrorGuard(f *ssa.Function, c *ssa.Call, at ssa.Instruction, depth int) (bool, string) {
	w := e.w
	if f.Signature.Recv() == nil || len(f.Params) == 0 || len(c.Call.Args) == 0 || at.Parent() != c.Parent() || depth > 8 {
		return false, ""
	}
	T, ok := derefNamed(f.Signature.Recv().Type())
	if !ok {
		return false, ""
	}
	st, ok := T.Underlying().(*types.Struct)
	if !ok {
		return false, ""
	}
	recvArg := c.Call.Args[0]
	isErrField := func(fa *ssa.FieldAddr, k int) bool {
		return fa.Field == k && structOfAddr(fa) == T
	}
	for k := 0; k < st.NumFields(); k++ {
		if !types.Identical(st.Field(k).Type(), types.Universe.Lookup("error").Type()) {
			continue
		}
		// sticky
		sticky, nstores := true, 0
		for _, fn := range w.AllFuncs {
			eachInstr(fn, false, func(_ *ssa.Function, in ssa.Instruction) {
				if s, ok := in.(*ssa.Store); ok {
					if fa, ok := s.Addr.(*ssa.FieldAddr); ok && isErrField(fa, k) {
						nstores++
						if !w.nonNilByConstruction(s.Val, s.Block()) {
							sticky = false
						}
					}
				}
			})
		}
		if !sticky || nstores == 0 {
			continue
		}
		// a test of recv.field against nil: (block, successor taken when non-nil, when nil)
		type fieldTest struct{ blk, nonNil, isNil *ssa.BasicBlock }
		testsOf := func(fn *ssa.Function, base ssa.Value) []fieldTest {
			var out []fieldTest
			for _, b := range fn.Blocks {
				ifi := blockIf(b)
				if ifi == nil {
					continue
				}
				cmp, neg := decodeCond(ifi.Cond)
				if cmp == nil || cmp.Op != token.NEQ && cmp.Op != token.EQL {
					continue
				}
				var other ssa.Value
				if isNilConst(cmp.Y) {
					other = cmp.X
				} else if isNilConst(cmp.X) {
					other = cmp.Y
				} else {
					continue
				}
				ld, ok := strip(other).(*ssa.UnOp)
				if !ok || ld.Op != token.MUL {
					continue
				}
				fa, ok := ld.X.(*ssa.FieldAddr)
				if !ok || !isErrField(fa, k) || fa.X != base {
					continue
				}
				ne := cmp.Op == token.NEQ
				if neg {
					ne = !ne
				}
				t := fieldTest{blk: b, nonNil: b.Succs[1], isNil: b.Succs[0]}
				if ne {
					t.nonNil, t.isNil = b.Succs[0], b.Succs[1]
				}
				out = append(out, t)
			}
			return out
		}
		// the method: nil only with the field set
		okMethod := true
		recv := ssa.Value(f.Params[0])
		mtests := testsOf(f, recv)
		for _, b := range f.Blocks {
			ret, isRet := normalReturn(b)
			if !isRet || len(ret.Results) == 0 {
				continue
			}
			if ok, _ := e.nonNil(retVal(ret, 0), ret, depth+1); ok {
				continue
			}
			set := false
			for _, t := range mtests {
				if len(t.nonNil.Preds) == 1 && (t.nonNil == b || t.nonNil.Dominates(b)) {
					set = true
				}
			}
			for _, d := range f.Blocks {
				if d != b && !d.Dominates(b) {
					continue
				}
				for _, in := range d.Instrs {
					if s, ok := in.(*ssa.Store); ok {
						if fa, ok := s.Addr.(*ssa.FieldAddr); ok && isErrField(fa, k) && fa.X == recv {
							set = true // non-nil by construction (sticky)
						}
					}
				}
			}
			if !set {
				okMethod = false
			}
		}
		if !okMethod {
			continue
		}
		// the caller: tested after the call, `at` on the nil side; the receiver
		// is not overwritten as a whole
		caller := c.Parent()
		whole := false
		eachInstr(caller, false, func(_ *ssa.Function, in ssa.Instruction) {
			if s, ok := in.(*ssa.Store); ok && s.Addr == recvArg && !(s.Block() != c.Block() && s.Block().Dominates(c.Block())) {
				whole = true
			}
		})
		if whole {
			continue
		}
		for _, t := range testsOf(caller, recvArg) {
			if !(t.blk == c.Block() || c.Block().Dominates(t.blk)) {
				continue
			}
			if len(t.isNil.Preds) == 1 && (t.isNil == at.Block() || t.isNil.Dominates(at.Block())) {
				return true, fmt.Sprintf("result of %s, which yields nil only after recording an error in %s.%s; that field never goes back to nil and was tested nil after the call (at %s)", f.Name(), T.Obj().Name(), st.Field(k).Name(), w.instrPos(t.blk.Instrs[len(t.blk.Instrs)-1]))
			}
		}
	}
	return false, ""
}
