package main

// Anchors of the scanner/parser found structurally (by types and shapes, not
// by identifier spelling).

import (
	"fmt"
	"go/ast"
	"go/constant"
	"go/token"
	"go/types"
	"sort"
	"strings"
	"unicode"

	"golang.org/x/tools/go/ssa"
)

type Grammar struct {
	ScannerT  *types.Named
	ParserT   *types.Named
	TokT      *types.Named // itemType
	TokField  *types.Var   // scanner.typ
	CurrField *types.Var   // scanner.curr (rune)
	NameField *types.Var   // scanner.name: the string field newOperatorNode may receive
	NodeT     *types.Named // the AST node interface
	TokNames  map[int64]string

	NextChar     *ssa.Function
	NextItem     *ssa.Function
	NextItemDecl *ast.FuncDecl
	TestOp       *ssa.Function // (*scanner, string) bool
	NewOp        *ssa.Function // (string, node, node) node
	NewAxis      *ssa.Function
	NewOperand   *ssa.Function
	EntryLevel   *ssa.Function // parseExpression's callee

	// token tables
	TextTok map[string]int64 // source text -> token constant
}

func (w *World) grammar() (*Grammar, error) {
	g := &Grammar{TokNames: map[int64]string{}, TextTok: map[string]int64{}}
	prim, _ := w.primitiveConsumer()
	if prim == nil {
		return nil, fmt.Errorf("anchor: scanner primitive not found")
	}
	g.NextChar = prim
	g.ScannerT = prim.Signature.Recv().Type().(*types.Pointer).Elem().(*types.Named)
	sst := g.ScannerT.Underlying().(*types.Struct)
	for i := 0; i < sst.NumFields(); i++ {
		f := sst.Field(i)
		if n, ok := f.Type().(*types.Named); ok && n.Obj().Pkg() == w.Types {
			if b, ok := n.Underlying().(*types.Basic); ok && b.Info()&types.IsInteger != 0 {
				g.TokT, g.TokField = n, f
			}
		}
		if b, ok := f.Type().(*types.Basic); ok && b.Kind() == types.Int32 {
			g.CurrField = f
		}
	}
	if g.TokT == nil || g.CurrField == nil {
		return nil, fmt.Errorf("anchor: scanner token-type or current-rune field not found")
	}
	// constants of the token type
	scope := w.Types.Scope()
	for _, n := range scope.Names() {
		if c, ok := scope.Lookup(n).(*types.Const); ok && types.Identical(c.Type(), g.TokT) {
			if v, ok := constant.Int64Val(c.Val()); ok {
				g.TokNames[v] = n
			}
		}
	}
	// parser type: struct with a *scanner field
	for _, n := range scope.Names() {
		tn, ok := scope.Lookup(n).(*types.TypeName)
		if !ok {
			continue
		}
		named, _ := tn.Type().(*types.Named)
		if named == nil {
			continue
		}
		st, ok := named.Underlying().(*types.Struct)
		if !ok {
			continue
		}
		for i := 0; i < st.NumFields(); i++ {
			if p, ok := st.Field(i).Type().(*types.Pointer); ok && types.Identical(p.Elem(), g.ScannerT) {
				g.ParserT = named
			}
		}
	}
	if g.ParserT == nil {
		return nil, fmt.Errorf("anchor: parser type not found")
	}
	// functions by signature
	for _, fn := range w.AllFuncs {
		if fn.Parent() != nil {
			continue
		}
		sig := fn.Signature
		if sig.Recv() == nil && sig.Params().Len() == 2 && sig.Results().Len() == 1 {
			if p, ok := sig.Params().At(0).Type().(*types.Pointer); ok && types.Identical(p.Elem(), g.ScannerT) {
				if b, ok := sig.Params().At(1).Type().(*types.Basic); ok && b.Kind() == types.String {
					if rb, ok := sig.Results().At(0).Type().(*types.Basic); ok && rb.Kind() == types.Bool {
						g.TestOp = fn
					}
				}
			}
		}
		if sig.Recv() == nil && sig.Params().Len() == 3 && sig.Results().Len() == 1 {
			p0, ok0 := sig.Params().At(0).Type().(*types.Basic)
			_, isI1 := sig.Params().At(1).Type().Underlying().(*types.Interface)
			_, isI2 := sig.Params().At(2).Type().Underlying().(*types.Interface)
			if ok0 && p0.Kind() == types.String && isI1 && isI2 && types.Identical(sig.Params().At(1).Type(), sig.Results().At(0).Type()) {
				g.NewOp = fn
				g.NodeT, _ = sig.Results().At(0).Type().(*types.Named)
			}
		}
	}
	if g.TestOp == nil || g.NewOp == nil || g.NodeT == nil {
		return nil, fmt.Errorf("anchor: testOp/newOperatorNode not found")
	}
	// scanner.name: the string field the name-operator recogniser compares
	eachInstr(g.TestOp, false, func(_ *ssa.Function, in ssa.Instruction) {
		if bo, ok := in.(*ssa.BinOp); ok && bo.Op == token.EQL {
			for _, side := range [][2]ssa.Value{{bo.X, bo.Y}, {bo.Y, bo.X}} {
				if p, ok := side[1].(*ssa.Parameter); ok && p == g.TestOp.Params[1] {
					if ld, ok := side[0].(*ssa.UnOp); ok {
						if fa, ok := ld.X.(*ssa.FieldAddr); ok {
							g.NameField = fieldOfAddr(fa)
						}
					}
				}
			}
		}
	})
	if g.NameField == nil {
		return nil, fmt.Errorf("anchor: the name recogniser does not compare the scanner's name with its argument")
	}
	// newAxisNode: package function whose first parameter is a string, second
	// a NodeType, returning node, variadic options
	for _, fn := range w.AllFuncs {
		if fn.Parent() != nil || fn.Signature.Recv() != nil {
			continue
		}
		sig := fn.Signature
		if sig.Results().Len() == 1 && types.Identical(sig.Results().At(0).Type(), g.NodeT) && sig.Params().Len() >= 6 {
			g.NewAxis = fn
		}
		if sig.Results().Len() == 1 && types.Identical(sig.Results().At(0).Type(), g.NodeT) && sig.Params().Len() == 1 {
			if it, ok := sig.Params().At(0).Type().Underlying().(*types.Interface); ok && it.Empty() {
				g.NewOperand = fn
			}
		}
	}
	if g.NewAxis == nil {
		return nil, fmt.Errorf("anchor: newAxisNode not found")
	}
	// nextItem: the scanner method that code outside the scanner calls to get
	// the next token: a method of the scanner type, called statically from a
	// function that is not a scanner method, from which (transitively, staying
	// among scanner methods) the token field is assigned
	isScannerMethod := func(f *ssa.Function) bool {
		return f != nil && f.Signature.Recv() != nil && typeName(f.Signature.Recv().Type()) == g.ScannerT.Obj().Name()
	}
	storesTok := func(f *ssa.Function) bool {
		found := false
		seen := map[*ssa.Function]bool{}
		var visit func(x *ssa.Function)
		visit = func(x *ssa.Function) {
			if seen[x] || found {
				return
			}
			seen[x] = true
			eachInstr(x, false, func(_ *ssa.Function, in ssa.Instruction) {
				if st, ok := in.(*ssa.Store); ok {
					if fa, ok := st.Addr.(*ssa.FieldAddr); ok && fieldOfAddr(fa) == g.TokField {
						found = true
					}
				}
			})
			for _, c := range w.pkgCallees(x) {
				if isScannerMethod(c) {
					visit(c)
				}
			}
		}
		visit(f)
		return found
	}
	for _, fn := range w.AllFuncs {
		if isScannerMethod(fn) {
			continue
		}
		for _, c := range w.pkgCallees(fn) {
			if isScannerMethod(c) && c.Signature.Params().Len() == 0 && storesTok(c) {
				g.NextItem = c
				if obj, ok := c.Object().(*types.Func); ok {
					g.NextItemDecl = w.Decls[obj]
				}
			}
		}
	}
	if g.NextItem == nil {
		return nil, fmt.Errorf("anchor: nextItem (rune switch of the scanner) not found")
	}
	if err := w.scannerTables(g); err != nil {
		return nil, err
	}
	// entry level: the callee of the parser's depth-guard function that takes
	// (parser, node) and returns node, reached from the function that creates
	// the scanner
	for _, fn := range w.AllFuncs {
		if fn.Signature.Recv() == nil || typeName(fn.Signature.Recv().Type()) != g.ParserT.Obj().Name() {
			continue
		}
		if gi := w.depthGuard(fn); gi != nil {
			// (a guard helper that takes the construct to parse as a function value
			// has several such callees: the entry is the head of the longest chain)
			best := 0
			for _, c := range w.pkgCallees(fn) {
				if g.isNodeParser(c) && g.levelShape(w, c) != nil {
					n := 0
					seen := map[*ssa.Function]bool{}
					for f := c; f != nil && !seen[f]; {
						seen[f] = true
						lv := g.levelShape(w, f)
						if lv == nil {
							break
						}
						n++
						f = lv.Operand
					}
					if n > best {
						best = n
						g.EntryLevel = c
					}
				}
			}
		}
	}
	if g.EntryLevel == nil {
		return nil, fmt.Errorf("anchor: entry level of the precedence chain not found")
	}
	return g, nil
}

func (g *Grammar) tokName(v int64) string {
	if n, ok := g.TokNames[v]; ok {
		return n
	}
	return fmt.Sprintf("tok#%d", v)
}

// runeConst evaluates a rune-typed constant expression.
func (w *World) runeConst(e ast.Expr) (rune, bool) {
	tv, ok := w.Info.Types[e]
	if !ok || tv.Value == nil || tv.Value.Kind() != constant.Int {
		return 0, false
	}
	v, ok := constant.Int64Val(tv.Value)
	return rune(v), ok
}

func (w *World) tokConst(g *Grammar, e ast.Expr) (int64, bool) {
	tv, ok := w.Info.Types[e]
	if !ok || tv.Value == nil || !types.Identical(tv.Type, g.TokT) {
		return 0, false
	}
	return constant.Int64Val(tv.Value)
}

// isTokFieldAssign: `recv.typ = X` returns X.
func (w *World) tokAssign(g *Grammar, s ast.Stmt) ast.Expr {
	as, ok := s.(*ast.AssignStmt)
	if !ok || len(as.Lhs) != 1 || len(as.Rhs) != 1 {
		return nil
	}
	sel, ok := as.Lhs[0].(*ast.SelectorExpr)
	if !ok {
		return nil
	}
	if obj, ok := w.Info.Uses[sel.Sel].(*types.Var); ok && obj == g.TokField {
		return as.Rhs[0]
	}
	return nil
}

// runeFuncTable: a package function with one rune parameter whose body is a
// switch on it returning token constants.
func (w *World) runeFuncTable(g *Grammar, call *ast.CallExpr) map[rune]int64 {
	id, ok := call.Fun.(*ast.Ident)
	if !ok {
		return nil
	}
	obj, ok := w.Info.Uses[id].(*types.Func)
	if !ok {
		return nil
	}
	fd := w.Decls[obj]
	if fd == nil {
		return nil
	}
	out := map[rune]int64{}
	ast.Inspect(fd.Body, func(x ast.Node) bool {
		cc, ok := x.(*ast.CaseClause)
		if !ok {
			return true
		}
		for _, st := range cc.Body {
			if rs, ok := st.(*ast.ReturnStmt); ok && len(rs.Results) == 1 {
				if tk, ok := w.tokConst(g, rs.Results[0]); ok {
					for _, l := range cc.List {
						if r, ok := w.runeConst(l); ok {
							out[r] = tk
						}
					}
				}
			}
		}
		return true
	})
	return out
}

// scanOutcome: one path of the scanner's nextItem started with a known
// current character.
type scanOutcome struct {
	Text     string // the characters consumed, '?' for a character not fixed by the path
	Tok      int64  // token constant in the token field at the end (-1: not a known constant)
	Panicked bool
	Cut      bool
	PanicAt  ssa.Instruction
	Colons   int // number of decisions "current character == ':'" taken as true on the path
	St       *AState
	// Spans: for every conversion of a piece of the expression text to a number on
	// the path, the slice bounds handed to it and the number of characters the
	// token had consumed at that moment (positions are relative: the token starts
	// at tokenStart)
	Spans []numSpan
}

type numSpan struct {
	Lo, Hi   int64
	Known    bool // both bounds are constants
	Consumed int64
	At       ssa.Instruction
}

const tokenStart = 100

const consumedField = 100000

// scanFrom propagates "the current character is c" through nextItem (and the
// scanner methods and package functions it calls), the primitive consumer
// being read as "append the current character to the consumed text; the
// current character becomes unknown". Every path yields the consumed text and
// the token constant left in the token field.
func (w *World) scanFrom(g *Grammar, c rune) []scanOutcome { return w.scanFromEOF(g, c, -1) }

// scanFromEOF: as scanFrom, but the input ends after eofAfter further
// characters: from then on the primitive consumer reports failure and the
// current character is NUL (eofAfter < 0: the input never ends).
func (w *World) scanFromEOF(g *Grammar, c rune, eofAfter int) []scanOutcome {
	tabs := w.rangeTables()
	currIdx := fieldIndex(g.ScannerT, g.CurrField)
	tokIdx := fieldIndex(g.ScannerT, g.TokField)
	posIdx, sizeIdx, textIdx := w.scannerPosFields(g)
	hooks := AHooks{}
	hooks.Global = func(st *AState, gl *ssa.Global) *AObj {
		if v, ok := gl.Object().(*types.Var); ok {
			if t, ok := tabs[v]; ok {
				o := st.newObj(gl.Type().(*types.Pointer).Elem(), gl)
				o.Fields[0] = AVal{Kind: avUnknown, Any: t}
				return o
			}
		}
		return nil
	}
	hooks.Call = func(ai *AInterp, st *AState, site ssa.CallInstruction, callee *ssa.Function, args []AVal) (bool, AVal) {
		// a pure character predicate applied to a character the path has not
		// fixed: answered from what the path already decided, otherwise left
		// unknown so that the caller branches on it (and the decision is kept)
		if callee != nil && callee.String() == "unicode.IsSpace" && len(args) == 1 && args[0].Kind == avUnknown {
			if v, ok := args[0].Facts[callee]; ok {
				return true, aBool(v)
			}
			return true, aUnknown(nil)
		}
		if w.isRunePredicate(callee) && len(args) == 1 && args[0].Kind == avUnknown {
			if v, ok := args[0].Facts[callee]; ok {
				return true, aBool(v)
			}
			return true, aUnknown(nil)
		}
		// a piece of the expression text converted to a number: which piece
		if callee != nil && callee.String() == "strconv.ParseFloat" && len(args) >= 1 {
			sp := numSpan{At: site}
			if e := args[0].Expr; e != nil && e.Call == "slice" && len(e.Args) == 3 && e.Args[0].Tag == "text" {
				lo, ok1 := e.Args[1].Int()
				hi, ok2 := e.Args[2].Int()
				if e.Args[1].Kind == avNil {
					lo, ok1 = 0, false
				}
				sp.Lo, sp.Hi, sp.Known = lo, hi, ok1 && ok2
			}
			sp.Consumed = -1
			for _, ob := range st.heap {
				if v, ok := ob.Fields[consumedField]; ok {
					if t, ok := v.Str(); ok {
						sp.Consumed = int64(len(t))
					}
				}
			}
			st.Trace = append(st.Trace, AEvent{Kind: "numspan", Site: site, Args: []AVal{aInt(sp.Lo), aInt(sp.Hi), aBool(sp.Known), aInt(sp.Consumed)}})
			return true, AVal{Kind: avTuple, Tup: []AVal{{Kind: avUnknown, Tag: "number"}, {Kind: avNil}}}
		}
		if callee != g.NextChar || len(args) == 0 || args[0].Kind != avPtr {
			return false, AVal{}
		}
		o := st.obj(args[0].Obj)
		// positions relative to the start of the token (ASCII characters: one byte each)
		if posIdx >= 0 {
			if p, ok := o.Fields[posIdx].Int(); ok {
				o.Fields[posIdx] = aInt(p + 1)
			}
		}
		if sizeIdx >= 0 {
			o.Fields[sizeIdx] = aInt(1)
		}
		text, _ := o.Fields[consumedField].Str()
		if k, ok := o.Fields[currIdx].Int(); ok {
			text += string(rune(k))
		} else {
			sp := false
			for f, v := range o.Fields[currIdx].Facts {
				if f.String() == "unicode.IsSpace" && v {
					sp = true
				}
			}
			if sp {
				text += " "
			} else {
				text += "?"
			}
		}
		o.Fields[consumedField] = aStr(text)
		if eofAfter >= 0 && len(text) > eofAfter {
			o.Fields[currIdx] = aInt(0)
			return true, aBool(false)
		}
		o.Fields[currIdx] = aUnknown(nil)
		return true, aUnknown(nil)
	}
	hooks.Branch = func(ai *AInterp, st *AState, fr *aFrame, cond ssa.Value, taken bool) {
		for {
			u, ok := cond.(*ssa.UnOp)
			if !ok || u.Op != token.NOT {
				break
			}
			cond, taken = u.X, !taken
		}
		c, ok := cond.(*ssa.Call)
		if !ok || c.Call.StaticCallee() == nil || len(c.Call.Args) != 1 {
			return
		}
		if !w.isRunePredicate(c.Call.StaticCallee()) && c.Call.StaticCallee().String() != "unicode.IsSpace" {
			return
		}
		ld, ok := c.Call.Args[0].(*ssa.UnOp)
		if !ok || ld.Op != token.MUL {
			return
		}
		p := fr.get(ai, st, ld.X)
		if p.Kind != avPtr {
			return
		}
		o := st.obj(p.Obj)
		f := p.Field
		if f < 0 {
			f = 0
		}
		cur := o.Fields[f]
		if cur.Kind != avUnknown {
			return
		}
		facts := map[*ssa.Function]bool{}
		for k, v := range cur.Facts {
			facts[k] = v
		}
		facts[c.Call.StaticCallee()] = taken
		cur.Facts = facts
		o.Fields[f] = cur
	}
	ai := w.newInterp(hooks)
	ai.MaxVisits = 2
	st := w.initState()
	sc := st.externObj(g.ScannerT, nil)
	sc.Fields[currIdx] = aInt(int64(c))
	sc.Fields[consumedField] = aStr("")
	if posIdx >= 0 && sizeIdx >= 0 && textIdx >= 0 {
		// the first character of the token has been read: the position is one past it
		sc.Fields[posIdx] = aInt(tokenStart + 1)
		sc.Fields[sizeIdx] = aInt(1)
		sc.Fields[textIdx] = AVal{Kind: avUnknown, Tag: "text"}
	}
	outs := ai.Exec(g.NextItem, []AVal{{Kind: avPtr, Obj: sc, Field: -1}}, nil, st)
	var res []scanOutcome
	for _, o := range outs {
		so := scanOutcome{Tok: -1, Panicked: o.Panicked, Cut: o.Cut, St: o.St}
		obj := o.St.obj(sc)
		so.Text, _ = obj.Fields[consumedField].Str()
		if k, ok := obj.Fields[tokIdx].Int(); ok {
			so.Tok = k
		}
		if o.Panicked {
			so.PanicAt = o.At
		}
		for _, ev := range o.St.Trace {
			if ev.Kind == "numspan" && len(ev.Args) == 4 {
				lo, _ := ev.Args[0].Int()
				hi, _ := ev.Args[1].Int()
				kn, _ := ev.Args[2].Bool()
				cn, _ := ev.Args[3].Int()
				so.Spans = append(so.Spans, numSpan{Lo: lo, Hi: hi, Known: kn, Consumed: cn, At: ev.Site})
			}
			if ev.Kind == "branch" && ev.Taken {
				if ifi, ok := ev.Site.(*ssa.If); ok {
					if bo, ok := ifi.Cond.(*ssa.BinOp); ok && bo.Op == token.EQL {
						if k, ok := constInt(bo.Y); ok && k == ':' && w.isCurrLoad(g, bo.X) {
							so.Colons++
						}
					}
				}
			}
		}
		res = append(res, so)
	}
	return res
}

func (w *World) isCurrLoad(g *Grammar, v ssa.Value) bool {
	ld, ok := v.(*ssa.UnOp)
	if !ok || ld.Op != token.MUL {
		return false
	}
	fa, ok := ld.X.(*ssa.FieldAddr)
	return ok && fieldOfAddr(fa) == g.CurrField
}

// isRunePredicate: a package function func(rune) bool without receiver that
// calls nothing of the package except other such predicates and stores nothing.
func (w *World) isRunePredicate(f *ssa.Function) bool {
	if f == nil || !w.inPkg(f) || f.Parent() != nil || f.Signature.Recv() != nil || len(f.Blocks) == 0 {
		return false
	}
	sig := f.Signature
	if sig.Params().Len() != 1 || sig.Results().Len() != 1 {
		return false
	}
	if b, ok := sig.Params().At(0).Type().Underlying().(*types.Basic); !ok || b.Kind() != types.Int32 {
		return false
	}
	if b, ok := sig.Results().At(0).Type().Underlying().(*types.Basic); !ok || b.Kind() != types.Bool {
		return false
	}
	pure := true
	eachInstr(f, false, func(_ *ssa.Function, in ssa.Instruction) {
		switch x := in.(type) {
		case *ssa.Store:
			// filling a local array (the argument list of a variadic call) is not an effect
			local := false
			switch a := x.Addr.(type) {
			case *ssa.IndexAddr:
				_, local = a.X.(*ssa.Alloc)
			case *ssa.Alloc:
				local = true
			}
			if !local {
				pure = false
			}
		case *ssa.MapUpdate, *ssa.Send, *ssa.Go, *ssa.Defer:
			pure = false
		case ssa.CallInstruction:
			if c := x.Common().StaticCallee(); c != nil && w.inPkg(c) && c != f {
				if !w.isRunePredicate(c) {
					pure = false
				}
			}
		}
	})
	return pure
}

// scannerTables: the token table of the scanner, read off by constant
// propagation: for every ASCII first character, the (consumed text, token)
// pairs of the paths on which every consumed character is fixed.
func (w *World) scannerTables(g *Grammar) error {
	n := 0
	for c := rune(1); c < 128; c++ {
		if unicode.IsSpace(c) {
			continue // skipped before the token proper; G-TOKENS checks that separately
		}
		for _, o := range w.scanFrom(g, c) {
			if o.Cut || o.Text == "" || strings.Contains(o.Text, "?") || len(o.Text) > 2 {
				continue
			}
			punct := true
			for _, ch := range o.Text {
				if ch > 127 || unicode.IsLetter(ch) || unicode.IsDigit(ch) || unicode.IsSpace(ch) || ch == '"' || ch == '\'' {
					punct = false
				}
			}
			if !punct {
				continue // names, numbers and strings are not table tokens
			}
			n++
			if o.Panicked {
				if _, dup := g.TextTok[o.Text]; !dup {
					g.TextTok[o.Text] = -1
				}
				continue
			}
			if o.Tok < 0 {
				continue
			}
			if prev, dup := g.TextTok[o.Text]; dup && prev >= 0 && prev != o.Tok {
				g.TextTok[o.Text] = -2 // two different tokens for one spelling
				continue
			}
			g.TextTok[o.Text] = o.Tok
		}
	}
	if n == 0 {
		return fmt.Errorf("anchor: no token could be read off the scanner (nextItem not interpretable)")
	}
	return nil
}

// ---- RangeTable interpretation (for isName) ----

type rtab []unicode.Range16

func (w *World) rangeTables() map[*types.Var]*unicode.RangeTable {
	out := map[*types.Var]*unicode.RangeTable{}
	for _, f := range w.Pkg.Syntax {
		for _, d := range f.Decls {
			gd, ok := d.(*ast.GenDecl)
			if !ok || gd.Tok != token.VAR {
				continue
			}
			for _, sp := range gd.Specs {
				vs := sp.(*ast.ValueSpec)
				for i, name := range vs.Names {
					if i >= len(vs.Values) {
						continue
					}
					obj, _ := w.Info.Defs[name].(*types.Var)
					if obj == nil {
						continue
					}
					pt, ok := obj.Type().(*types.Pointer)
					if !ok || pt.Elem().String() != "unicode.RangeTable" {
						continue
					}
					rt := &unicode.RangeTable{}
					okAll := true
					ast.Inspect(vs.Values[i], func(x ast.Node) bool {
						cl, ok := x.(*ast.CompositeLit)
						if !ok {
							return true
						}
						tv := w.Info.Types[cl]
						if tv.Type == nil {
							return true
						}
						switch tv.Type.String() {
						case "unicode.Range16":
							var v [3]int64
							for k, e := range cl.Elts {
								if kv, ok := e.(*ast.KeyValueExpr); ok {
									e = kv.Value
								}
								c, ok := w.constIntExpr(e)
								if !ok || k > 2 {
									okAll = false
									continue
								}
								v[k] = c
							}
							rt.R16 = append(rt.R16, unicode.Range16{Lo: uint16(v[0]), Hi: uint16(v[1]), Stride: uint16(v[2])})
							return false
						case "unicode.Range32":
							var v [3]int64
							for k, e := range cl.Elts {
								if kv, ok := e.(*ast.KeyValueExpr); ok {
									e = kv.Value
								}
								c, ok := w.constIntExpr(e)
								if !ok || k > 2 {
									okAll = false
									continue
								}
								v[k] = c
							}
							rt.R32 = append(rt.R32, unicode.Range32{Lo: uint32(v[0]), Hi: uint32(v[1]), Stride: uint32(v[2])})
							return false
						}
						return true
					})
					if okAll {
						out[obj] = rt
					}
				}
			}
		}
	}
	return out
}

// evalRunePred interprets the body `return <bool expr over r>` of a one-rune
// predicate for a concrete rune. Supported: string(r) ==/!= "lit", r ==/!=
// 'c', unicode.Is(table, r), unicode.IsX(r), calls to other such predicates,
// &&, ||, !, parentheses.
func (w *World) evalRunePred(fn *types.Func, r rune, tabs map[*types.Var]*unicode.RangeTable, depth int) (bool, error) {
	fd := w.Decls[fn]
	if fd == nil || fd.Body == nil || len(fd.Body.List) != 1 || depth > 4 {
		return false, fmt.Errorf("predicate %s has no single-return body", fn.Name())
	}
	rs, ok := fd.Body.List[0].(*ast.ReturnStmt)
	if !ok || len(rs.Results) != 1 {
		return false, fmt.Errorf("predicate %s is not a single return", fn.Name())
	}
	param := w.Info.Defs[fd.Type.Params.List[0].Names[0]]
	var ev func(e ast.Expr) (bool, error)
	isParam := func(e ast.Expr) bool {
		id, ok := e.(*ast.Ident)
		return ok && w.Info.Uses[id] == param
	}
	ev = func(e ast.Expr) (bool, error) {
		switch x := e.(type) {
		case *ast.ParenExpr:
			return ev(x.X)
		case *ast.UnaryExpr:
			if x.Op == token.NOT {
				v, err := ev(x.X)
				return !v, err
			}
		case *ast.BinaryExpr:
			switch x.Op {
			case token.LAND:
				a, err := ev(x.X)
				if err != nil || !a {
					return false, err
				}
				return ev(x.Y)
			case token.LOR:
				a, err := ev(x.X)
				if err != nil || a {
					return a, err
				}
				return ev(x.Y)
			case token.EQL, token.NEQ:
				// string(r) op "lit"  |  r op 'c'
				var lit string
				isStr := false
				if call, ok := x.X.(*ast.CallExpr); ok && len(call.Args) == 1 && isParam(call.Args[0]) {
					if s, ok := w.constStr(x.Y); ok {
						lit, isStr = s, true
					}
				}
				if isStr {
					eq := string(r) == lit
					if x.Op == token.NEQ {
						eq = !eq
					}
					return eq, nil
				}
				if isParam(x.X) {
					if c, ok := w.runeConst(x.Y); ok {
						eq := r == c
						if x.Op == token.NEQ {
							eq = !eq
						}
						return eq, nil
					}
				}
			}
		case *ast.CallExpr:
			if sel, ok := x.Fun.(*ast.SelectorExpr); ok {
				if fobj, ok := w.Info.Uses[sel.Sel].(*types.Func); ok && fobj.Pkg() != nil && fobj.Pkg().Path() == "unicode" {
					switch fobj.Name() {
					case "Is":
						if id, ok := x.Args[0].(*ast.Ident); ok && isParam(x.Args[1]) {
							if tv, ok := w.Info.Uses[id].(*types.Var); ok && tabs[tv] != nil {
								return unicode.Is(tabs[tv], r), nil
							}
						}
					case "IsDigit":
						return unicode.IsDigit(r), nil
					case "IsSpace":
						return unicode.IsSpace(r), nil
					case "IsLetter":
						return unicode.IsLetter(r), nil
					}
				}
			}
			if id, ok := x.Fun.(*ast.Ident); ok && len(x.Args) == 1 && isParam(x.Args[0]) {
				if fobj, ok := w.Info.Uses[id].(*types.Func); ok {
					return w.evalRunePred(fobj, r, tabs, depth+1)
				}
			}
		}
		return false, fmt.Errorf("unsupported expression in %s: %s", fn.Name(), types.ExprString(e))
	}
	return ev(rs.Results[0])
}

func sortedTexts(m map[string]int64) []string {
	var s []string
	for k := range m {
		s = append(s, k)
	}
	sort.Strings(s)
	return s
}

// scannerPosFields: the scanner's position (the int field the primitive
// consumer advances by adding to it), the size of the current character (the
// other int field it stores) and the text (the string field it reads).
func (w *World) scannerPosFields(g *Grammar) (posIdx, sizeIdx, textIdx int) {
	posIdx, sizeIdx, textIdx = -1, -1, -1
	sst := g.ScannerT.Underlying().(*types.Struct)
	eachInstr(g.NextChar, false, func(_ *ssa.Function, in ssa.Instruction) {
		switch x := in.(type) {
		case *ssa.Store:
			fa, ok := x.Addr.(*ssa.FieldAddr)
			if !ok || !isIntType(sst.Field(fa.Field).Type()) {
				return
			}
			if bt, ok := sst.Field(fa.Field).Type().Underlying().(*types.Basic); ok && bt.Kind() == types.Int32 {
				return // the current character
			}
			if bo, ok := x.Val.(*ssa.BinOp); ok && bo.Op == token.ADD {
				posIdx = fa.Field
			} else if posIdx != fa.Field {
				sizeIdx = fa.Field
			}
		case *ssa.UnOp:
			if fa, ok := x.X.(*ssa.FieldAddr); ok && x.Op == token.MUL {
				if bt, ok := sst.Field(fa.Field).Type().Underlying().(*types.Basic); ok && bt.Kind() == types.String {
					textIdx = fa.Field
				}
			}
		}
	})
	if sizeIdx == posIdx {
		sizeIdx = -1
	}
	return
}
