package main

// AST-level helpers: switch discovery, composite literals, constant strings.

import (
	"go/ast"
	"go/constant"
	"go/token"
	"go/types"
	"sort"
)

type caseInfo struct {
	Labels []string
	Clause *ast.CaseClause
	// query-type composite literals directly in this clause (not in nested
	// switch clauses of other tags)
	Lits []*ast.CompositeLit
}

type switchInfo struct {
	Func    *ast.FuncDecl
	Stmt    *ast.SwitchStmt
	Cases   []*caseInfo
	Default *ast.CaseClause
	TagStr  string
}

func (w *World) constStr(e ast.Expr) (string, bool) {
	tv, ok := w.Info.Types[e]
	if !ok || tv.Value == nil || tv.Value.Kind() != constant.String {
		return "", false
	}
	return constant.StringVal(tv.Value), true
}

func (w *World) constIntExpr(e ast.Expr) (int64, bool) {
	tv, ok := w.Info.Types[e]
	if !ok || tv.Value == nil || tv.Value.Kind() != constant.Int {
		return 0, false
	}
	return constant.Int64Val(tv.Value)
}

// stringSwitches returns every switch statement of the package whose case
// labels are string constants.
func (w *World) stringSwitches() []*switchInfo {
	var out []*switchInfo
	for _, f := range w.Pkg.Syntax {
		for _, d := range f.Decls {
			fd, ok := d.(*ast.FuncDecl)
			if !ok || fd.Body == nil {
				continue
			}
			ast.Inspect(fd.Body, func(n ast.Node) bool {
				sw, ok := n.(*ast.SwitchStmt)
				if !ok {
					return true
				}
				si := &switchInfo{Func: fd, Stmt: sw}
				if sw.Tag != nil {
					si.TagStr = types.ExprString(sw.Tag)
				}
				allStr := true
				for _, s := range sw.Body.List {
					cc := s.(*ast.CaseClause)
					if cc.List == nil {
						si.Default = cc
						continue
					}
					ci := &caseInfo{Clause: cc}
					for _, e := range cc.List {
						if s, ok := w.constStr(e); ok {
							ci.Labels = append(ci.Labels, s)
						} else {
							allStr = false
						}
					}
					si.Cases = append(si.Cases, ci)
				}
				if allStr && len(si.Cases) > 0 {
					out = append(out, si)
				}
				return true
			})
		}
	}
	return out
}

// queryLits returns the composite literals of query struct types in node n.
func (w *World) queryLits(n ast.Node) []*ast.CompositeLit {
	var out []*ast.CompositeLit
	ast.Inspect(n, func(x ast.Node) bool {
		cl, ok := x.(*ast.CompositeLit)
		if !ok {
			return true
		}
		if t := w.litNamed(cl); t != nil && w.census.ByType[t] != nil {
			out = append(out, cl)
		}
		return true
	})
	return out
}

func (w *World) litNamed(cl *ast.CompositeLit) *types.Named {
	tv, ok := w.Info.Types[cl]
	if !ok {
		return nil
	}
	n, _ := tv.Type.(*types.Named)
	return n
}

// axisSwitch: the string switch most of whose cases build query literals and
// that has at least 8 such cases — the axis dispatch of the builder.
func (w *World) axisSwitch() *switchInfo {
	var best *switchInfo
	bestN := 0
	for _, si := range w.stringSwitches() {
		n := 0
		for _, c := range si.Cases {
			c.Lits = w.queryLits(c.Clause)
			if len(c.Lits) > 0 {
				n++
			}
		}
		if n >= 8 && n > bestN {
			// the function-name switch also builds query literals in every
			// case; the axis switch is the one whose literals carry a
			// func(NodeNavigator) bool field (the node test)
			withPred := 0
			for _, c := range si.Cases {
				for _, l := range c.Lits {
					if w.litHasPredicateField(l) {
						withPred++
						break
					}
				}
			}
			if withPred >= 8 {
				best, bestN = si, n
			}
		}
	}
	return best
}

func (w *World) isPredicateFuncType(t types.Type) bool {
	sig, ok := t.Underlying().(*types.Signature)
	if !ok || sig.Params().Len() != 1 || sig.Results().Len() != 1 {
		return false
	}
	if !w.isNavType(sig.Params().At(0).Type()) {
		return false
	}
	b, ok := sig.Results().At(0).Type().Underlying().(*types.Basic)
	return ok && b.Kind() == types.Bool
}

func (w *World) litHasPredicateField(cl *ast.CompositeLit) bool {
	for _, e := range cl.Elts {
		kv, ok := e.(*ast.KeyValueExpr)
		if !ok {
			continue
		}
		if tv, ok := w.Info.Types[kv.Value]; ok && w.isPredicateFuncType(tv.Type) {
			return true
		}
	}
	return false
}

// axisVariants: axis label -> set of query type names built under that label.
func (w *World) axisVariants(r *Report) map[string]map[string]bool {
	out := map[string]map[string]bool{}
	tab, br, err := w.axisTable()
	if err != nil {
		if r != nil {
			r.bad("ANCHOR", "axis-switch", "", "the axis dispatch of the builder was not found: "+err.Error())
		}
		return out
	}
	for _, l := range br.Axes {
		out[l] = map[string]bool{}
	}
	for _, e := range tab {
		if isFoldType(tab, e.Label, e.Type) {
			continue // a step folded into another one (`//name`): judged by A-ELIDE
		}
		if out[e.Label] == nil {
			out[e.Label] = map[string]bool{}
		}
		out[e.Label][e.Type.Name()] = true
	}
	return out
}

func sortedKeys(m map[string]bool) []string {
	var s []string
	for k := range m {
		s = append(s, k)
	}
	sort.Strings(s)
	return s
}

func (w *World) funcDeclOf(name string) *ast.FuncDecl {
	for obj, fd := range w.Decls {
		if obj.FullName() == name || fd.Name.Name == name && fd.Recv == nil {
			return fd
		}
	}
	return nil
}

func kvField(kv *ast.KeyValueExpr) string {
	if id, ok := kv.Key.(*ast.Ident); ok {
		return id.Name
	}
	return ""
}

func litField(cl *ast.CompositeLit, name string) ast.Expr {
	for _, e := range cl.Elts {
		if kv, ok := e.(*ast.KeyValueExpr); ok && kvField(kv) == name {
			return kv.Value
		}
	}
	return nil
}

var _ = token.NoPos
