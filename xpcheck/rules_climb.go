package main

// N-CLIMB — the following and preceding axes climb to the root.
//
// following::/preceding:: of a node n are the subtrees of the later/earlier
// siblings of n and of every ancestor of n. The iterators of the query types
// built for these two axes walk sideways (MoveToNext / MoveToPrevious) and,
// when there is no further sibling, go up (MoveToParent) and try again. The
// only legitimate reason to stop is that going up fails (the root has been
// reached): a walk that gives up after a failed sideways move while going up
// was still possible loses the siblings of all higher ancestors.
//
// Rule: in the functions that make up the iterator of such a type (its Select,
// the closures it builds, helper methods on the same receiver and extracted
// walkers), for every sideways move of a cursor c whose failure edge leads to a
// MoveToParent of c (a "climb"), no failure return (nil navigator / false) is
// reachable from that failure edge except through the failure edge of a
// MoveToParent of c.

import (
	"fmt"
	"go/token"
	"go/types"

	"golang.org/x/tools/go/ssa"
)

// cursorKey identifies the variable a navigator call is made on.
func cursorKey(v ssa.Value) string {
	v = strip(v)
	if ld, ok := v.(*ssa.UnOp); ok && ld.Op == token.MUL {
		switch a := ld.X.(type) {
		case *ssa.FieldAddr:
			return fmt.Sprintf("field:%s.%d", cursorKey(a.X), a.Field)
		case *ssa.FreeVar:
			return "free:" + a.Name()
		case *ssa.Alloc:
			return fmt.Sprintf("alloc:%p", a)
		}
		return fmt.Sprintf("load:%p", ld.X)
	}
	if p, ok := v.(*ssa.Parameter); ok {
		return "param:" + p.Name()
	}
	return fmt.Sprintf("val:%p", v)
}

// cursorKeyOfAddr: the key cursorKey gives to a load from this address.
func cursorKeyOfAddr(addr ssa.Value) string {
	switch a := addr.(type) {
	case *ssa.FieldAddr:
		return fmt.Sprintf("field:%s.%d", cursorKey(a.X), a.Field)
	case *ssa.FreeVar:
		return "free:" + a.Name()
	case *ssa.Alloc:
		return fmt.Sprintf("alloc:%p", a)
	}
	return fmt.Sprintf("load:%p", addr)
}

// boolEdge: the If that tests the call's result and the successor index taken
// when the call returned false.
func falseEdgeOf(c *ssa.Call) (*ssa.BasicBlock, int, bool) {
	for _, u := range uses(c) {
		neg := false
		var cur ssa.Value = c
		for {
			if un, ok := u.(*ssa.UnOp); ok && un.Op == token.NOT {
				neg = !neg
				cur = un
				us := uses(un)
				if len(us) != 1 {
					return nil, 0, false
				}
				u = us[0]
				continue
			}
			break
		}
		if ifi, ok := u.(*ssa.If); ok && ifi.Cond == cur {
			idx := 1
			if neg {
				idx = 0
			}
			return ifi.Block(), idx, true
		}
	}
	return nil, 0, false
}

func isFailureReturn(w *World, b *ssa.BasicBlock) bool {
	if len(b.Instrs) == 0 {
		return false
	}
	ret, ok := b.Instrs[len(b.Instrs)-1].(*ssa.Return)
	if !ok || len(ret.Results) != 1 {
		return false
	}
	k, ok := strip(ret.Results[0]).(*ssa.Const)
	if !ok {
		return false
	}
	if k.Value == nil {
		return true // nil navigator
	}
	if b, ok := k.Type().Underlying().(*types.Basic); ok && b.Kind() == types.Bool {
		return k.Value.ExactString() == "false"
	}
	return false
}

func ruleNClimb(w *World, r *Report) {
	r.rule("N-CLIMB", "in the iterators of the query types built for the following and preceding axes: for every sideways move (MoveToNext/MoveToPrevious) of a cursor whose failure leads to a MoveToParent of the same cursor, a failure return (nil navigator / false) is reachable from the failed sideways move only through a failed MoveToParent of that cursor — the walk gives up only at the root")
	tab, _, err := w.axisTable()
	if err != nil {
		r.bad("ANCHOR", "N-CLIMB", "", "axis dispatch not found: "+err.Error())
		return
	}
	sel := w.selectMethod()
	seenT := map[*QType]bool{}
	n := 0
	for _, e := range tab {
		if e.Label != "following" && e.Label != "preceding" || seenT[e.Type] {
			continue
		}
		seenT[e.Type] = true
		sfn := e.Type.Methods[sel]
		if sfn == nil {
			continue
		}
		// the functions of this iterator
		var fns []*ssa.Function
		seen := map[*ssa.Function]bool{}
		var collect func(fn *ssa.Function)
		collect = func(fn *ssa.Function) {
			if fn == nil || seen[fn] || len(fn.Blocks) == 0 {
				return
			}
			seen[fn] = true
			fns = append(fns, fn)
			for _, b := range fn.Blocks {
				for _, in := range b.Instrs {
					switch x := in.(type) {
					case *ssa.MakeClosure:
						if cf, ok := x.Fn.(*ssa.Function); ok {
							collect(cf)
						}
					case ssa.CallInstruction:
						cc := x.Common()
						if callee := cc.StaticCallee(); callee != nil && w.inPkg(callee) && w.isIteratorHelper(callee, fn, cc) {
							collect(callee)
						}
					}
				}
			}
		}
		collect(sfn)
		for _, fn := range fns {
			// MoveToParent calls per cursor, with their failure edges
			type edge struct {
				b   *ssa.BasicBlock
				idx int
			}
			upFail := map[string][]edge{}
			upCalls := map[string][]*ssa.Call{}
			var side []*ssa.Call
			undecided := ""
			for _, b := range fn.Blocks {
				for _, in := range b.Instrs {
					c, ok := in.(*ssa.Call)
					if !ok {
						continue
					}
					recv, m, class, ok := w.isNavCall(c)
					if !ok || class != "move" {
						continue
					}
					switch m {
					case "MoveToParent":
						k := cursorKey(recv)
						upCalls[k] = append(upCalls[k], c)
						if bb, idx, ok := falseEdgeOf(c); ok {
							upFail[k] = append(upFail[k], edge{bb, idx})
						}
					case "MoveToNext", "MoveToPrevious":
						side = append(side, c)
					}
				}
			}
			for _, s := range side {
				k := cursorKey(s.Call.Value)
				if len(upCalls[k]) == 0 {
					continue // a sibling walk: no climbing
				}
				r.FuncsAnalysed[fnName(fn)] = true
				key := fmt.Sprintf("%s:%s:%s", e.Type.Name(), fnName(fn), s.Call.Method.Name())
				fb, fidx, ok := falseEdgeOf(s)
				if !ok {
					undecided = "the result of the sideways move is not tested directly"
					r.undec("N-CLIMB", key, w.instrPos(s), undecided)
					continue
				}
				// does the failure edge lead to a MoveToParent of the same cursor?
				blocked := map[edge]bool{}
				for _, e2 := range upFail[k] {
					blocked[e2] = true
				}
				start := fb.Succs[fidx]
				reach := map[*ssa.BasicBlock]bool{}
				var work []*ssa.BasicBlock
				reach[start] = true
				work = append(work, start)
				climbs := false
				var badRet *ssa.BasicBlock
				for len(work) > 0 {
					b := work[len(work)-1]
					work = work[:len(work)-1]
					for _, in := range b.Instrs {
						if c, ok := in.(*ssa.Call); ok {
							for _, u := range upCalls[k] {
								if u == c {
									climbs = true
								}
							}
						}
					}
					if isFailureReturn(w, b) && badRet == nil {
						badRet = b
					}
					for i, sc := range b.Succs {
						if blocked[edge{b, i}] || reach[sc] {
							continue
						}
						reach[sc] = true
						work = append(work, sc)
					}
				}
				if !climbs {
					continue // this sideways move is not part of a climb
				}
				n++
				if badRet != nil {
					r.bad("N-CLIMB", key, w.instrPos(s), fmt.Sprintf("after a failed %s the walk can give up (return at %s) although going up did not fail: the siblings of higher ancestors are never visited (the %s axis is truncated for a node that is the last child of a last child)", s.Call.Method.Name(), w.instrPos(badRet.Instrs[len(badRet.Instrs)-1]), e.Label))
				} else {
					r.ok("N-CLIMB", key, w.instrPos(s), "gives up only when MoveToParent fails (the root)")
				}
			}
		}
	}
	if n == 0 {
		r.undec("N-CLIMB", "sites", "", "no climbing walk found in the iterators of the following/preceding axes")
	}
}

// ---------- N-ATTR ----------

// ruleNAttr: an attribute node has no attributes. MoveToNextAttribute on a
// cursor that already stands on an attribute continues with the *next
// attribute of the same element* (that is how a navigator enumerates them), so
// an attribute-axis iterator started on an attribute node would hand out the
// sibling attributes. The iterator of the type built for the attribute axis
// must therefore look at the node type of its input node before it starts:
// the place where the walk is set up is dominated by one arm of a comparison
// of the input node's NodeType() with a node-type constant.
func ruleNAttr(w *World, r *Report) {
	r.rule("N-ATTR", "the iterator built for the attribute axis starts its MoveToNextAttribute walk only under a test of the input node's NodeType(): started on an attribute node the walk would enumerate the sibling attributes (an attribute has no attributes)")
	tab, _, err := w.axisTable()
	if err != nil {
		r.bad("ANCHOR", "N-ATTR", "", "axis dispatch not found: "+err.Error())
		return
	}
	sel := w.selectMethod()
	seenT := map[*QType]bool{}
	n := 0
	for _, e := range tab {
		if e.Label != "attribute" || seenT[e.Type] {
			continue
		}
		seenT[e.Type] = true
		sfn := e.Type.Methods[sel]
		if sfn == nil {
			continue
		}
		n++
		r.FuncsAnalysed[fnName(sfn)] = true
		key := e.Type.Name()
		// where the walk is set up: the closure that moves, or the first move itself
		var setup []ssa.Instruction
		eachInstr(sfn, false, func(_ *ssa.Function, in ssa.Instruction) {
			switch x := in.(type) {
			case *ssa.MakeClosure:
				if cf, ok := x.Fn.(*ssa.Function); ok && w.movesOf(cf, "", false, map[*ssa.Function]bool{})["MoveToNextAttribute"] {
					setup = append(setup, in)
				}
			case ssa.CallInstruction:
				if _, m, _, ok := w.isNavCall(x); ok && m == "MoveToNextAttribute" {
					setup = append(setup, in)
				}
				if callee := x.Common().StaticCallee(); callee != nil && w.inPkg(callee) && w.isIteratorHelper(callee, sfn, x.Common()) && w.movesOf(callee, "", false, map[*ssa.Function]bool{})["MoveToNextAttribute"] {
					setup = append(setup, in)
				}
			}
		})
		if len(setup) == 0 {
			r.undec("N-ATTR", key, w.pos(sfn.Pos()), "the place where the attribute walk is set up was not found")
			continue
		}
		guarded := func(at ssa.Instruction) bool {
			for _, b := range sfn.Blocks {
				ifi := blockIf(b)
				if ifi == nil {
					continue
				}
				cmp, _ := decodeCond(ifi.Cond)
				if cmp == nil {
					continue
				}
				isTypeRead := func(v ssa.Value) bool {
					c, ok := strip(v).(*ssa.Call)
					if !ok {
						return false
					}
					_, m, _, ok := w.isNavCall(c)
					return ok && m == "NodeType"
				}
				if !(isTypeRead(cmp.X) || isTypeRead(cmp.Y)) {
					continue
				}
				for _, s := range b.Succs {
					if len(s.Preds) == 1 && (s == at.Block() || s.Dominates(at.Block())) {
						return true
					}
				}
			}
			return false
		}
		okAll := true
		for _, at := range setup {
			if !guarded(at) {
				okAll = false
				r.bad("N-ATTR", key, w.instrPos(at), e.Type.Name()+" starts its MoveToNextAttribute walk without looking at the node type of the input node: from an attribute node the walk continues with the following attributes of the same element, so @a/@* selects sibling attributes (an attribute has no attributes)")
				break
			}
		}
		if okAll {
			r.ok("N-ATTR", key, w.pos(sfn.Pos()), "the attribute walk is set up under a test of the input node's type")
		}
	}
	if n == 0 {
		r.undec("N-ATTR", "sites", "", "no query type built for the attribute axis found")
	}
}
