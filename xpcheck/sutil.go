package main

// SSA helpers: closure cells, value roots, receiver recognition, dominance and
// small must-pass data-flow utilities.

import (
	"go/constant"
	"go/token"
	"go/types"

	"golang.org/x/tools/go/ssa"
)

// bindingOf maps a free variable of closure fn to the value bound to it at the
// MakeClosure site in the parent (an *ssa.Alloc of the parent or a FreeVar of
// the parent). Returns nil when the MakeClosure cannot be found.
func bindingOf(fv *ssa.FreeVar) ssa.Value {
	fn := fv.Parent()
	p := fn.Parent()
	if p == nil {
		return nil
	}
	idx := -1
	for i, v := range fn.FreeVars {
		if v == fv {
			idx = i
		}
	}
	if idx < 0 {
		return nil
	}
	for _, b := range p.Blocks {
		for _, in := range b.Instrs {
			if mc, ok := in.(*ssa.MakeClosure); ok && mc.Fn == fn {
				return mc.Bindings[idx]
			}
		}
	}
	return nil
}

// cellOf resolves an address value to the Alloc that is the variable's cell,
// following free-variable bindings up through enclosing functions.
func cellOf(v ssa.Value) *ssa.Alloc {
	for i := 0; i < 8; i++ {
		switch x := v.(type) {
		case *ssa.Alloc:
			return x
		case *ssa.FreeVar:
			v = bindingOf(x)
			if v == nil {
				return nil
			}
		default:
			return nil
		}
	}
	return nil
}

// cellStores returns every value stored directly into the cell (in the
// allocating function and in every nested closure that captures it).
func cellStores(a *ssa.Alloc) []*ssa.Store {
	var out []*ssa.Store
	for _, fn := range closuresOf(a.Parent()) {
		for _, b := range fn.Blocks {
			for _, in := range b.Instrs {
				if st, ok := in.(*ssa.Store); ok {
					if cellOf(st.Addr) == a {
						out = append(out, st)
					}
				}
			}
		}
	}
	return out
}

// cellEscapes reports whether the cell's address is used other than as the
// address operand of loads/stores and as a closure binding.
func cellEscapes(a *ssa.Alloc) bool {
	var check func(v ssa.Value) bool
	check = func(v ssa.Value) bool {
		refs := v.Referrers()
		if refs == nil {
			return false
		}
		for _, r := range *refs {
			switch x := r.(type) {
			case *ssa.Store:
				if x.Val == v {
					return true
				}
			case *ssa.UnOp:
				if x.Op != token.MUL {
					return true
				}
			case *ssa.MakeClosure:
				for i, b := range x.Bindings {
					if b == v {
						if fn, ok := x.Fn.(*ssa.Function); ok && i < len(fn.FreeVars) {
							if check(fn.FreeVars[i]) {
								return true
							}
						}
					}
				}
			case *ssa.DebugRef:
			default:
				return true
			}
		}
		return false
	}
	return check(a)
}

// strip removes value-preserving wrappers.
func strip(v ssa.Value) ssa.Value {
	for {
		switch x := v.(type) {
		case *ssa.ChangeType:
			v = x.X
		case *ssa.ChangeInterface:
			v = x.X
		default:
			return v
		}
	}
}

// loadOfCell: if v is a load (*addr) of a captured/local variable cell whose
// only store is a single value, return that value (recursively resolved).
// This sees through the "t0 = new T (x); *t0 = x; ... *t0" pattern go/ssa uses
// for every captured variable.
func resolve(v ssa.Value) ssa.Value {
	for i := 0; i < 16; i++ {
		v = strip(v)
		u, ok := v.(*ssa.UnOp)
		if !ok || u.Op != token.MUL {
			return v
		}
		a := cellOf(u.X)
		if a == nil || cellEscapes(a) {
			return v
		}
		sts := cellStores(a)
		if len(sts) != 1 {
			return v
		}
		v = sts[0].Val
	}
	return v
}

// cellValues returns all values that may be stored in the cell that v loads
// from, or nil when v is not a load of a non-escaping cell.
func cellValues(v ssa.Value) (vals []ssa.Value, cell *ssa.Alloc) {
	v = strip(v)
	u, ok := v.(*ssa.UnOp)
	if !ok || u.Op != token.MUL {
		return nil, nil
	}
	a := cellOf(u.X)
	if a == nil || cellEscapes(a) {
		return nil, nil
	}
	for _, st := range cellStores(a) {
		vals = append(vals, st.Val)
	}
	return vals, a
}

// recvOf returns the receiver parameter of the method that (transitively)
// encloses fn, or nil.
func recvOf(fn *ssa.Function) *ssa.Parameter {
	r := rootFn(fn)
	if r.Signature.Recv() == nil || len(r.Params) == 0 {
		return nil
	}
	return r.Params[0]
}

// isRecv reports whether v denotes the receiver of the enclosing method (also
// inside closures, where the receiver is reached through a cell).
func isRecv(v ssa.Value) bool {
	v = resolve(v)
	p, ok := v.(*ssa.Parameter)
	if !ok {
		return false
	}
	return p == recvOf(p.Parent())
}

// recvField: v is a load of field f of the receiver => (f, true).
func recvFieldLoad(v ssa.Value) (*types.Var, bool) {
	v = strip(v)
	u, ok := v.(*ssa.UnOp)
	if !ok || u.Op != token.MUL {
		// value receivers: Field instruction
		if f, ok := v.(*ssa.Field); ok && isRecv(f.X) {
			st := f.X.Type().Underlying().(*types.Struct)
			return st.Field(f.Field), true
		}
		return nil, false
	}
	return recvFieldAddr(u.X)
}

func recvFieldAddr(v ssa.Value) (*types.Var, bool) {
	fa, ok := v.(*ssa.FieldAddr)
	if !ok {
		return nil, false
	}
	if !isRecv(fa.X) {
		return nil, false
	}
	return fieldOfAddr(fa), true
}

func fieldOfAddr(fa *ssa.FieldAddr) *types.Var {
	pt := fa.X.Type().Underlying().(*types.Pointer)
	st := pt.Elem().Underlying().(*types.Struct)
	return st.Field(fa.Field)
}

// structOfAddr returns the named struct type the FieldAddr selects from.
func structOfAddr(fa *ssa.FieldAddr) *types.Named {
	pt, ok := fa.X.Type().Underlying().(*types.Pointer)
	if !ok {
		return nil
	}
	n, _ := pt.Elem().(*types.Named)
	return n
}

func isNilConst(v ssa.Value) bool {
	c, ok := v.(*ssa.Const)
	return ok && c.Value == nil
}

func isZeroConst(v ssa.Value) bool {
	c, ok := v.(*ssa.Const)
	if !ok {
		return false
	}
	if c.Value == nil {
		return true
	}
	switch c.Value.Kind() {
	case constant.Int, constant.Float:
		return constant.Sign(c.Value) == 0
	case constant.Bool:
		return !constant.BoolVal(c.Value)
	case constant.String:
		return constant.StringVal(c.Value) == ""
	}
	return false
}

func constString(v ssa.Value) (string, bool) {
	c, ok := v.(*ssa.Const)
	if !ok || c.Value == nil || c.Value.Kind() != constant.String {
		return "", false
	}
	return constant.StringVal(c.Value), true
}

func constInt(v ssa.Value) (int64, bool) {
	c, ok := v.(*ssa.Const)
	if !ok || c.Value == nil || c.Value.Kind() != constant.Int {
		return 0, false
	}
	i, ok := constant.Int64Val(c.Value)
	return i, ok
}

// calleeName returns the method name for invoke-mode calls and the function
// for static calls.
func callInfo(c ssa.CallInstruction) (static *ssa.Function, invokeRecv ssa.Value, method string) {
	cc := c.Common()
	if cc.IsInvoke() {
		return nil, cc.Value, cc.Method.Name()
	}
	if f := cc.StaticCallee(); f != nil {
		return f, nil, f.Name()
	}
	return nil, nil, ""
}

// ---- dominance helpers ----

func dominates(a, b *ssa.BasicBlock) bool { return a.Dominates(b) }

// instrIndex returns index of in within its block.
func instrIndex(in ssa.Instruction) int {
	for i, x := range in.Block().Instrs {
		if x == in {
			return i
		}
	}
	return -1
}

// instrDominates: a executes before b on every path reaching b.
func instrDominates(a, b ssa.Instruction) bool {
	if a.Block() == b.Block() {
		return instrIndex(a) < instrIndex(b)
	}
	return a.Block().Dominates(b.Block())
}

// mustPass reports whether every path from the entry of fn to any Return
// passes an instruction for which hit() is true. Panicking exits are ignored.
func mustPass(fn *ssa.Function, hit func(ssa.Instruction) bool) (ok bool, offending *ssa.BasicBlock) {
	if len(fn.Blocks) == 0 {
		return false, nil
	}
	// forward data-flow: in[b] = AND over preds out[p]; out[b] = in[b] || hits(b)
	n := len(fn.Blocks)
	hits := make([]bool, n)
	for i, b := range fn.Blocks {
		for _, in := range b.Instrs {
			if hit(in) {
				hits[i] = true
				break
			}
		}
	}
	out := make([]bool, n)
	for i := range out {
		out[i] = true
	}
	out[0] = hits[0]
	changed := true
	for changed {
		changed = false
		for i, b := range fn.Blocks {
			in := true
			if i == 0 {
				in = false
			} else {
				if len(b.Preds) == 0 {
					continue // unreachable
				}
				for _, p := range b.Preds {
					in = in && out[p.Index]
				}
			}
			o := in || hits[i]
			if o != out[i] {
				out[i] = o
				changed = true
			}
		}
	}
	for i, b := range fn.Blocks {
		if len(b.Instrs) == 0 {
			continue
		}
		if _, isRet := b.Instrs[len(b.Instrs)-1].(*ssa.Return); isRet {
			if i != 0 && len(b.Preds) == 0 {
				continue // unreachable or the recover block
			}
			if !out[i] {
				// is hit before the return in this block? out covers whole block
				return false, b
			}
		}
	}
	return true, nil
}

// reachableBlocks from start following succs, optionally skipping an edge.
func reachableFrom(start *ssa.BasicBlock, skip func(from, to *ssa.BasicBlock) bool) map[*ssa.BasicBlock]bool {
	seen := map[*ssa.BasicBlock]bool{start: true}
	work := []*ssa.BasicBlock{start}
	for len(work) > 0 {
		b := work[len(work)-1]
		work = work[:len(work)-1]
		for _, s := range b.Succs {
			if skip != nil && skip(b, s) {
				continue
			}
			if !seen[s] {
				seen[s] = true
				work = append(work, s)
			}
		}
	}
	return seen
}

// domPruned computes dominators on the CFG with some edges removed; returns
// dom[b] = set of blocks dominating b (including b). Only for small functions.
func domPruned(fn *ssa.Function, skip func(from, to *ssa.BasicBlock) bool) map[*ssa.BasicBlock]map[*ssa.BasicBlock]bool {
	reach := reachableFrom(fn.Blocks[0], skip)
	dom := map[*ssa.BasicBlock]map[*ssa.BasicBlock]bool{}
	all := map[*ssa.BasicBlock]bool{}
	for b := range reach {
		all[b] = true
	}
	for b := range reach {
		if b == fn.Blocks[0] {
			dom[b] = map[*ssa.BasicBlock]bool{b: true}
		} else {
			m := map[*ssa.BasicBlock]bool{}
			for k := range all {
				m[k] = true
			}
			dom[b] = m
		}
	}
	changed := true
	for changed {
		changed = false
		for _, b := range fn.Blocks {
			if !reach[b] || b == fn.Blocks[0] {
				continue
			}
			var inter map[*ssa.BasicBlock]bool
			for _, p := range b.Preds {
				if !reach[p] || (skip != nil && skip(p, b)) {
					continue
				}
				if inter == nil {
					inter = map[*ssa.BasicBlock]bool{}
					for k := range dom[p] {
						inter[k] = true
					}
				} else {
					for k := range inter {
						if !dom[p][k] {
							delete(inter, k)
						}
					}
				}
			}
			if inter == nil {
				inter = map[*ssa.BasicBlock]bool{}
			}
			inter[b] = true
			if len(inter) != len(dom[b]) {
				dom[b] = inter
				changed = true
			}
		}
	}
	return dom
}

// ifCond returns the If terminating block b, or nil.
func blockIf(b *ssa.BasicBlock) *ssa.If {
	if len(b.Instrs) == 0 {
		return nil
	}
	i, _ := b.Instrs[len(b.Instrs)-1].(*ssa.If)
	return i
}

// condEdge: for block b ending in `if x OP y`, report for a successor index
// (0=true,1=false) ...
type cmpCond struct {
	Op   token.Token
	X, Y ssa.Value
	Neg  bool
}

// decodeCond strips negations: returns the comparison and whether the true
// successor corresponds to the comparison being false.
func decodeCond(v ssa.Value) (*ssa.BinOp, bool) {
	neg := false
	for {
		switch x := v.(type) {
		case *ssa.UnOp:
			if x.Op == token.NOT {
				neg = !neg
				v = x.X
				continue
			}
			return nil, false
		case *ssa.BinOp:
			return x, neg
		default:
			return nil, false
		}
	}
}

// allInstrs iterates instructions of fn and optionally its closures.
func eachInstr(fn *ssa.Function, withClosures bool, f func(*ssa.Function, ssa.Instruction)) {
	fns := []*ssa.Function{fn}
	if withClosures {
		fns = closuresOf(fn)
	}
	for _, g := range fns {
		for _, b := range g.Blocks {
			for _, in := range b.Instrs {
				f(g, in)
			}
		}
	}
}

// valueUses returns instructions using v (referrers), never nil-deref.
func uses(v ssa.Value) []ssa.Instruction {
	r := v.Referrers()
	if r == nil {
		return nil
	}
	return *r
}

func typeName(t types.Type) string {
	if t == nil {
		return "?"
	}
	if p, ok := t.(*types.Pointer); ok {
		t = p.Elem()
	}
	if n, ok := t.(*types.Named); ok {
		return n.Obj().Name()
	}
	return t.String()
}

// addrRoots returns the root values an address or aggregate value is derived
// from, following field/index selections, loads through pointers, variable
// cells (all stored values) and phis.
func addrRoots(v ssa.Value) []ssa.Value {
	var out []ssa.Value
	seen := map[ssa.Value]bool{}
	var walk func(v ssa.Value, depth int)
	walk = func(v ssa.Value, depth int) {
		if v == nil || seen[v] || depth > 24 {
			return
		}
		seen[v] = true
		switch x := v.(type) {
		case *ssa.FieldAddr:
			walk(x.X, depth+1)
		case *ssa.IndexAddr:
			walk(x.X, depth+1)
		case *ssa.Field:
			walk(x.X, depth+1)
		case *ssa.Index:
			walk(x.X, depth+1)
		case *ssa.Lookup:
			walk(x.X, depth+1)
		case *ssa.Slice:
			walk(x.X, depth+1)
		case *ssa.ChangeType:
			walk(x.X, depth+1)
		case *ssa.ChangeInterface:
			walk(x.X, depth+1)
		case *ssa.Convert:
			// string -> []byte / []rune makes a fresh copy
			if b, ok := x.X.Type().Underlying().(*types.Basic); ok && b.Info()&types.IsString != 0 {
				if _, ok := x.Type().Underlying().(*types.Slice); ok {
					out = append(out, v)
					return
				}
			}
			walk(x.X, depth+1)
		case *ssa.Call:
			// append(s, ...): the result's backing array is s's or a fresh one
			if b, ok := x.Call.Value.(*ssa.Builtin); ok && b.Name() == "append" && len(x.Call.Args) > 0 {
				walk(x.Call.Args[0], depth+1)
				return
			}
			out = append(out, v)
		case *ssa.TypeAssert:
			walk(x.X, depth+1)
		case *ssa.Extract:
			walk(x.Tuple, depth+1)
		case *ssa.MakeInterface:
			walk(x.X, depth+1)
		case *ssa.Phi:
			for _, e := range x.Edges {
				walk(e, depth+1)
			}
		case *ssa.UnOp:
			if x.Op == token.MUL {
				if a := cellOf(x.X); a != nil && !cellEscapes(a) {
					sts := cellStores(a)
					if len(sts) == 0 {
						out = append(out, a)
					}
					before := len(out)
					for _, st := range sts {
						walk(st.Val, depth+1)
					}
					if len(sts) > 0 && len(out) == before {
						// only self-referential stores (x = append(x, ...)): the variable itself is the root
						out = append(out, a)
					}
					return
				}
				walk(x.X, depth+1)
				return
			}
			out = append(out, v)
		default:
			out = append(out, v)
		}
	}
	walk(v, 0)
	return out
}

// retVal returns the i-th result of a return instruction, seeing through the
// result spilling go/ssa performs in functions with defers (`*r = v;
// rundefers; return *r`).
func retVal(ret *ssa.Return, i int) ssa.Value {
	v := ret.Results[i]
	ld, ok := v.(*ssa.UnOp)
	if !ok || ld.Op != token.MUL {
		return v
	}
	a, ok := ld.X.(*ssa.Alloc)
	if !ok {
		return v
	}
	// last store to a in the same block before the load
	var last ssa.Value
	for _, in := range ret.Block().Instrs {
		if in == ssa.Instruction(ld) {
			break
		}
		if st, ok := in.(*ssa.Store); ok && st.Addr == ssa.Value(a) {
			last = st.Val
		}
	}
	if last != nil {
		return last
	}
	return v
}

// normalReturn: the Return terminating b, unless b is the function's recover
// block (whose return only reloads the named results).
func normalReturn(b *ssa.BasicBlock) (*ssa.Return, bool) {
	if len(b.Instrs) == 0 || b == b.Parent().Recover {
		return nil, false
	}
	r, ok := b.Instrs[len(b.Instrs)-1].(*ssa.Return)
	return r, ok
}
